#!/usr/bin/env python3
"""Regenerates MANIFEST.json from tools/manifest_src.py (kept valid at all times)."""
import json, os, sys
HERE = os.path.dirname(os.path.dirname(os.path.abspath(__file__)))
sys.path.insert(0, os.path.join(HERE, 'tools'))
import manifest_src as S
props = [json.loads(l)['id'] for l in open(os.path.join(HERE, 'properties.jsonl'))]
checks = []
for pid in props:
    if pid in S.CHECKS:
        c = S.CHECKS[pid]
        checks.append({
            'property_id': pid,
            'quick_cmd': './check %s --tier quick' % pid,
            'thorough_cmd': './check %s --tier thorough' % pid,
            'evidence_file': 'evidence/%s.json' % pid,
            'replay_cmd_template': './check %s --replay {path}' % pid,
            'engine': 'coq-proof+correspondence',
            'level_claimed': {'category': 'proof', 'text': c['text'], 'design_ref': c['design_ref']},
            'level_note': c['note'],
            'technique': c['technique'],
        })
na = [{'property_id': p, 'reason': S.NOT_APPLICABLE.get(p, S.DEFAULT_NA)} for p in props if p not in S.CHECKS]
m = {
    'version': 1,
    'setup_cmd': './check --setup',
    'hooks': {'guard': 'BITCOINLIB_VERIF', 'enable': 'no source hooks: the harness monkey-patches from outside; BITCOINLIB_VERIF=1 is set in harness subprocesses but nothing in /repo reads it',
              'baseline_off_cmd': 'cd /repo && /venv/bin/python -m pytest -ra -q -p no:cacheprovider --timeout=900 --continue-on-collection-errors',
              'source_commits': [], 'add_only': True},
    'engines': [{'name': 'coq-proof+correspondence', 'path': 'coq/ ocaml/ harness/ translator/',
                 'serves_properties': sorted(S.CHECKS), 'kind_free_text': 'Coq 8.16.1 theorems over Gallina models (coq/Model, coq/Properties) + tables regenerated from /repo (translator/) + differential correspondence of the extracted model against the public API (harness/)'}],
    'checks': checks,
    'notes': S.NOTES,
    'not_applicable': na,
}
json.dump(m, open(os.path.join(HERE, 'MANIFEST.json'), 'w'), indent=1)
print('checks:', len(checks), 'not claimed:', len(na))
