#!/usr/bin/env python3
"""tools/apply_fix.py <fix-basename>... : apply fixes/<name>.diff to /repo and commit it with fixes/<name>.msg
(one commit per fix).  Run tools/run_suite.py afterwards (or --test to run it after each)."""
import os, subprocess, sys
test = '--test' in sys.argv
names = [a for a in sys.argv[1:] if not a.startswith('--')]
for n in names:
    d = '/verif/fixes/%s.diff' % n
    m = '/verif/fixes/%s.msg' % n
    assert os.path.exists(d), d
    msg = open(m).read().strip() if os.path.exists(m) else None
    assert msg and msg.startswith('fix:'), 'missing/invalid message for ' + n
    r = subprocess.run(['git', '-C', '/repo', 'apply', '--3way', d], capture_output=True, text=True)
    if r.returncode != 0:
        print('APPLY FAILED', n, r.stderr[-800:]); sys.exit(1)
    subprocess.run(['git', '-C', '/repo', 'add', '-A', 'bitcoinlib'], check=True)
    subprocess.run(['git', '-C', '/repo', 'commit', '-q', '-m', msg], check=True)
    h = subprocess.run(['git', '-C', '/repo', 'rev-parse', '--short', 'HEAD'], capture_output=True, text=True).stdout.strip()
    print('committed', n, h)
    if test:
        r = subprocess.run(['python3', '/verif/tools/run_suite.py'], capture_output=True, text=True)
        print(r.stdout[-300:])
        if r.returncode != 0:
            print('SUITE FAILED after', n); sys.exit(1)
