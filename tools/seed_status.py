#!/usr/bin/env python3
"""tools/seed_status.py : one line per /verif/seeded/<id> (detected / missed, with failing input or not)."""
import json, os
root = '/verif/seeded'
rows = []
for sid in sorted(os.listdir(root)):
    p = os.path.join(root, sid, 'meta.json')
    if not os.path.exists(p):
        continue
    m = json.load(open(p)); c = m.get('confirmed', {})
    rows.append((sid, 'detected' if c.get('detected') else 'MISSED',
                 'input' if c.get('check', {}).get('with_failing_input') else '-',
                 'demo=%s suite=%s' % (c.get('demo_confirms'), c.get('suite', {}).get('ok')), (m.get('summary') or '')[:110]))
for r in rows:
    print('%-6s %-8s %-5s %-24s %s' % r)
print('total %d detected %d' % (len(rows), sum(1 for r in rows if r[1] == 'detected')))
