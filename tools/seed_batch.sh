#!/bin/bash
# tools/seed_batch.sh <parallel> <id>...   evaluate /tmp/mut/out/<id> with seed_eval.py, <parallel> at a time
par=$1; shift
mkdir -p /tmp/logs/seed
printf '%s\n' "$@" | xargs -P "$par" -I{} bash -c 'python3 /verif/tools/seed_eval.py /tmp/mut/out/{} {} > /tmp/logs/seed/{}.log 2>&1; tail -1 /tmp/logs/seed/{}.log'
