#!/usr/bin/env python3
"""tools/merge_known.py Cxx : merge fixes/Cxx-known.json into known_findings.json (replace by (property,id));
fill `commit` of fixed entries with the real /repo hash of the fix commit; add a `fixed` entry for every applied
fixes/Cxx-*.diff that has no entry yet."""
import glob, json, os, re, subprocess, sys
pid = sys.argv[1]
kf = json.load(open('/verif/known_findings.json'))
path = '/verif/fixes/%s-known.json' % pid
new = []
if os.path.exists(path):
    new = json.load(open(path))
    new = new['findings'] if isinstance(new, dict) else new
log = subprocess.run(['git', '-C', '/repo', 'log', '--format=%h %s'], capture_output=True, text=True).stdout.strip().split('\n')
subj2hash = {l.split(' ', 1)[1]: l.split(' ', 1)[0] for l in log}
fixhash = {}
for m in glob.glob('/verif/fixes/%s-*.msg' % pid):
    subj = open(m).read().strip().split('\n')[0]
    if subj in subj2hash:
        fixhash[os.path.basename(m)[:-4]] = (subj2hash[subj], subj)
used = set()
for e in new:
    if e.get('status') == 'fixed':
        c = str(e.get('commit') or '')
        for name, (h, subj) in fixhash.items():
            short = re.match(r'(C\d+-\d+)', name).group(1)
            if name in c or re.search(r'\b%s\b' % re.escape(short), c):
                e['commit'] = h
                e['fix_patch'] = 'fixes/%s.diff' % name
                used.add(name)
for name, (h, subj) in sorted(fixhash.items()):
    if name not in used:
        slug = re.sub(r'^%s-\d+-' % pid, '', name).replace('-', '_')
        new.append({'property': pid, 'id': slug, 'status': 'fixed', 'commit': h, 'fix_patch': 'fixes/%s.diff' % name,
                    'what_fails': subj[len('fix:'):].strip() + ' (see the commit message for the failing input)'})
ids = {(e['property'], e['id']) for e in new}
kf['findings'] = [e for e in kf['findings'] if (e['property'], e['id']) not in ids] + new
json.dump(kf, open('/verif/known_findings.json', 'w'), indent=1, ensure_ascii=False)
print('merged', len(new), 'entries for', pid, '; fix commits:', {k: v[0] for k, v in fixhash.items()})
