#!/bin/bash
# tools/run_all.sh [tier] [props...] : run the registered checks one after another, one summary line each
cd /verif
tier=${1:-quick}; shift
props=${@:-$(python3 -c "import json;print(' '.join(c['property_id'] for c in json.load(open('MANIFEST.json'))['checks']))")}
for p in $props; do
  out=$(./check $p --tier $tier 2>&1); rc=$?
  echo "$p rc=$rc $(echo "$out" | grep -c '^VIOLATION') viol | $(echo "$out" | tail -1)"
  echo "$out" | grep '^VIOLATION' | head -3
done
