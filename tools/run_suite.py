#!/usr/bin/env python3
"""Run the repository's pinned baseline suite (guard off) and compare with /root/.vp/BASELINE.json.
Usage: tools/run_suite.py [junit-out]   exit 0 iff every stable_pass test passed."""
import json, subprocess, sys, os, xml.etree.ElementTree as ET, tempfile
base = json.load(open('/root/.vp/BASELINE.json'))
out = sys.argv[1] if len(sys.argv) > 1 else tempfile.mktemp(suffix='.xml', dir='/verif/run')
os.makedirs(os.path.dirname(out), exist_ok=True)
cmd = base['cmd'].replace('<file>', out)
env = dict(os.environ); env.pop('BITCOINLIB_VERIF', None)
p = subprocess.run(cmd, shell=True, env=env, stdout=subprocess.PIPE, stderr=subprocess.STDOUT, text=True)
print(p.stdout[-1500:])
passed = set()
for tc in ET.parse(out).getroot().iter('testcase'):
    if not any(c.tag in ('failure', 'error', 'skipped') for c in tc):
        passed.add('%s::%s' % (tc.get('classname'), tc.get('name')))
missing = [t for t in base['stable_pass'] if t not in passed]
print('stable_pass=%d passed_now=%d missing=%d' % (len(base['stable_pass']), len(passed), len(missing)))
for m in missing: print('  MISSING', m)
sys.exit(1 if missing else 0)
