DEFAULT_NA = 'not yet claimed: the model/theorem/correspondence for this property has not reached the minimum content of DESIGN.md 8.3 (work in progress, the technique applies)'
NOT_APPLICABLE = {}
NOTES = ('Every check = (1) re-check of the Coq theorems in coq/Properties/<id>.v with Print Assumptions, (2) tables regenerated '
         'from /repo, (3) differential correspondence of the extracted model vs the public API, (4) replay of known findings. '
         'See DESIGN.md. fix: commits in /repo are listed in known_findings.json.')
CHECKS = {
 'C18': dict(
   text='Theorems (all n in [0,2^64), all integers z, all data lengths, all command lists of any length) about the Gallina model of '
        'int_to_varbyteint/varbyteint_to_int/encode_num/decode_num/data_pack/Script.serialize/Script.parse: round trip, equality with '
        'the Bitcoin Core forms, minimality, prefix-freeness; the model is tied to the code by differential execution of every modelled '
        'function (boundary-exhaustive + random) on each run.',
   design_ref='DESIGN.md section 6, C18',
   note='Trusted: Coq kernel, extraction (ExtrOcamlBasic, ExtrOcamlZBigInt), OCaml driver, Python harness. Closed under the global '
        'context (no axioms). Script.parse round trip is proved under the guard inert/no whole-script heuristic; the excluded classes are '
        'known findings with refutation witnesses. Signature/Key acceptance inside Script.parse are oracles.',
   technique='Coq proof (induction, lia) over a hand-written Gallina model + extracted-model differential correspondence'),
 'C11': dict(
   text='Theorems (all byte strings, all alphabet strings, arbitrary hash function) about the Gallina model of base58encode / change_base(58,256) / '
        'addr_base58_to_pubkeyhash / deserialize_address / bech32 polymod, checksum creation and constant selection: Base58 is a bijection between '
        'payloads and alphabet strings, an accepted Base58Check address is exactly the canonical encoding of a 21-byte body with a correct checksum '
        'and a version byte of the regenerated network table, the Bech32 checksum the encoder appends always verifies and the wrong constant never does. '
        '_bech32_polymod and convertbits are re-translated from the source on every run and proved equal to the model (Glue/Bech32Glue.v). '
        'Tie: differential correspondence on valid strings of every kind and every single-character edit of sampled strings.',
   design_ref='DESIGN.md section 6 C11, section 9',
   note='Closed under the global context. Not proved: convertbits 8->5->8 round trip and hence the composed bech32 decode(encode) identity, single-error '
        'detection table; WIF / extended-key / BIP38 acceptance paths are checked by the independent oracle only (rejection of every corrupted '
        'Base58Check string is probabilistic and is not a theorem). Trusted: Coq kernel, extraction, OCaml driver, harness.',
   technique='Coq proof over hand-written + source-translated Gallina model; extracted-model differential correspondence'),
 'C19': dict(
   text='Two interpreters in Gallina: lib_eval mirrors Script.evaluate / class Stack opcode by opcode (dispatch through the regenerated opcode and '
        'method tables), core_eval transcribes Bitcoin Core EvalScript. 41 per-opcode agreement theorems (all stacks, oracles, flags), '
        'agree_straightline for all programs over the agreeing opcode set, decode_num = CScriptNum::set_vch, and vm_compute refutation witnesses for '
        'every deviating opcode (known findings). Tie: exhaustive opcode x small-stack correspondence of lib_eval against the real evaluate, plus random '
        'programs with nested conditionals; an independent Python EvalScript is the property-level oracle.',
   design_ref='DESIGN.md section 6 C19, section 9',
   note='Closed under the global context. agree_if (conditionals) and standard_spends_agree are not theorems (correspondence only). Hash functions and '
        'signature checking are oracles shared by both models. 14 known-finding classes (several pinned by the existing tests).',
   technique='Coq proof (per-opcode lemmas + induction over programs) over two Gallina interpreters; exhaustive differential correspondence'),
 'C08': dict(
   text='State machine Ledger.v (keys, transactions, spent flags, the wallet balance cache) with step mirroring _balance_update, utxos_update, store, '
        'send, delete, reopen. Theorems: inv_init, inv_step, inv_reachable (every reachable state over guarded histories of any length), '
        'ledger_consistent (reported balance = sum of unspent outputs = sum of key balances; nothing consumed by a sent transaction is listed), '
        'select_never_spent, reload_equal. Tie: history differential - random operation sequences on real wallets (sqlite) against the extracted '
        'model after every operation, second Wallet object on the same file, failing histories shrunk.',
   design_ref='DESIGN.md section 6 C08, section 9',
   note='Partial: SQLAlchemy session staleness, sqlite isolation and object lifetime are runtime behaviour reached only through the history '
        'differential (testing). inv_step carries the guard op_ok (evaluated by the driver on every real step); the excluded class '
        'restore_resets_spent is a known finding. Closed under the global context.',
   technique='Coq proof (invariant by induction over operation lists) + history differential against real wallets'),
 'C02': dict(
   text='Decision logic of Input.verify / Transaction.verify / Transaction.sign modelled for an ARBITRARY signature relation sv (Section variable): '
        'verify_sound (True implies an order-preserving matching of m signatures to m distinct key positions, all valid), verify_complete, '
        'verify_insufficient, verify_exact (iff characterisation), tx_verify_all_inputs, sign_fresh_then_verify; all for every key list, signature list '
        'and threshold. Tie: real transactions of every standard input kind are built, signed in subsets/orders/several calls, tampered field by field, '
        'round-tripped through raw()/parse and verified; verdicts, Input.valid flags and sign() status are compared with the extracted model; the '
        'property-level oracle recomputes signature validity with fastecdsa on the library digest.',
   design_ref='DESIGN.md section 6 C02, section 9',
   note='Closed under the global context. ECDSA unforgeability is not claimed (C13 covers the signature layer); the general sign_then_verify over arbitrary '
        'call sequences is stated as a Definition, proved only for the first sign() call on an unsigned input; tamper_changes_digest is covered by the '
        'measured validity matrix, not by a theorem. Two known completeness findings (dup_point_keys, resign_keeps_stale).',
   technique='Coq proof (induction over key/signature lists, arbitrary signature relation) + scenario differential correspondence'),
}
