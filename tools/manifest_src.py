DEFAULT_NA = 'not yet claimed: the model/theorem/correspondence for this property has not reached the minimum content of DESIGN.md 8.3 (work in progress, the technique applies)'
NOT_APPLICABLE = {}
NOTES = ('Every check = (1) re-check of the Coq theorems in coq/Properties/<id>.v with Print Assumptions, (2) tables regenerated '
         'from /repo, (3) differential correspondence of the extracted model vs the public API, (4) replay of known findings. '
         'See DESIGN.md. fix: commits in /repo are listed in known_findings.json.')
CHECKS = {
 'C18': dict(
   text='Theorems (all n in [0,2^64), all integers z, all data lengths, all command lists of any length) about the Gallina model of '
        'int_to_varbyteint/varbyteint_to_int/encode_num/decode_num/data_pack/Script.serialize/Script.parse: round trip, equality with '
        'the Bitcoin Core forms, minimality, prefix-freeness; the model is tied to the code by differential execution of every modelled '
        'function (boundary-exhaustive + random) on each run.',
   design_ref='DESIGN.md section 6, C18',
   note='Trusted: Coq kernel, extraction (ExtrOcamlBasic, ExtrOcamlZBigInt), OCaml driver, Python harness. Closed under the global '
        'context (no axioms). Script.parse round trip is proved under the guard inert/no whole-script heuristic; the excluded classes are '
        'known findings with refutation witnesses. Signature/Key acceptance inside Script.parse are oracles.',
   technique='Coq proof (induction, lia) over a hand-written Gallina model + extracted-model differential correspondence'),
}
