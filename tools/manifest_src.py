DEFAULT_NA = 'not yet claimed: the model/theorem/correspondence for this property has not reached the minimum content of DESIGN.md 8.3 (work in progress, the technique applies)'
NOT_APPLICABLE = {}
NOTES = ('Every check = (1) re-check of the Coq theorems in coq/Properties/<id>.v with Print Assumptions, (2) tables regenerated '
         'from /repo, (3) differential correspondence of the extracted model vs the public API, (4) replay of known findings. '
         'See DESIGN.md. fix: commits in /repo are listed in known_findings.json.')
CHECKS = {
 'C18': dict(
   text='Theorems (all n in [0,2^64), all integers z, all data lengths, all command lists of any length) about the Gallina model of '
        'int_to_varbyteint/varbyteint_to_int/encode_num/decode_num/data_pack/Script.serialize/Script.parse: round trip, equality with '
        'the Bitcoin Core forms, minimality, prefix-freeness; the model is tied to the code by differential execution of every modelled '
        'function (boundary-exhaustive + random) on each run.'
        ' Round 3: argument forms of the wire helpers (str in Latin-1 / UTF-8 across the CompactSize boundaries counted in bytes and characters, bytearray, memoryview, int-likes), judged by an own normaliser and CompactSize reader.'
        ' Session 4: varstr_total / varstr_roundtrip / varstr_prefix_free (every byte string except the single zero byte, witness varstr_zero_byte_refuted) and the injectivity corollaries cs_injective, scriptnum_injective, scriptnum_minimal_unique, script_serialize_injective (Proofs/VarStr.v).',
   design_ref='DESIGN.md section 6, C18',
   note='Trusted: Coq kernel, extraction (ExtrOcamlBasic, ExtrOcamlZBigInt), OCaml driver, Python harness. Closed under the global '
        'context (no axioms). Script.parse round trip is proved under the guard inert/no whole-script heuristic; the excluded classes are '
        'known findings with refutation witnesses. Signature/Key acceptance inside Script.parse are oracles.',
   technique='Coq proof (induction, lia) over a hand-written Gallina model + extracted-model differential correspondence'),
 'C11': dict(
   text='Theorems (all byte strings, all alphabet strings, arbitrary hash function) about the Gallina model of base58encode / change_base(58,256) / '
        'addr_base58_to_pubkeyhash / deserialize_address / bech32 polymod, checksum creation and constant selection: Base58 is a bijection between '
        'payloads and alphabet strings, an accepted Base58Check address is exactly the canonical encoding of a 21-byte body with a correct checksum '
        'and a version byte of the regenerated network table, the Bech32 checksum the encoder appends always verifies and the wrong constant never does; convertbits regroups the bit stream (8->5->8 is the identity for every byte string, pad=False rejects exactly when '
        '>= frombits bits are left over or the left-over bits are non-zero); lib_bech32_dec(lib_bech32_enc x) = x for every hrp, version 0..16 and program within the '
        '90-character limit; every accepted Bech32/Bech32m string is (lower-cased) the reference encoding of its decoded content and re-encoding returns it; one '
        'substituted data-part character or one adjacent transposition is always rejected (syndrome non-zero for any length; never the other constant for length <= 90), '
        'as are mixed case, over-length and foreign characters. '
        '_bech32_polymod and convertbits are re-translated from the source on every run and proved equal to the model (Glue/Bech32Glue.v). '
        'Tie: differential correspondence on valid strings of every kind and every single-character edit of sampled strings.'
        ' Round 3: payload-level constructions for every Base58Check acceptance path (junk appended / prepended / inserted with and without recomputed checksum, one byte short, each checksum byte altered) and the Bech32 grid (witness versions 0..31 x both constants x program lengths x every optional argument): fixed_length_accept_canonical, fixed_length_other_length_refused.',
   design_ref='DESIGN.md section 6 C11, section 9',
   note='Closed under the global context. Bech32 encoder-side theorems are stated for the input convention of pubkeyhash_to_addr_bech32 (bare 20/32/40-byte '
        'program, else header+program; program lengths 18/30/38 excluded = known finding bech32_enc_header_ambiguity). Not proved (sweeps only): Bech32 '
        'insertions/deletions, a data character replaced by the separator, errors inside the human-readable part, multi-character errors (the 4-error bound of '
        'BIP173); WIF / extended-key / BIP38 acceptance paths are checked by the independent oracle only (rejection of every corrupted Base58Check string is '
        'probabilistic and is not a theorem). Trusted: Coq kernel, extraction, OCaml driver, harness.',
   technique='Coq proof over hand-written + source-translated Gallina model; extracted-model differential correspondence'),
 'C19': dict(
   text='Two interpreters in Gallina: lib_eval mirrors Script.evaluate / class Stack opcode by opcode (dispatch through the regenerated opcode and '
        'method tables), core_eval transcribes Bitcoin Core EvalScript. 41 per-opcode agreement theorems (all stacks, oracles, flags); agree_straightline for '
        'all programs over the agreeing opcode set; agree_if_or_crash / agree_if for all well-nested programs with OP_IF/OP_NOTIF/OP_ELSE/OP_ENDIF (at most one '
        'OP_ELSE per OP_IF, any nesting depth and length); agree_if_missing_endif for never-closed conditionals; never_valid_when_core_rejects_structured; '
        'standard_spends_agree (P2PKH, P2PK, HTLC with IF/ELSE/CLTV, arbitrary good signatures/keys/hashes/witness); decode_num = CScriptNum::set_vch; vm_compute '
        'refutation witnesses for every deviating opcode and every excluded conditional shape. Tie: exhaustive opcode x small-stack correspondence of lib_eval '
        'against the real evaluate, plus random programs with nested conditionals; an independent Python EvalScript is the property-level oracle.'
        ' Environment and sessions: csv_agrees_all_env / cltv_agrees_all_env (every stack and environment), lib_csv_is_bip112 / lib_cltv_is_bip65 in closed form over bit 31, bit 22 '
        'and the low 16 bits, csv_ignores_stray_sequence_bits; evaluation_session_is_map, session_never_valid_when_core_rejects; interpreter_touches_no_module_state (AST footprint '
        'of evaluate / Stack / encode_num / Signature.verify regenerated each run: no module- or class-level mutable state, no memoising decorators). Tie: csvbits / cltvenv sweeps over '
        'the BIP68/112/65 bit structure, ses requests (signature replay under other messages, objects re-evaluated, changing env_data) judged by an own secp256k1 ECDSA over the message of each step.'
        ' Round 3: p2sh requests: spends serialised by the harness with non-minimal pushes, parsed by the library and evaluated, judged by an own BIP16 evaluator: p2sh_commitment_is_hash_of_pushed_bytes, p2sh_reserialised_redeemscript_rejected; known finding pushed_data_executed.',
   design_ref='DESIGN.md section 6 C19, section 9',
   note='Closed under the global context. Conditionals are proved on the class `structured` (leaves of executed AND non-executed branches in the straight-line '
        'fragment). The only dynamic guard of agree_if is that OP_IF/OP_NOTIF never meets an empty stack (the library raises IndexError there; '
        'if_crash_only_where_core_fails shows Core rejects in that case, so the safety half needs no guard). Outside the class (correspondence only): second '
        'OP_ELSE, stray OP_ELSE/OP_ENDIF, disabled/OP_VERIF opcodes in a non-executed branch. Hash functions and signature checking are oracles shared by both '
        'models (hash outputs assumed good). 14 known-finding classes (several pinned by the existing tests).',
   technique='Coq proof (per-opcode lemmas + induction over programs and over conditional nesting) over two Gallina interpreters; exhaustive differential correspondence'),
 'C08': dict(
   text='State machine Ledger.v (keys with (network, account) groups, transactions, spent flags, the wallet balance cache) with step mirroring _balance_update, '
        'balance(account, network), utxos, utxos_update, utxo_add, store, send, delete, reopen. Theorems: inv_init, inv_step, inv_reachable (every reachable state over '
        'guarded histories of any length), ledger_consistent and ledger_consistent_groups (for EVERY (network, account) group: reported balance = sum of unspent outputs '
        '= sum of key balances; nothing consumed by a sent transaction is listed), groups_consistent_after_queries, balance_of_value, no_cross_reachable, '
        'select_never_spent, reload_equal. Tie: history differential - random operation sequences on real wallets (sqlite) with several accounts and a second network, '
        'interleaved key ids, sends/sweeps from non-default accounts, against the extracted model after every operation with per-group observations; second Wallet object '
        'on the same file; failing histories shrunk.'
        ' Database level: a file holds several wallets, each with a session view and committed rows: durable_step (after ANY operation, delete included, the committed rows are what '
        'the live object sees), second_object_reads_live, reload_equal_every_op, db_inv_reachable, db_ledger_consistent, other_wallets_only_marked, delete_reopens_only_its_inputs. '
        'Tie: the first reading after every library call is taken by a SECOND Wallet object / forked process before the live object is touched; unobserved runs; funding transactions with '
        'several wallet outputs spent by different transactions then deleted / re-stored / imported; several wallets in one file registering the same outpoints in both orders.'
        ' Round 3: key kinds without key material (imported addresses, public-only keys, wallets from an account xpub), reload fidelity of imported transactions (version 2/3, locktime, sequences; own raw parser), wallets whose default account is not 0: named_account_ignores_default; known finding import_raw_txid_of_version1.'
        ' Round 4: 2-of-3 multisig wallets (p2wsh, p2sh, p2sh-p2wsh) whose sorted key order differs from cosigner order; every reloaded input (live object and second Wallet object) is compared with the sent object on address, types, sequence, value, keys IN ORDER and redeem script, and with the witness / redeem script read from the sent bytes by an own BIP11/16/141 reader (reload_input_differs, reload_keys_not_of_script; oracle-level); known finding reload_multisig_threshold.',
   design_ref='DESIGN.md section 6 C08, section 9',
   note='Partial: SQLAlchemy session staleness, sqlite isolation and object lifetime are runtime behaviour reached only through the history differential (testing). '
        'inv_step carries the guard op_ok (evaluated by the driver on every real step); excluded classes restore_resets_spent and cross_account_output (one account per '
        'transaction row: a payment between two accounts of a wallet) are known findings with Coq refutations. Six defects repaired by fix: commits. Closed under the '
        'global context.',
   technique='Coq proof (invariant by induction over operation lists, per (network, account) group) + history differential against real wallets'),
 'C02': dict(
   text='Decision logic of Input.verify / Transaction.verify / Transaction.sign modelled for an ARBITRARY signature relation sv: verify_sound, verify_complete, '
        'verify_insufficient(_sigs), verify_exact, tx_verify_all_inputs. sign_then_verify is a theorem: sign_history_exact / sign_history_then_verify (every history of '
        'sign() and verify() calls on an input starting unsigned - any signer subsets and orders, repeated and foreign signers, fail_on_unknown_key, replace_signatures - '
        'leaves exactly the own signatures of the listed signers in key order, verdict = m <=? number of distinct listed signers, every key list and m) and '
        'tx_history_exact / tx_history_then_verify (the same through Transaction.sign over all inputs / one target and Transaction.verify; machine_*_is_tcall ties them '
        'to the driver machine). tamper_changes_preimage / tamper_changes_digest (on C01: a change of version, locktime, any outpoint, sequence, output, the script code, '
        'or for BIP143 the spent amount changes the preimage and the library digest, or a collision of H is exhibited) and tamper_detected(_tx): with the premise that '
        'old signatures are valid for no other digest, verification of the tampered transaction is False unless m other signatures are present. Tie: real transactions of '
        'every standard input kind are built, signed in subsets/orders/several calls, tampered field by field, round-tripped through raw()/parse and verified; verdicts, '
        'Input.valid flags and sign() status are compared with the extracted model; the property-level oracle recomputes signature validity with fastecdsa.'
        ' Hash type: Input.hash_type is modelled (lib_parsed_ht: first signature byte after parse, every kind after fix C02-5; lib_ctor_ht on the constructor path): '
        'verify_uses_signature_hash_type, signature_for_other_hash_type_fails, hash_type_changes_digest (BIP143, all hash types, or a collision of H). Tie: the hash-type byte of every '
        'serialized signature of every input kind is changed in the bytes of raw() (own reader/writer) and on the constructor path; third-party signatures for 02/03/81/82/83/04 made by '
        'the harness over the independent consensus digest; the oracle is ECDSA over the consensus digest for the byte each signature carries, computed without the library.'
        ' Parse path and object-vs-bytes: the threshold reader of Input.update_scripts and the attribute read/write sets of raw / signature_segwit / verify are re-translated from the '
        'source on every run (Gen/GenC02.v): parsed_threshold_is_script_threshold (1 <= m <= 16, and up to 127 after fix C02-7), tree_digest_reads_serialised_attributes, '
        'write_seen_iff_serialised, input_verdict_is_serialised_verdict, probe_object_is_broadcast (for every single attribute write on a signed transaction the verdict of the '
        'object equals the consensus verdict on the bytes it would broadcast). Tie: thr requests (m, n in {1,2,14..17,20}, signatures stripped / duplicated / reordered in raw bytes), '
        'every attribute of Transaction / Input / Output written alone; the oracle judges the BYTES. Known class object_bytes_out_of_sync (attributes read by verify() only).'
        ' Round 3: mut requests (every re-signing helper from every sequence configuration, called once and twice; resign_all_after_field_change_verifies) and sigf requests (signatures handed in as DER / r||s / hex / objects with chosen leading bytes of r and s); known finding relative_locktime_resigns_one_input.',
   design_ref='DESIGN.md section 6 C02, section 9',
   note='Closed under the global context. ECDSA unforgeability is not claimed: it is the explicit premise bound_to of stale_signatures_fail / tamper_detected (C13 covers '
        'the signature layer). sign_history_* are proved under exactly the guards of the two known completeness findings, each with _refuted Examples: resign_free_all '
        '(resign_keeps_stale; needed even without a digest change) and, only when a verification happens between sign() calls, dup_point_free (dup_point_keys). Histories '
        'use one digest per input and start from an unsigned input or any canonical state; hand-edited signature lists are covered by verify_sound / verify_exact and the '
        'correspondence only. tamper_* are for hash types treated like SIGHASH_ALL on the wf_stx domain of C01. witness_signature_hash_type_ignored repaired (C02-5). Known soundness finding '
        'input_level_hash_type (one digest per input although signatures of one input may carry different hash-type bytes; input_level_hash_type_refuted; proposed repair fixes/C02-6). Legacy '
        'non-ALL third-party signatures are excused through the C01 class legacy_non_all_hashtype only. Bare multisig is not serializable with signatures through the API.',
   technique='Coq proof (induction over key/signature lists and over call histories, arbitrary signature relation) + scenario differential correspondence'),
 'C07': dict(
   text='Pure Gallina model of Wallet.select_inputs, transaction_create (fee given/named/automatic, dust folding, change splitting with the random draws as '
        'inputs, the final checks), send, sweep, bumpfee; every binary64 expression modelled exactly on rationals with round-to-nearest-even. Theorems for '
        'all wallet views, requests, oracle values and every network of the regenerated table: select_sufficient, create_conserves, create_fee_nonneg, '
        'create_no_negative_output, create_recipients_exact, create_inputs_ok, insufficient_fails, send/sweep_conserves, bumpfee_conserves, '
        'bumpfee_no_negative_output, bumpfee_pays_extra. Tie: real wallets (sqlite, offline provider) are driven with random UTXO sets and requests and '
        'compared with the extracted model; an independent oracle re-sums inputs/outputs/fee from the returned transaction and its raw bytes.'
        ' Wallet HISTORIES (Model/TxCreateHistory.v: broadcast / utxos_update with arbitrary provider listings / utxo_add / reopen / bumpfee, send as two-phase creation with one '
        'argument record, explicit-input shapes): history_inputs_unspent_distinct_confirmed, history_invariant, utxos_update_keeps_consumed_spent, send_recreation_keeps_arguments, '
        'send_result_respects_arguments, explicit_inputs_use_wallet_values (guarded). Tie: hist requests on real wallets with decoy UTXO sets (under-confirmed / other key / other '
        'account outputs sufficient alone), caller values disagreeing with the wallet records; the oracle keeps its own books and parses the raw transactions itself.'
        ' Round 3: recipient amounts in every accepted form (value strings with denominators, Value objects, floats, Output objects) judged by exact decimal arithmetic; conflicting stored transactions with delete in both orders: delete_keeps_conflicting_spend_spent, delete_never_reopens_conflicting_spend.',
   design_ref='DESIGN.md section 6 C07, section 9',
   note='Closed under the global context. SQL tie order, signing, address encoding and int64 wrap are not modelled (correspondence only). Four known findings '
        '(explicit_inputs_unchecked, fee_rate_checked_on_estimate, explicit_input_not_in_wallet, bumpfee_replacement_unverified) with refutation witnesses; three defects repaired by fix: commits.',
   technique='Coq proof over a pure functional model of transaction creation + differential correspondence against real wallets'),
 'C06': dict(
   text='Byte-level Gallina model of the transaction and block codecs: spec_ser/spec_parse from BIP144 + Core, lib_raw/lib_parse mirroring the library. '
        'Theorems unbounded in counts, sizes and witness items: spec_tx_codec (parse (ser t ++ rest) = (t, rest)), prefix-freeness, lib_roundtrip, '
        'lib_txid_exact, lib_raw_is_spec, api_bytes_read_back, spec_block_codec, header_codec, target_exact. Tie: generated well-formed transactions and '
        'blocks across CompactSize boundaries through Transaction.parse(raw).raw(), txid, API-built transactions read by the extracted spec parser, '
        'Block.parse_bytes/serialize and parse_transactions_dict; independent Python codec as property-level oracle.'
        ' Rounds 2-3: sessions of reader calls on ONE Block object (block_reader_session_exact, block_reader_delivers_prefix, block_reader_serialize_complete, dict_reader_lists_rest), '
        'the script layer in strict / lenient mode on key- and signature-shaped pushes that are not keys / signatures (Model/TxStrict.v on the C18 parser and C13 DER models: '
        'strict_clean_accepted, lenient_refusal, lib_roundtrip_script_layer), the signed SetCompact target (target_signed_exact), wire and Block.target source ties. Tie: bsess requests '
        '(four entry points, limits below/at/above the count), shaped-data stream in 11 script positions, 65534/65535/65536-byte scripts; two further known findings '
        '(strict_refuses_signature_shaped, multisig_count_mismatch).'
        ' Round 4: apif requests (the same fields handed to the API in every argument form: witness stack as list / tuple / hex strings / ONE bytes string with 1-, 3-, 5-byte length prefixes in every position, txid / scripts as bytes or hex, Input / Output objects) and segwit coinbases with 31 adversarial witness reserved values (truncated pushes, PUSHDATA prefixes, opcode- and DER-looking bytes) as transactions, blocks and reader sessions.',
   design_ref='DESIGN.md section 6 C06, section 9',
   note='Partial: the script layer (Script.parse, Input.update_scripts re-building unlocking scripts) is treated as the identity on bytes and checked by '
        'correspondence only; readers_agree for the two block readers is not a theorem. lib_roundtrip is proved under the guard quirk_free; each excluded '
        'class has a refutation witness and is a known finding (8 classes). Closed under the global context.',
   technique='Coq proof (parser/serializer round trip by induction) + differential correspondence'),
 'C16': dict(
   text='Taint model regenerated from the source: translator/gen_fields.py extracts from the AST of keys.py/wallets.py/db.py the attribute sets, the '
        'assignments each public() performs, as_dict/repr tables and encrypted columns; the model runs public() as a program over those tables. Theorems for '
        'ALL method histories before and after taking the public view: public_view_clean, public_view_no_secret, classification_sound, '
        'default_exports_clean, walletkey_* variants, private_columns_encrypted; Glue lemmas make a removed stripping line or a new caching attribute '
        'break the proof. Wallet level: configurations (master private, private or public account-level key, single keys, cosigner wallets) and operation histories '
        'with public_master() / wif() interpreted over the regenerated return-path tables: wallet_public_view_clean, wallet_returns_clean, wallet_default_exports_clean, wallet_methods_glue (path tables, bodies and default argument lists of 25 view/export entry points equal the frozen copies). Tie: random method histories on real keys, wallet keys and WALLETS of every configuration (every public-view entry point, recursing into cosigner wallets) with a byte-level scan (pickle, deepcopy, __dict__ walk, '
        'as_dict/as_json/repr/info, raw sqlite file with field encryption) for every encoding of the secret.'
        ' Arguments of the view entry points: every public-named function with its parameter list and the keyword forwarding of its inner calls is regenerated from the AST '
        '(entry_params, call_forwards) and interpreted fail-closed: xpublic_view_clean, public_master_args_clean, public_master_multisig_clean, wif_public_args_clean, '
        'hd_wif_args_clean, wallet_public_master_args_clean for ALL argument values that do not ask for private output; view_entry_points_glue makes a new parameter of a '
        'public-named function or a mis-forwarded keyword break a proof. Tie: pvk / pvw requests call every reviewed view entry point with the product of argument values '
        'and scan for the source secret and every private key on the derivation path.'
        ' Round 3: public PATH requests (subkey_for_path \'M\' spellings: public_path_view_clean, subkey_for_path_source_glue), default exports taken after relationships were loaded (database_rows_text_glue: the presentation methods of every class of db.py equal frozen copies), explicit prefix= on public wif exports with base58-decoded scan; known finding dbkey_in_row_dict.',
   design_ref='DESIGN.md section 6 C16, section 9',
   note='Partial: Python object graph, pickle, sqlite file layout are runtime, covered by the scan (testing). One-way steps (EC multiplication, BIP38 '
        'encryption) are declassification points of the model. One known finding (dbkey_repr_private_wif). Closed under the global context.',
   technique='Coq proof (invariant over operation histories) over a model regenerated from the source AST + taint scan correspondence'),
 'C03': dict(
   text='BIP32 in Gallina on the executable HMAC-SHA512 and secp256k1: spec_ckd_priv/pub/derive from the BIP text, lib_* mirroring child_private, '
        'child_public, subkey_for_path, path parsing. Theorems: ckd_commute and path_split (private and public derivation commute, every split point) in an '
        'abstract group Section with the group laws as visible premises; concrete theorems without premises: lib_child_private_is_ckd, lib_is_spec, '
        'hardened_from_public_fails, path_markers, ckd_metadata, master_range, wif_is_serialization; guards/thresholds/markers are re-read from the source '
        'AST each run (source_is_model). Tie: seeds 16..64 bytes, paths to depth 10 with boundary indices and every marker spelling, every '
        'private/public split, against an independent pure-Python BIP32 oracle and the extracted model.'
        ' Derivation SESSIONS on one HDKey object and the objects derived from it (public copy, children): derivation_session_is_function, derivation_session_repeatable, '
        'public_object_calls, public_copy_never_private (whatever was called before, nothing obtained from a public-only object is private and a hardened request fails), '
        'source_is_stateless (re-read from /repo each run: the derivation methods write nothing on self, public() is a deepcopy that clears the private fields), '
        'wif_child_index_is_serialization. Tie: sess requests with every start form, spelling and export between derivations, compared step by step.'
        ' Round 3: every construction form of the start key (19 private + 5 public forms incl. Key/HDKey objects with chain=): construction_is_callers_key, construction_derives_callers_children, construction_ignores_imported_objects_chain.',
   design_ref='DESIGN.md section 6 C03, section 9',
   note='The executable secp256k1 instance is NOT proved to satisfy the group laws and primality of n is not proved (no EC/primality library installed): the '
        'commutation theorems carry group_laws as a premise. Hash transcriptions are validated against hashlib, not proved. Closed under the global context. '
        'Seven defects repaired by fix: commits.',
   technique='Coq proof (abstract group algebra + concrete model equalities) + extracted-model differential correspondence'),
 'C17': dict(
   text='PrimFloat model, operation by operation, of Value(str), value_sat, value_to_satoshi, from_satoshi, str/str_unit, Output value handling, with the '
        'decimal<->binary64 conversions as exact integer algorithms proved correct with Flocq. Theorems: btc_string_exact and btc_amount_exact for EVERY n in '
        '[0, 21e14] and every network, sat_string_exact, format_parse_roundtrip (default denominator), py_float_correctly_rounded, py_round_exact, '
        'outputs_are_integers; vm_compute refutation witnesses for each denominator that loses a unit. Constants are parsed from the regenerated tables. '
        'Tie: bit-exact (float.hex) correspondence on ~270k amounts per run including rounding-boundary and top-of-range streams.'
        ' Conversion SESSIONS in one process and amount-changing transaction operations: conversion_session_stateless, btc/sat_string_exact_in_session, '
        'value_observations_transparent, add_output_value_exact, session_bump_is_lib_bumpfee (C07 model reused), session_amounts_nonnegative (after every operation of any '
        'session of bumpfee / update_totals / sign_and_update / estimate_size / calculate_fee every output is an integer in 0..2^64-1, fee >= 0, inputs = outputs + fee), '
        'bumpfee_fee_bounds, bumpfee_exact_from_large_change, add_output_then_sign. Tie: seq / vobj / txs / wtx session requests, each session in a fresh fork; the '
        'oracle re-parses raw() after every operation.',
   design_ref='DESIGN.md section 6 C17, section 9',
   note='Axioms (standard library only, listed in ALLOWED_AXIOMS and evidence): ClassicalDedekindReals.sig_forall_dec, sig_not_dec, '
        'FunctionalExtensionality.functional_extensionality_dep, Classical_Prop.classic (through Reals/Flocq) and the FloatAxioms primitive-float '
        'specification (Prim2SF_SF2Prim, Prim2SF_valid, SF2Prim_Prim2SF, mul_spec, div_spec). Extraction additionally uses ExtrOCamlFloats and '
        'ExtrOCamlInt63. 17 known findings (binary-float amounts lose a unit for other denominators).',
   technique='Coq proof with Flocq (error analysis of two roundings) over a PrimFloat model + bit-exact differential correspondence'),
 'C20': dict(
   text='Gallina model of Service._provider_execute (provider ordering, skip/raise/empty handling, error limit) and the wrappers getbalance, getutxos, '
        'gettransaction, getrawtransaction, estimatefee, isspent, blockcount with the cache as a map with explicit clock. Theorems for every provider list, '
        'outcome assignment and setting: result_is_a_provider_answer, fails_only_when_nobody_answers (exact characterisation of Value/False/ServiceError), '
        'skips_are_skipped, order_respects_priority, wrappers_do_not_fabricate (guarded) and unguarded *_origins theorems listing every source of a '
        'returned value, cache_returns_what_was_stored. Cache read paths modelled as they are (insertion order, ORDER BY (block_height, index) with NULL first, after_txid, limit, last_block, spent flags, n_txs/n_utxos bookkeeping, block pages): cache_returns_what_was_stored (for every stored set with arbitrary heights, several per block, every after_txid and limit the cached answer is the slice a provider would return), cached_transactions_are_the_stored_slice, cached_utxos_are_the_stored_outputs, gettransactions_served_from_cache, gettransactions_origins, '
        'gettransactions_never_partial, getutxos_never_partial, cached_block_page_is_the_filed_page, getblock_origins, source_facts_cache_reads (22 comparison operators and ORDER BY lists re-read from services.py on every run). Tie: exhaustive outcome assignments for k<=3 fake providers x settings x priority orders against '
        'the real Service with a sqlite cache; control-flow facts re-read from the source (GenService).'
        ' Round 3: http mode: the repository\'s own Blockstream / Mempool / Blocksmurfer clients over a scripted requests transport (every status x body, timeouts, connection errors), oracle-level; known finding http_ok_status_body_not_an_answer.',
   design_ref='DESIGN.md section 6 C20, section 9',
   note='Partial: clock, HTTP and sqlite are runtime (a timeout is a Raise). gettransactions/getblock/address index not modelled. Six known findings (False or '
        'invented values at the error limit; pinned by an existing test so not repairable under the constraints). Closed under the global context.',
   technique='Coq proof (induction over provider lists) + exhaustive small-configuration differential correspondence'),
 'C14': dict(
   text='Gallina model of BIP39 over index lists: spec_to_indices/spec_to_entropy from the BIP text for an arbitrary 32-byte hash, lib_* mirroring '
        'Mnemonic.to_mnemonic/to_entropy through the five change_base conversions with their leading-zero rules, detect_language, sanitize_mnemonic, the '
        'validate / includes_checksum / add_checksum / check_on_curve switches and sessions of calls. Theorems: bip39_roundtrip, bip39_accept_canonical, '
        'bip39_checksum_mismatch_rejected (any hash), lib_is_bip39 for EVERY entropy of the five lengths including every leading-zero pattern, lib_accepts_as_bip39, '
        'word_index_inverse/unknown_word_rejected for abstract NoDup lists, bundled_wordlists_ok, bundled_wordlists_are_frozen (the nine lists regenerated from /repo '
        'equal the frozen copies: an edited word breaks a proof), detect_language_sound/unique, sanitize_sound/complete, to_entropy_uses_own_list (never the detected '
        'language or directory order), bundled_object_roundtrip, object_rejects_bad_sentence, seed_is_bip39 and seed_is_bip39_any_validate (validate only changes what '
        'is refused), default_switches, raw_indices_value/raw_entropy_value, session_history_independent. Tie: exhaustive leading-zero entropy patterns, nine '
        'languages, every public argument with non-default values, sentences in NFC/NFKC/ideographic-space form, sentences made only of words shared between two '
        'lists, call sessions in one process, unicode passphrases, single-word substitutions, Trezor and Japanese vectors against an independent Python BIP39 over '
        'frozen word lists.',
   design_ref='DESIGN.md section 6 C14, section 9',
   note='PBKDF2, NFKD and UTF-8 are oracles (harness answers PBKDF2 queries with hashlib, NFKD with unicodedata). The float math.log quotients of change_base are '
        'modelled as integer division (revalidated each run). Frozen word lists are a copy of the bundled files at the pinned commit (english cross-checked by hash). '
        'detect_language tie-breaking is not fixed by the property (a change there is reported without failing input). Two known findings (hexlike_entropy, '
        'from_passphrase_non_english); one defect repaired. Closed under the global context.',
   technique='Coq proof (bit-regrouping lemmas, induction, finite table facts by vm_compute) + differential correspondence in nine languages incl. call sessions'),
 'C09': dict(
   text='Wallet key book model: spec_path from BIP44/49/84/45/48, lib_path_expand over WALLET_KEY_STRUCTURES and KEY_PATH templates regenerated from config.py, '
        'key-book state machine (new_key, get_key, new_account, key_for_path, bulk creation, reopen). Theorems: path_is_documented (every table entry, '
        'symbolic account/change/index), paths_injective, lib_derivation_is_bip32, key_material_is_derivation and no_repeats for EVERY reachable state '
        '(induction over operation lists), restore_deterministic, reopen_changes_nothing. Tie: every key a real wallet hands out is recomputed from the '
        'seed alone by the extracted model (own HMAC/curve/hash/address code) over histories with reopen and restores from seed, mnemonic, xprv and '
        'account xpub, on all networks and witness types; independent Python BIP32/address oracle.'
        ' Index issuance: next_index_is_highest_plus_one, next_index_ignores_creation_order, no_two_siblings_share_an_index; listings: listing_is_exactly_the_filter; '
        'mnemonic creation: mnemonic_wallet_is_wallet_of_bip39_seed (sentence + passphrase), mnemonic_restore_reproduces_addresses; frozen tables: '
        'network_tables_are_the_documented_ones, structure_table_is_the_documented_one. Tie: the wallet key table is snapshotted and checked after EVERY command '
        '(out-of-order key_for_path, bulk creation, scan, reopen), creation/restoration matrix incl. mnemonic + password in nine languages, multisig cosigner wallets probed by the oracle.'
        ' Reach and refusals (BIP32 derives only downwards): request_outside_reach_refused, handed_out_key_is_at_documented_path_for_requested_type (every configuration: master / '
        'account-level private / account-level public / single / multisig), request_for_another_witness_type_refused, new_account_needs_the_private_master, '
        'key_request_guards_are_the_documented_ones (the guards of keys_for_path / new_account regenerated from wallets.py equal a frozen copy). Tie: every wallet configuration x '
        'every key-handing entry point x fitting and non-fitting arguments, each misfit asked twice; eight known classes of requests the library answers although it should refuse.'
        ' Round 3: a frozen corpus of seeds (found by search with the harness\'s own BIP32) whose private key / chain code / public x / fingerprint starts with zero bytes at each path level, BIP32 vectors 1-4, explicit full paths naming an account: hardened_parent_key_is_serialised_on_32_bytes, private_key_serialisation_is_injective.'
        ' Round 4: multisig wallets driven by explicit [change, index] paths interleaved with new_key / bulk creation (multisig_explicit), and kprun requests: ten custom key_path shapes incl. Bitcoin-Core style hardened change / address_index levels with bulk creation, scan, new_account, reopen, judged by an own BIP32 re-derivation of every stored row along its stored path (oracle-level, no Gallina model of custom key paths); known finding keypath_no_account_level_ignores_account.',
   design_ref='DESIGN.md section 6 C09, section 9',
   note='Density of indices over implicit-only histories and watch-only/full agreement of public keys (needs ckd_commute, C03) are checked by the oracle, not '
        'proved. Multisig key books are C10. Two defects repaired by fix: commits. Closed under the global context.',
   technique='Coq proof (finite table facts by vm_compute + invariants over operation lists) + history differential against real wallets'),
 'C15': dict(
   text='Gallina model of bip38_encrypt/decrypt (plain and EC-multiply), Key(enc, password=), intermediate codes and create_new, with scrypt, AES, NFC, the hashes, '
        'Base58 and the curve universally quantified and what each theorem assumes about them written in its statement. Theorems: bip38_roundtrip (every '
        'k in [1,n-1], flag, passphrase, prefix), bip38_ec_roundtrip, wrong_passphrase_checked / wrong_passphrase_no_other_key (a different key can only '
        'come out with a colliding 4-byte address hash), bip38_is_spec, bip38_intermediate_is_spec, fresh_entropy (the k-th default-relying call consumes '
        'the k-th os.urandom chunk, for every call history), fresh_entropy_distinct; bip38_decrypt_is_spec (Key(s, password=pw) returns a key exactly when the BIP text decryption '
        'does, plain and EC mode), passphrase_bytes_are_spec, passphrase_no_conflation, same_passphrase_same_key, passphrase_str_or_bytes, bip38_is_spec_arg. Tie: two-phase '
        'oracle protocol (driver asks, harness answers scrypt/AES from hashlib and a FIPS-197 AES), published BIP38 vectors, all networks, an adversarial passphrase stream '
        '(hex-looking text, digits, blanks, NUL, 64+ bytes, NFC-unstable, bytes objects) through every entry point; ciphertexts built by the judge (never by the library) '
        'are decrypted with the right passphrase and with passphrases a library might conflate; two independent judges (Python BIP38 and the extracted Gallina spec); '
        'counting os.urandom installed before import.'
        ' Round 3: wrong-passphrase matrix through every import entry point and argument (Key / HDKey with every witness type, multisig, compressed, bip38_decrypt), compatibility-character passphrases in every intermediate-code branch and lot/sequence boundary, judged by both spec judges.',
   design_ref='DESIGN.md section 6 C15, section 9',
   note='Partial: freshness is a statement about WHICH draw each call uses; the quality of os.urandom is outside. scrypt/AES are oracles with the single '
        'hypothesis aes_dec k (aes_enc k b) = b; Base58 round trip and curve module laws are premises in the statements. Four known findings '
        '(passphrase_not_nfc, ec_foreign_network, sequence_zero_refused, hdkey_default_witness). Closed under the global context.',
   technique='Coq proof (xor algebra, oracle-parametric) + oracle-assisted differential correspondence'),
 'C04': dict(
   text='Gallina model of Key import (int, hex, bytes, public encodings, point tuples), decompression via mod_sqrt with the exponent literal read from the source, '
        'and Address/Key.address for every network of the regenerated table. Theorems: sqrt_exp_ok, fermat_little_Z (proved from the standard library), '
        'decompress_compress / compress_decompress (prime p as explicit premise), decompress_rejects_offcurve, import_range (accepted private key implies '
        '1 <= secret < n), import_public_on_curve, address_is_standard (P2PKH, P2SH-P2WPKH, P2WPKH, P2WSH: lib_address = spec_address for symbolic key bytes), '
        'address_p2tr_of_output_key; network_table_is_spec / network_table_diff_empty (the table regenerated from networks.json equals the frozen '
        'specification table Model/SpecNetworks.v written from the reference clients chain parameters, SLIP-0132/0044 and BIP173/350: an edited row breaks a proof and '
        'names the field), address_is_standard_frozen, address_by_name_is_standard, frozen_table_is_reference_except_deviations. Tie: boundary/sparse/random scalars and the refused set through every format, every public encoding, 250+ off-curve x, '
        'every network x script type x encoding x entry point in the quick tier (three-way: library, extracted frozen Coq table, frozen Python table); independent '
        'pure-Python curve/hash/address oracle whose version bytes come from harness/spec_networks.py, never from /repo.'
        ' Round 3: addrx requests (the full script_type x encoding x witness_type argument cube of Address / Key.address / HDKey.address / Address.parse on every network) and sess requests (address reads interleaved with network_change and flag changes on one key object), oracle-level; two known findings (p2tr_explicit_taproot_witver0, address_prefix_arg_reuses_cached_object).'
        ' Round 4: route requests: a corpus of structurally special scalars (last byte 01, leading zero bytes, first byte 00/80, 1, n-1, around 2^248) through every import format and through the WIF and BIP38 text routes (own Base58Check / AES-256 / BIP38 reference, frozen corpus corpus/C04/bip38.json with pinned hash): import_bytes32_exact, import_bytes33_marker; known findings hdkey_bip38_default_witness_refused, prefix_ascii_hex.',
   design_ref='DESIGN.md section 6 C04, section 9',
   note='Primality of p and on_curve(d.G) are premises (no primality certificate checker / EC library installed); the group law is not proved; fastecdsa point '
        'multiplication and the hash transcriptions are validated by correspondence. Five known findings (incl. regtest carrying mainnet version bytes); four defects repaired. Closed under the global context.',
   technique='Coq proof (number theory from the stdlib, finite table x symbolic bytes by vm_compute) + differential correspondence'),
 'C05': dict(
   text='dest/spec_lock_script/spec_classify from BIPs 13/16/141/173/350 and a mirror of Output.__init__, Script template instantiation (regenerated SCRIPT_TYPES), '
        '_get_script_types and the real script parser (on the C18 model). Theorems for every payload, witness version 0..16, network of the regenerated '
        'table and creation path: classify_lock / lock_classify (mutually inverse), lib_lock_is_spec (address string, hash, Address object, Address.parse '
        'paths), lib_inverse (standard script reported with exactly the standard type, address, network), foreign_network_refused, '
        'foreign_network_object_refused; table side conditions (prefix unambiguity, which networks share all prefixes) by vm_compute so an ambiguous table '
        'edit breaks a proof; network_table_is_spec (regenerated prefix table = frozen specification table). Tie: all networks x types x witness versions x lengths x '
        'creation paths, all 110 ordered network pairs; the oracle takes prefixes from the frozen table, never from /repo.'
        ' Round 2: lib_inverse_tx / lib_reparse_is_destination / lib_address_tx_roundtrip (through Transaction.parse), lib_lock_is_spec_hdkey (HDKey destinations, every witness type '
        'and multisig flag), push_classifier_is_modelled (scripts.get_data_type probed on a regenerated table = the model), hash_pushes_are_data, to_bytes_only_touches_hex_text. Tie: '
        'about 100 ADVERSARIAL payloads per length (DER-, key-, script-, opcode-, number- and hex-text-shaped) for every type and network in both directions and through raw transactions; '
        'HDKey / Key / Address objects in every construction form; contradicting hints. Payload theorems carry the guard hex_guard (complement of the known finding ascii_hex_payload).'
        ' Round 4: histories on ONE key object (address() in every script type x encoding, WIF calls, public() copies, network_change, earlier outputs) before the output is built, and argument objects reused from an earlier construction: output_of_hd_key_history_free, hd_cached_reading_refuted; known finding hd_key_left_uncompressed.',
   design_ref='DESIGN.md section 6 C05, section 9',
   note='The address STRING codec is abstract here (decoded content); strings are C11. public_key= and HDKey lock-script paths by correspondence only. Four '
        'defects repaired by fix: commits (witness version into script, foreign-network Address objects, p2sh-segwit Address objects, address next to a public key); one known '
        'finding (ascii_hex_payload: to_bytes decodes binary payloads that read as hex text). Closed under the global context.',
   technique='Coq proof (finite shape enumeration x symbolic payload bytes by vm_compute) + exhaustive differential correspondence'),
 'C01': dict(
   text='Gallina model of Transaction.signature / signature_hash / signature_segwit / raw(sign_id, hash_type, "legacy") and Input.update_scripts '
        '(Model/Sighash.v, on the C06 transaction records and the C18 CompactSize) against Bitcoin Core SignatureHash and the BIP143 text. Theorems for every '
        'well-formed transaction, input position, input kind (p2pkh, p2pk, bare and P2SH multisig, p2wpkh, p2wsh, both P2SH-nested forms), key list and threshold, '
        'for ANY hash functions: script_code_ok, legacy_preimage_ok (all ALL-like hash types), bip143_preimage_ok (every hash type incl. SINGLE, NONE, ANYONECANPAY), '
        'digest_ok, digest_ok_sha256 (instantiated with the executable SHA-256), verify_digest_is_sign_digest, preimage_commits / preimage_commits_or_collision '
        '(equal digests imply equal committed fields or an explicit collision), legacy_preimage_commits; vm_compute refutations of the code before the two '
        'repairs. Tie: preimage bytes (not only hashes) of API-built and re-parsed transactions, every input index, mixed kinds, all hash types, permuted index_n, '
        'BIP143 published vectors; signatures in raw() checked by an independent verifier over the spec digest. Life cycle of one Transaction object: 21 kinds of '
        'in-place mutation / re-signing steps (add_input with its BIP68 version upgrade, set_locktime_*, sign_and_update, shuffle, merge, attribute writes) are modelled; '
        'lib_digest_depends_only_on_fields, session_no_hidden_state, session_digest_is_fresh_digest, version_copies_agree, session_digest_ok: after any list of steps the '
        'digest is the consensus digest of what raw() serialises now; sessions are replayed on real objects with an oracle that re-parses raw() at every observation.'
        ' Round 3: inputs described WITHOUT their keys (address / public_hash / locking_script / redeemscript only, keys supplied later to sign() as Key, HDKey, hex, bytes, WIF) as session start forms; known finding nested_p2wpkh_from_locking_script.'
        ' Round 4: inf requests: inputs built through ten construction forms that never pass witness_type (keys / keys + locking script / keys + address / key-less, through add_input and through Input objects); the witness type the library holds and the preimage it signs are compared with the kind of the spent output (wrong_witness_type_refuted); known finding nested_from_locking_script_keyed.',
   design_ref='DESIGN.md section 6 C01, section 9',
   note='Closed under the global context. The legacy path ignores non-ALL hash types (known finding legacy_non_all, refuted in Coq); OP_CODESEPARATOR and taproot '
        'digests are outside the model. Three defects repaired by fix: commits (BIP143 hashOutputs SINGLE/NONE swapped; input chosen by index_n attribute; stale scriptSig after re-signing a P2PK input). '
        'Exceptions inside sessions are not modelled (comparison stops at the first refused step).',
   technique='Coq proof (byte-level equality of two serializers by induction, arbitrary hash functions) + differential correspondence on preimage bytes'),
 'C10': dict(
   text='Gallina model of the multisig branch of Wallet.create / _new_key_multisig (cosigner ordering, BIP67 sorting, redeem script, script hash, paths) and of the '
        'signing ceremony: Transaction.sign placement, Input.verify with its key-tagging side effect, Input.__init__ signature de-duplication and the three '
        'hand-off channels (object, as_dict, raw). Theorems for every key list, threshold, permutation and operation sequence: bytes_order_is_bip67, '
        'redeem_perm_invariant, redeem_is_spec, bip67_order_unique, wallets_agree, same_address_all_cosigners (any hash functions), path_agreement_45/48, '
        'cosigner_order_agreement, m_signers_suffice (object hand-off: valid exactly when >= m distinct cosigners signed, any order, repeats allowed), '
        'signature_count_is_distinct_cosigners; refutation witnesses for the raw and dict channels. Tie: REAL cosigner wallets (one sqlite file each) are created '
        'from permuted keys, transactions are signed through chains of export/import, and addresses, redeem scripts, signature placement, verified/pushed are '
        'compared with the extracted model after every step.'
        ' Committed fields through hand-off: lib_create_fields (anti-fee-sniping locktime, RBF / locktime sequence rule, change), handoff_preserves_committed_fields, '
        'dict_handoff_fields / raw_handoff_fields (after fixes C10-3/4 every channel preserves every committed field), create_signals_rbf, create_locktime_enforced, '
        'm_signers_suffice_committed, tx_verifies_iff_every_input, input_verifies_iff_m_signers. Tie: cer2 ceremonies with non-default spends (RBF, locktimes, fees, 1-3 inputs and '
        'outputs, change), watch-only key signing; after every step an independent parser + sighash + ECDSA + CHECKMULTISIG oracle re-checks the fields and the verdict.'
        ' Round 3: funding outputs at indices 0..2^32-2, shared funding txids, txids with zero bytes: handoff_keeps_output_index, outpoints_distinct.',
   design_ref='DESIGN.md section 6 C10, section 9',
   note='Closed under the global context. ECDSA validity is abstracted (a signature is valid for exactly its signer: C13); the raw and dict hand-off channels lose or '
        'misplace signatures (two known findings with Coq refutations); four defects repaired by fix: commits. Wallet database behaviour is reached through the '
        'ceremony differential only.',
   technique='Coq proof (permutation/sorting lemmas, induction over signing-operation lists) + ceremony differential against real cosigner wallets'),
 'C12': dict(
   text='Gallina model of get_key_format, check_network_and_key, Key.__init__/wif, HDKey.__init__/from_wif/wif and the prefix searches of networks.py over the prefix '
        'tables regenerated from networks.json. Theorems for every secret, chain code, depth, child number, fingerprint, table row (network x private/public x '
        'witness type x multisig): wif_roundtrip, xkey_roundtrip, xkey_roundtrip_from_wif, xkey_export_is_row_text, raw_forms_roundtrip, raw_public_*_roundtrip, '
        'network_resolution_sound/refusal, xkey_network_candidates, never_cross_classified_xkey, never_cross_classified_bip38, prefix_determines_private, '
        'wif_version_never_starts_hd_prefix, hd_prefix_shape (table facts re-proved by vm_compute on every regeneration). prefixes_wif_rows_are_frozen_spec / all_rows_are_frozen_rows (regenerated table = frozen specification table), slip132_prefix_determines_metadata, xkey_roundtrip_exact_metadata, and export SESSIONS on one object: session_is_map_of_stateless_exports, session_answer_depends_on_fields_only, exports_leave_fields_unchanged, wif_after_explicit_prefix_is_plain_wif, wif_after_network_change_is_new_network, '
        'wif_after_address_follows_compressed_attribute, session_wif_roundtrip. Tie: sessions of every export method with explicit arguments, network_change, public(), encrypt on one Key/HDKey object (each answer recomputed from protocol definitions and the frozen table); exhaustive table stream (all rows, '
        'all 256 version bytes), export/import round trips with leading-zero secrets, depths 0..255, boundary child numbers, hints on/off, mutated strings.'
        ' Round 3: pubrt (public-only imports in every form with points whose x or y has 1..62 leading zero nibbles, every export re-imported) and bip38rt (BIP38 through Key / HDKey / bip38_decrypt, compressed and uncompressed, every network), oracle-level.'
        " Round 4: BIP38 texts of 13 special secrets (tails 01 / 0101 / 00, leading 00 / 80) frozen from the independent encryptor (corpus/C12/bip38_special.json) and imported through Key / HDKey / bip38_decrypt, plus the library's own encrypt -> import on compressed keys ending in 01: bip38_secret_32_bytes_kept, bin_compressed_marker_needs_33_65_129.",
   design_ref='DESIGN.md section 6 C12, section 9',
   note='Closed under the global context. Point (de)compression is an abstract pair of maps here (C04 proves it); SHA-256 is the executable Gallina one. One known '
        'finding (HDKey compressed=False is not representable in BIP32 serialisation); three defects repaired by fix: commits (incl. the WIF cache ignoring the compressed flag, found by the session stream).',
   technique='Coq proof (codec round trips over regenerated prefix tables, finite table facts by vm_compute) + exhaustive-table differential correspondence'),
 'C13': dict(
   text='Gallina model of Signature.create / __init__ / parse_bytes / as_der_encoded / verify, the public_key and txid setters, sign, verify and the fastecdsa DER coder '
        '(Model/Ecdsa.v, Model/Der.v) over the executable affine secp256k1 and RFC 6979 with the Gallina HMAC-SHA256, including SESSIONS: a process signing many requests '
        '(lib_sign_session) and ONE Signature object verified again and again (lib_verify_session, carrying _txid, x, y, _public_key). Theorems: sign_verifies (ECDSA '
        'correctness in any commutative group with a generator of prime order), executable_is_generic, lib_sign_verifies, lib_sign_low_s, der_strict (BIP66 for all r, s in '
        'range), der_roundtrip, der_canonical, lib_sign_encoding, lib_sign_parse_roundtrip, nonce_is_rfc6979, explicit_nonce_is_used, lib_sign_refuses_bad_key, '
        'lib_verify_exact, lib_pub_point_exact, lib_verify_point_exact, lib_parse_exact; sign_session_is_function, sign_session_position_independent, '
        'sign_session_repeatable, sign_session_all_low_s, verify_session_is_function, signed_object_session, verify_session_exact (every explicit verify step on a reused '
        'object is the stateless verifier, and standard ECDSA for SEC-form keys given as object, bytes or hex text), verify_defaults_replay, verify_defaults_keep_key, '
        'verify_text_key_is_bytes_key; refutation witnesses for the code before the three repairs and for the open classes. Tie: boundary keys/digests/nonces, r and s at '
        'every range edge, every DER length form, independent signer, single mutations of encodings, wrong keys/digests through keys.sign / keys.verify / '
        'Signature.parse_bytes / der_encode_sig; plus whole sessions run in one adapter process / on one object: signseq (key/digest pairs colliding under realistic cache '
        'keys: multiples of 2^61-1, 2^31-1, 2^32, 2^64, d / n-d, swapped, repeats, interleavings, reused Key objects; nonce distinctness checked across pairs), vseq (objects '
        'from sign, create, parse_* with and without public_key=; own / negated / equal-y / unrelated keys in every accepted form; omitted arguments; keys.verify and '
        'Signature.verify), signrand (use_rfc6979=False judged with the reported nonce).'
        ' Argument forms: every digest / key / signature argument is PBytes or PText in the model (arg_meaning: bytes mean their bytes, text means its strict base-16 decoding): '
        'verify_argument_form_irrelevant, verify_bytes_and_text_agree, verify_forms_exact, parse_entry_points_read_meaning, sign_argument_form_irrelevant, '
        'sign_form_reaches_nonce_only, session variants. Tie: hex-LOOKING bytes (digests, compact/DER signatures, key coordinates made only of ASCII hex characters), mixed-case and '
        'white-space text through every entry point and in sessions; two known findings for digest TEXT that is not clean hex (spaced_digest_text, nonhex_digest_text).',
   design_ref='DESIGN.md section 6 C13, section 9',
   note='Closed under the global context. The group law of the executable curve and primality of n are premises of sign_verifies (no EC library installed); nonce '
        'uniqueness across (key, message) pairs is the pseudo-randomness of HMAC and is not claimed as a theorem - the harness checks it on the enumerated colliding pairs '
        'of every signing session. The session theorems say the model keeps no state that reaches an answer; that the LIBRARY keeps none (no cache, no remembered '
        'attribute) is what the session correspondence checks on every run. use_rfc6979=False has no model answer (oracle only); Signature objects shared between threads '
        'are not covered. Known findings: der64 ambiguity, lax DER acceptance by fastecdsa, nonce derived from the hex TEXT of the digest, unreduced point coordinates. '
        'Three defects repaired by fix: commits (low-S float division, short DER rejected, public key as hex text rejected).',
   technique='Coq proof (abstract group algebra, DER codec by case analysis and lia, session folds) + extracted-model differential correspondence incl. malformed encodings and stateful sessions'),
}
