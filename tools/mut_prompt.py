#!/usr/bin/env python3
"""Print the brief for an independent breaking-change author for property <id> (uses only the property text)."""
import json, sys
pid = sys.argv[1]
n = int(sys.argv[2]) if len(sys.argv) > 2 else 3
p = [json.loads(l) for l in open('/verif/properties.jsonl') if json.loads(l)['id'] == pid][0]
letters = 'abcdefgh'[:n]
print(f"""You are testing how well a Python library's behaviour is pinned down. The library is 1200wd/bitcoinlib (pure-Python Bitcoin library: keys, addresses, transactions, scripts, wallets, service layer). Work ONLY in your own scratch git worktrees of /repo, created with `git -C /repo worktree add /tmp/mut/{pid}_a HEAD` (then _b, _c …; use underscores, NOT hyphens, in directory names: the repository has a root __init__.py and pytest cannot collect from a directory whose name contains a hyphen). Never edit /repo itself, and never read or write anything under /verif. No network; nothing can be installed; run Python as `/venv/bin/python` with `PYTHONPATH=<your worktree>` and ALWAYS a private home and data directory so you do not collide with other runs: `export HOME=/tmp/mut/home_{pid} BCL_DATA_DIR=/tmp/mut/data_{pid}/` (create both; note the library copies its data files into BCL_DATA_DIR on first import and reads networks.json/providers.json from there afterwards — delete that directory when you change data files).

Here is a semantic property the library is supposed to satisfy:

--- PROPERTY {pid}: "{p['title']}" ---
{p['statement']}
Quantifier: {p['quantifier']['text']}
Relevant code: {', '.join(p['anchors']['files'])}. Observable through: {'; '.join(p['anchors'].get('observe_at') or [])}
---

TASK: produce {n} different, realistic, subtle code changes (one per worktree: {', '.join('/tmp/mut/%s_%s' % (pid, l) for l in letters)}), each of which BREAKS this property while the library still imports and the existing test suite still passes exactly as before. Realistic = the kind of slip a maintainer could make in a refactor, "optimisation" or feature addition (off-by-one at a boundary, swapped operand or byte order in one branch, wrong constant in one table row, a dropped field, a cache not invalidated, a changed threshold or comparison, a condition inverted in a rarely taken branch, a shortcut that skips a check …). Each change must need something SPECIFIC to manifest — a particular boundary value, an unusual input, a multi-step sequence of operations, a rare configuration, or two cooperating edits that each look fine alone — not something ordinary use (or the existing tests) would expose at once. Make the changes hit DIFFERENT mechanisms of the property.

For each change:
1. Edit the worktree. The baseline on the UNCHANGED tree is already recorded: `/venv/bin/python -m pytest -q -p no:cacheprovider --timeout=900 --continue-on-collection-errors` gives "43 failed, 536 passed, 8 skipped, 48 errors" in about 3.5 minutes (the failures/errors are tests that need the network — they fail by design); do not run the suite in /repo itself. Run the same command in your changed worktree (`cd <worktree> && HOME=/tmp/mut/home_{pid} PYTHONPATH=<worktree> /venv/bin/python -m pytest -q -p no:cacheprovider --timeout=900 --continue-on-collection-errors 2>&1 | tail -3`; you may first run only the test files that touch the code you changed to iterate faster, but the full run is what counts): the number of passed tests must be the same (536) — if a test that passed before now fails, your change is too visible: revise it.
2. Write a small demonstration program `demo.py` (plain Python using the library's public API; exits 0 when the property holds on its inputs and 1 when violated, printing what failed) that FAILS with your change and PASSES on the unchanged code (`PYTHONPATH=/repo`). Run both and record the outputs.
3. Save in /tmp/mut/out/{pid}-<letter>/ : `patch.diff` (`git -C <worktree> diff`), `demo.py`, and `meta.json` = {{"property": "{pid}", "summary": one sentence, "needs_to_manifest": what specific input/sequence/configuration triggers it, "tests_run": the command and its result line on the changed tree, "demo_unchanged": output + exit code on the unchanged tree, "demo_changed": output + exit code on the changed tree}}.
4. Remove the worktree when done: `git -C /repo worktree remove --force /tmp/mut/{pid}_<letter>` and delete your private home/data directories.

Final message: list the changes with one line each and the paths of the saved files.""")
