#!/usr/bin/env python3
"""tools/seed_eval.py <src_dir> <seed_id> [--no-suite]
Confirm an independently written breaking change and record it under /verif/seeded/<seed_id>/:
 1. scratch worktree of /repo (outside /repo and /verif), apply patch.diff
 2. demo.py must exit 0 on the unchanged tree and non-zero on the changed tree
 3. the pinned suite (BASELINE stable_pass) must still pass on the changed tree (private HOME)
 4. apply the patch to /repo, run ./check <prop> --tier quick, undo; record whether it is detected
"""
import json, os, shutil, subprocess, sys, xml.etree.ElementTree as ET

src, sid = sys.argv[1], sys.argv[2]
do_suite = '--no-suite' not in sys.argv
meta = json.load(open(os.path.join(src, 'meta.json')))
prop = meta['property']
wt = '/tmp/seedwt_' + sid.replace('-', '_')
home = '/tmp/seedhome_' + sid.replace('-', '_')


def sh(cmd, **kw):
    p = subprocess.run(cmd, shell=True, stdout=subprocess.PIPE, stderr=subprocess.STDOUT, text=True, **kw)
    return p.returncode, p.stdout


def envfor(repo):
    e = dict(os.environ)
    e.update(PYTHONPATH=repo, HOME=home, BCL_DATA_DIR=os.path.join(home, 'data_' + os.path.basename(repo)) + '/',
             PYTHONHASHSEED='0')
    return e


shutil.rmtree(home, ignore_errors=True)
os.makedirs(home)
sh('git -C /repo worktree remove --force %s' % wt)
rc, out = sh('git -C /repo worktree add %s HEAD' % wt)
assert rc == 0, out
result = {'seed': sid, 'property': prop}
try:
    rc, out = sh('git -C %s apply %s' % (wt, os.path.abspath(os.path.join(src, 'patch.diff'))))
    result['patch_applies'] = rc == 0
    assert rc == 0, out
    demo = os.path.abspath(os.path.join(src, 'demo.py'))
    rc0, o0 = sh('/venv/bin/python %s' % demo, env=envfor('/repo'), cwd=home)
    rc1, o1 = sh('/venv/bin/python %s' % demo, env=envfor(wt), cwd=home)
    result['demo_unchanged'] = {'exit': rc0, 'tail': o0[-300:]}
    result['demo_changed'] = {'exit': rc1, 'tail': o1[-300:]}
    result['demo_confirms'] = (rc0 == 0 and rc1 != 0)
    if do_suite:
        base = json.load(open('/root/.vp/BASELINE.json'))
        xml = os.path.join(home, 'junit.xml')
        cmd = base['cmd'].replace('cd /repo', 'cd ' + wt).replace('<file>', xml)
        e = envfor(wt)
        rc, out = sh(cmd, env=e)
        passed = set()
        for tc in ET.parse(xml).getroot().iter('testcase'):
            if not any(c.tag in ('failure', 'error', 'skipped') for c in tc):
                passed.add('%s::%s' % (tc.get('classname'), tc.get('name')))
        missing = [t for t in base['stable_pass'] if t not in passed]
        result['suite'] = {'stable_pass': len(base['stable_pass']), 'missing': missing[:10], 'ok': not missing,
                           'tail': out.strip().split('\n')[-1]}
    # detection by the registered check: on /repo itself (patch applied, undone straight afterwards) with --on-repo,
    # otherwise on the scratch worktree through VERIF_REPO (same check, lets several evaluations run while /repo is in use)
    if '--on-repo' in sys.argv:
        st = sh('git -C /repo status --porcelain')[1].strip()
        assert st == '', 'repo not clean: ' + st
        rc, out = sh('git -C /repo apply %s' % os.path.abspath(os.path.join(src, 'patch.diff')))
        try:
            rc, out = sh('./check %s --tier quick' % prop, cwd='/verif')
        finally:
            sh('git -C /repo checkout -- .')
        result['check_target'] = '/repo with the patch applied'
    else:
        e = dict(os.environ); e['VERIF_REPO'] = wt
        rc, out = sh('./check %s --tier quick' % prop, cwd='/verif', env=e)
        result['check_target'] = 'scratch worktree with the patch applied (VERIF_REPO)'
finally:
    sh('git -C /repo worktree remove --force %s' % wt)
    shutil.rmtree(home, ignore_errors=True)
viol = [l for l in out.split('\n') if l.startswith('VIOLATION')]
result['check'] = {'cmd': './check %s --tier quick' % prop, 'exit': rc, 'violation_lines': len(viol),
                   'first': viol[:2], 'with_failing_input': any('no-failing-input-found' not in v for v in viol)}
result['detected'] = rc == 1 and bool(viol)
dst = os.path.join('/verif/seeded', sid)
os.makedirs(dst, exist_ok=True)
for f in ('patch.diff', 'demo.py'):
    shutil.copy(os.path.join(src, f), dst)
meta_out = {'property': prop, 'summary': meta.get('summary'), 'needs_to_manifest': meta.get('needs_to_manifest'),
            'author': 'independent sub-agent given only the property text and a scratch worktree',
            'author_notes': {k: meta[k] for k in meta if k not in ('property', 'summary', 'needs_to_manifest')},
            'confirmed': result}
json.dump(meta_out, open(os.path.join(dst, 'meta.json'), 'w'), indent=1)
print(json.dumps({k: result[k] for k in ('seed', 'demo_confirms', 'detected')}),
      'suite_ok=%s' % result.get('suite', {}).get('ok'), result['check']['first'][:1])
