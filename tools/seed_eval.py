#!/usr/bin/env python3
"""tools/seed_eval.py <src_dir> <seed_id> [--no-suite] [--on-repo] [--thorough] [--recheck]
Confirm an independently written breaking change and record it under /verif/seeded/<seed_id>/:
 1. scratch worktree of /repo (outside /repo and /verif), apply patch.diff
 2. demo.py must exit 0 on the unchanged tree and non-zero on the changed tree
 3. the pinned suite (BASELINE stable_pass) must still pass on the changed tree (private HOME)
 4. run ./check <prop> against the changed tree; record whether it is detected
    default: VERIF_REPO=<scratch worktree> from a private copy of /verif (parallel-safe);
    --on-repo: apply the patch to /repo itself, run the registered check in /verif, undo straight afterwards.
 --recheck: <src_dir> is an existing /verif/seeded/<id>; only step 4 is repeated and meta.json updated.
"""
import json, os, shutil, subprocess, sys, xml.etree.ElementTree as ET

args = [a for a in sys.argv[1:] if not a.startswith('--')]
flags = {a for a in sys.argv[1:] if a.startswith('--')}
src, sid = args[0], args[1]
recheck = '--recheck' in flags
do_suite = '--no-suite' not in flags and not recheck
tier = 'thorough' if '--thorough' in flags else 'quick'
meta = json.load(open(os.path.join(src, 'meta.json')))
prop = meta['property']
tag = sid.replace('-', '_')
wt = '/tmp/seedwt_' + tag
home = '/tmp/seedhome_' + tag
patch = os.path.abspath(os.path.join(src, 'patch.diff'))


def sh(cmd, **kw):
    p = subprocess.run(cmd, shell=True, stdout=subprocess.PIPE, stderr=subprocess.STDOUT, text=True, **kw)
    return p.returncode, p.stdout


def envfor(repo):
    e = dict(os.environ)
    e.update(PYTHONPATH=repo, HOME=home, BCL_DATA_DIR=os.path.join(home, 'data_' + os.path.basename(repo)) + '/',
             PYTHONHASHSEED='0')
    return e


shutil.rmtree(home, ignore_errors=True)
os.makedirs(home)
sh('git -C /repo worktree remove --force %s' % wt)
rc, out = sh('git -C /repo worktree add %s HEAD' % wt)
assert rc == 0, out
result = dict(meta.get('confirmed') or {}) if recheck else {}
result.update(seed=sid, property=prop)
try:
    rc, out = sh('git -C %s apply %s' % (wt, patch))
    rebased = None
    if rc != 0:
        # /repo moved on (fix: commits) since the change was written: three-way apply, keep the rebased patch
        rc, out = sh('git -C %s apply --3way %s' % (wt, patch))
        if rc == 0:
            sh('git -C %s reset -q' % wt)
            rebased = sh('git -C %s diff' % wt)[1]
    result['patch_applies'] = rc == 0
    assert rc == 0, out
    if not recheck:
        demo = os.path.abspath(os.path.join(src, 'demo.py'))
        rc0, o0 = sh('/venv/bin/python %s' % demo, env=envfor('/repo'), cwd=home)
        rc1, o1 = sh('/venv/bin/python %s' % demo, env=envfor(wt), cwd=home)
        result['demo_unchanged'] = {'exit': rc0, 'tail': o0[-300:]}
        result['demo_changed'] = {'exit': rc1, 'tail': o1[-300:]}
        result['demo_confirms'] = (rc0 == 0 and rc1 != 0)
    if do_suite:
        base = json.load(open('/root/.vp/BASELINE.json'))
        xml = os.path.join(home, 'junit.xml')
        cmd = base['cmd'].replace('cd /repo', 'cd ' + wt).replace('<file>', xml)
        rc, out = sh(cmd, env=envfor(wt))
        passed = set()
        for tc in ET.parse(xml).getroot().iter('testcase'):
            if not any(c.tag in ('failure', 'error', 'skipped') for c in tc):
                passed.add('%s::%s' % (tc.get('classname'), tc.get('name')))
        missing = [t for t in base['stable_pass'] if t not in passed]
        result['suite'] = {'stable_pass': len(base['stable_pass']), 'missing': missing[:10], 'ok': not missing,
                           'tail': out.strip().split('\n')[-1]}
    if '--on-repo' in flags:
        st = sh('git -C /repo status --porcelain')[1].strip()
        assert st == '', 'repo not clean: ' + st
        rc, out = sh('git -C /repo apply %s' % patch)
        assert rc == 0, out
        try:
            rc, out = sh('./check %s --tier %s' % (prop, tier), cwd='/verif')
        finally:
            sh('git -C /repo checkout -- .')
        result['check_target'] = '/repo with the patch applied (undone afterwards)'
    else:
        vcopy = '/tmp/seedverif_' + tag
        shutil.rmtree(vcopy, ignore_errors=True)
        sh('rsync -a --exclude .git --exclude run --exclude seeded /verif/ %s/' % vcopy)
        e = dict(os.environ)
        e['VERIF_REPO'] = wt
        try:
            rc, out = sh('./check %s --tier %s' % (prop, tier), cwd=vcopy, env=e)
        finally:
            rep = os.path.join(vcopy, 'run', 'replays')
            first_replay = None
            if os.path.isdir(rep):
                fs = sorted(os.listdir(rep))
                if fs:
                    first_replay = open(os.path.join(rep, fs[0])).read()[:3000]
            shutil.rmtree(vcopy, ignore_errors=True)
        out = out.replace(vcopy, '/verif')
        result['check_target'] = 'scratch worktree with the patch applied (VERIF_REPO, private copy of /verif)'
        if first_replay:
            result['first_replay_excerpt'] = first_replay.replace(vcopy, '/verif')
finally:
    sh('git -C /repo worktree remove --force %s' % wt)
    shutil.rmtree(home, ignore_errors=True)
viol = [l for l in out.split('\n') if l.startswith('VIOLATION')]
result['check'] = {'cmd': './check %s --tier %s' % (prop, tier), 'exit': rc, 'violation_lines': len(viol),
                   'first': viol[:2], 'with_failing_input': any('no-failing-input-found' not in v for v in viol),
                   'summary_line': out.strip().split('\n')[-1][:300]}
result['detected'] = rc == 1 and bool(viol)
dst = os.path.join('/verif/seeded', sid)
os.makedirs(dst, exist_ok=True)
if not recheck:
    for f in ('patch.diff', 'demo.py'):
        shutil.copy(os.path.join(src, f), dst)
    if rebased:
        shutil.copy(os.path.join(src, 'patch.diff'), os.path.join(dst, 'patch.orig.diff'))
        open(os.path.join(dst, 'patch.diff'), 'w').write(rebased)
    meta_out = {'property': prop, 'summary': meta.get('summary'), 'needs_to_manifest': meta.get('needs_to_manifest'),
                'author': 'independent sub-agent given only the property text and a scratch worktree',
                'author_notes': {k: meta[k] for k in meta if k not in ('property', 'summary', 'needs_to_manifest')},
                'confirmed': result}
else:
    meta_out = meta
    meta_out['confirmed'] = result
    if rebased:
        if not os.path.exists(os.path.join(dst, 'patch.orig.diff')):
            shutil.copy(os.path.join(dst, 'patch.diff'), os.path.join(dst, 'patch.orig.diff'))
        open(os.path.join(dst, 'patch.diff'), 'w').write(rebased)
json.dump(meta_out, open(os.path.join(dst, 'meta.json'), 'w'), indent=1)
print(json.dumps({k: result.get(k) for k in ('seed', 'demo_confirms', 'detected')}),
      'suite_ok=%s' % result.get('suite', {}).get('ok'), 'rc=%s' % rc, result['check']['first'][:1],
      result['check']['summary_line'][:160])
