#!/usr/bin/env python3
"""tools/seed_rebase.py : make sure every /verif/seeded/<id>/patch.diff applies to /repo HEAD.
Patches that no longer apply are re-created with a three-way merge in a scratch worktree (original kept as
patch.orig.diff); the ones that conflict are listed for hand-porting."""
import os, subprocess, sys
def sh(c): 
    p = subprocess.run(c, shell=True, stdout=subprocess.PIPE, stderr=subprocess.STDOUT, text=True); return p.returncode, p.stdout
wt = '/tmp/seedrebase_wt'
sh('git -C /repo worktree remove --force %s' % wt)
rc, out = sh('git -C /repo worktree add %s HEAD' % wt); assert rc == 0, out
bad, fixed, ok = [], [], 0
try:
    for sid in sorted(os.listdir('/verif/seeded')):
        p = '/verif/seeded/%s/patch.diff' % sid
        if not os.path.exists(p): continue
        rc, _ = sh('git -C %s apply --check %s' % (wt, p))
        if rc == 0:
            ok += 1; continue
        rc, out = sh('git -C %s apply --3way %s' % (wt, p))
        if rc == 0:
            sh('git -C %s reset -q' % wt)
            new = sh('git -C %s diff' % wt)[1]
            if not os.path.exists(p.replace('patch.diff', 'patch.orig.diff')):
                os.rename(p, p.replace('patch.diff', 'patch.orig.diff'))
            open(p, 'w').write(new); fixed.append(sid)
        else:
            bad.append(sid)
        sh('git -C %s reset -q --hard; git -C %s clean -fdq' % (wt, wt))
finally:
    sh('git -C /repo worktree remove --force %s' % wt)
print('apply cleanly: %d; rebased: %s; NEED HAND-PORTING: %s' % (ok, fixed, bad))
