(* c20_driver.ml — evaluates the extracted C20 model (Model/Service.v, Model/CacheModel.v) on request lines.
   Same line protocol as harness/impl/c20_impl.py (see there). *)
module BZ = Z
open C20_model
module H = Common.Make (struct type byte = C20_model.byte let zb = C20_model.zb let bz = C20_model.bz end)
open H

let zi s = BZ.of_string s
let zs z = BZ.to_string z
let tail s = String.sub s 1 (String.length s - 1)
let rec nat_of_int n = if n <= 0 then O else S (nat_of_int (n - 1))

let parse_val t : value =
  match t.[0] with
  | 'i' -> VInt (zi (tail t))
  | 'N' -> VNone
  | 's' -> VStr (zi (tail t))
  | 'B' -> VBool (tail t = "1")
  | 't' ->
      let k = zi (String.sub t 1 (String.length t - 2)) in
      let spent = (match BZ.to_int k with 0 | 3 -> Some false | 2 -> Some true | _ -> None) in   (* corpus table, see adapter *)
      VTx { t_txid = k; t_content = k; t_confirmed = (t.[String.length t - 1] = 'c'); t_spent = spent }
  | 'L' ->
      (match String.split_on_char 'v' (tail t) with
       | [n; b] -> let n = int_of_string n and b = zi b in
           VUtxos (List.init n (fun j -> BZ.add b (BZ.of_int j)))
       | _ -> failwith "L")
  | 'd' -> VDict (zi (tail t))
  | 'r' -> VRaw (zi (tail t))
  | _ -> failwith ("val " ^ t)

let flag_tok = function None -> "N" | Some false -> "F" | Some true -> "T"
let atx_token (t : atx) = zs t.atx_id ^ "h" ^ zs t.atx_height ^ "s" ^ flag_tok t.atx_spent

let val_token = function
  | VInt z -> "i" ^ zs z
  | VNone -> "N"
  | VStr id -> "s" ^ zs id
  | VBool b -> if b then "T" else "F"
  | VTx t -> "t" ^ zs t.t_content ^ (if t.t_confirmed then "c" else "u") ^ "@" ^ zs t.t_txid
  | VUtxos [] -> "L0v0"
  | VUtxos (b :: tl) -> "L" ^ string_of_int (1 + List.length tl) ^ "v" ^ zs b
  | VDict id -> "d" ^ zs id
  | VRaw k -> "r" ^ zs k
  | VTxs l -> "X" ^ String.concat "." (List.map atx_token l)
  | VUtxoL l -> "U" ^ String.concat "." (List.map (fun u -> zs u.u_txid ^ "n" ^ zs u.u_n ^ "v" ^ zs u.u_value ^ "h" ^ zs u.u_height) l)
  | VAtx t -> "x" ^ atx_token t
  | VBlock (h, cnt, txs, parsed) ->
    "B" ^ zs h ^ "c" ^ zs cnt ^ ":" ^
    String.concat "." (List.map (fun t -> if parsed then atx_token t else "i" ^ zs t.atx_id) txs)

(* inside .results the list answers are shown by their transaction ids only (the objects are updated in place) *)
let res_val_token = function
  | VTxs l -> "Xi" ^ String.concat "." (List.map (fun t -> zs t.atx_id) l)
  | VUtxoL l -> "Ui" ^ String.concat "." (List.map (fun u -> zs u.u_txid) l)
  | VAtx t -> "xi" ^ zs t.atx_id
  | VBlock (h, _, _, _) -> "Bi" ^ zs h
  | v -> val_token v

let outcome_of static tok : outcome =
  match static with
  | "u" | "k" -> Skip
  | "m" -> RaiseAttr
  | "x" -> Raise (BZ.of_int 99)
  | _ ->
    (match tok.[0] with
     | 'o' -> Ok (parse_val (tail tok))
     | 'e' -> Raise (zi (tail tok))
     | 'a' -> RaiseAttr
     | 'f' -> Empty
     | 'n' | '-' -> Skip
     | _ -> failwith ("outcome " ^ tok))

let opt_tok = function None -> "N" | Some z -> "i" ^ zs z

let wres_token = function
  | WRet v -> val_token v
  | WAddr None -> "A-"
  | WAddr (Some r) -> "A" ^ String.concat "." [opt_tok r.a_balance; opt_tok r.a_last_block; opt_tok r.a_n_txs; opt_tok r.a_n_utxos]
  | WServiceErr -> "SERVICEERR"
  | WOtherErr -> "OTHERERR"

let res_s (r : (BZ.t * value) list) =
  if r = [] then "-" else String.concat "," (List.map (fun (n, v) -> zs n ^ ":" ^ res_val_token v) r)
let err_s (e : (BZ.t * errtok) list) =
  if e = [] then "-" else String.concat "," (List.map (fun (n, t) -> zs n ^ ":" ^ (match t with EExc i -> "e" ^ zs i | EEmpty -> "E")) e)

let meth = function
  | "init" -> MInit | "getbalance" -> MGetbalance | "getutxos" -> MGetutxos | "gettransaction" -> MGettransaction
  | "getrawtransaction" -> MGetrawtransaction | "isspent" -> MIsspent | "estimatefee" -> MEstimatefee
  | "blockcount" -> MBlockcount | "sendrawtransaction" | "getrawblock" | "mempool" | "getinfo" -> MPassthrough
  | "cacheinfo" -> MCacheinfo | m -> failwith ("method " ^ m)

let optz s = if s = "N" then None else Some (zi s)

let run_step net (c, clock, outs) step =
  match String.split_on_char '/' step with
  | [m; arg; minp; maxp; maxe; dt; provs] ->
    if m = "seedaddr" then
      (match String.split_on_char '.' arg with
       | [a; lb; bal] -> (cache_store_address c (zi a) (optz lb) (optz bal) None, clock, "seeded" :: outs)
       | _ -> failwith "seedaddr")
    else begin
      let ps = if provs = "-" then [] else List.map (fun t ->
          match String.split_on_char ':' t with
          | [id; prio; tb; st; bc; q] -> ({ p_id = zi id; p_prio = zi prio; p_tb = zi tb }, (st, bc, q))
          | _ -> failwith "prov") (String.split_on_char '+' provs) in
      let order = lib_order (List.map fst ps) in
      let find id = snd (List.find (fun (p, _) -> BZ.equal p.p_id id) ps) in
      let bc_ps = List.map (fun p -> let (st, bc, _) = find p.p_id in (p.p_id, outcome_of st bc)) order in
      let isbc = (m = "blockcount" || m = "init") in
      let q_ps = if isbc then bc_ps
        else List.map (fun p -> let (st, _, q) = find p.p_id in (p.p_id, outcome_of st q)) order in
      let q_ps_empty = List.map (fun (n, o) -> (n, match o with Ok (VInt _) -> Ok (VInt BZ.zero) | o -> o)) q_ps in
      let st = { st_minp = zi minp; st_maxp = zi maxp; st_maxe = zi maxe; st_net = net } in
      let now = BZ.add (BZ.of_int 1000000) clock in
      let dt = zi dt in
      let (obs, c') = lib_step st now dt bc_ps q_ps q_ps_empty (meth m) (zi arg) c in
      let s = match obs with
        | SInitErr -> "INITERR"
        | SInitOther -> "INITOTHERERR"
        | SInitOk (r, e) -> "ok R=" ^ res_s r ^ " E=" ^ err_s e
        | SObs (w, r, e) -> wres_token w ^ " R=" ^ res_s r ^ " E=" ^ err_s e in
      let clock' = match obs with SInitErr | SInitOther -> clock | _ -> BZ.add clock dt in
      (c', clock', s :: outs)
    end
  | _ -> failwith "step"

(* ---- the address index (mode xfile / xoff): <net> <mode> W:<tx>,<tx>,.. <step> ..
   tx = height.src.dst.oidx.value.flag.storable   src: F | j (spends the observed output of world tx j)
   dst: 0 | 1 | B    flag: N | F | T   (transaction ids are positions in the world) *)
let parse_world w : (atx * bool) array =
  let body = String.sub w 2 (String.length w - 2) in
  let specs = if body = "" then [] else String.split_on_char ',' body in
  let arr = Array.make (List.length specs) None in
  let acc = Array.make (List.length specs) false in
  List.iteri (fun k sp ->
    match String.split_on_char '.' sp with
    | [h; src; dst; oidx; v; fl; stor] ->
      let dst_o = (match dst with "B" -> None | d -> Some (zi d)) in
      let (src_o, prev) =
        if src = "F" then (None, (BZ.of_int (1000 + k), BZ.zero))
        else (let j = int_of_string src in
              match arr.(j) with
              | Some (tj : atx) ->
                ((match tj.atx_dst with Some a -> Some (a, tj.atx_value) | None -> None), (tj.atx_id, tj.atx_oidx))
              | None -> failwith "world src") in
      acc.(k) <- (fl = "A");
      arr.(k) <- Some { atx_id = BZ.of_int k; atx_height = zi h; atx_storable = (stor = "1"); atx_src = src_o;
                        atx_prev = prev; atx_dst = dst_o; atx_oidx = zi oidx; atx_value = zi v;
                        atx_spent = (match fl with "N" | "A" -> None | "F" -> Some false | "T" -> Some true | _ -> failwith "flag") }
    | _ -> failwith "world tx") specs;
  Array.mapi (fun k -> function Some t -> (t, acc.(k)) | None -> failwith "world") arr

(* what a provider that knows the first m transactions reports: flag A = the true spent status within its view *)
let view_of (world : (atx * bool) array) m : atx list =
  let m = min m (Array.length world) in
  let v = Array.to_list (Array.sub world 0 m) in
  List.map (fun ((t : atx), accurate) ->
    if accurate then
      { t with atx_spent = Some (List.exists (fun ((s : atx), _) ->
          BZ.equal (fst s.atx_prev) t.atx_id && BZ.equal (snd s.atx_prev) t.atx_oidx) v) }
    else t) v

(* a block is known to a provider when all its transactions are: the view is cut back to complete blocks *)
let block_view (world : (atx * bool) array) m : atx list =
  let v = view_of world m in
  let n = Array.length world in
  let m = min m n in
  List.filter (fun (t : atx) ->
    BZ.sign t.atx_height > 0 &&
    not (List.exists (fun k -> BZ.equal (fst world.(k)).atx_height t.atx_height) (List.init (n - m) (fun i -> m + i)))) v

let aoutcome_of ?(blocks = false) world static tok : aoutcome =
  match static with
  | "u" | "k" | "m" | "x" -> AOut (outcome_of static tok)
  | _ ->
    if tok.[0] = 'v' then
      (let m = int_of_string (tail tok) in AView (if blocks then block_view world m else view_of world m))
    else AOut (outcome_of static tok)

let opt_id s = if s = "-" then None else if s = "x" then Some (BZ.of_int 9999) else Some (zi s)

let xmeth m arg : xmethod =
  match m with
  | "gettransactions" | "getutxosx" ->
    (match String.split_on_char '.' arg with
     | [a; after; limit] ->
       if m = "gettransactions" then XGettransactions (zi a, opt_id after, zi limit) else XGetutxos (zi a, opt_id after, zi limit)
     | _ -> failwith "xarg")
  | "gettransactionx" -> XGettransaction (match opt_id arg with Some k -> k | None -> failwith "txid")
  | "cacheinfo" -> XCacheinfo (zi arg)
  | "getblock" ->
    (match String.split_on_char '.' arg with
     | [h; parse; page; limit] -> XGetblock (zi h, parse = "1", zi page, zi limit)
     | _ -> failwith "getblock arg")
  | _ -> failwith ("xmethod " ^ m)

let kflag = function None -> "N" | Some true -> "T" | Some false -> "F"

let run_xstep net world (c, clock, outs) step =
  match String.split_on_char '/' step with
  | [m; arg; minp; maxp; maxe; dt; provs] ->
    let ps = if provs = "-" then [] else List.map (fun t ->
        match String.split_on_char ':' t with
        | [id; prio; tb; st; bc; q] -> ({ p_id = zi id; p_prio = zi prio; p_tb = zi tb }, (st, bc, q))
        | _ -> failwith "prov") (String.split_on_char '+' provs) in
    let order = lib_order (List.map fst ps) in
    let find id = snd (List.find (fun (p, _) -> BZ.equal p.p_id id) ps) in
    let bc_ps = List.map (fun p -> let (st, bc, _) = find p.p_id in (p.p_id, outcome_of st bc)) order in
    let q = List.map (fun p -> let (st, _, q) = find p.p_id in (p.p_id, aoutcome_of ~blocks:(m = "getblock") world st q)) order in
    let st = { st_minp = zi minp; st_maxp = zi maxp; st_maxe = zi maxe; st_net = net } in
    let now = BZ.add (BZ.of_int 1000000) clock in
    let dt = zi dt in
    let (obs, c') = lib_xstep st now dt bc_ps q (xmeth m arg) c in
    let s = match obs with
      | XInitErr -> "INITERR"
      | XInitOther -> "INITOTHERERR"
      | XObs (w, cn, k, r, e) -> wres_token w ^ " R=" ^ res_s r ^ " E=" ^ err_s e ^ " N=" ^ zs cn ^ " K=" ^ kflag k in
    let clock' = match obs with XInitErr | XInitOther -> clock | _ -> BZ.add clock dt in
    (c', clock', s :: outs)
  | _ -> failwith "step"

let dispatch = function
  | _ :: "http" :: _ -> "OUT-OF-MODEL"     (* the HTTP transport layer below the provider interface is judged by the oracle only *)
  | net :: mode :: w :: steps when (mode = "xfile" || mode = "xoff") && steps <> [] ->
    let nw = (match net with "bitcoin" -> nw_bitcoin | "testnet" -> nw_testnet | _ -> failwith "net") in
    let world = parse_world w in
    let c0 = empty_xcache (mode = "xfile") in
    let (_, _, outs) = List.fold_left (run_xstep nw world) (c0, BZ.zero, []) steps in
    String.concat " ; " (List.rev outs)
  | net :: mode :: steps when steps <> [] ->
    let nw = (match net with "bitcoin" -> nw_bitcoin | "testnet" -> nw_testnet | _ -> failwith "net") in
    let c0 = empty_cache (mode = "file") in
    let (_, _, outs) = List.fold_left (run_step nw) (c0, BZ.zero, []) steps in
    String.concat " ; " (List.rev outs)
  | _ -> "BADREQ"

let () = main dispatch
