(* c20_driver.ml — evaluates the extracted C20 model (Model/Service.v, Model/CacheModel.v) on request lines.
   Same line protocol as harness/impl/c20_impl.py (see there). *)
module BZ = Z
open C20_model
module H = Common.Make (struct type byte = C20_model.byte let zb = C20_model.zb let bz = C20_model.bz end)
open H

let zi s = BZ.of_string s
let zs z = BZ.to_string z
let tail s = String.sub s 1 (String.length s - 1)
let rec nat_of_int n = if n <= 0 then O else S (nat_of_int (n - 1))

let parse_val t : value =
  match t.[0] with
  | 'i' -> VInt (zi (tail t))
  | 'N' -> VNone
  | 's' -> VStr (zi (tail t))
  | 'B' -> VBool (tail t = "1")
  | 't' ->
      let k = zi (String.sub t 1 (String.length t - 2)) in
      let spent = (match BZ.to_int k with 0 | 3 -> Some false | 2 -> Some true | _ -> None) in   (* corpus table, see adapter *)
      VTx { t_txid = k; t_content = k; t_confirmed = (t.[String.length t - 1] = 'c'); t_spent = spent }
  | 'L' ->
      (match String.split_on_char 'v' (tail t) with
       | [n; b] -> let n = int_of_string n and b = zi b in
           VUtxos (List.init n (fun j -> BZ.add b (BZ.of_int j)))
       | _ -> failwith "L")
  | 'd' -> VDict (zi (tail t))
  | 'r' -> VRaw (zi (tail t))
  | _ -> failwith ("val " ^ t)

let val_token = function
  | VInt z -> "i" ^ zs z
  | VNone -> "N"
  | VStr id -> "s" ^ zs id
  | VBool b -> if b then "T" else "F"
  | VTx t -> "t" ^ zs t.t_content ^ (if t.t_confirmed then "c" else "u") ^ "@" ^ zs t.t_txid
  | VUtxos [] -> "L0v0"
  | VUtxos (b :: tl) -> "L" ^ string_of_int (1 + List.length tl) ^ "v" ^ zs b
  | VDict id -> "d" ^ zs id
  | VRaw k -> "r" ^ zs k

let outcome_of static tok : outcome =
  match static with
  | "u" | "k" -> Skip
  | "m" -> RaiseAttr
  | "x" -> Raise (BZ.of_int 99)
  | _ ->
    (match tok.[0] with
     | 'o' -> Ok (parse_val (tail tok))
     | 'e' -> Raise (zi (tail tok))
     | 'a' -> RaiseAttr
     | 'f' -> Empty
     | 'n' | '-' -> Skip
     | _ -> failwith ("outcome " ^ tok))

let opt_tok = function None -> "N" | Some z -> "i" ^ zs z

let wres_token = function
  | WRet v -> val_token v
  | WAddr None -> "A-"
  | WAddr (Some r) -> "A" ^ String.concat "." [opt_tok r.a_balance; opt_tok r.a_last_block; opt_tok r.a_n_txs; opt_tok r.a_n_utxos]
  | WServiceErr -> "SERVICEERR"
  | WOtherErr -> "OTHERERR"

let res_s (r : (BZ.t * value) list) =
  if r = [] then "-" else String.concat "," (List.map (fun (n, v) -> zs n ^ ":" ^ val_token v) r)
let err_s (e : (BZ.t * errtok) list) =
  if e = [] then "-" else String.concat "," (List.map (fun (n, t) -> zs n ^ ":" ^ (match t with EExc i -> "e" ^ zs i | EEmpty -> "E")) e)

let meth = function
  | "init" -> MInit | "getbalance" -> MGetbalance | "getutxos" -> MGetutxos | "gettransaction" -> MGettransaction
  | "getrawtransaction" -> MGetrawtransaction | "isspent" -> MIsspent | "estimatefee" -> MEstimatefee
  | "blockcount" -> MBlockcount | "sendrawtransaction" | "getrawblock" | "mempool" | "getinfo" -> MPassthrough
  | "cacheinfo" -> MCacheinfo | m -> failwith ("method " ^ m)

let optz s = if s = "N" then None else Some (zi s)

let run_step net (c, clock, outs) step =
  match String.split_on_char '/' step with
  | [m; arg; minp; maxp; maxe; dt; provs] ->
    if m = "seedaddr" then
      (match String.split_on_char '.' arg with
       | [a; lb; bal] -> (cache_store_address c (zi a) (optz lb) (optz bal) None, clock, "seeded" :: outs)
       | _ -> failwith "seedaddr")
    else begin
      let ps = if provs = "-" then [] else List.map (fun t ->
          match String.split_on_char ':' t with
          | [id; prio; tb; st; bc; q] -> ({ p_id = zi id; p_prio = zi prio; p_tb = zi tb }, (st, bc, q))
          | _ -> failwith "prov") (String.split_on_char '+' provs) in
      let order = lib_order (List.map fst ps) in
      let find id = snd (List.find (fun (p, _) -> BZ.equal p.p_id id) ps) in
      let bc_ps = List.map (fun p -> let (st, bc, _) = find p.p_id in (p.p_id, outcome_of st bc)) order in
      let isbc = (m = "blockcount" || m = "init") in
      let q_ps = if isbc then bc_ps
        else List.map (fun p -> let (st, _, q) = find p.p_id in (p.p_id, outcome_of st q)) order in
      let q_ps_empty = List.map (fun (n, o) -> (n, match o with Ok (VInt _) -> Ok (VInt BZ.zero) | o -> o)) q_ps in
      let st = { st_minp = zi minp; st_maxp = zi maxp; st_maxe = zi maxe; st_net = net } in
      let now = BZ.add (BZ.of_int 1000000) clock in
      let dt = zi dt in
      let (obs, c') = lib_step st now dt bc_ps q_ps q_ps_empty (meth m) (zi arg) c in
      let s = match obs with
        | SInitErr -> "INITERR"
        | SInitOther -> "INITOTHERERR"
        | SInitOk (r, e) -> "ok R=" ^ res_s r ^ " E=" ^ err_s e
        | SObs (w, r, e) -> wres_token w ^ " R=" ^ res_s r ^ " E=" ^ err_s e in
      let clock' = match obs with SInitErr | SInitOther -> clock | _ -> BZ.add clock dt in
      (c', clock', s :: outs)
    end
  | _ -> failwith "step"

let dispatch = function
  | net :: mode :: steps when steps <> [] ->
    let nw = (match net with "bitcoin" -> nw_bitcoin | "testnet" -> nw_testnet | _ -> failwith "net") in
    let c0 = empty_cache (mode = "file") in
    let (_, _, outs) = List.fold_left (run_step nw) (c0, BZ.zero, []) steps in
    String.concat " ; " (List.rev outs)
  | _ -> "BADREQ"

let () = main dispatch
