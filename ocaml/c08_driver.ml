(* c08_driver.ml — runs the extracted C08 ledger model (database level: several wallets in one file, session and
   committed rows) over one concretised history per request line.

   request : hist <repaired> <strict> <del_commits> <mark_all> <del_own> <tok> <tok> ...      (flags 0/1: variant)
   tokens  : W:wid:nw:acct:bip32   a wallet is created in the file and becomes the current one
             @:wid                 the following tokens speak about wallet wid
             ops on the current wallet:
             K:id:nw:acct:depth | U:rescan:nw:acct:kf:utxos | C:nw:acct:minconf:sel | T:sent:txid:nw:acct:conf:ins:outs:raw
             | D:txid | R
             P:txids:groups        reading through a SECOND Wallet object / another process: the committed rows
             O[:groups] | OF[:groups]   observation through the live object    groups = nw.acct,nw.acct,...
             utxos = key/txid/n/value/conf,...   sel = txid/n,...   ins = idx/prev/n/value/key,...
             outs = n/value/key/spent,...  (key "-" = none; spent 0, 1 or "-" = None);  empty list "-"
   answer  : one item per token joined by "|": "w" / "@" for W / @, "g=<guard>[;k=1][;t=1][;refused=1]" for
             state-changing ops (k: class predicate store_respends, t: touches_others, refused: delete_blocked),
             "g=..;sel=.." for C, for P
             kbpre=..;utxos_pre=..;txs_pre=..;pa_pre=..
             and for O / OF the observation
             bal=..;utxos=..;kb=..;txs=..;pa=..;kbA=..;ka=..;x=..
             (OF prints the raw bytes of every transaction too).  pa: for every listed group, after the default
             readings, the BalanceOf / UtxosOf steps  "nw.acct~balance~utxos" joined by "+"; kbA: the key balances
             after these steps; ka: key id : nw.acct of every key; x: class predicate has_cross of the state. *)
module BZ = Z
open C08_model
module H = Common.Make (struct type byte = C08_model.byte let zb = C08_model.zb let bz = C08_model.bz end)
open H

let z = BZ.of_string
let zs = BZ.to_string
let txid_of h = BZ.of_string ("0x" ^ h)
let hex_txid t = BZ.format "%064x" t
let split c s = if s = "-" || s = "" then [] else String.split_on_char c s
let optz s = if s = "-" then None else Some (z s)
let s_optz = function None -> "-" | Some k -> zs k
let b01 s = s = "1"

let parse_op (t : string) : op option * string =
  match String.split_on_char ':' t with
  | ["K"; id; nw; acct; depth] -> Some (NewKey (z id, (z nw, z acct), z depth)), "K"
  | ["U"; rescan; nw; acct; kf; us] ->
      let us = List.map (fun u -> match String.split_on_char '/' u with
          | [k; tx; n; v; c] -> { p_key = z k; p_txid = txid_of tx; p_n = z n; p_value = z v; p_conf = z c }
          | _ -> failwith "putxo") (split ',' us) in
      Some (UtxosUpdate (b01 rescan, (z nw, z acct), optz kf, us)), "U"
  | ["C"; nw; acct; minconf; sel] ->
      let sel = List.map (fun p -> match String.split_on_char '/' p with
          | [tx; n] -> (txid_of tx, z n) | _ -> failwith "sel") (split ',' sel) in
      Some (Select ((z nw, z acct), z minconf, sel)), "C"
  | ["T"; sent; txid; nw; acct; conf; ins; outs; raw] ->
      let ins = List.map (fun i -> match String.split_on_char '/' i with
          | [idx; prev; n; v; k] -> { i_idx = z idx; i_prev = txid_of prev; i_n = z n; i_value = z v; i_key = optz k }
          | _ -> failwith "inp") (split ',' ins) in
      let outs = List.map (fun o -> match String.split_on_char '/' o with
          | [n; v; k; sp] -> ({ o_n = z n; o_value = z v; o_key = optz k; o_spent = (sp = "1") }, sp <> "-")
          | _ -> failwith "outp") (split ',' outs) in
      Some (Store (b01 sent, { d_txid = txid_of txid; d_grp = (z nw, z acct); d_conf = z conf; d_ins = ins;
                               d_outs = outs; d_raw = bytes_of_hex raw })), "T"
  | ["D"; txid] -> Some (Delete (txid_of txid)), "D"
  | ["R"] -> Some Reopen, "R"
  | ["O"] -> None, "O"
  | ["OF"] -> None, "OF"
  | ["O"; _] -> None, "O"
  | ["OF"; _] -> None, "OF"
  | _ -> failwith ("op " ^ t)

let cmpz = BZ.compare

let s_kb ks =
  String.concat "," (List.map (fun k -> zs k.k_id ^ ":" ^ zs k.k_bal)
                       (List.sort (fun a b -> cmpz a.k_id b.k_id) ks))

let s_utxos us =
  let l = List.map (fun u -> hex_txid u.u_txid ^ "/" ^ zs u.u_n ^ "/" ^ zs u.u_value ^ "/" ^ zs u.u_key ^ "/" ^ zs u.u_conf) us in
  String.concat "," (List.sort compare l)

let s_tx full t =
  let ins = List.sort (fun a b -> cmpz a.i_idx b.i_idx) t.t_ins in
  let outs = List.sort (fun a b -> cmpz a.o_n b.o_n) t.t_outs in
  hex_txid t.t_txid ^ "~" ^ zs t.t_conf ^ "~"
  ^ String.concat "," (List.map (fun i -> zs i.i_idx ^ "/" ^ hex_txid i.i_prev ^ "/" ^ zs i.i_n ^ "/" ^ zs i.i_value) ins) ^ "~"
  ^ String.concat "," (List.map (fun o -> zs o.o_n ^ "/" ^ zs o.o_value ^ "/" ^ s_optz o.o_key ^ "/" ^ (if o.o_spent then "1" else "0")) outs)
  ^ (if full then "~" ^ hex_of_bytes t.t_raw else "")

let s_txs full txs =
  String.concat "," (List.sort compare (List.map (s_tx full) txs))

let groups_of (t : string) =
  match String.split_on_char ':' t with
  | [_; gs] -> List.map (fun g -> match String.split_on_char '.' g with
      | [nw; a] -> (z nw, z a) | _ -> failwith "group") (split ',' gs)
  | _ -> []

let s_ka ks =
  String.concat "," (List.map (fun k -> zs k.k_id ^ ":" ^ zs (fst k.k_grp) ^ "." ^ zs (snd k.k_grp))
                       (List.sort (fun a b -> cmpz a.k_id b.k_id) ks))

let observe v db wid full groups =
  let stepw db o = match db_step_gen v db wid o with
    | (db', DOut out) -> (db', out)
    | (db', _) -> (db', ONone) in
  let (db1, o) = stepw db Balance in
  let bal = match o with OBal b -> zs b | _ -> "?" in
  let (db2, o2) = stepw db1 Utxos in
  let ut = match o2 with OUtxos l -> s_utxos l | _ -> "?" in
  let live d = match find_wal d wid with Some w -> w.wl_live | None -> failwith "no wallet" in
  let s2 = live db2 in
  let base = "bal=" ^ bal ^ ";utxos=" ^ ut ^ ";kb=" ^ s_kb s2.l_keys ^ ";txs=" ^ s_txs full s2.l_txs in
  (* balance(account_id=a[, network]) and utxos(account_id=a[, network]) for every group, in the order given *)
  let (db3, pa) = List.fold_left (fun (d, acc) (nw, a) ->
      let fn = if BZ.equal nw (fst (live d).l_default) then None else Some nw in
      let (da, oa) = stepw d (BalanceOf (Some a, fn)) in
      let b = match oa with OBal b -> zs b | _ -> "?" in
      let (dbb, ob) = stepw da (UtxosOf ((nw, a), BZ.zero)) in
      let u = match ob with OUtxos l -> s_utxos l | _ -> "?" in
      (dbb, acc @ [zs nw ^ "." ^ zs a ^ "~" ^ b ^ "~" ^ u])) (db2, []) groups in
  let s3 = live db3 in
  (db3, base ^ ";pa=" ^ String.concat "+" pa ^ ";kbA=" ^ s_kb s3.l_keys ^ ";ka=" ^ s_ka s3.l_keys
        ^ ";x=" ^ (if has_cross s3 then "1" else "0"))

(* what a second Wallet object on the file reads: nothing is written *)
let preread db wid txids groups =
  let w = match find_wal db wid with Some w -> w | None -> failwith "no wallet" in
  let s = open_disk w in
  let sel = List.filter (fun t -> List.exists (fun x -> BZ.equal x t.t_txid) txids) s.l_txs in
  let pa = List.map (fun (nw, a) -> zs nw ^ "." ^ zs a ^ "~" ^ s_utxos (utxos s (nw, a) BZ.zero)) groups in
  "kbpre=" ^ s_kb s.l_keys ^ ";utxos_pre=" ^ s_utxos (utxos s s.l_default BZ.zero)
  ^ ";txs_pre=" ^ s_txs false sel ^ ";pa_pre=" ^ String.concat "+" pa

let groups_of_s gs = List.map (fun g -> match String.split_on_char '.' g with
    | [nw; a] -> (z nw, z a) | _ -> failwith "group") (split ',' gs)

let dispatch = function
  | "hist" :: r :: st :: dc :: ma :: dow :: toks ->
      let v = { v_repaired = b01 r; v_strict = b01 st; v_del_commits = b01 dc; v_mark_all = b01 ma;
                v_del_own = b01 dow } in
      let db = ref [] and cur = ref BZ.zero in
      let outs = List.map (fun t ->
          match String.split_on_char ':' t with
          | ["W"; wid; nw; acct; bip32] ->
              db := db_create !db (z wid) (z nw, z acct) (b01 bip32); cur := z wid; "w"
          | ["@"; wid] -> cur := z wid; "@"
          | ["P"; txids; gs] -> preread !db !cur (List.map txid_of (split ',' txids)) (groups_of_s gs)
          | _ ->
          match parse_op t with
          | Some o, _ ->
              let live = match find_wal !db !cur with
                | Some w -> (match o with Reopen -> open_disk w | _ -> w.wl_live) | None -> failwith "no wallet" in
              let g = (if db_op_ok !db !cur o then "1" else "0") ^ (if store_respends live o then ";k=1" else "")
                      ^ (if touches_others v !db !cur o then ";t=1" else "") in
              let (db', out) = db_step_gen v !db !cur o in
              db := db';
              (match out with
               | DOut (OSel b) -> "g=" ^ g ^ ";sel=" ^ bool_s b
               | DRefused -> "g=" ^ g ^ ";refused=1"
               | _ -> "g=" ^ g)
          | None, k ->
              let (db', txt) = observe v !db !cur (k = "OF") (groups_of t) in
              db := db'; txt) toks in
      String.concat "|" outs
  | _ -> "BADREQ"

let () = main dispatch
