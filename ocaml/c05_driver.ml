(* c05_driver.ml — evaluates the extracted C05 model (coq/Model/AddrScript.v) on request lines.
   Request lines are shared with harness/impl/c05_impl.py; the model reads the decoded address token
   ("b58:<ver>:<hash>" / "bech:<hrp hex>:<witver>:<prog>") where the implementation reads the string.

     F <flags> ...           optional leading pair: which repairs the tree has ("11111" = all, "00000" = none; 4th flag:
                             1 = binary arguments are taken as they are, 0 = encoding.to_bytes as it is; 5th flag: 1 = an
                             address next to a public key is examined (fixes/C05-4))
     str    N via S T                    Output(address=S) on network N
     parse  N via S T pn                 Output(address=Address.parse(S, network=pn))
     aobj   N via A st enc wv hash orc   Output(address=Address(hashed_data=, script_type=, encoding=, witver=, network=A))
     adata  N via A st enc wv data h160 s256 orc   Output(address=Address(data=, script_type=, encoding=, witver=, network=A))
     hd     N via A wt ms pub h160 s256 orc [form]   Output(address=HDKey(..., network=A, witness_type=wt, multisig=ms));
                                         form raw (default) = HDKey(<public key bytes>): the multisig argument is overridden
                                         by the key-format guess (False); pubkc/priv64/privkc/keyobj/public keep it
     key    N via A form pub h160 s256 orc   Output(address=Key(..., network=A).address_obj)
     pk     N via st enc pub orc         Output(public_key=, script_type=, encoding=)
     hash   N via st wv enc hash orc     Output(public_hash=, script_type=, witver=, encoding=)
     script N via hex                    Output(lock_script=)
     gen    N via T S hash pub lock st wv enc orc   Output(address=S, public_hash=, public_key=, lock_script=,
                                         script_type=, witver=, encoding=)   ("-" = argument absent)
     spec_lock st wv payload | spec_classify hex | spec_addr N st wv payload | tobytes hex
   via: out = Output(...), add = Transaction.add_output(...) (to_bytes is applied to the script twice),
        tx = Transaction.parse of a raw transaction paying to the script, rt = Output(...) put into a Transaction, after
        Transaction.raw() and Transaction.parse()
   orc = comma separated in:out pairs for hash160 (or "-").
   Answer: "<lock hex> <script_type> <network> <address token>" | ERR | UNMODELLED *)
module BZ = Z
module M = C05_model
module H = Common.Make (struct type byte = M.byte let zb = M.zb let bz = M.bz end)
open H

let bit c i = (Char.code c lsr i) land 1 = 1
let rec coq_of_str (s : string) (i : int) : M.string =
  if i >= String.length s then M.EmptyString
  else
    let c = s.[i] in
    M.String (M.Ascii (bit c 0, bit c 1, bit c 2, bit c 3, bit c 4, bit c 5, bit c 6, bit c 7), coq_of_str s (i + 1))
let cs s = coq_of_str s 0
let rec str_of_coq (s : M.string) : string =
  match s with
  | M.EmptyString -> ""
  | M.String (M.Ascii (a, b, c, d, e, f, g, h), r) ->
      let v = List.fold_left (fun acc (x, k) -> if x then acc lor (1 lsl k) else acc) 0
          [ (a, 0); (b, 1); (c, 2); (d, 3); (e, 4); (f, 5); (g, 6); (h, 7) ] in
      String.make 1 (Char.chr v) ^ str_of_coq r

let opt_tok f t = if t = "-" then None else Some (f t)
let net_of t = match M.find_network (cs t) with Some n -> n | None -> failwith "network"
let enc_of t = match t with "base58" -> M.EB58 | "bech32" -> M.EBech | _ -> failwith "enc"

let daddr_of t =
  match String.split_on_char ':' t with
  | [ "b58"; v; h ] -> M.DB58 (bytes_of_hex v, bytes_of_hex h)
  | [ "bech"; p; w; g ] -> M.DBech (bytes_of_hex p, z_of w, bytes_of_hex g)
  | _ -> failwith "daddr"

let tok_of_daddr = function
  | M.DB58 (v, h) -> "b58:" ^ hex_of_bytes v ^ ":" ^ hex_of_bytes h
  | M.DBech (p, w, g) -> "bech:" ^ hex_of_bytes p ^ ":" ^ str_z w ^ ":" ^ hex_of_bytes g

(* hash160 oracle supplied by the harness *)
(* hash160(b''): what Address() hashes when to_bytes leaves nothing of the hash it was given *)
let h160_empty = bytes_of_hex "b472a266d0bd89c13706a4132ccfb16f7c3b9fcb"
let oracle t : M.bytes -> M.bytes =
  if t = "-" then fun x -> (if x = [] then h160_empty else [])
  else
    let tbl = List.map (fun p -> match String.split_on_char ':' p with
        | [ i; o ] -> (bytes_of_hex i, bytes_of_hex o) | _ -> failwith "oracle") (String.split_on_char ',' t) in
    fun x -> (try List.assoc x tbl with Not_found -> if x = [] then h160_empty else [])

let show = function
  | M.RErr -> "ERR"
  | M.RUnmodelled -> "UNMODELLED"
  | M.ROk o ->
      let a = match o.M.o_addr with
        | M.OaGiven -> "given" | M.OaIs d -> tok_of_daddr d | M.OaErr -> "ERR" | M.OaEmpty -> "-" in
      hex_of_bytes o.M.o_lock ^ " " ^ str_of_coq o.M.o_stype ^ " " ^ str_of_coq o.M.o_net ^ " " ^ a

let args net = { M.a_addr = M.AaNone; a_hash = []; a_pubkey = []; a_lock = []; a_stype = None;
                 a_witver = BZ.zero; a_enc = None; a_net = net }

let stype_of = function
  | "p2pkh" -> M.P2pkh | "p2sh" -> M.P2sh | "p2wpkh" -> M.P2wpkh | "p2wsh" -> M.P2wsh | "p2tr" -> M.P2tr
  | _ -> failwith "stype"
let wtype_of = function
  | "legacy" -> M.WLegacy | "segwit" -> M.WSegwit | "p2sh-segwit" -> M.WP2shSegwit | _ -> failwith "wtype"

(* the output as the request's [via] delivers it *)
let out_via hf fx via (a : M.oargs) =
  match via with
  | "add" -> M.lib_output hf fx { a with M.a_lock = M.tb fx a.M.a_lock }
  | "rt" -> M.lib_reparse hf fx a.M.a_net (M.lib_output hf fx a)
  | _ -> M.lib_output hf fx a

let rec dispatch_fx fx = function
  | "F" :: f :: rest ->
      dispatch_fx { M.fx_witver = f.[0] = '1'; fx_netobj = f.[1] = '1'; fx_p2shobj = f.[2] = '1';
                    fx_tb = (if String.length f > 3 && f.[3] = '0' then M.lib_to_bytes else (fun x -> x));
                    fx_addrpk = String.length f > 4 && f.[4] = '1' } rest
  | [ "str"; n; via; _; t ] ->
      show (out_via (oracle "-") fx via { (args (net_of n)) with M.a_addr = M.AaStr (daddr_of t) })
  | [ "parse"; n; via; _; t; pn ] ->
      (match M.lib_address_parse (oracle "-") fx (daddr_of t) (opt_tok cs pn) with
       | None -> "ERR"
       | Some o -> show (out_via (oracle "-") fx via { (args (net_of n)) with M.a_addr = M.AaObj o }))
  | [ "aobj"; n; via; a; st; e; wv; h; orc ] ->
      let hf = oracle orc in
      (match M.lib_address_new hf fx (bytes_of_hex h) None (opt_tok cs st) (opt_tok enc_of e) None (z_of wv) (net_of a) with
       | None -> "ERR"
       | Some o -> show (out_via hf fx via { (args (net_of n)) with M.a_addr = M.AaObj o }))
  | [ "adata"; n; via; a; st; e; wv; _; h160; s256; orc ] ->
      let hf = oracle orc in
      (match M.lib_address_of_data hf fx (bytes_of_hex h160) (bytes_of_hex s256) (opt_tok cs st) (opt_tok enc_of e)
               (z_of wv) (net_of a) with
       | None -> "ERR"
       | Some o -> show (out_via hf fx via { (args (net_of n)) with M.a_addr = M.AaObj o }))
  | "hd" :: n :: via :: a :: wt :: ms :: pub :: h160 :: s256 :: orc :: form ->
      let hf = oracle orc in
      let w = wtype_of wt and m = (ms = "1") && (match form with [] | [ "raw" ] -> false | _ -> true) in
      (match M.lib_hd_address_obj hf fx (net_of a) w m (bytes_of_hex h160) (bytes_of_hex s256) with
       | None -> "ERR"
       | Some o -> show (out_via hf fx via { (args (net_of n)) with M.a_addr = M.AaHd (o, bytes_of_hex pub, w, m) }))
  | [ "key"; n; via; a; _; _; h160; s256; orc ] ->
      let hf = oracle orc in
      (match M.lib_key_address_obj hf fx (net_of a) (bytes_of_hex h160) (bytes_of_hex s256) with
       | None -> "ERR"
       | Some o -> show (out_via hf fx via { (args (net_of n)) with M.a_addr = M.AaObj o }))
  | [ "pk"; n; via; st; e; pub; orc ] ->
      show (out_via (oracle orc) fx via { (args (net_of n)) with M.a_pubkey = bytes_of_hex pub;
                                           a_stype = opt_tok cs st; a_enc = opt_tok enc_of e })
  | [ "hash"; n; via; st; wv; e; h; orc ] ->
      show (out_via (oracle orc) fx via { (args (net_of n)) with M.a_hash = bytes_of_hex h; a_stype = opt_tok cs st;
                                           a_witver = z_of wv; a_enc = opt_tok enc_of e })
  | [ "script"; n; via; s ] ->
      show (out_via (oracle "-") fx via { (args (net_of n)) with M.a_lock = bytes_of_hex s })
  | [ "gen"; n; via; t; _; h; pub; lock; st; wv; e; orc ] ->
      show (out_via (oracle orc) fx via
              { (args (net_of n)) with M.a_addr = (if t = "-" then M.AaNone else M.AaStr (daddr_of t));
                                       a_hash = bytes_of_hex h; a_pubkey = bytes_of_hex pub; a_lock = bytes_of_hex lock;
                                       a_stype = opt_tok cs st; a_witver = z_of wv; a_enc = opt_tok enc_of e })
  | [ "tobytes"; x ] -> hex_of_bytes (M.lib_to_bytes (bytes_of_hex x))
  | [ "spec_lock"; st; wv; p ] ->
      hex_of_bytes (M.spec_lock_script { M.d_stype = stype_of st; d_witver = z_of wv; d_payload = bytes_of_hex p })
  | [ "spec_classify"; s ] ->
      (match M.spec_classify (bytes_of_hex s) with
       | None -> "NONE"
       | Some d -> str_of_coq (M.stype_name d.M.d_stype) ^ " " ^ str_z d.M.d_witver ^ " " ^ hex_of_bytes d.M.d_payload)
  | [ "spec_addr"; n; st; wv; p ] ->
      tok_of_daddr (M.spec_address (net_of n) { M.d_stype = stype_of st; d_witver = z_of wv; d_payload = bytes_of_hex p })
  | _ -> "BADREQ"

let dispatch toks = dispatch_fx M.fx_now toks

let () = main dispatch
