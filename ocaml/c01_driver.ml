(* c01_driver.ml — evaluates the extracted C01 model (Model/Sighash.v) on request lines.
   tx token:  <version>:<locktime>:<segwit 0|1>:<network>|<in>;<in>;...|<out>;<out>;...      ("-" = no outputs)
     in  = <prev hex, wire order>,<vout>,<sequence>,<index_n>,<kind>,<value>,<m>,<key hex>/<key hex>/...
     out = <value>,<script hex or ->
   requests:
     pre <mode> <tx> <sign_id> <hash_type> <leg|sw|p2sh>   -> "<preimage hex>" | ERR
           (Transaction.signature / signature_hash; <mode> only matters to the implementation adapter)
     preu ... same for the code before fixes/C01-1 and C01-2 (diagnostics)
     signed <tx>                                            -> digest of every input as Transaction.sign computes it
     vdig <tx> <pos> <hash_type>                            -> digest Transaction.verify asks for (diagnostics)
     spec <tx> <i> <hash_type>                              -> consensus preimage + digest
     sess <mode> <tx> <op> ...                              -> one answer token per op: the life-cycle model
           (Model/Sighash.v: tobj / mut / lib_apply).  The object is built as <mode> says (api, apik, apib, apikr:
           ob_build_api; ctor: lib_ctor; parse: ob_fresh of the fields of the API-built object), every op is mapped
           to a constructor of [mut] and applied with lib_apply;
             dig -> D=<fields>#<pos>.<hash type>.<preimage|ERR>,...   (ob_signature on the current object, every
                    position, hash type 1 for legacy inputs and 1,2,3,0x81,0x82,0x83 for segwit inputs)
             inf -> I=<fields>#<pos>.<leg|sw|p2sh>.<preimage|ERR>,...   (witness type of every input = k_wtype of its
                    kind, ob_signature with it and hash type 1)
             raw -> R=<fields>#<version>#<version_int>      vfy -> V      anything else -> ok
           <fields> = <version>/<locktime>/<prev,vout,seq;...>/<value,script;...> : what raw() must serialise *)
module BZ = Z
open C01_model
module H = Common.Make (struct type byte = C01_model.byte let zb = C01_model.zb let bz = C01_model.bz end)
open H

let rec nat_of_int n = if n <= 0 then O else S (nat_of_int (n - 1))

let kind_of = function
  | "p2pkh" -> K_p2pkh | "p2pk" -> K_p2pk | "multisig" -> K_multisig | "p2sh_multisig" -> K_p2sh_multisig
  | "p2wpkh" -> K_p2wpkh | "p2wsh" -> K_p2wsh | "p2sh_p2wpkh" -> K_p2sh_p2wpkh | "p2sh_p2wsh" -> K_p2sh_p2wsh
  | _ -> failwith "kind"

let wt_of = function "leg" -> WT_legacy | "sw" -> WT_segwit | "p2sh" -> WT_p2sh_segwit | _ -> failwith "wt"

let split c s = if s = "-" || s = "" then [] else String.split_on_char c s

let in_of s =
  match String.split_on_char ',' s with
  | [prev; vout; seq; idx; k; v; m; keys] ->
      { si_in = { ti_prev = bytes_of_hex prev; ti_vout = z_of vout; ti_script = []; ti_seq = z_of seq; ti_wit = [] };
        si_index = z_of idx; si_kind = kind_of k; si_value = z_of v;
        si_keys = List.map bytes_of_hex (split '/' keys); si_m = z_of m }
  | _ -> failwith "in"

let out_of s =
  match String.split_on_char ',' s with
  | [v; sc] -> { to_value = z_of v; to_script = bytes_of_hex sc }
  | _ -> failwith "out"

let tx_of_tok s =
  match String.split_on_char '|' s with
  | [hd; ins; outs] ->
      (match String.split_on_char ':' hd with
       | ver :: lock :: sw :: _ ->
           { st_version = z_of ver; st_ins = List.map in_of (split ';' ins); st_outs = List.map out_of (split ';' outs);
             st_locktime = z_of lock; st_segwit = (sw = "1") }
       | _ -> failwith "hd")
  | _ -> failwith "tx"

(* the model is parametric in the two hash functions; the driver passes the extracted Gallina SHA256d / HASH160
   behind a memo table (the same inner hashes recur for every hash type and input index of a transaction) *)
let memo f =
  let h = Hashtbl.create 4096 in
  fun x ->
    let k = hex_of_bytes x in
    match Hashtbl.find_opt h k with
    | Some y -> y
    | None -> if Hashtbl.length h > 20000 then Hashtbl.reset h; let y = f x in Hashtbl.replace h k y; y
let sha256d = memo C01_model.sha256d
let hash160 = memo C01_model.hash160

(* the preimage only: that signature_hash is the double SHA256 of it is checked against hashlib by the harness *)
let pre_ans = function
  | Some p -> hex_of_bytes p
  | None -> "ERR"


(* ---------- sessions ---------- *)
let rec int_of_nat = function O -> 0 | S n -> 1 + int_of_nat n
let nat s = nat_of_int (int_of_string s)

let mut_of (op : string) : mut =
  match String.split_on_char '~' op with
  | ["dig"] | ["inf"] -> M_digest
  | ["raw"] -> M_raw
  | ["vfy"] -> M_verify
  | ["sign"] | ["rsign"] | ["signk"] | ["rsignk"] | ["signkh"] | ["signkb"] | ["signkw"] | ["signkd"] -> M_sign
  | ["sau"] | ["saui"; _] -> M_sign_and_update
  | ["seq"; i; q] -> M_seq (nat i, z_of q)
  | ["op"; i; prev; vout] -> M_outpoint (nat i, bytes_of_hex prev, z_of vout)
  | ["ival"; i; v] -> M_in_value (nat i, z_of v)
  | ["lt"; v] -> M_locktime (z_of v)
  | ["ver"; v] -> M_version (z_of v)
  | ["vint"; v] -> M_version_int (z_of v)
  | ["oval"; j; v] -> M_out_value (nat j, z_of v)
  | ["oscr"; j; sc] -> M_out_script (nat j, bytes_of_hex sc)
  | ["addin"; x] -> M_add_input (in_of x)
  | ["addout"; v; sc] -> M_add_output { to_value = z_of v; to_script = bytes_of_hex sc }
  | ["perm"; p] -> M_permute (List.map nat (String.split_on_char '.' p))
  | ["merge"; x; v; sc; pi; po] ->
      M_merge ([in_of x], [{ to_value = z_of v; to_script = bytes_of_hex sc }],
               List.map nat (String.split_on_char '.' pi), List.map nat (String.split_on_char '.' po))
  | ["slrb"; b; i; lt] -> M_rel_blocks (z_of b, nat i, z_of lt)
  | ["slrt"; sec; i; lt] -> M_rel_time (z_of sec, nat i, z_of lt)
  | ["slb"; b] -> M_lock_blocks (z_of b)
  | ["slt"; ts] -> M_lock_time (z_of ts)
  | _ -> failwith "op"

let fields_str (t : stx) : string =
  let ins = String.concat ";" (List.map (fun x ->
    hex_of_bytes x.si_in.ti_prev ^ "," ^ str_z x.si_in.ti_vout ^ "," ^ str_z x.si_in.ti_seq) t.st_ins) in
  let outs = String.concat ";" (List.map (fun o -> str_z o.to_value ^ "," ^ hex_of_bytes o.to_script) t.st_outs) in
  str_z t.st_version ^ "/" ^ str_z t.st_locktime ^ "/" ^ (if ins = "" then "-" else ins) ^ "/" ^ (if outs = "" then "-" else outs)

let sw_hts = List.map BZ.of_int [1; 2; 3; 0x81; 0x82; 0x83]

let digests_str (o : tobj) : string =
  let ents = List.concat (List.mapi (fun p x ->
    let wt = k_wtype x.si_kind in
    let hts = (match wt with WT_legacy -> [BZ.one] | _ -> sw_hts) in
    List.map (fun ht ->
      string_of_int p ^ "." ^ str_z ht ^ "." ^ pre_ans (ob_signature sha256d hash160 o (BZ.of_int p) ht wt)) hts) o.ob_ins) in
  if ents = [] then "-" else String.concat "," ents

(* inf: per input the witness type the object must hold for it (k_wtype of the kind of the spent output) and the
   preimage of ob_signature for that type, hash type ALL: what sign() signs *)
let wt_name = function WT_legacy -> "leg" | WT_segwit -> "sw" | WT_p2sh_segwit -> "p2sh"

let inferred_str (o : tobj) : string =
  let ents = List.mapi (fun p x ->
    let wt = k_wtype x.si_kind in
    string_of_int p ^ "." ^ wt_name wt ^ "." ^ pre_ans (ob_signature sha256d hash160 o (BZ.of_int p) BZ.one wt)) o.ob_ins in
  if ents = [] then "-" else String.concat "," ents

let session mode tok ops =
  let t = tx_of_tok tok in
  let v0 = if BZ.equal t.st_version BZ.zero then BZ.one else t.st_version in
  if not (in32 v0) then "ERR build"
  else begin
    let o0 = (match mode with
      (* fn / fh / fl / fa / fla / fu / fr (fr through the constructor): inputs described without their keys (nothing / public
         hash / locking script / address / unsigned unlocking script / redeem script);
         the keys arrive with sign(keys).  What the object serialises and which digests it has once keyed is that of the
         api path: the construction form is invisible to the model *)
      (* kn / kl / ka / kla / il / ia (+ klc / kac / ilc / knc through the constructor): the witness type of the inputs is
         not passed, the library infers it; the model knows it from the kind (k_wtype) *)
      | "api" | "apik" | "apib" | "fn" | "fh" | "fl" | "fa" | "fla" | "fu"
      | "kn" | "kl" | "ka" | "kla" | "il" | "ia" -> ob_build_api t.st_version t.st_locktime t.st_segwit false t.st_ins t.st_outs
      | "apikr" -> ob_build_api t.st_version t.st_locktime t.st_segwit true t.st_ins t.st_outs
      | "ctor" | "fr" | "klc" | "kac" | "ilc" | "knc" -> lib_ctor t.st_version t.st_locktime t.st_segwit t.st_ins t.st_outs
      | "parse" -> ob_fresh (ob_fields (ob_build_api t.st_version t.st_locktime t.st_segwit false t.st_ins t.st_outs))
      | _ -> failwith "mode") in
    let o = ref o0 in
    String.concat " " (List.map (fun op ->
      let m = mut_of op in
      o := lib_apply !o m;
      match m with
      | M_digest when op = "inf" -> "I=" ^ fields_str (ob_fields !o) ^ "#" ^ inferred_str !o
      | M_digest -> "D=" ^ fields_str (ob_fields !o) ^ "#" ^ digests_str !o
      | M_raw -> "R=" ^ fields_str (ob_fields !o) ^ "#" ^ str_z !o.ob_version ^ "#" ^ str_z !o.ob_version_int
      | M_verify -> "V"
      | _ -> "ok") ops)
  end

let dispatch = function
  | "sess" :: mode :: tok :: ops -> session mode tok ops
  | ["pre"; _; tx; sid; ht; wt] ->
      pre_ans (lib_signature_at sha256d hash160 true (tx_of_tok tx) (z_of sid) (z_of ht) (wt_of wt))
  | ["preu"; _; tx; sid; ht; wt] ->
      let t = tx_of_tok tx in
      (match wt_of wt with
       | WT_legacy -> pre_ans (lib_legacy_preimage_at hash160 false t (z_of sid) (z_of ht))
       | _ -> pre_ans (lib_bip143_preimage_at sha256d hash160 false t (nat_of_int (int_of_string sid)) (z_of ht)))
  | ["signed"; tx] ->
      let t = tx_of_tok tx in
      String.concat "," (List.mapi (fun p _ -> opt hex_of_bytes (lib_digest_at sha256d hash160 true t (nat_of_int p) BZ.one)) t.st_ins)
  | ["vdig"; tx; p; ht] ->
      opt hex_of_bytes (lib_verify_digest_at sha256d hash160 true (tx_of_tok tx) (nat_of_int (int_of_string p)) (z_of ht))
  | ["spec"; tx; i; ht] ->
      let t = tx_of_tok tx in
      let n = nat_of_int (int_of_string i) in
      opt hex_of_bytes (spec_preimage sha256d hash160 t n (z_of ht)) ^ " " ^ opt hex_of_bytes (spec_digest sha256d hash160 t n (z_of ht))
  | ["code"; k; m; keys] ->
      opt hex_of_bytes (lib_script_code hash160 (kind_of k) (List.map bytes_of_hex (split '/' keys)) (z_of m))
      ^ " " ^ hex_of_bytes (spec_script_code hash160 (kind_of k) (List.map bytes_of_hex (split '/' keys)) (z_of m))
  | _ -> "BADREQ"

let () = main dispatch
