(* c01_driver.ml — evaluates the extracted C01 model (Model/Sighash.v) on request lines.
   tx token:  <version>:<locktime>:<segwit 0|1>:<network>|<in>;<in>;...|<out>;<out>;...      ("-" = no outputs)
     in  = <prev hex, wire order>,<vout>,<sequence>,<index_n>,<kind>,<value>,<m>,<key hex>/<key hex>/...
     out = <value>,<script hex or ->
   requests:
     pre <mode> <tx> <sign_id> <hash_type> <leg|sw|p2sh>   -> "<preimage hex>" | ERR
           (Transaction.signature / signature_hash; <mode> only matters to the implementation adapter)
     preu ... same for the code before fixes/C01-1 and C01-2 (diagnostics)
     signed <tx>                                            -> digest of every input as Transaction.sign computes it
     vdig <tx> <pos> <hash_type>                            -> digest Transaction.verify asks for (diagnostics)
     spec <tx> <i> <hash_type>                              -> consensus preimage + digest *)
module BZ = Z
open C01_model
module H = Common.Make (struct type byte = C01_model.byte let zb = C01_model.zb let bz = C01_model.bz end)
open H

let rec nat_of_int n = if n <= 0 then O else S (nat_of_int (n - 1))

let kind_of = function
  | "p2pkh" -> K_p2pkh | "p2pk" -> K_p2pk | "multisig" -> K_multisig | "p2sh_multisig" -> K_p2sh_multisig
  | "p2wpkh" -> K_p2wpkh | "p2wsh" -> K_p2wsh | "p2sh_p2wpkh" -> K_p2sh_p2wpkh | "p2sh_p2wsh" -> K_p2sh_p2wsh
  | _ -> failwith "kind"

let wt_of = function "leg" -> WT_legacy | "sw" -> WT_segwit | "p2sh" -> WT_p2sh_segwit | _ -> failwith "wt"

let split c s = if s = "-" || s = "" then [] else String.split_on_char c s

let in_of s =
  match String.split_on_char ',' s with
  | [prev; vout; seq; idx; k; v; m; keys] ->
      { si_in = { ti_prev = bytes_of_hex prev; ti_vout = z_of vout; ti_script = []; ti_seq = z_of seq; ti_wit = [] };
        si_index = z_of idx; si_kind = kind_of k; si_value = z_of v;
        si_keys = List.map bytes_of_hex (split '/' keys); si_m = z_of m }
  | _ -> failwith "in"

let out_of s =
  match String.split_on_char ',' s with
  | [v; sc] -> { to_value = z_of v; to_script = bytes_of_hex sc }
  | _ -> failwith "out"

let tx_of_tok s =
  match String.split_on_char '|' s with
  | [hd; ins; outs] ->
      (match String.split_on_char ':' hd with
       | ver :: lock :: sw :: _ ->
           { st_version = z_of ver; st_ins = List.map in_of (split ';' ins); st_outs = List.map out_of (split ';' outs);
             st_locktime = z_of lock; st_segwit = (sw = "1") }
       | _ -> failwith "hd")
  | _ -> failwith "tx"

(* the model is parametric in the two hash functions; the driver passes the extracted Gallina SHA256d / HASH160
   behind a memo table (the same inner hashes recur for every hash type and input index of a transaction) *)
let memo f =
  let h = Hashtbl.create 4096 in
  fun x ->
    let k = hex_of_bytes x in
    match Hashtbl.find_opt h k with
    | Some y -> y
    | None -> if Hashtbl.length h > 20000 then Hashtbl.reset h; let y = f x in Hashtbl.replace h k y; y
let sha256d = memo C01_model.sha256d
let hash160 = memo C01_model.hash160

(* the preimage only: that signature_hash is the double SHA256 of it is checked against hashlib by the harness *)
let pre_ans = function
  | Some p -> hex_of_bytes p
  | None -> "ERR"

let dispatch = function
  | ["pre"; _; tx; sid; ht; wt] ->
      pre_ans (lib_signature_at sha256d hash160 true (tx_of_tok tx) (z_of sid) (z_of ht) (wt_of wt))
  | ["preu"; _; tx; sid; ht; wt] ->
      let t = tx_of_tok tx in
      (match wt_of wt with
       | WT_legacy -> pre_ans (lib_legacy_preimage_at hash160 false t (z_of sid) (z_of ht))
       | _ -> pre_ans (lib_bip143_preimage_at sha256d hash160 false t (nat_of_int (int_of_string sid)) (z_of ht)))
  | ["signed"; tx] ->
      let t = tx_of_tok tx in
      String.concat "," (List.mapi (fun p _ -> opt hex_of_bytes (lib_digest_at sha256d hash160 true t (nat_of_int p) BZ.one)) t.st_ins)
  | ["vdig"; tx; p; ht] ->
      opt hex_of_bytes (lib_verify_digest_at sha256d hash160 true (tx_of_tok tx) (nat_of_int (int_of_string p)) (z_of ht))
  | ["spec"; tx; i; ht] ->
      let t = tx_of_tok tx in
      let n = nat_of_int (int_of_string i) in
      opt hex_of_bytes (spec_preimage sha256d hash160 t n (z_of ht)) ^ " " ^ opt hex_of_bytes (spec_digest sha256d hash160 t n (z_of ht))
  | ["code"; k; m; keys] ->
      opt hex_of_bytes (lib_script_code hash160 (kind_of k) (List.map bytes_of_hex (split '/' keys)) (z_of m))
      ^ " " ^ hex_of_bytes (spec_script_code hash160 (kind_of k) (List.map bytes_of_hex (split '/' keys)) (z_of m))
  | _ -> "BADREQ"

let () = main dispatch
