(* c03_driver.ml — evaluates the extracted C03 model (BIP32) on request lines.
   key token   seed:<hex> | seedpub:<hex>
             | prv:<secret hex32>:<chain hex>:<depth>:<pfp hex>:<index>
             | pub:<33-byte hex>:<chain hex>:<depth>:<pfp hex>:<index>
             | xstr:<base58 string>:<prv|pub>:<same five fields>      (the string is for the implementation)
   requests    derive <key> <path hex> <s|l> <vprv> <vpub>
               split  <key> <path1 hex> <path2 hex> <vprv> <vpub>
               cpriv  <key> <index> <0|1> <vprv> <vpub>
               cpub   <key> <index> <vprv> <vpub>
               spec   <key> <path hex> <vprv> <vpub>        (the specification's answer, for the corpus)
               (<vprv> <vpub> = "- -": the two export strings are not requested and printed as "x")
   answer      <private hex|-> <public hex> <chain> <depth> <index> <pfp> <xprv string|-|ERR|x> <xpub string|ERR|x>  |  ERR *)
module BZ = Z
open C03_model
module H = Common.Make (struct type byte = C03_model.byte let zb = C03_model.zb let bz = C03_model.bz end)
open H

let str_of_bytes l = String.concat "" (List.map (fun b -> String.make 1 (Char.chr (BZ.to_int (bz b)))) l)

let mk_meta d f i = { m_depth = z_of d; m_pfp = bytes_of_hex f; m_index = z_of i }

let key_of_fields kind k c d f i : lkey option =
  match kind with
  | "prv" -> Some (XPrv { xk = of_be (bytes_of_hex k); xc = bytes_of_hex c; xm = mk_meta d f i })
  | "pub" -> (match lib_import_pub (bytes_of_hex k) with
              | Some pt -> Some (XPub { xK = pt; xC = bytes_of_hex c; xM = mk_meta d f i })
              | None -> None)   (* Key(strict=True) refuses encodings that are not curve points *)
  | _ -> failwith "key kind"

let key_of_tok t : lkey option =
  match String.split_on_char ':' t with
  | ["seed"; h] -> lib_from_seed (bytes_of_hex h)
  | ["seedpub"; h] -> (match lib_from_seed (bytes_of_hex h) with Some k -> Some (lib_public k) | None -> None)
  | [kind; k; c; d; f; i] -> key_of_fields kind k c d f i
  | ["xstr"; _; kind; k; c; d; f; i] -> key_of_fields kind k c d f i
  | _ -> failwith "key token"

let show vprv vpub (k : lkey option) =
  match k with
  | None -> "ERR"
  | Some x ->
      let m = lib_meta x in
      let priv = match x with XPrv p -> hex_of_bytes (lib_private_byte p) | XPub _ -> "-" in
      let wprv = if vprv = "-" then "x" else match x with
        | XPrv _ -> (match lib_wif (bytes_of_hex vprv) true x with Some s -> str_of_bytes s | None -> "ERR")
        | XPub _ -> "-" in
      let wpub = if vpub = "-" then "x" else
        match lib_wif (bytes_of_hex vpub) false x with Some s -> str_of_bytes s | None -> "ERR" in
      String.concat " " [priv; hex_of_bytes (lib_public_byte x); hex_of_bytes (lib_chain x); str_z m.m_depth;
                         str_z m.m_index; hex_of_bytes m.m_pfp; wprv; wpub]

let bind o f = match o with Some x -> f x | None -> None

let dispatch = function
  | ["derive"; k; p; _; vprv; vpub] ->
      show vprv vpub (bind (key_of_tok k) (fun x -> lib_subkey_for_path x (bytes_of_hex p)))
  | ["split"; k; p1; p2; vprv; vpub] ->
      show vprv vpub (bind (key_of_tok k) (fun x ->
        bind (lib_subkey_for_path x (bytes_of_hex p1)) (fun y -> lib_subkey_for_path (lib_public y) (bytes_of_hex p2))))
  | ["cpriv"; k; i; h; vprv; vpub] ->
      show vprv vpub (bind (key_of_tok k) (fun x -> lib_child_private x (z_of i) (h = "1")))
  | ["cpub"; k; i; vprv; vpub] ->
      show vprv vpub (bind (key_of_tok k) (fun x -> lib_child_public x (z_of i)))
  | ["spec"; k; p; vprv; vpub] ->
      show vprv vpub (bind (key_of_tok k) (fun x ->
        bind (lib_parse_path (bytes_of_hex p)) (fun pp -> s_subkey x (sem pp))))
  | _ -> "BADREQ"

let () = main dispatch
