(* c03_driver.ml — evaluates the extracted C03 model (BIP32) on request lines.
   key token   seed:<hex> | seedpub:<hex>
             | prv:<secret hex32>:<chain hex>:<depth>:<pfp hex>:<index>
             | pub:<33-byte hex>:<chain hex>:<depth>:<pfp hex>:<index>
             | xstr:<base58 string>:<prv|pub>:<same five fields>      (the string is for the implementation)
             | ctor:<form>:<options>:<aux>:<prv|pub>:<same five fields>   (form/options/aux: how the implementation's constructor
                                                                         is given this key material; the model has one object)
   requests    derive <key> <path hex> <s|l> <vprv> <vpub>
               split  <key> <path1 hex> <path2 hex> <vprv> <vpub>
               cpriv  <key> <index> <0|1> <vprv> <vpub>
               cpub   <key> <index> <vprv> <vpub>
               spec   <key> <path hex> <vprv> <vpub>        (the specification's answer, for the corpus)
               wifidx <key> <n|-> <0|1> <vprv> <vpub>       (wif(is_private=<0|1>, child_index=n); answer: the string
                                                             (or ERR) and the child number of the key after the call)
               (<vprv> <vpub> = "- -": the two export strings are not requested and printed as "x")
               sess   <key> <cfg> <step> <step> ...          (a session on ONE object and the objects derived from it)
                 key   additionally  phrase:<mnemonic hex>:<password hex>:<seed hex>  (the model starts from the seed)
                 cfg   <network name>,<coin type>,<vprv>,<vpub>,<l|p|s>,<0|1>        (network, witness_type, multisig)
                 step  <slot>,<w>,<op>  with <slot> the object the call is put to (0 = the start object, k+1 = the
                       object returned by step k), <w> = 1: print the export strings of the returned object, <op> one of
                         p,<path hex>,<s|l>   cpriv,<index>,<0|1>   cpub,<index>   pub
                         pm,<account>,<purpose|->,<multisig 0|1|->,<witness l|p|s|->,<as_private 0|1>,<m|mm>
                         net,<name>,<coin>,<vprv>,<vpub>   exp,<which>
                 answer  per step "T <named object after the call | none> R <FAIL | SELF | NEW returned object>",
                         objects as above followed by <network> <l|p|s> <0|1>; steps joined by " | "
   answer      <private hex|-> <public hex> <chain> <depth> <index> <pfp> <xprv string|-|ERR|x> <xpub string|ERR|x>  |  ERR *)
module BZ = Z
open C03_model
module H = Common.Make (struct type byte = C03_model.byte let zb = C03_model.zb let bz = C03_model.bz end)
open H

let str_of_bytes l = String.concat "" (List.map (fun b -> String.make 1 (Char.chr (BZ.to_int (bz b)))) l)

let mk_meta d f i = { m_depth = z_of d; m_pfp = bytes_of_hex f; m_index = z_of i }

let key_of_fields kind k c d f i : lkey option =
  match kind with
  | "prv" -> Some (XPrv { xk = of_be (bytes_of_hex k); xc = bytes_of_hex c; xm = mk_meta d f i })
  | "pub" -> (match lib_import_pub (bytes_of_hex k) with
              | Some pt -> Some (XPub { xK = pt; xC = bytes_of_hex c; xM = mk_meta d f i })
              | None -> None)   (* Key(strict=True) refuses encodings that are not curve points *)
  | _ -> failwith "key kind"

(* a construction form of HDKey.__init__ (Proofs/Bip32Construct.v): what is handed over, the chain= argument
   ([] when option z leaves it out), the metadata arguments *)
let key_of_ctor form opts kind k c d f i : lkey option =
  let chain = if String.contains opts 'z' then [] else bytes_of_hex c in
  let m = mk_meta d f i in
  let sec () = of_be (bytes_of_hex k) in
  let other = mk_meta "9" "aabbccdd" "77" in
  let mat = match form, kind with
    | ("kwbytes" | "kwhex" | "kwint" | "kwboth"), "prv" -> Some (CKeyKw (sec ()))
    | ("kwbytes" | "kwhex"), "pub" -> (match lib_import_pub (bytes_of_hex k) with Some pt -> Some (CPubKw pt) | None -> None)
    | "cat64", "prv" -> Some (CCat64 (sec (), bytes_of_hex c))
    | ("hex" | "hexc" | "bytes" | "bytesc" | "int" | "wif" | "bip38"), "prv" -> Some (CScalar (sec ()))
    | ("keyhex" | "keybytes" | "keyint" | "keywif" | "keypos" | "hdseed"), "prv" -> Some (CObject (sec (), [], mk_meta "0" "00000000" "0"))
    | "hdobj", "prv" -> Some (CObject (sec (), bytes_of_hex "202122232425262728292a2b2c2d2e2f303132333435363738393a3b3c3d3e3f", other))
    | "hdobjsame", "prv" -> Some (CObject (sec (), bytes_of_hex c, m))
    | ("pubhex" | "pubbytes" | "point"), "pub" -> (match lib_import_pub (bytes_of_hex k) with Some pt -> Some (CPubScalar pt) | None -> None)
    | _ -> failwith "ctor form" in
  match mat with
  | Some (CCat64 _ as x) -> Some (lib_construct x [] m)
  | Some x -> Some (lib_construct x chain m)
  | None -> None

let key_of_tok t : lkey option =
  match String.split_on_char ':' t with
  | ["seed"; h] -> lib_from_seed (bytes_of_hex h)
  | ["seedpub"; h] -> (match lib_from_seed (bytes_of_hex h) with Some k -> Some (lib_public k) | None -> None)
  | [kind; k; c; d; f; i] -> key_of_fields kind k c d f i
  | ["xstr"; _; kind; k; c; d; f; i] -> key_of_fields kind k c d f i
  | ["xwif"; _; kind; k; c; d; f; i] -> key_of_fields kind k c d f i
  | ["ctor"; form; opts; _; kind; k; c; d; f; i] -> key_of_ctor form opts kind k c d f i
  | ["phrase"; _; _; h] -> lib_from_seed (bytes_of_hex h)
  | _ -> failwith "key token"

let show vprv vpub (k : lkey option) =
  match k with
  | None -> "ERR"
  | Some x ->
      let m = lib_meta x in
      let priv = match x with XPrv p -> hex_of_bytes (lib_private_byte p) | XPub _ -> "-" in
      let wprv = if vprv = "-" then "x" else match x with
        | XPrv _ -> (match lib_wif (bytes_of_hex vprv) true x with Some s -> str_of_bytes s | None -> "ERR")
        | XPub _ -> "-" in
      let wpub = if vpub = "-" then "x" else
        match lib_wif (bytes_of_hex vpub) false x with Some s -> str_of_bytes s | None -> "ERR" in
      String.concat " " [priv; hex_of_bytes (lib_public_byte x); hex_of_bytes (lib_chain x); str_z m.m_depth;
                         str_z m.m_index; hex_of_bytes m.m_pfp; wprv; wpub]

let bind o f = match o with Some x -> f x | None -> None

(* ---- sessions ---- *)
let wt_of = function "l" -> WLegacy | "p" -> WP2sh | "s" -> WSegwit | _ -> failwith "witness type"
let wt_str = function WLegacy -> "l" | WP2sh -> "p" | WSegwit -> "s"
let bytes_of_str s = List.init (String.length s) (fun i -> zb (BZ.of_int (Char.code s.[i])))

let cfg_of_tok t =
  match String.split_on_char ',' t with
  | [name; coin; vprv; vpub; w; m] ->
      { kc_net = bytes_of_str name; kc_coin = z_of coin; kc_vprv = bytes_of_hex vprv; kc_vpub = bytes_of_hex vpub;
        kc_wit = wt_of w; kc_multi = (m = "1") }
  | _ -> failwith "cfg token"

let rec nat_of_int n = if n <= 0 then O else S (nat_of_int (n - 1))

let step_of_tok t : sreq * bool =
  match String.split_on_char ',' t with
  | slot :: w :: op ->
      let o = match op with
        | ["p"; path; _] -> SPath (bytes_of_hex path)
        | ["cpriv"; i; h] -> SChildPriv (z_of i, h = "1")
        | ["cpub"; i] -> SChildPub (z_of i)
        | ["pub"] -> SPublic
        | ["pm"; acc; pur; multi; wit; ap; _] ->
            SMaster (z_of acc, (if pur = "-" then None else Some (z_of pur)),
                     (if multi = "-" then None else Some (multi = "1")),
                     (if wit = "-" then None else Some (wt_of wit)), ap = "1")
        | ["net"; name; coin; vprv; vpub] -> SNet (bytes_of_str name, z_of coin, bytes_of_hex vprv, bytes_of_hex vpub)
        | ["exp"; _] | ["exp"; _; _] -> SExport
        | _ -> failwith "session op" in
      ({ rq_slot = nat_of_int (int_of_string slot); rq_op = o }, w = "1")
  | _ -> failwith "session step"

let show_cfg c = String.concat " " [str_of_bytes c.kc_net; wt_str c.kc_wit; bool_s c.kc_multi]

let show_obj w (o : hobj) =
  let c = o.ho_cfg in
  let vprv = if w then hex_of_bytes c.kc_vprv else "-" and vpub = if w then hex_of_bytes c.kc_vpub else "-" in
  show vprv vpub (Some o.ho_key) ^ " " ^ show_cfg c

let show_ans w (a : sans) =
  let t = match a.an_target with None -> "none" | Some o -> show_obj false o in
  let r = match a.an_result with RFail -> "FAIL" | RSelf -> "SELF" | RNew o -> "NEW " ^ show_obj w o in
  "T " ^ t ^ " R " ^ r

let dispatch = function
  | ["derive"; k; p; _; vprv; vpub] ->
      show vprv vpub (bind (key_of_tok k) (fun x -> lib_subkey_for_path x (bytes_of_hex p)))
  | ["split"; k; p1; p2; vprv; vpub] ->
      show vprv vpub (bind (key_of_tok k) (fun x ->
        bind (lib_subkey_for_path x (bytes_of_hex p1)) (fun y -> lib_subkey_for_path (lib_public y) (bytes_of_hex p2))))
  | ["cpriv"; k; i; h; vprv; vpub] ->
      show vprv vpub (bind (key_of_tok k) (fun x -> lib_child_private x (z_of i) (h = "1")))
  | ["cpub"; k; i; vprv; vpub] ->
      show vprv vpub (bind (key_of_tok k) (fun x -> lib_child_public x (z_of i)))
  | ["spec"; k; p; vprv; vpub] ->
      show vprv vpub (bind (key_of_tok k) (fun x ->
        bind (lib_parse_path (bytes_of_hex p)) (fun pp -> s_subkey x (sem pp))))
  | ["wifidx"; k; n; a; vprv; vpub] ->
      (match key_of_tok k with
       | None -> "ERR"
       | Some x ->
           let v = bytes_of_hex (if a = "1" && lib_is_private x then vprv else vpub) in
           let r = lib_wif_index v (a = "1") x (if n = "-" then None else Some (z_of n)) in
           (match r with Some s -> str_of_bytes s | None -> "ERR") ^ " " ^ str_z (lib_meta x).m_index)
  | "sess" :: k :: cfg :: steps ->
      (match key_of_tok k with
       | None -> "ERR"
       | Some x ->
           let sw = List.map step_of_tok steps in
           let ans = lib_session { ho_key = x; ho_cfg = cfg_of_tok cfg } (List.map fst sw) in
           String.concat " | " (List.map2 (fun (_, w) a -> show_ans w a) sw ans))
  | _ -> "BADREQ"

let () = main dispatch
