(* c09_driver.ml — runs wallet key histories on the extracted C09 model (Model/WalletKeys.v).
   Same request / answer grammar as harness/impl/c09_impl.py; every key is computed from the seed alone. *)
module BZ = Z
module S = Stdlib.String
open C09_model
module H = Common.Make (struct type byte = C09_model.byte let zb = C09_model.zb let bz = C09_model.bz end)
open H

let rec nat_of_int n = if n <= 0 then O else S (nat_of_int (n - 1))
let rec int_of_nat = function O -> 0 | S n -> 1 + int_of_nat n

let char_of_ascii = function
  | Ascii (b0, b1, b2, b3, b4, b5, b6, b7) ->
      let v b k = if b then 1 lsl k else 0 in
      Char.chr (v b0 0 + v b1 1 + v b2 2 + v b3 3 + v b4 4 + v b5 5 + v b6 6 + v b7 7)
let rec str_of_coq = function
  | EmptyString -> ""
  | String (a, r) -> S.make 1 (char_of_ascii a) ^ str_of_coq r
let ascii_of_char c =
  let n = Char.code c in
  let b k = (n lsr k) land 1 = 1 in
  Ascii (b 0, b 1, b 2, b 3, b 4, b 5, b 6, b 7)
let coq_of_str (s : S.t) =
  let r = ref EmptyString in
  for i = S.length s - 1 downto 0 do r := String (ascii_of_char s.[i], !r) done;
  !r

(* bytes of an ASCII text produced by the model -> OCaml string *)
let text (l : byte list) : S.t =
  S.concat "" (List.map (fun b -> S.make 1 (Char.chr (BZ.to_int (bz b)))) l)
let otext = function Some l -> text l | None -> "?"

let wt_of = function "l" -> Some Legacy | "p" -> Some P2shSegwit | "s" -> Some Segwit | "-" -> None | _ -> failwith "wt"
let wt_s = function Legacy -> "legacy" | P2shSegwit -> "p2sh-segwit" | Segwit -> "segwit"
let oz = function "-" -> None | s -> Some (z_of s)
let onet = function "-" -> None | s -> Some (coq_of_str s)
let get = function Some x -> x | None -> failwith "none"

let path_s (root : S.t) (p : pelem list) =
  S.concat "/" (root :: List.map (fun (i, h) -> str_z i ^ (if h then "'" else "")) p)

let root_of (w : xkey wstate) = if BZ.gt w.ws_cfg.w_root_depth BZ.zero then "M" else "m"

let memo : (S.t, S.t * S.t) Hashtbl.t = Hashtbl.create 256
let addr_wif (k : xkey keyrec) =
  let key = S.concat "|" [hex_of_bytes k.k_x.x_chain; str_of_coq k.k_net; wt_s k.k_wt; bool_s (key_is_private k);
                          str_z k.k_x.x_depth; str_z k.k_x.x_child] in
  match Hashtbl.find_opt memo key with
  | Some r -> r
  | None -> let r = (otext (key_address k), otext (key_wif k)) in Hashtbl.replace memo key r; r

let fmt_key (w : xkey wstate) (k : xkey keyrec) =
  let (a, x) = addr_wif k in
  Printf.sprintf "%s|%s|%s|%s" (path_s (root_of w) k.k_path) a x (str_z k.k_index)
let fmt_keys w ks = if ks = [] then "-" else S.concat "," (List.map (fmt_key w) ks)

let fmt_db (w : xkey wstate) (k : xkey keyrec) =
  S.concat "|" [
    str_z k.k_id; path_s (root_of w) k.k_path; fst (addr_wif k); snd (addr_wif k); str_z k.k_account;
    (match k.k_change with Some c -> str_z c | None -> "-"); str_z k.k_index;
    str_z (BZ.add w.ws_cfg.w_root_depth (BZ.of_int (List.length k.k_path)));
    bool_s k.k_used; str_z k.k_purpose; str_of_coq k.k_net; wt_s k.k_wt; bool_s (key_is_private k); "-" ]

(* Wallet.keys(): ORDER BY id, depth — the book is kept in id order *)
let dump w = S.concat "," (List.map (fmt_db w) w.ws_keys)

let wt_l = function Legacy -> "l" | P2shSegwit -> "p" | Segwit -> "s"
let fmt_compact (w : xkey wstate) (k : xkey keyrec) =
  S.concat "/" [
    str_z k.k_id; str_z k.k_account; (match k.k_change with Some c -> str_z c | None -> "-"); str_z k.k_index;
    str_z (BZ.add w.ws_cfg.w_root_depth (BZ.of_int (List.length k.k_path)));
    bool_s k.k_used; wt_l k.k_wt; str_of_coq k.k_net ]

(* the table after a command: rows not reported before in full, the others compact *)
let seen : (S.t, unit) Hashtbl.t = Hashtbl.create 256
let snapshot slot (w : xkey wstate) =
  "~" ^ S.concat ";" (List.map (fun k ->
      let key = slot ^ "#" ^ str_z k.k_id in
      if Hashtbl.mem seen key then fmt_compact w k
      else (Hashtbl.replace seen key (); fmt_db w k)) w.ws_keys)

let obool = function "-" -> None | "1" -> Some true | _ -> Some false

let bytes_of_str (s : S.t) : byte list = List.init (S.length s) (fun i -> zb (BZ.of_int (Char.code s.[i])))

(* sentence token: words joined by _ , or hex:<utf-8>; optional +<hex password>; as UTF-8 bytes *)
let sentence_of tok =
  let (t, pw) = (match S.index_opt tok '+' with
      | Some i -> (S.sub tok 0 i, bytes_of_hex (S.sub tok (i + 1) (S.length tok - i - 1)))
      | None -> (tok, [])) in
  let sent = if S.length t > 4 && S.sub t 0 4 = "hex:" then bytes_of_hex (S.sub t 4 (S.length t - 4))
    else bytes_of_str (S.map (fun c -> if c = '_' then ' ' else c) t) in
  (sent, pw)

let pelem_of_tok t =
  let n = S.length t in
  if n > 0 && t.[n - 1] = 'h' then (z_of (S.sub t 0 (n - 1)), true) else (z_of t, false)

let run toks =
  match toks with
  | _ :: seedhex :: words :: cmds ->
      (* "-" = the seed is the BIP39 seed of sentence and password, computed by the model (the harness supplies
         both in NFKD form in that case) *)
      let seed = if seedhex = "-" then (let (sn, pw) = sentence_of words in spec_bip39_seed sn pw)
        else bytes_of_hex seedhex in
      Hashtbl.reset memo;
      Hashtbl.reset seen;
      let slots : (S.t, xkey wstate) Hashtbl.t = Hashtbl.create 4 in
      let out = ref [] in
      let emit s = out := s :: !out in
      let apply slot c o (f : xkey wstate -> xkey keyrec list -> S.t) =
        let w = Hashtbl.find slots slot in
        let (w', r) = wallet_step w o in
        Hashtbl.replace slots slot w';
        (match r with
         | Some ks -> emit (c ^ "=" ^ f w' ks ^ snapshot slot w')
         | None -> emit (c ^ "=ERR" ^ snapshot slot w')) in
      List.iter (fun cmd ->
          let f = S.split_on_char ':' cmd in
          let missing = (match f with
              | "C" :: _ :: _ :: _ :: _ :: _ :: src :: _ -> src <> "-" && not (Hashtbl.mem slots src)
              | "C" :: _ -> false
              | _ :: slot :: _ -> not (Hashtbl.mem slots slot)
              | _ -> false) in
          if missing then emit (List.hd f ^ "=NOSLOT") else
          match f with
          | "C" :: slot :: kind :: net :: wt :: acct :: rest ->
              let wt = get (wt_of wt) and acct = z_of acct and net = coq_of_str net in
              let from_src priv =
                let src = List.hd rest in
                let ws = Hashtbl.find slots src in
                (* the export call on the source wallet creates the account key when it is missing *)
                let (ws', _) = wallet_step ws (OPublicMaster (Some acct, None, None)) in
                Hashtbl.replace slots src ws';
                wallet_from_account_key net wt acct seed priv in
              let given = (match rest with _ :: _ :: g :: _ -> g | _ -> "") in
              (* flags A / P: the library of this run has fixes/C09-5 / fixes/C09-6 (the harness asked it) *)
              let flags = (match rest with _ :: fl :: _ -> fl | _ -> "") in
              let fixed w = set_lib_fixes w (S.contains flags 'A') (S.contains flags 'P') in
              let w = (match kind with
                  | "seed" | "mnem" | "mnemk" | "mnems" | "xprv" | "wkey" | "xprvs" | "xprvk" ->
                      wallet_from_seed net wt acct seed
                  | "xpub" | "xpubw" -> from_src false
                  | "axprv" -> from_src true
                  | "xpubs" | "xpubk" -> wallet_from_account_key net wt acct seed false
                  | "axprvs" | "axprvk" -> wallet_from_account_key net wt acct seed true
                  | _ -> failwith "kind") in
              (* an extended key written by the harness must be the model's own serialization of the main key *)
              let text_ok w = (match kind with
                  | "xprvs" | "xprvk" | "xpubs" | "xpubk" | "axprvs" | "axprvk" ->
                      (match List.filter (fun k -> k.k_path = []) w.ws_keys with
                       | [mk] -> otext (key_wif mk) = given
                       | _ -> false)
                  | _ -> true) in
              (match w with
               | Some w when text_ok w -> let w = fixed w in Hashtbl.replace slots slot w; emit ("C=ok" ^ snapshot slot w)
               | Some _ -> emit "C=BADKEY"
               | None -> emit "C=ERR")
          | ["K"; slot; acct; chg; wt; net; n] ->
              apply slot "K" (ONewKeys (oz acct, z_of chg, wt_of wt, onet net, nat_of_int (int_of_string n))) fmt_keys
          | ["G"; slot; acct; chg; wt; net; n] ->
              apply slot "G" (OGetKeys (oz acct, z_of chg, wt_of wt, onet net, nat_of_int (int_of_string n))) fmt_keys
          | ["A"; slot; acct; wt; net] ->
              apply slot "A" (ONewAccount (oz acct, wt_of wt, onet net)) fmt_keys
          | ["P"; slot; spec; acct; chg; idx; wt; net] ->
              let parts = S.split_on_char '.' spec in
              let (upath, full) = (match parts with
                  | "e" :: _ -> ([], false)
                  | "r" :: r | "s" :: r -> (List.map pelem_of_tok r, false)
                  | "f" :: "m" :: r | "f" :: "M" :: r -> (List.map pelem_of_tok r, true)
                  | _ -> failwith "path") in
              apply slot "P" (OKeysForPath (upath, full, oz acct, z_of chg, z_of idx, wt_of wt, onet net, S O)) fmt_keys
          | ["B"; slot; acct; chg; idx; wt; net; n] ->
              apply slot "B" (OKeysForPath ([], false, oz acct, z_of chg, z_of idx, wt_of wt, onet net,
                                            nat_of_int (int_of_string n))) fmt_keys
          | ["S"; slot; gap; acct; chg; net] ->
              apply slot "S" (OScan (nat_of_int (int_of_string gap), oz acct, oz chg, onet net)) (fun _ _ -> "ok")
          | ["U"; slot; j] ->
              apply slot "U" (OMarkUsed (nat_of_int (int_of_string j)))
                (fun _ ks -> match ks with [k] -> str_z k.k_id | _ -> "?")
          | ["R"; slot] | ["R"; slot; _] -> apply slot "R" OReopen (fun _ _ -> "ok")
          | ["L"; slot; how; acct; chg; depth; used; wt; net] ->
              let w = Hashtbl.find slots slot in
              let rows = (match how with
                  | "k" -> lib_keys_query w (oz acct) (oz chg) (oz depth) (obool used) (wt_of wt) (onet net)
                  | "a" -> lib_keys_addresses w (oz acct) (oz chg) (oz depth) (obool used) (onet net)
                  | "p" -> lib_keys_address_chain w BZ.zero (oz acct) (obool used) (onet net)
                  | "c" -> lib_keys_address_chain w BZ.one (oz acct) (obool used) (onet net)
                  | "l" -> lib_addresslist_rows w (oz acct) (oz chg) (oz depth) (obool used) (onet net)
                  | _ -> failwith "how") in
              let items = List.map (fun k -> if how = "l" then fst (addr_wif k) else str_z k.k_id) rows in
              emit ("L=" ^ (if items = [] then "-" else S.concat ";" items))
          | ["M"; slot; acct; wt; net] ->
              apply slot "M" (OPublicMaster (oz acct, wt_of wt, onet net))
                (fun w ks -> match ks with
                   | [k] -> path_s (root_of w) k.k_path ^ "|" ^ otext (key_wif_public k)
                   | _ -> "?")
          | ["Q"; slot; a] -> apply slot "Q" (OAccount (z_of a)) fmt_keys
          | ["X"; slot; j] ->
              (* WalletKey.public() of the j-th key at key depth: no effect on the book *)
              let w = Hashtbl.find slots slot in
              let lv = List.filter (fun k -> is_leaf w.ws_cfg k) w.ws_keys in
              let k = List.nth lv (int_of_string j mod List.length lv) in
              emit ("X=" ^ path_s (root_of w) k.k_path ^ "|" ^ otext (key_address k))
          | ["D"; slot] -> emit ("D=" ^ dump (Hashtbl.find slots slot))
          | _ -> failwith "cmd") cmds;
      S.concat " " (List.rev !out)
  | _ -> "BADREQ"

let vars l =
  match List.map z_of l with
  | [p; c; a; s; co; ch; i] ->
      { pv_purpose = p; pv_coin = c; pv_account = a; pv_script = s; pv_cosigner = co; pv_change = ch; pv_index = i }
  | _ -> failwith "vars"

let dispatch = function
  | "run" :: _ as t -> run t
  (* expand <wt> <ms> <coin> <acct> <chg> <idx> <cos> : table-driven path of a wallet structure vs the BIP path *)
  | ["expand"; wt; ms; coin; acct; chg; idx; cos; _net] ->
      let wt = get (wt_of wt) and ms = (ms = "1") in
      (match lib_key_structure wt ms with
       | None -> "ERR"
       | Some ((tpl, purpose), enc) ->
           let v = { pv_purpose = purpose; pv_coin = z_of coin; pv_account = z_of acct; pv_script = script_type_id wt;
                     pv_cosigner = z_of cos; pv_change = z_of chg; pv_index = z_of idx } in
           (match lib_path_expand [] false tpl None v with
            | Some p -> path_s "m" p ^ " " ^ str_of_coq enc
            | None -> "ERR"))
  (* multisig cosigner wallets are probed against the independent oracle only (no key book model for them) *)
  | "msrun" :: _ -> "PROBE"
  (* wallets with a custom key_path (hardened change / index levels, ...): no key book model, oracle only *)
  | "kprun" :: _ -> "PROBE"
  (* configurations / arguments outside the key book model (single-key wallets, level_offset, cosigner_id): oracle only *)
  | "probe" :: _ -> "PROBE"
  | _ -> "BADREQ"

let () = main dispatch
