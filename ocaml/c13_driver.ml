(* c13_driver.ml — evaluates the extracted C13 model (ECDSA sign / parse / verify, DER) on request lines.
   Integers are decimal, bytes lower-case hex ("-" = empty).  Answers of verify / parse carry the model's
   finding-class flags after a '|' (der64, lax_der, unreduced key coordinates); the harness compares the
   part before it with the implementation. *)
module BZ = Z
open C13_model
module H = Common.Make (struct type byte = C13_model.byte let zb = C13_model.zb let bz = C13_model.bz end)
open H

let kopt t = if t = "-" then None else Some (z_of t)
let flags sg q =
  Printf.sprintf "|der64=%s lax=%s unred=%s" (bool_s (der64 sg)) (bool_s (lax_der sg))
    (match q with Some q -> bool_s (not (coords_reduced q)) | None -> "0")
let vres = function Some true -> "1" | Some false -> "0" | None -> "ERR"
let in_range v = BZ.geq v BZ.one && BZ.lt v secp_n
let last_byte sg = match List.rev sg with b :: _ -> [b] | [] -> []

(* ---- argument forms.  A digest / signature / key-text argument is a form letter and a hex field:
     b = a bytes object holding the field's bytes        h = the field's bytes as lower-case hex text
     U = the same as upper-case hex text                 t = a str whose CHARACTERS are the field's bytes (ASCII) *)
let ascii (s : string) : C13_model.byte list =
  List.init (String.length s) (fun i -> C13_model.zb (BZ.of_int (Char.code s.[i])))
let parg form field =
  let hex = if field = "-" then "" else field in
  match form with
  | 'b' -> PBytes (bytes_of_hex field)
  | 'h' -> PText (ascii (String.lowercase_ascii hex))
  | 'U' -> PText (ascii (String.uppercase_ascii hex))
  | 't' -> PText (bytes_of_hex field)
  | _ -> failwith "argument form"
(* a digest token of a V source: plain hex = bytes, or a form letter h / U / t in front *)
let parg_tok t =
  if t <> "" && (t.[0] = 'h' || t.[0] = 'U' || t.[0] = 't') then parg t.[0] (String.sub t 1 (String.length t - 1))
  else parg 'b' t

(* ---- sessions.  signseq <mode> <d:msg:k|-:ht:form> ...      -> answers joined by ';'
                   vseq <mode> <src> <step> ...                 -> "ERR" (no object) | verdicts joined by ','
   src  = S|C:d:msg:k|-:ht:form | P:how:sig:keyarg|- | V:r:s:dg|*:keyarg|- | N:form:sig (steps may end in :sig)
   step = <entry><dgform>:<dg|*>:<keyarg|*>       keyarg = K|H|B|X|Y|Z|T<hex>  V|W<decimal private key>
   every digest / signature / key-text argument goes through the argument-form layer of Model/Ecdsa.v (parg) *)
let colon t = String.split_on_char ':' t
let sign_ans = function
  | Some ((r, s), der) -> str_z r ^ " " ^ str_z s ^ " " ^ hex_of_bytes der
  | None -> "ERR"
let sign_req_of t = match colon t with
  | [d; m; k; ht; form] ->
      { sf_d = z_of d; sf_dg = parg form.[0] m; sf_k = kopt k; sf_ht = z_of ht }
  | _ -> failwith "sign step"
let fkey_of t =
  let body = String.sub t 1 (String.length t - 1) in
  match t.[0] with
  | 'K' | 'H' -> FK (KObj (bytes_of_hex body))
  | 'B' -> FP (parg 'b' body)
  | 'X' -> FP (parg 'h' body)
  | 'Y' -> FP (parg 'U' body)
  | 'Z' -> FP (parg 't' body)
  | 'T' -> FK (KPoint (BZ.zero, BZ.zero))
  | 'V' | 'W' -> FK (KPriv (z_of body))
  | _ -> failwith "key arg"
let key_arg_of t = key_of_fkey (fkey_of t)
let opt_fkey t = if t = "*" || t = "-" then None else Some (fkey_of t)
let opt_dg form t = if t = "*" then None else Some (parg form t)
(* step = <entry><dgform>:<dg|*>:<keyarg|*>; entry A = by attribute assignment *)
let step_of t = match colon t with
  | [h; dg; ka] -> ((h.[0] = 'A', opt_dg h.[1] dg), opt_fkey ka)
  | _ -> failwith "verify step"
(* how a P source hands the signature over: b parse_bytes(bytes) / a parse(bytes) / x parse_hex(lower text) /
   A parse(lower text) / u parse_hex(upper text) / w parse(upper text) / T parse_hex(text) / t parse(text) *)
let sig_form_of_how = function
  | "b" | "a" -> 'b' | "x" | "A" -> 'h' | "u" | "w" -> 'U' | "T" | "t" -> 't' | _ -> failwith "parse how"
let src_of t = match colon t with
  | ["S" | "C"; d; m; k; ht; form] -> FSign (z_of d, parg form.[0] m, kopt k, z_of ht)
  | ["P"; how; sg; ka] -> FBytes (parg (sig_form_of_how how) sg, opt_fkey ka)
  | ["V"; r; s; dg; ka] -> FValues (z_of r, z_of s, (if dg = "*" then None else Some (parg_tok dg)), opt_fkey ka)
  | _ -> failwith "source"
let parse_ans sg = function
  | Some ((r, s), ht) when in_range r && in_range s ->
      (* as_der_encoded(): the DER bytes that were parsed are kept; the raw form is re-encoded *)
      let re = if List.length sg = 64 then der_enc r s @ [zb ht] else sg in
      str_z r ^ " " ^ str_z s ^ " " ^ str_z ht ^ " " ^ hex_of_bytes re
  | _ -> "ERR"

let dispatch = function
  | "signseq" :: _ :: steps ->
      String.concat ";" (List.map sign_ans (lib_sign_session_forms (List.map sign_req_of steps)))
  | "vseq" :: _ :: src :: steps when String.length src > 1 && src.[0] = 'N' ->
      (match colon src with
       | [_; sform; sg] ->
           String.concat "," (List.map (fun t ->
             (* a step may carry its own encoded signature as a 4th field *)
             let t, sg = match colon t with
               | [h; dg; ka; own] -> (String.concat ":" [h; dg; ka], own)
               | _ -> (t, sg) in
             match step_of t with
             | ((_, Some dg), Some ka) -> vres (lib_verify_fkey dg (parg sform.[0] sg) ka)
             | _ -> failwith "omitted argument without an object") steps)
       | _ -> "BADREQ")
  | ["vsteppre"; r; s; dg; ka] ->      (* one step on the tree before fix C13-3 *)
      vres (lib_verify_step_prefix (z_of r) (z_of s) (bytes_of_hex dg) (key_arg_of ka))
  | "vseq" :: _ :: src :: steps ->
      (match lib_verify_session_forms (src_of src) (List.map step_of steps) with
       | None -> "ERR"
       | Some l -> String.concat "," (List.map vres l))
  | ["sign"; d; m; k; ht; form] ->
      sign_ans (lib_sign_forms (z_of d) (parg form.[0] m) (kopt k) (z_of ht))
  | ["signupper"; d; m; ht] ->                  (* the function-level model of finding hex_case_changes_nonce *)
      sign_ans (lib_sign_upper (z_of d) (bytes_of_hex m) (z_of ht))
  | ["signbytes"; d; m; k; ht] ->               (* the function-level model on the digest bytes *)
      sign_ans (lib_sign (z_of d) (bytes_of_hex m) (kopt k) (z_of ht))
  | "signpre" :: d :: m :: k :: ht :: _ ->
      (match lib_sign_prefix (z_of d) (bytes_of_hex m) (kopt k) (z_of ht) with
       | Some ((r, s), der) -> str_z r ^ " " ^ str_z s ^ " " ^ hex_of_bytes der
       | None -> "ERR")
  | ["verify"; dg; sg; pk; form] when String.length form = 3 && form.[2] = 'L' ->
      (* Key(pk, strict=False): the tolerant key reading, then the point-level model *)
      let sg = bytes_of_hex sg in
      (match lib_pub_point_lax (bytes_of_hex pk) with
       | None -> "ERR" ^ flags sg None
       | Some q -> vres (lib_verify (bytes_of_hex dg) sg q) ^ flags sg (Some q))
  | ["verify"; dg; sg; pk; form] when String.length form = 3 ->
      (* digest and signature as given (b / h / U / t); key: K = Key object, B = bytes, X / Y = lower / upper hex text,
         Z = text whose characters are the field *)
      let key = fkey_of (String.make 1 form.[2] ^ pk) in
      let sga = parg form.[1] sg in
      vres (lib_verify_fkey (parg form.[0] dg) sga key)
      ^ flags (match sig_of_form sga with Some b -> b | None -> []) None
  | "verifybytes" :: dg :: sg :: pk :: _ ->     (* the function-level model on the three byte strings *)
      let sg = bytes_of_hex sg in
      vres (lib_verify_key (bytes_of_hex dg) sg (bytes_of_hex pk)) ^ flags sg None
  | ["meaning"; form; field] ->
      (match arg_meaning (parg form.[0] field) with Some b -> hex_of_bytes b | None -> "NONE")
  | "specverify" :: dg :: sg :: pk :: _ ->
      vres (spec_verify_key (lib_z (bytes_of_hex dg)) (bytes_of_hex sg) (bytes_of_hex pk))
  | ["parse"; sg] ->
      let sg = bytes_of_hex sg in
      parse_ans sg (lib_parse sg) ^ flags sg None
  | ["parsef"; how; form; sg] ->                (* how = b parse_bytes / x parse_hex / a parse; the argument as given *)
      let a = parg form.[0] sg in
      let h = (match how with "b" -> HowBytes | "x" -> HowHex | "a" -> HowAny | _ -> failwith "parse how") in
      let sgb = (match sig_of_form a with Some b -> b | None -> []) in
      parse_ans sgb (lib_parse_forms h a) ^ flags sgb None
  | ["parsepre"; sg] ->
      (match lib_parse_prefix (bytes_of_hex sg) with
       | Some ((r, s), ht) when in_range r && in_range s -> str_z r ^ " " ^ str_z s ^ " " ^ str_z ht
       | _ -> "ERR")
  | ["specparse"; sg] ->
      (match spec_parse (bytes_of_hex sg) with
       | Some ((r, s), ht) -> str_z r ^ " " ^ str_z s ^ " " ^ str_z ht
       | None -> "ERR")
  | ["strict"; sg] -> bool_s (is_strict_der (bytes_of_hex sg))
  | ["nonce"; d; h1] -> str_z (rfc6979_nonce (z_of d) (bytes_of_hex h1))
  | ["derenc"; r; s] -> hex_of_bytes (der_enc (z_of r) (z_of s))
  | ["pub"; d] -> hex_of_bytes (ser_point_compressed (secp_pub (z_of d)))
  | _ -> "BADREQ"

let () = main dispatch
