(* c13_driver.ml — evaluates the extracted C13 model (ECDSA sign / parse / verify, DER) on request lines.
   Integers are decimal, bytes lower-case hex ("-" = empty).  Answers of verify / parse carry the model's
   finding-class flags after a '|' (der64, lax_der, unreduced key coordinates); the harness compares the
   part before it with the implementation. *)
module BZ = Z
open C13_model
module H = Common.Make (struct type byte = C13_model.byte let zb = C13_model.zb let bz = C13_model.bz end)
open H

let kopt t = if t = "-" then None else Some (z_of t)
let flags sg q =
  Printf.sprintf "|der64=%s lax=%s unred=%s" (bool_s (der64 sg)) (bool_s (lax_der sg))
    (match q with Some q -> bool_s (not (coords_reduced q)) | None -> "0")
let vres = function Some true -> "1" | Some false -> "0" | None -> "ERR"
let in_range v = BZ.geq v BZ.one && BZ.lt v secp_n
let last_byte sg = match List.rev sg with b :: _ -> [b] | [] -> []

let dispatch = function
  | ["sign"; d; m; "-"; ht; form] when form.[0] = 'U' ->
      (match lib_sign_upper (z_of d) (bytes_of_hex m) (z_of ht) with
       | Some ((r, s), der) -> str_z r ^ " " ^ str_z s ^ " " ^ hex_of_bytes der
       | None -> "ERR")
  | "sign" :: d :: m :: k :: ht :: _ ->
      (match lib_sign (z_of d) (bytes_of_hex m) (kopt k) (z_of ht) with
       | Some ((r, s), der) -> str_z r ^ " " ^ str_z s ^ " " ^ hex_of_bytes der
       | None -> "ERR")
  | "signpre" :: d :: m :: k :: ht :: _ ->
      (match lib_sign_prefix (z_of d) (bytes_of_hex m) (kopt k) (z_of ht) with
       | Some ((r, s), der) -> str_z r ^ " " ^ str_z s ^ " " ^ hex_of_bytes der
       | None -> "ERR")
  | ["verify"; dg; sg; pk; form] when String.length form = 3 && form.[2] = 'L' ->
      (* Key(pk, strict=False): the tolerant key reading, then the point-level model *)
      let sg = bytes_of_hex sg in
      (match lib_pub_point_lax (bytes_of_hex pk) with
       | None -> "ERR" ^ flags sg None
       | Some q -> vres (lib_verify (bytes_of_hex dg) sg q) ^ flags sg (Some q))
  | "verify" :: dg :: sg :: pk :: _ ->
      let sg = bytes_of_hex sg in
      vres (lib_verify_key (bytes_of_hex dg) sg (bytes_of_hex pk)) ^ flags sg None
  | "specverify" :: dg :: sg :: pk :: _ ->
      vres (spec_verify_key (lib_z (bytes_of_hex dg)) (bytes_of_hex sg) (bytes_of_hex pk))
  | ["parse"; sg] ->
      let sg = bytes_of_hex sg in
      (match lib_parse sg with
       | Some ((r, s), ht) when in_range r && in_range s ->
           (* as_der_encoded(): the DER bytes that were parsed are kept; the raw form is re-encoded *)
           let re = if List.length sg = 64 then der_enc r s @ [zb ht] else sg in
           str_z r ^ " " ^ str_z s ^ " " ^ str_z ht ^ " " ^ hex_of_bytes re
       | _ -> "ERR") ^ flags sg None
  | ["parsepre"; sg] ->
      (match lib_parse_prefix (bytes_of_hex sg) with
       | Some ((r, s), ht) when in_range r && in_range s -> str_z r ^ " " ^ str_z s ^ " " ^ str_z ht
       | _ -> "ERR")
  | ["specparse"; sg] ->
      (match spec_parse (bytes_of_hex sg) with
       | Some ((r, s), ht) -> str_z r ^ " " ^ str_z s ^ " " ^ str_z ht
       | None -> "ERR")
  | ["strict"; sg] -> bool_s (is_strict_der (bytes_of_hex sg))
  | ["nonce"; d; h1] -> str_z (rfc6979_nonce (z_of d) (bytes_of_hex h1))
  | ["derenc"; r; s] -> hex_of_bytes (der_enc (z_of r) (z_of s))
  | ["pub"; d] -> hex_of_bytes (ser_point_compressed (secp_pub (z_of d)))
  | _ -> "BADREQ"

let () = main dispatch
