(* c13_driver.ml — evaluates the extracted C13 model (ECDSA sign / parse / verify, DER) on request lines.
   Integers are decimal, bytes lower-case hex ("-" = empty).  Answers of verify / parse carry the model's
   finding-class flags after a '|' (der64, lax_der, unreduced key coordinates); the harness compares the
   part before it with the implementation. *)
module BZ = Z
open C13_model
module H = Common.Make (struct type byte = C13_model.byte let zb = C13_model.zb let bz = C13_model.bz end)
open H

let kopt t = if t = "-" then None else Some (z_of t)
let flags sg q =
  Printf.sprintf "|der64=%s lax=%s unred=%s" (bool_s (der64 sg)) (bool_s (lax_der sg))
    (match q with Some q -> bool_s (not (coords_reduced q)) | None -> "0")
let vres = function Some true -> "1" | Some false -> "0" | None -> "ERR"
let in_range v = BZ.geq v BZ.one && BZ.lt v secp_n
let last_byte sg = match List.rev sg with b :: _ -> [b] | [] -> []

(* ---- sessions.  signseq <mode> <d:msg:k|-:ht:form> ...      -> answers joined by ';'
                   vseq <mode> <src> <step> ...                 -> "ERR" (no object) | verdicts joined by ','
   src  = S|C:d:msg:k|-:ht:form | P:how:sig:keyarg|- | V:r:s:dg|*:keyarg|- | N:form:sig (steps may end in :sig)
   step = <entry><dgform>:<dg|*>:<keyarg|*>       keyarg = K|H|B|X|Y|T<sec hex>  V|W<decimal private key> *)
let colon t = String.split_on_char ':' t
let sign_ans = function
  | Some ((r, s), der) -> str_z r ^ " " ^ str_z s ^ " " ^ hex_of_bytes der
  | None -> "ERR"
let sign_req_of t = match colon t with
  | [d; m; k; ht; form] when form.[0] <> 'U' ->
      { sq_d = z_of d; sq_msg = bytes_of_hex m; sq_k = kopt k; sq_ht = z_of ht }
  | _ -> failwith "sign step"
let key_arg_of t =
  let body = String.sub t 1 (String.length t - 1) in
  match t.[0] with
  | 'K' | 'H' -> KObj (bytes_of_hex body)
  | 'B' -> KBytes (bytes_of_hex body)
  | 'X' | 'Y' -> KText (bytes_of_hex body)
  | 'T' -> KPoint (BZ.zero, BZ.zero)
  | 'V' | 'W' -> KPriv (z_of body)
  | _ -> failwith "key arg"
let opt_key t = if t = "*" || t = "-" then None else Some (key_arg_of t)
let opt_dg t = if t = "*" then None else Some (bytes_of_hex t)
let step_of t = match colon t with
  | [_; dg; ka] -> (opt_dg dg, opt_key ka)
  | _ -> failwith "verify step"
let src_of t = match colon t with
  | ("S" | "C") :: rest -> SrcSign (sign_req_of (String.concat ":" rest))
  | ["P"; _; sg; ka] -> SrcBytes (bytes_of_hex sg, opt_key ka)
  | ["V"; r; s; dg; ka] -> SrcValues (z_of r, z_of s, opt_dg dg, opt_key ka)
  | _ -> failwith "source"

let dispatch = function
  | "signseq" :: _ :: steps ->
      String.concat ";" (List.map sign_ans (lib_sign_session (List.map sign_req_of steps)))
  | "vseq" :: _ :: src :: steps when String.length src > 1 && src.[0] = 'N' ->
      (match colon src with
       | [_; _; sg] ->
           let sg = bytes_of_hex sg in
           String.concat "," (List.map (fun t ->
             (* a step may carry its own encoded signature as a 4th field *)
             let t, sg = match colon t with
               | [h; dg; ka; own] -> (String.concat ":" [h; dg; ka], bytes_of_hex own)
               | _ -> (t, sg) in
             match step_of t with
             | (Some dg, Some ka) -> vres (lib_verify_arg dg sg ka)
             | _ -> failwith "omitted argument without an object") steps)
       | _ -> "BADREQ")
  | ["vsteppre"; r; s; dg; ka] ->      (* one step on the tree before fix C13-3 *)
      vres (lib_verify_step_prefix (z_of r) (z_of s) (bytes_of_hex dg) (key_arg_of ka))
  | "vseq" :: _ :: src :: steps ->
      (match lib_verify_session (src_of src) (List.map step_of steps) with
       | None -> "ERR"
       | Some l -> String.concat "," (List.map vres l))
  | ["sign"; d; m; "-"; ht; form] when form.[0] = 'U' ->
      (match lib_sign_upper (z_of d) (bytes_of_hex m) (z_of ht) with
       | Some ((r, s), der) -> str_z r ^ " " ^ str_z s ^ " " ^ hex_of_bytes der
       | None -> "ERR")
  | "sign" :: d :: m :: k :: ht :: _ ->
      (match lib_sign (z_of d) (bytes_of_hex m) (kopt k) (z_of ht) with
       | Some ((r, s), der) -> str_z r ^ " " ^ str_z s ^ " " ^ hex_of_bytes der
       | None -> "ERR")
  | "signpre" :: d :: m :: k :: ht :: _ ->
      (match lib_sign_prefix (z_of d) (bytes_of_hex m) (kopt k) (z_of ht) with
       | Some ((r, s), der) -> str_z r ^ " " ^ str_z s ^ " " ^ hex_of_bytes der
       | None -> "ERR")
  | ["verify"; dg; sg; pk; form] when String.length form = 3 && form.[2] = 'L' ->
      (* Key(pk, strict=False): the tolerant key reading, then the point-level model *)
      let sg = bytes_of_hex sg in
      (match lib_pub_point_lax (bytes_of_hex pk) with
       | None -> "ERR" ^ flags sg None
       | Some q -> vres (lib_verify (bytes_of_hex dg) sg q) ^ flags sg (Some q))
  | "verify" :: dg :: sg :: pk :: _ ->
      let sg = bytes_of_hex sg in
      vres (lib_verify_key (bytes_of_hex dg) sg (bytes_of_hex pk)) ^ flags sg None
  | "specverify" :: dg :: sg :: pk :: _ ->
      vres (spec_verify_key (lib_z (bytes_of_hex dg)) (bytes_of_hex sg) (bytes_of_hex pk))
  | ["parse"; sg] ->
      let sg = bytes_of_hex sg in
      (match lib_parse sg with
       | Some ((r, s), ht) when in_range r && in_range s ->
           (* as_der_encoded(): the DER bytes that were parsed are kept; the raw form is re-encoded *)
           let re = if List.length sg = 64 then der_enc r s @ [zb ht] else sg in
           str_z r ^ " " ^ str_z s ^ " " ^ str_z ht ^ " " ^ hex_of_bytes re
       | _ -> "ERR") ^ flags sg None
  | ["parsepre"; sg] ->
      (match lib_parse_prefix (bytes_of_hex sg) with
       | Some ((r, s), ht) when in_range r && in_range s -> str_z r ^ " " ^ str_z s ^ " " ^ str_z ht
       | _ -> "ERR")
  | ["specparse"; sg] ->
      (match spec_parse (bytes_of_hex sg) with
       | Some ((r, s), ht) -> str_z r ^ " " ^ str_z s ^ " " ^ str_z ht
       | None -> "ERR")
  | ["strict"; sg] -> bool_s (is_strict_der (bytes_of_hex sg))
  | ["nonce"; d; h1] -> str_z (rfc6979_nonce (z_of d) (bytes_of_hex h1))
  | ["derenc"; r; s] -> hex_of_bytes (der_enc (z_of r) (z_of s))
  | ["pub"; d] -> hex_of_bytes (ser_point_compressed (secp_pub (z_of d)))
  | _ -> "BADREQ"

let () = main dispatch
