(* c14_driver.ml — evaluates the extracted C14 model (BIP39 / change_base) on request lines.
   bit strings: '0'/'1' characters, "-" when empty; index lists: comma-separated decimals, "-" when empty. *)
module BZ = Z
open C14_model
module H = Common.Make (struct type byte = C14_model.byte let zb = C14_model.zb let bz = C14_model.bz end)
open H

let rec nat_of_int n = if n <= 0 then O else S (nat_of_int (n - 1))

let bits_of_str s =
  if s = "-" then [] else List.init (String.length s) (fun i -> BZ.of_int (Char.code s.[i] - 48))
let str_of_bits l =
  if l = [] then "-" else String.concat "" (List.map BZ.to_string l)
let zs_of_str s =
  if s = "-" then [] else List.map BZ.of_string (String.split_on_char ',' s)
let str_of_zs l =
  if l = [] then "-" else String.concat "," (List.map BZ.to_string l)
let hex_of_zs l =
  if l = [] then "-" else String.concat "" (List.map (fun z -> Printf.sprintf "%02x" (BZ.to_int z)) l)
let zs_of_hex h = List.map C14_model.bz (bytes_of_hex h)

(* ---- the calls of the public API as model requests (Model/Bip39.v: mreq / answer / run_session) ----
   order: comma-separated list numbers (directory order of the word-list files); a sentence: words separated by ';',
   a word = its comma-separated positions in the nine lists (-1 = absent); flags: 0 / 1 *)
let rec int_of_nat = function O -> 0 | S n -> 1 + int_of_nat n
let nats_of_str s =
  if s = "-" then [] else List.map (fun x -> nat_of_int (int_of_string x)) (String.split_on_char ',' s)
let profs_of_str s =
  if s = "-" then [] else List.map zs_of_str (String.split_on_char ';' s)
let flag s = (s = "1")

let mreq_of = function
  | ["xmn"; a; c; h] -> Some (RqMnemonic (flag a, flag c, bytes_of_hex h))
  | ["xent"; o; self; f; ws] ->
      Some (RqEntropy (nats_of_str o, nat_of_int (int_of_string self), flag f, profs_of_str ws))
  | ["xseed"; o; self; v; ws; snfkd; pw; pwnfkd] ->
      let sn = bytes_of_hex snfkd in
      Some (RqSeed (nats_of_str o, nat_of_int (int_of_string self), flag v, profs_of_str ws, (sn, sn),
                    (bytes_of_hex pw, bytes_of_hex pwnfkd)))
  | ["xdet"; o; ws] -> Some (RqDetect (nats_of_str o, profs_of_str ws))
  | ["xsan"; o; ws] -> Some (RqSanitize (nats_of_str o, profs_of_str ws))
  | _ -> None

let str_of_mres = function
  | RsIdx l -> str_of_zs l
  | RsBytes b -> hex_of_bytes b
  | RsQuery (p, s) -> "Q " ^ hex_of_bytes p ^ " " ^ hex_of_bytes s
  | RsLang k -> "L" ^ string_of_int (int_of_nat k)
  | RsOk -> "OK"
  | RsErr -> "ERR"

(* split a token list at the "|" tokens *)
let split_bar toks =
  let rec go cur acc = function
    | [] -> List.rev (List.rev cur :: acc)
    | "|" :: r -> go [] (List.rev cur :: acc) r
    | t :: r -> go (t :: cur) acc r in
  go [] [] toks

let dispatch = function
  | "seq" :: rest ->
      let subs = List.map mreq_of (split_bar rest) in
      if List.exists (fun x -> x = None) subs then "BADREQ"
      else
        let rs = run_session (List.map (function Some r -> r | None -> assert false) subs) in
        String.concat " | " (List.map str_of_mres rs)
  | ("xmn" | "xent" | "xseed" | "xdet" | "xsan") :: _ as toks ->
      (match mreq_of toks with Some r -> str_of_mres (answer r) | None -> "BADREQ")
  | ["cb10_2"; n; m] -> opt str_of_bits (lib_cb_10_2 (z_of n) (nat_of_int (int_of_string m)))
  | ["cb256_2"; h; m] -> str_of_bits (lib_cb_256_2 (zs_of_hex h) (nat_of_int (int_of_string m)))
  | ["cb2_2048"; b] -> str_of_zs (lib_cb_2_2048 (bits_of_str b))
  | ["cb2048_256"; l; m] -> hex_of_zs (lib_cb_2048_256 (zs_of_str l) (nat_of_int (int_of_string m)))
  | ["cb2_256"; b; m] -> hex_of_zs (lib_cb_2_256 (bits_of_str b) (nat_of_int (int_of_string m)))
  | ["to_bytes"; h] -> hex_of_bytes (lib_to_bytes (bytes_of_hex h))
  | ["mn"; h] -> opt str_of_zs (lib_to_indices_sha (bytes_of_hex h))
  | ["ent"; l] -> opt hex_of_bytes (lib_to_entropy_sha (zs_of_str l))
  | ["entw"; l] -> opt hex_of_bytes (lib_entropy_of_words_sha (zs_of_str l))
  | ["spec_mn"; h] -> str_of_zs (spec_to_indices_sha (bytes_of_hex h))
  | ["spec_ent"; l] -> opt hex_of_bytes (spec_to_entropy_sha (zs_of_str l))
  | ["seed"; l; snfkd; pw; pwnfkd] ->
      (* the sentence is the word sequence l (integers; -1 = a word outside the list); the harness supplies the
         UTF-8 bytes of its NFKD form and of the password raw / NFKD-normalised; the answer is the PBKDF2 query *)
      let ok = (match lib_entropy_of_words_sha (zs_of_str l) with Some _ -> true | None -> false) in
      let sn = bytes_of_hex snfkd in
      (match lib_seed_query_x (sn, sn) (bytes_of_hex pw, bytes_of_hex pwnfkd) ok with
       | Some (p, s) -> "Q " ^ hex_of_bytes p ^ " " ^ hex_of_bytes s
       | None -> "ERR")
  | _ -> "BADREQ"

let () = main dispatch
