(* c18_driver.ml — evaluates the extracted C18 model on request lines. *)
module BZ = Z
open C18_model
module H = Common.Make (struct type byte = C18_model.byte let zb = C18_model.zb let bz = C18_model.bz end)
open H

let rec int_of_nat = function O -> 0 | S n -> 1 + int_of_nat n

(* cmd list token: comma-separated, "oXX" opcode, "dHEX" data ("d-" empty data); "-" empty list *)
let cmds_of_tok t =
  if t = "-" then []
  else List.map (fun s ->
      let body = String.sub s 1 (String.length s - 1) in
      match s.[0] with
      | 'o' -> (match bytes_of_hex body with [b] -> Op b | _ -> failwith "op")
      | 'd' -> Data (bytes_of_hex body)
      | _ -> failwith "cmd") (String.split_on_char ',' t)

let tok_of_cmds cs =
  if cs = [] then "-"
  else String.concat "," (List.map (function Op b -> "o" ^ hex_of_bytes [b] | Data d -> "d" ^ hex_of_bytes d) cs)

let rec tok_of_items l =
  if l = [] then "-"
  else String.concat "," (List.map (function
      | IOp b -> "o" ^ hex_of_bytes [b]
      | IData d -> "d" ^ hex_of_bytes d
      | IList x -> "[" ^ tok_of_items x ^ "]") l)

let yes _ = true

let dispatch = function
  | ["cs_enc"; n] -> opt hex_of_bytes (lib_cs_enc (z_of n))
  | ["cs_dec"; h] -> let (v, k) = lib_cs_dec (bytes_of_hex h) in str_z v ^ " " ^ string_of_int (int_of_nat k)
  | ["core_cs_enc"; n] -> hex_of_bytes (core_cs_enc (z_of n))
  | ["core_cs_dec"; h] ->
      (match core_cs_dec (bytes_of_hex h) with Some (v, r) -> str_z v ^ " " ^ hex_of_bytes r | None -> "ERR")
  | ["varstr"; h] -> opt hex_of_bytes (lib_varstr (bytes_of_hex h))
  | ["encode_num"; z] -> hex_of_bytes (lib_encode_num (z_of z))
  | ["decode_num"; h] -> str_z (lib_decode_num (bytes_of_hex h))
  | ["core_num_ser"; z] -> hex_of_bytes (core_scriptnum_ser (z_of z))
  | ["core_num_dec"; h] -> str_z (core_scriptnum_dec (bytes_of_hex h))
  | ["core_minimal"; h] -> bool_s (core_minimal (bytes_of_hex h))
  | ["data_pack"; h] -> opt hex_of_bytes (lib_data_pack (bytes_of_hex h))
  | ["core_push"; h] -> hex_of_bytes (core_push (bytes_of_hex h))
  | ["serialize"; c] -> opt hex_of_bytes (lib_serialize (cmds_of_tok c))
  | ["parse_plain"; h] -> opt tok_of_cmds (parse_plain (bytes_of_hex h))
  | ["parse"; dl; h] ->
      (* dl = "len" (parse_bytes / parse_hex) or "half" (Script.parse(bytes)) *)
      let s = bytes_of_hex h in
      let n = BZ.of_int (List.length s) in
      let d = if dl = "half" then BZ.div n (BZ.of_int 2) else n in
      (match lib_parse_dl yes yes d s with
       | POk l -> tok_of_items l ^ " " ^ opt hex_of_bytes (lib_serialize_items l)
       | PSoft -> "ERR soft"
       | PHard -> "ERR hard")
  | _ -> "BADREQ"

let () = main dispatch
