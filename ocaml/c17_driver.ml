(* c17_driver.ml — evaluates the extracted C17 model (coq/Model/Amount.v, primitive floats) on request lines.
   Strings travel as hex of their UTF-8 encoding ("-" = empty); floats as Python float.hex() text. *)
module BZ = Z
module S = String
open C17_model
module H = Common.Make (struct type byte = C17_model.byte let zb = C17_model.zb let bz = C17_model.bz end)
open H

(* ---- UTF-8 <-> code point lists ---- *)
let cps_of_utf8 (s : S.t) =
  let n = S.length s in
  let rec go i acc =
    if i >= n then List.rev acc
    else
      let c = Char.code s.[i] in
      let cont k = Char.code s.[i + k] land 0x3f in
      if c < 0x80 then go (i + 1) (BZ.of_int c :: acc)
      else if c < 0xe0 then go (i + 2) (BZ.of_int (((c land 0x1f) lsl 6) lor cont 1) :: acc)
      else if c < 0xf0 then go (i + 3) (BZ.of_int (((c land 0x0f) lsl 12) lor (cont 1 lsl 6) lor cont 2) :: acc)
      else go (i + 4) (BZ.of_int (((c land 0x07) lsl 18) lor (cont 1 lsl 12) lor (cont 2 lsl 6) lor cont 3) :: acc)
  in
  go 0 []

let utf8_of_cps l =
  let b = Buffer.create 32 in
  List.iter (fun z ->
      let c = BZ.to_int z in
      if c < 0x80 then Buffer.add_char b (Char.chr c)
      else if c < 0x800 then (Buffer.add_char b (Char.chr (0xc0 lor (c lsr 6))); Buffer.add_char b (Char.chr (0x80 lor (c land 0x3f))))
      else if c < 0x10000 then (Buffer.add_char b (Char.chr (0xe0 lor (c lsr 12)));
                                Buffer.add_char b (Char.chr (0x80 lor ((c lsr 6) land 0x3f)));
                                Buffer.add_char b (Char.chr (0x80 lor (c land 0x3f))))
      else (Buffer.add_char b (Char.chr (0xf0 lor (c lsr 18)));
            Buffer.add_char b (Char.chr (0x80 lor ((c lsr 12) land 0x3f)));
            Buffer.add_char b (Char.chr (0x80 lor ((c lsr 6) land 0x3f)));
            Buffer.add_char b (Char.chr (0x80 lor (c land 0x3f))))) l;
  Buffer.contents b

let raw_of_hex h =
  if h = "-" then ""
  else S.init (S.length h / 2) (fun i -> Char.chr ((hexval h.[2 * i] * 16) + hexval h.[(2 * i) + 1]))

let hex_of_raw s =
  if s = "" then "-"
  else S.concat "" (List.init (S.length s) (fun i -> Printf.sprintf "%02x" (Char.code s.[i])))

let str_of_hex h = cps_of_utf8 (raw_of_hex h)
let hex_of_str l = hex_of_raw (utf8_of_cps l)

(* ---- Python float.hex() ---- *)
let pyhex (x : Float64.t) =
  let f = Float64.to_float x in
  let bits = Int64.bits_of_float f in
  let neg = Int64.compare bits 0L < 0 in
  let e = Int64.to_int (Int64.logand (Int64.shift_right_logical bits 52) 0x7ffL) in
  let m = Int64.logand bits 0xfffffffffffffL in
  if e = 0x7ff then (if m <> 0L then "nan" else if neg then "-inf" else "inf")
  else
    (if neg then "-" else "")
    ^ (if e = 0 && m = 0L then "0x0.0p+0"
       else if e = 0 then Printf.sprintf "0x0.%013Lxp-1022" m
       else Printf.sprintf "0x1.%013Lxp%+d" m (e - 1023))

(* float.fromhex: exact, through the IEEE bits *)
let float_of_pyhex (s : S.t) : Float64.t =
  if s = "nan" then Float64.of_float Float.nan
  else if s = "inf" then Float64.of_float Float.infinity
  else if s = "-inf" then Float64.of_float Float.neg_infinity
  else Float64.of_float (float_of_string s)

let net_of name = match find_by_name (str_of_hex name) with Some n -> n | None -> failwith "net"

let dspec_of t =
  if t = "-" then DNone
  else if t = "a" then DAuto
  else if S.length t >= 2 && S.sub t 0 2 = "s:" then DSym (str_of_hex (S.sub t 2 (S.length t - 2)))
  else if S.length t >= 2 && S.sub t 0 2 = "f:" then DNum (float_of_pyhex (S.sub t 2 (S.length t - 2)))
  else failwith "dspec"

let optz t = if t = "-" then None else Some (z_of t)

let num_of t =
  let body = S.sub t 2 (S.length t - 2) in
  match t.[0] with
  | 'i' -> NInt (z_of body)
  | 'f' -> NFlt (float_of_pyhex body)
  | 's' -> NStr (str_of_hex body)
  | _ -> failwith "num"

let tok_of_num = function
  | NInt z -> "i:" ^ str_z z
  | NFlt f -> "f:" ^ pyhex f
  | NStr s -> "s:" ^ hex_of_str s

let res f = function Ok x -> f x | Err -> "ERR"

let show_value v =
  pyhex v.v_value ^ " " ^ pyhex v.v_den ^ " " ^ hex_of_str v.v_net.n_name ^ " " ^ res str_z (lib_value_sat v)

let rec dispatch = function
  | ["tables"] ->
      "default=" ^ hex_of_str default_network_name ^ " nets="
      ^ S.concat "," (List.map (fun n -> hex_of_str n.n_name ^ ":" ^ hex_of_str n.n_code ^ ":" ^ pyhex n.n_den) nets)
      ^ " dens=" ^ S.concat "," (List.map (fun (d, s) -> pyhex d ^ ":" ^ hex_of_str s) dens)
  | ["vts"; s; n] -> res str_z (lib_value_to_satoshi (str_of_hex s) (if n = "-" then None else Some (str_of_hex n)))
  | ["val"; s; n] -> res show_value (lib_value_init_str (str_of_hex s) None (net_of n))
  | ["fromsat"; z; d; n] -> res show_value (lib_from_satoshi (z_of z) (dspec_of d) (net_of n))
  | ["str"; z; d1; d2; dec; n] ->
      (match lib_from_satoshi (z_of z) (dspec_of d1) (net_of n) with
       | Ok v -> res hex_of_str (lib_str v (dspec_of d2) (optz dec))
       | Err -> "ERR")
  | ["strv"; s; d2; dec; n] ->
      (match lib_value_init_str (str_of_hex s) None (net_of n) with
       | Ok v -> res hex_of_str (lib_str v (dspec_of d2) (optz dec))
       | Err -> "ERR")
  | ["rt"; z; d2; n] ->
      (match lib_from_satoshi (z_of z) DNone (net_of n) with
       | Ok v ->
           (match lib_str v (dspec_of d2) None with
            | Ok s -> hex_of_str s ^ " " ^ res str_z (lib_value_to_satoshi s None)
            | Err -> "ERR")
       | Err -> "ERR")
  | ["tobytes"; s; n] ->
      (match lib_value_init_str (str_of_hex s) None (net_of n) with
       | Ok v -> res hex_of_bytes (lib_to_bytes v)
       | Err -> "ERR")
  | ["arith"; op; a; b; k] ->
      let nw = net_of (hex_of_str default_network_name) in
      (match lib_value_init_str (str_of_hex a) None nw, lib_value_init_str (str_of_hex b) None nw with
       | Ok va, Ok vb ->
           let o = match op with "add" -> 0 | "sub" -> 1 | "mul" -> 2 | "div" -> 3 | _ -> failwith "op" in
           res show_value (lib_arith (BZ.of_int o) va vb (z_of k))
       | _ -> "ERR")
  | ["pyfloat"; s] -> (match py_float (str_of_hex s) with Some f -> pyhex f | None -> "ERR")
  | ["pyround"; x; "-"] -> (match b64_round (float_of_pyhex x) with Some z -> str_z z | None -> "ERR")
  | ["pyround"; x; nd] -> pyhex (b64_round_nd (float_of_pyhex x) (z_of nd))
  | ["pyfmt"; x; nd] -> hex_of_str (b64_fmt (float_of_pyhex x) (z_of nd))
  | ["pyfloatint"; z] -> (match b64_of_Z (z_of z) with Some f -> pyhex f | None -> "ERR")
  | ["output"; v; n] -> res tok_of_num (lib_output_value (num_of v) (str_of_hex n))
  | ["addout"; v; n] ->
      (match lib_add_output (num_of v) (str_of_hex n) with
       | Ok o -> tok_of_num o ^ " " ^ res hex_of_bytes (lib_raw_value o)
       | Err -> "ERR")
  | ["outraw"; v; n] ->
      (match lib_output_value (num_of v) (str_of_hex n) with
       | Ok o -> tok_of_num o ^ " " ^ res hex_of_bytes (lib_raw_value o)
       | Err -> "ERR")
  (* ---- sessions: every step answered by the stateless functions above ---- *)
  | "seq" :: rest ->
      let rec split cur acc = function
        | [] -> List.rev (List.rev cur :: acc)
        | "|" :: tl -> split [] (List.rev cur :: acc) tl
        | x :: tl -> split (x :: cur) acc tl in
      let steps = split [] [] rest in
      S.concat " | " (List.map (fun st -> match st with
          | "!" :: tl -> dispatch tl
          | _ -> dispatch st) steps)
  | "vobj" :: init :: ops ->
      let v0 = match S.split_on_char ',' init with
        | ["S"; s; n] -> lib_value_init_str (str_of_hex s) None (net_of n)
        | ["N"; z; d; n] -> lib_from_satoshi (z_of z) (dspec_of d) (net_of n)
        | _ -> failwith "vobj init" in
      (match v0 with
       | Err -> "ERR"
       | Ok v ->
           let op_of t = match S.split_on_char ',' t with
             | ["sat"] -> VSat
             | ["str"; d; dec] -> VStr (dspec_of d, optz dec)
             | ["bytes"] -> VBytes
             | ["add"; b] | ["iadd"; b] -> VAdd (str_of_hex b)
             | ["sub"; b] | ["isub"; b] -> VSub (str_of_hex b)
             | ["mul"; k] -> VMul (z_of k)
             | ["div"; k] -> VDiv (z_of k)
             | ["addk"; b] -> VAddK (str_of_hex b)
             | ["subk"; b] -> VSubK (str_of_hex b)
             | ["mulk"; k] -> VMulK (z_of k)
             | ["divk"; k] -> VDivK (z_of k)
             | _ -> failwith "vop" in
           let show = function
             | RSat r -> res str_z r
             | RStr r -> res hex_of_str r
             | RBytes r -> res hex_of_bytes r
             | RVal r -> res show_value r in
           S.concat " | " ("OK" :: List.map show (lib_vsession v (List.map op_of ops))))
  (* ---- amounts of one Transaction object through a sequence of operations (Model/AmountTx.v) ---- *)
  | "txs" :: net :: _wt :: mode :: ins :: outs :: ops ->
      let name = str_of_hex net in
      let nw = match x_net name with Some n -> n | None -> failwith "xnet" in
      let split c t = if t = "-" || t = "" then [] else S.split_on_char c t in
      let ins_l = List.map z_of (split ',' ins) in
      let outs_l = List.map (fun o -> match S.split_on_char ':' o with
          | [v; c] -> (z_of v, c = "1") | _ -> failwith "txs out") (split ',' outs) in
      let q_of t = match S.split_on_char '/' t with [a; b] -> (z_of a, z_of b) | _ -> failwith "q" in
      let op_of t = match S.split_on_char ',' t with
        | ["b"; f; e; vs; m; vs'] -> XBump (z_of f, z_of e, z_of vs, q_of m, z_of vs')
        | ["a"; v; c] -> XAdd (num_of v, c = "1")
        | ["av"; rep; v; c] -> XAddValue (rep = "1", str_of_hex v, c = "1")
        | ["u"; vs] -> XUpdate (z_of vs)
        | ["s"; vs'] -> XSign (z_of vs')
        | ["e"; _] -> XEst
        | ["c"; fpk; vs] -> XCalc (z_of fpk, z_of vs)
        | _ -> failwith "xop" in
      let err_s = function
        | XeBump EBumpZeroFee -> "bumpzerofee" | XeBump EBumpFeeLow -> "bumpfeelow"
        | XeBump EBumpExtraLow -> "bumpextralow" | XeBump EBumpNoChange -> "bumpnochange"
        | XeBump _ -> "bumpother" | XeBadValue -> "badvalue" | XeAddOut -> "addout" | XeNoRate -> "norate"
        | XeCtor -> "ctor" in
      let out_s o = (match o.o_dest with ToChange i -> str_z i | ToScript _ -> "?") ^ ":i:" ^ str_z o.o_value ^ ":"
                    ^ bool_s o.o_change in
      let snap (r, st) =
        (match r with XOk None -> "OK" | XOk (Some z) -> "OK r=i:" ^ str_z z | XErr e -> "ERR " ^ err_s e)
        ^ " fee=i:" ^ str_z st.x_fee
        ^ " fpk=" ^ (match st.x_fpk with None -> "N" | Some z -> "i:" ^ str_z z)
        ^ " out=" ^ (if st.x_outs = [] then "-" else S.concat "," (List.map out_s st.x_outs)) in
      (match x_init ins_l outs_l with
       | None -> "ERR ctor"
       | Some s0 ->
           (* mode S<vs0>: sign_and_update() right after construction; U: the object as constructed *)
           let first, s1 =
             if mode.[0] = 'S' then
               let a = x_step nw name s0 (XSign (z_of (S.sub mode 1 (S.length mode - 1)))) in (a, snd a)
             else ((XOk None, s0), s0) in
           S.concat " | " (snap first :: List.map snap (x_run nw name s1 (List.map op_of ops))))
  (* the unrepaired loop (outp.value -= extra_fee), for the recorded witness *)
  | ["origloop"; extra; outs] ->
      let outs_l = List.mapi (fun i o -> match S.split_on_char ':' o with
          | [v; c] -> { o_dest = ToChange (BZ.of_int i); o_value = z_of v; o_change = (c = "1") }
          | _ -> failwith "out") (S.split_on_char ',' outs) in
      let (rem, l) = bump_loop false (z_of extra) (z_of extra) outs_l in
      str_z rem ^ " " ^ S.concat "," (List.map (fun o -> str_z o.o_value) l)
  | _ -> "BADREQ"

let () = main dispatch
