(* c15_driver.ml — evaluates the extracted C15 model (BIP38) on request lines.
   scrypt and AES are never computed here: every request carries, after a "|" token, the table of oracle
   values the harness computed with Python's hashlib.scrypt / Crypto.Cipher.AES for that case:
     S:<pw>:<salt>:<N>:<r>:<p>:<dklen>:<out>    E:<key>:<block>:<out>    D:<key>:<block>:<out>     (hex fields)
   A query that is not in the table answers "ORACLE-MISS ..." (the model asked for something the
   independent BIP38 computation of the harness did not need: model and harness diverge). *)
module BZ = Z
open C15_model
module H = Common.Make (struct type byte = C15_model.byte let zb = C15_model.zb let bz = C15_model.bz end)
open H

exception Oracle_miss of string

let rec int_of_nat = function O -> 0 | S n -> 1 + int_of_nat n
let rec nat_of_int n = if n <= 0 then O else S (nat_of_int (n - 1))

let ascii_of_bytes (l : byte list) : string =
  if l = [] then "-"
  else String.concat "" (List.map (fun x -> String.make 1 (Char.chr (BZ.to_int (bz x)))) l)

let split_table toks =
  let rec go acc = function
    | [] -> (List.rev acc, [])
    | "|" :: r -> (List.rev acc, r)
    | x :: r -> go (x :: acc) r in
  go [] toks

let make_oracles (tab : string list) =
  let h = Hashtbl.create 16 in
  List.iter (fun t ->
      match String.rindex_opt t ':' with
      | Some i -> Hashtbl.replace h (String.sub t 0 i) (String.sub t (i + 1) (String.length t - i - 1))
      | None -> ()) tab;
  let look k = match Hashtbl.find_opt h k with Some v -> bytes_of_hex v | None -> raise (Oracle_miss k) in
  let scrypt pw salt n r p dk =
    look (Printf.sprintf "S:%s:%s:%s:%s:%s:%d" (hex_of_bytes pw) (hex_of_bytes salt) (str_z n) (str_z r) (str_z p)
            (int_of_nat dk)) in
  let enc key b = look (Printf.sprintf "E:%s:%s" (hex_of_bytes key) (hex_of_bytes b)) in
  let dec key b = look (Printf.sprintf "D:%s:%s" (hex_of_bytes key) (hex_of_bytes b)) in
  (scrypt, enc, dec)

let err_s = function EEnc -> "ERR enc" | EKey -> "ERR key" | EValue -> "ERR value" | EAssert -> "ERR assert"
                     | EOther -> "ERR other" | EType -> "ERR type"
let flag s = s = "1"
let optz s = if s = "-" then None else Some (z_of s)
let s_optz = function None -> "-" | Some z -> str_z z
(* passphrase argument: "<hex utf8 as written> <hex utf8 of NFC form>" for a str, "b:<hex> <hex>" for a bytes object *)
let pw a b =
  if String.length a >= 2 && String.sub a 0 2 = "b:" then PBytes (bytes_of_hex (String.sub a 2 (String.length a - 2)))
  else PStr (bytes_of_hex a, bytes_of_hex b)
let first_byte l = match l with x :: _ -> x | [] -> failwith "flag"

let ops_of_tok t =
  if t = "-" then []
  else List.map (function
      | "I" -> OpIntermediate false | "Ix" -> OpIntermediate true
      | "N" -> OpCreateNew false | "Nx" -> OpCreateNew true
      | _ -> failwith "op") (String.split_on_char ',' t)

let use_s l =
  if l = [] then "-"
  else String.concat "," (List.map (function None -> "x" | Some k -> string_of_int (int_of_nat k)) l)

let dispatch toks =
  let (req, tab) = split_table toks in
  let (scrypt, aenc, adec) = make_oracles tab in
  try
    match req with
    | ["fmt"; s] -> if lib_is_protected (bytes_of_hex s) then "protected" else "other"
    | ["addr"; _nw; pfx; c; k] ->
        (match x_address (bytes_of_hex pfx) (flag c) (z_of k) with Some a -> "OK " ^ ascii_of_bytes a | None -> "ERR other")
    | ["enc"; _kfmt; k; c; _nw; pfx; pwr; pwn] ->
        (match x_key_encrypt scrypt aenc (bytes_of_hex pfx) (flag c) (z_of k) (pw pwr pwn) with
         | Some e -> "OK " ^ ascii_of_bytes e
         | None -> "ERR other")
    | ["encfn"; priv; akind; addr; fl; pwr; pwn] ->
        (* bip38_encrypt(private_hex, address, password, flagbyte) called directly; address as str (s) or bytes (b) *)
        let a = if akind = "b" then PBytes (bytes_of_hex addr) else PStr (bytes_of_hex addr, bytes_of_hex addr) in
        "OK " ^ ascii_of_bytes (x_encrypt_call scrypt aenc (bytes_of_hex priv) a (pw pwr pwn)
                                   (first_byte (bytes_of_hex (if fl = "def" then "e0" else fl))))
    | ["spec_enc"; _kfmt; k; c; _nw; pfx; pwr; pwn] ->
        (match x_spec_encrypt scrypt aenc (bytes_of_hex pfx) (flag c) (z_of k) (pw pwr pwn) with
         | Some e -> "OK " ^ ascii_of_bytes e
         | None -> "ERR other")
    | ["dec"; _cls; s; _nw; pfx; pwr; pwn] ->
        (match x_key_decrypt scrypt adec (bytes_of_hex pfx) (bytes_of_hex s) (pw pwr pwn) with
         | KNotProtected -> "NOTPROT"
         | KErr e -> err_s e
         | KOk (k, c) -> "OK " ^ str_z k ^ " " ^ bool_s c)
    | ["spec_dec"; _cls; s; _nw; pfx; pwr; pwn] ->
        (match x_spec_decrypt scrypt adec (bytes_of_hex pfx) (bytes_of_hex s) (pw pwr pwn) with
         | None -> "NONE"
         | Some (k, c) -> "OK " ^ str_z k ^ " " ^ bool_s c)
    | ["decinfo"; s; pwr; pwn] ->
        (match x_bip38_decrypt scrypt adec (bytes_of_hex s) (pw pwr pwn) with
         | Err e -> err_s e
         | Ok i -> Printf.sprintf "OK %s %s %s %s %s %s" (hex_of_bytes i.di_priv) (hex_of_bytes i.di_hash)
                     (bool_s i.di_compressed) (s_optz i.di_lot) (s_optz i.di_sequence) (hex_of_bytes i.di_seed))
    | ["inter"; pwr; pwn; lot; sq; salt] ->
        (match x_intermediate scrypt (pw pwr pwn) (optz lot) (optz sq) (bytes_of_hex salt) with
         | Err e -> err_s e
         | Ok s -> "OK " ^ ascii_of_bytes s)
    | ["spec_inter"; pwr; pwn; lot; sq; salt] ->
        let ls = match optz lot, optz sq with Some l, Some s -> Some (l, s) | _ -> None in
        (match x_spec_intermediate scrypt (pw pwr pwn) ls (bytes_of_hex salt) with
         | None -> "NONE"
         | Some s -> "OK " ^ ascii_of_bytes s)
    | ["new"; _nw; pfx; ip; c; seed] ->
        (match x_create_new scrypt aenc (bytes_of_hex pfx) (bytes_of_hex ip) (flag c) (bytes_of_hex seed) with
         | Err e -> err_s e
         | Ok n -> Printf.sprintf "OK %s %s %s %s" (ascii_of_bytes n.nk_wif) (ascii_of_bytes n.nk_confirmation)
                     (hex_of_bytes n.nk_public) (ascii_of_bytes n.nk_address))
    | ["fresh"; ops] -> "0 " ^ use_s (lib_entropy_use (ops_of_tok ops))
    | ["fresh_legacy"; ops] -> "2 " ^ use_s (legacy_entropy_use (ops_of_tok ops))
    | ["fresh_spec"; ops] -> "0 " ^ use_s (spec_entropy_use O (ops_of_tok ops))
    | ["oracle_scrypt"; pw; salt; n; r; p; dk] ->
        hex_of_bytes (scrypt (bytes_of_hex pw) (bytes_of_hex salt) (z_of n) (z_of r) (z_of p) (nat_of_int (int_of_string dk)))
    | ["oracle_aes"; "E"; key; b] -> hex_of_bytes (aenc (bytes_of_hex key) (bytes_of_hex b))
    | ["oracle_aes"; "D"; key; b] -> hex_of_bytes (adec (bytes_of_hex key) (bytes_of_hex b))
    | _ -> "BADREQ"
  with Oracle_miss k -> "ORACLE-MISS " ^ k

let () = main dispatch
