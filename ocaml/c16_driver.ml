(* c16_driver.ml — runs the extracted C16 object-state machine on request lines.
   request : key <K|H> <kind> <op,op,...|->      |  wk <kind> <op,...|->
   response: one token for the initial state and one per operation, space separated:
             <ok|err>:<output taint P|S|->:<compressed 0|1>:<one code per field A|N|P|S>          *)
module M = C16_model

let code = function M.Absent -> 'A' | M.VNone -> 'N' | M.VPub -> 'P' | M.VSec -> 'S'
let codes l = String.init (List.length l) (fun i -> code (List.nth l i))
let taint = function None -> "-" | Some true -> "S" | Some false -> "P"

let kind_of = function
  | "priv1" -> M.KPriv true | "priv0" -> M.KPriv false
  | "point1" -> M.KPubPoint true | "point0" -> M.KPubPoint false
  | "pubu" -> M.KPubUncompressed | "pubc" -> M.KPubCompressed
  | _ -> failwith "kind"

let op_of = function
  | "Wif" -> M.OWif | "Address" -> M.OAddress | "AddressUnc" -> M.OAddressUnc | "Hash160" -> M.OHash160
  | "UncHex" -> M.OUncHex | "UncByte" -> M.OUncByte | "Point" -> M.OPoint
  | "AsDict0" -> M.OAsDict false | "AsDict1" -> M.OAsDict true
  | "AsJson0" -> M.OAsJson false | "AsJson1" -> M.OAsJson true
  | "Info" -> M.OInfo | "Repr" -> M.ORepr | "Str" -> M.OStr | "Encrypt" -> M.OEncrypt
  | "Public" -> M.OPublic | "DeepCopy" -> M.ODeepCopy | "Pickle" -> M.OPickle
  | "HdWif0" -> M.OHdWif false | "HdWif1" -> M.OHdWif true | "Fingerprint" -> M.OFingerprint
  | "ChildPriv0" -> M.OChildPriv false | "ChildPriv1" -> M.OChildPriv true
  | "ChildPub" -> M.OChildPub | "PublicMaster" -> M.OPublicMaster
  | _ -> failwith "op"

let wkind_of = function
  | "priv1" -> M.WkPrivate true | "priv0" -> M.WkPrivate false
  | "pub1" -> M.WkPublic true | "pub0" -> M.WkPublic false
  | "addr" -> M.WkAddressOnly
  | _ -> failwith "wkind"

let wop_of = function
  | "Key" -> M.WKey | "Public" -> M.WPublic | "AsDict0" -> M.WAsDict false | "AsDict1" -> M.WAsDict true
  | "Repr" -> M.WRepr | "Balance" -> M.WBalance | "Name" -> M.WName
  | _ -> failwith "wop"

let ops_of t = if t = "-" then [] else String.split_on_char ',' t
let b01 b = if b then "1" else "0"
let tok ok t k cs = Printf.sprintf "%s:%s:%s:%s" (if ok then "ok" else "err") t (b01 (M.kcomp k)) cs

let dispatch = function
  | ["key"; cls; kind; ops] ->
      let k0 = M.init (cls = "H") (kind_of kind) in
      let rec go k acc = function
        | [] -> List.rev acc
        | o :: r ->
            let o = op_of o in
            let (k', ok) = M.step o k in
            let t = taint (M.out_taint (M.exports o k)) in
            go k' (tok ok t k' (codes (M.key_codes k')) :: acc) r in
      String.concat " " (go k0 [tok true "-" k0 (codes (M.key_codes k0))] (ops_of ops))
  | ["wk"; kind; ops] ->
      let k0 = M.wk_init (wkind_of kind) in
      let rec go k acc = function
        | [] -> List.rev acc
        | o :: r ->
            let o = wop_of o in
            let (k', ok) = M.wstep o k in
            let t = taint (M.out_taint (M.wexports o k)) in
            go k' (tok ok t k' (codes (M.wk_codes k')) :: acc) r in
      String.concat " " (go k0 [tok true "-" k0 (codes (M.wk_codes k0))] (ops_of ops))
  | _ -> "BADREQ"

let () =
  try
    while true do
      let line = input_line stdin in
      let toks = String.split_on_char ' ' (String.trim line) in
      let out = try dispatch toks with e -> "CRASH " ^ Printexc.to_string e in
      print_string out; print_char '\n'
    done
  with End_of_file -> flush stdout
