(* c16_driver.ml — runs the extracted C16 object-state machine on request lines.
   request : key <K|H> <kind> <op,op,...|->      |  wk <kind> <op,...|->   |  wal <conf> <op,...|->
             (operations may carry arguments: Pm~account_id=i1~witness_type=ssegwit, see xop_of)
   response: one token for the initial state and one per operation, space separated:
             <ok|err>:<output taint P|S|->:<compressed 0|1>:<one code per field A|N|P|S>          *)
module M = C16_model

let code = function M.Absent -> 'A' | M.VNone -> 'N' | M.VPub -> 'P' | M.VSec -> 'S'
let codes l = String.init (List.length l) (fun i -> code (List.nth l i))
let taint = function None -> "-" | Some true -> "S" | Some false -> "P"

let kind_of = function
  | "priv1" -> M.KPriv true | "priv0" -> M.KPriv false
  | "point1" -> M.KPubPoint true | "point0" -> M.KPubPoint false
  | "pubu" -> M.KPubUncompressed | "pubc" -> M.KPubCompressed
  | _ -> failwith "kind"

let op_of = function
  | "Wif" | "WifAlt" -> M.OWif | "Address" -> M.OAddress | "AddressUnc" -> M.OAddressUnc | "Hash160" -> M.OHash160
  | "UncHex" -> M.OUncHex | "UncByte" -> M.OUncByte | "Point" -> M.OPoint
  | "AsDict0" -> M.OAsDict false | "AsDict1" -> M.OAsDict true
  | "AsJson0" -> M.OAsJson false | "AsJson1" -> M.OAsJson true
  | "Info" -> M.OInfo | "Repr" -> M.ORepr | "Str" -> M.OStr | "Encrypt" -> M.OEncrypt
  | "Public" -> M.OPublic | "DeepCopy" -> M.ODeepCopy | "Pickle" -> M.OPickle
  | "HdWif0" -> M.OHdWif false | "HdWif1" -> M.OHdWif true | "Fingerprint" -> M.OFingerprint
  | "ChildPriv0" -> M.OChildPriv false | "ChildPriv1" -> M.OChildPriv true
  | "ChildPub" -> M.OChildPub | "PublicMaster" -> M.OPublicMaster
  | _ -> failwith "op"

(* argument-carrying operations:  <Pm|Pmm|Wp|Hw|PmA>[~name=value]*   value: N | T | F | i<int> | s<text> | ? *)
let cstr (s : string) : M.string =
  let n = String.length s in
  let rec go i =
    if i >= n then M.EmptyString
    else
      let c = Char.code s.[i] in
      let b k = (c lsr k) land 1 = 1 in
      M.String (M.Ascii (b 0, b 1, b 2, b 3, b 4, b 5, b 6, b 7), go (i + 1)) in
  go 0
let aval_of v =
  if v = "N" then M.ANone else if v = "T" then M.ABool true else if v = "F" then M.ABool false
  else if v = "?" then M.ATop
  else if String.length v > 0 && v.[0] = 'i' then M.AInt (Z.of_string (String.sub v 1 (String.length v - 1)))
  else if String.length v > 0 && v.[0] = 's' then M.AStr (cstr (String.sub v 1 (String.length v - 1)))
  (* bytes (b<hex>) and lists (l<item,item>): the model abstracts a value to its Python truth value, which for these is
     "not empty", the same as for the text that spells them *)
  else if String.length v > 0 && (v.[0] = 'b' || v.[0] = 'l') then M.AStr (cstr (String.sub v 1 (String.length v - 1)))
  else failwith "aval"
let args_of l =
  List.map (fun kv -> match String.index_opt kv '=' with
    | Some j -> (cstr (String.sub kv 0 j), aval_of (String.sub kv (j + 1) (String.length kv - j - 1)))
    | None -> failwith "arg") l
let xop_of s =
  match String.split_on_char '~' s with
  | "Pm" :: l -> M.XPm (args_of l)
  | "Pmm" :: l -> M.XPmm (args_of l)
  | "Wp" :: l -> M.XWifPublic (args_of l)
  | "Hw" :: l -> M.XHdWif (args_of l)
  | _ -> M.XOp (op_of s)

let wkind_of = function
  | "priv1" -> M.WkPrivate true | "priv0" -> M.WkPrivate false
  | "pub1" -> M.WkPublic true | "pub0" -> M.WkPublic false
  | "addr" -> M.WkAddressOnly
  | _ -> failwith "wkind"

let wop_of = function
  | "Key" -> M.WKey | "Public" -> M.WPublic | "AsDict0" -> M.WAsDict false | "AsDict1" -> M.WAsDict true
  | "Repr" -> M.WRepr | "Balance" -> M.WBalance | "Name" -> M.WName
  | _ -> failwith "wop"

let wconf_of = function
  | "master" -> M.WcMaster | "acctprv" -> M.WcAcctPriv | "acctpub" -> M.WcAcctPub
  | "single" -> M.WcSinglePriv | "singlepub" -> M.WcSinglePub
  | _ -> failwith "wconf"

let walconf_of c =
  match String.split_on_char ':' c with
  | ["ms"; cs; _own] -> M.CMulti (List.map wconf_of (String.split_on_char '+' cs))
  | [c] -> M.CSimple (wconf_of c)
  | _ -> failwith "walconf"

let wlop_of = function
  | "MainKey" | "MainWif" | "MainWifKey" | "MainEncrypt" -> M.LMainKey
  | "SrcKey" -> M.LSrcKey | "MainPublic" -> M.LMainPublic
  | "Pm0" -> M.LPm false | "Pm1" -> M.LPm true | "PmKey" -> M.LPmKey
  | "Wif0" -> M.LWif false | "Wif1" -> M.LWif true
  | "AsDict0" | "AsJson0" -> M.LAsDict false | "AsDict1" | "AsJson1" -> M.LAsDict true
  | "Info" -> M.LInfo | "Repr" -> M.LRepr
  | "GetKey" | "NewKey" | "Keys" | "Sign" | "NewAccount" | "NewKeyNet" | "NewKeyWt" | "ImportKey" -> M.LOther
  | "Reopen" -> M.LReopen
  | _ -> failwith "wlop"

let rec nat_of n = if n <= 0 then M.O else M.S (nat_of (n - 1))

let walop_of s =
  match String.index_opt s '.' with
  | Some j when String.length s > 1 && s.[0] = 'c' ->
      M.WCos (nat_of (int_of_string (String.sub s 1 (j - 1))), wlop_of (String.sub s (j + 1) (String.length s - j - 1)))
  | _ -> M.WTop (wlop_of s)

let ops_of t = if t = "-" then [] else String.split_on_char ',' t
let b01 b = if b then "1" else "0"
let tok ok t k cs = Printf.sprintf "%s:%s:%s:%s" (if ok then "ok" else "err") t (b01 (M.kcomp k)) cs

let dispatch = function
  | ["key"; cls; kind; ops] ->
      let k0 = M.init (cls = "H") (kind_of kind) in
      let rec go k acc = function
        | [] -> List.rev acc
        | o :: r ->
            let o = xop_of o in
            let (k', ok) = M.xstep o k in
            let t = taint (M.out_taint (M.xexports o k)) in
            go k' (tok ok t k' (codes (M.key_codes k')) :: acc) r in
      String.concat " " (go k0 [tok true "-" k0 (codes (M.key_codes k0))] (ops_of ops))
  | ["wk"; kind; ops] ->
      let k0 = M.wk_init (wkind_of kind) in
      let rec go k acc = function
        | [] -> List.rev acc
        | o :: r ->
            let o = wop_of o in
            let (k', ok) = M.wstep o k in
            let t = taint (M.out_taint (M.wexports o k)) in
            go k' (tok ok t k' (codes (M.wk_codes k')) :: acc) r in
      String.concat " " (go k0 [tok true "-" k0 (codes (M.wk_codes k0))] (ops_of ops))
  | ["wal"; conf; ops] ->
      let w0 = M.wal_init (walconf_of conf) in
      let mains w = String.concat "/" (List.map (fun k -> codes (M.wk_codes k)) (M.wal_mains w)) in
      let rec go w acc = function
        | [] -> List.rev acc
        | o :: r when (match String.split_on_char '~' (match String.index_opt o '.' with
                          | Some j when o.[0] = 'c' -> String.sub o (j + 1) (String.length o - j - 1) | _ -> o) with
                        | "PmA" :: _ -> true | _ -> false) ->
            (* Wallet.public_master(args) on the wallet or on one cosigner wallet.  Another account / network / witness
               type may make the wallet derive new keys, which parses the cached main and account key objects again:
               the adapter makes that definite, as for get_key / new_key (LOther) *)
            let (w', tgt, body) = match String.index_opt o '.' with
              | Some j when o.[0] = 'c' ->
                  let i = int_of_string (String.sub o 1 (j - 1)) in
                  let w' = M.wal_step (M.WCos (nat_of i, M.LOther)) w in
                  (w', (match w' with M.WMulti cos -> M.WSimple (List.nth cos i) | _ -> failwith "cosigner"),
                   String.sub o (j + 1) (String.length o - j - 1))
              | _ -> let w' = M.wal_step (M.WTop M.LOther) w in (w', w', o) in
            let a = args_of (List.tl (String.split_on_char '~' body)) in
            let rets = M.wallet_public_master_args tgt a in
            let rc = if rets = [] then "-" else String.concat "/" (List.map (fun k -> codes (M.wk_codes k)) rets) in
            go w' (Printf.sprintf "ok:-:%s:%s" (mains w') rc :: acc) r
        | o :: r ->
            let o = walop_of o in
            let w' = M.wal_step o w in
            let t = taint (M.out_taint (M.wal_exports o w)) in
            let rets = M.wal_returns o w in
            let rc = if rets = [] then "-" else String.concat "/" (List.map (fun k -> codes (M.wk_codes k)) rets) in
            go w' (Printf.sprintf "ok:%s:%s:%s" t (mains w') rc :: acc) r in
      String.concat " " (go w0 [Printf.sprintf "ok:-:%s:-" (mains w0)] (ops_of ops))
  | _ -> "BADREQ"

let () =
  try
    while true do
      let line = input_line stdin in
      let toks = String.split_on_char ' ' (String.trim line) in
      let out = try dispatch toks with e -> "CRASH " ^ Printexc.to_string e in
      print_string out; print_char '\n'
    done
  with End_of_file -> flush stdout
