(* c02_driver.ml — evaluates the extracted C02 model on request lines.

   scn <inputs> <ops>
     inputs : ';'-separated  <type>/<m>/<key,key,...>      key = <private key index><c|u>
              (of <type> the model uses only legacy/segwit: the decision logic is the same for every standard input type)
     ops    : ';'-separated
              S/<target|*>/<r|n>/<f|c>/<key,...|->   Transaction.sign(keys, index_n, replace_signatures, fail_on_unknown_key)
              V                                     Transaction.verify() on the live object
              R                                     Transaction.parse(t.raw()).verify()
              T/<name>/<arg>/<epoch,epoch,...>      a committed field changed: new digest id per input
              H/<i>/<0|1>                           the digest of input i can(not) be computed
              X/<i>/<drop|dup|swap|untag>/<pos>     edit of Input.signatures
              X/<i>/ins/<pos>/<key>   X/<i>/var/<pos>/<v>
              P/<i>/<ht>/<key,...>                  input i carries third-party signatures for hash type ht (made over the
                                                    consensus digest for ht, carrying the byte ht), in the order given
              Q/<i>.<pos>.<ht>,...|-                Transaction.parse(raw with the hash-type byte of serialized signature
                                                    pos of input i set to ht, ...).verify()
              C/<i>.<pos>.<ht>,...|-                the inputs rebuilt through Transaction.add_input(keys, signatures=
                                                    [DER || hash-type byte ...]) (bytes changed likewise), verify()
   answer: observations joined by ' ':  S<code>   V<T|F>/<valid flags>/<matrix>
   vin <keys as 0/1 matrix rows per signature ','-separated> <n keys> <m>   — lib_verify_input (then the loop before fix C02-2) on an explicit table *)
module BZ = Z
open C02_model
module H = Common.Make (struct type byte = C02_model.byte let zb = C02_model.zb let bz = C02_model.bz end)
open H

let rec nat_of_int n = if n <= 0 then O else S (nat_of_int (n - 1))
let split c s = if s = "-" || s = "" then [] else String.split_on_char c s

let key_of_tok t =
  let n = String.length t in
  let id = int_of_string (String.sub t 0 (n - 1)) in
  BZ.of_int ((2 * id) + (match t.[n - 1] with 'c' -> 0 | 'u' -> 1 | _ -> failwith "key"))

let input_of_tok t =
  match String.split_on_char '/' t with
  | [ty; m; ks] ->
      (* the only thing the model takes from the input type: segwit inputs (a parsed one without witness has no
         script code to hash) *)
      ((List.mem ty ["wpkh"; "shwpkh"; "wsh"; "shwsh"], List.map key_of_tok (split ',' ks)),
       nat_of_int (int_of_string m))
  | _ -> failwith "input"

let patch_of_tok t =
  match String.split_on_char '.' t with
  | [i; p; ht] -> ((nat_of_int (int_of_string i), nat_of_int (int_of_string p)), z_of ht)
  | _ -> failwith "patch"

let op_of_tok t =
  match String.split_on_char '/' t with
  | ["S"; tg; r; f; ks] ->
      OSign ((if tg = "*" then None else Some (nat_of_int (int_of_string tg))), r = "r", f = "f",
             List.map key_of_tok (split ',' ks))
  | ["P"; i; ht; ks] -> OPlace (nat_of_int (int_of_string i), z_of ht, List.map key_of_tok (split ',' ks))
  | ["Q"; ps] -> ORoundHt (List.map patch_of_tok (split ',' ps))
  | ["C"; ps] -> OCtor (List.map patch_of_tok (split ',' ps))
  | ["V"] -> OVerify
  | ["R"] -> ORound
  | ["T"; _name; _arg; es] -> OEpochs (List.map z_of (split ',' es))
  | ["H"; i; b] -> OHashOk (nat_of_int (int_of_string i), b = "1")
  | ["X"; i; "drop"; p] -> ODrop (nat_of_int (int_of_string i), nat_of_int (int_of_string p))
  | ["X"; i; "dup"; p] -> ODup (nat_of_int (int_of_string i), nat_of_int (int_of_string p))
  | ["X"; i; "swap"; p] -> OSwap (nat_of_int (int_of_string i), nat_of_int (int_of_string p))
  | ["X"; i; "untag"; p] -> OUntag (nat_of_int (int_of_string i), nat_of_int (int_of_string p))
  | ["X"; i; "ins"; p; k] -> OIns (nat_of_int (int_of_string i), nat_of_int (int_of_string p), key_of_tok k)
  | ["X"; i; "var"; p; v] -> OVar (nat_of_int (int_of_string i), nat_of_int (int_of_string p), z_of v)
  | _ -> failwith ("op " ^ t)

let str_matrix m =
  String.concat "|" (List.map (fun rows ->
      if rows = [] then "-"
      else String.concat "," (List.map (fun r -> String.concat "" (List.map bool_s r)) rows)) m)

let str_obs = function
  | ObsSign c -> Some ("S" ^ str_z c)
  | ObsVerify (b, vs, m) ->
      Some ("V" ^ (if b then "T" else "F") ^ "/"
            ^ String.concat "" (List.map (function Some true -> "T" | Some false -> "F" | None -> "N") vs)
            ^ "/" ^ str_matrix m)
  | ObsNone -> None

let dispatch = function
  | ["scn"; ins; ops] ->
      let obs = run_scenario (List.map input_of_tok (split ';' ins)) (List.map op_of_tok (split ';' ops)) in
      let l = List.filter_map str_obs obs in
      if l = [] then "-" else String.concat " " l
  | ["vin"; rows; n; m] ->
      (* explicit table: signature i is row i, key j is column j *)
      let tab = Array.of_list (List.map (fun r -> r) (split ',' rows)) in
      let n = int_of_string n in
      let sv (i : int) (j : int) = j < String.length tab.(i) && tab.(i).[j] = '1' in
      let keys = List.init n (fun j -> j) and sigs = List.init (Array.length tab) (fun i -> i) in
      bool_s (lib_verify_input sv false keys sigs (nat_of_int (int_of_string m)))
      ^ bool_s (match sigs with [] -> false | _ -> unfixed_verify_loop sv keys None sigs (nat_of_int (int_of_string m)))
  | _ -> "BADREQ"

let () = main dispatch
