(* c02_driver.ml — evaluates the extracted C02 model on request lines.

   scn <inputs> <ops>
     inputs : ';'-separated  <type>/<m>/<key,key,...>      key = <private key index><c|u>
              (of <type> the model uses only legacy/segwit: the decision logic is the same for every standard input type)
     ops    : ';'-separated
              S/<target|*>/<r|n>/<f|c>/<key,...|->   Transaction.sign(keys, index_n, replace_signatures, fail_on_unknown_key)
              V                                     Transaction.verify() on the live object
              R                                     Transaction.parse(t.raw()).verify()
              T/<name>/<arg>/<epoch,epoch,...>      a committed field changed: new digest id per input
              H/<i>/<0|1>                           the digest of input i can(not) be computed
              X/<i>/<drop|dup|swap|untag>/<pos>     edit of Input.signatures
              X/<i>/ins/<pos>/<key>   X/<i>/var/<pos>/<v>
              P/<i>/<ht>/<key,...>                  input i carries third-party signatures for hash type ht (made over the
                                                    consensus digest for ht, carrying the byte ht), in the order given
              Q/<i>.<pos>.<ht>,...|-                Transaction.parse(raw with the hash-type byte of serialized signature
                                                    pos of input i set to ht, ...).verify()
              C/<i>.<pos>.<ht>,...|-                the inputs rebuilt through Transaction.add_input(keys, signatures=
                                                    [DER || hash-type byte ...]) (bytes changed likewise), verify()
              A/<obj>/<attr>/<variant>/<epochs>     ONE attribute (Python name; obj = t | i<j> | o<j>) of a deep copy of
                                                    the object written: verify() of the copy and the consensus verdict
                                                    on the bytes raw() of the copy returns;  epochs = the digest ids
                                                    of the inputs if the write is seen by their digest
              AW/<obj>/<attr>/<variant>/<epochs>    the same write on the live object (no observation)
              AX                                    attributes of the object outside the frozen list
   answer: observations joined by ' ':  S<code>   V<T|F>/<valid flags>/<matrix>   B<T|F>/<valid flags>/<T|F>   X-
   thr <own|lib> <sh|wsh|shwsh> <m> <n> <sel>       one m-of-n input parsed from raw bytes whose serialized signature
                                                    list is sel ('.'-separated: key position | f foreign | x corrupted)
   answer: V<T|F>/<valid flag>/<matrix>/<sigs_required after parse>
   vin <keys as 0/1 matrix rows per signature ','-separated> <n keys> <m>   — lib_verify_input (then the loop before fix C02-2) on an explicit table *)
module BZ = Z
open C02_model
module H = Common.Make (struct type byte = C02_model.byte let zb = C02_model.zb let bz = C02_model.bz end)
open H

let rec nat_of_int n = if n <= 0 then O else S (nat_of_int (n - 1))
let split c s = if s = "-" || s = "" then [] else String.split_on_char c s

let key_of_tok t =
  let n = String.length t in
  let id = int_of_string (String.sub t 0 (n - 1)) in
  BZ.of_int ((2 * id) + (match t.[n - 1] with 'c' -> 0 | 'u' -> 1 | _ -> failwith "key"))

let input_of_tok t =
  match String.split_on_char '/' t with
  | [ty; m; ks] ->
      (* the only thing the model takes from the input type: segwit inputs (a parsed one without witness has no
         script code to hash) *)
      ((List.mem ty ["wpkh"; "shwpkh"; "wsh"; "shwsh"], List.map key_of_tok (split ',' ks)),
       nat_of_int (int_of_string m))
  | _ -> failwith "input"

let kind_of_type = function
  | "pkh" -> 0 | "pk" -> 1 | "sh" -> 2 | "wpkh" -> 3 | "shwpkh" -> 4 | "wsh" -> 5 | "shwsh" -> 6
  | _ -> failwith "type"

let kinds_of_inputs ins =
  List.map (fun t -> match String.split_on_char '/' t with
      | ty :: _ -> BZ.of_int (kind_of_type ty) | _ -> failwith "input") ins

let nat_list s = List.map (fun x -> nat_of_int (int_of_string x)) (split '.' s)

let variant_arg v =
  match String.index_opt v ':' with
  | Some i -> (String.sub v 0 i, String.sub v (i + 1) (String.length v - i - 1))
  | None -> (v, "")

(* the model's name for a Python attribute (anything not listed: an attribute nothing reads) *)
let attr_of obj attr variant =
  let (_vk, va) = variant_arg variant in
  let idx () = nat_of_int (int_of_string (String.sub obj 1 (String.length obj - 1))) in
  match obj.[0], attr with
  | 't', "version" -> AVersion
  | 't', "version_int" -> AVersionInt
  | 't', "locktime" -> ALocktime
  | 'i', "prev_txid" -> APrev (idx ())
  | 'i', "output_n" -> AOutN (idx ())
  | 'i', "output_n_int" -> AOutNInt (idx ())
  | 'i', "sequence" -> ASeq (idx ())
  | 'i', "value" -> AInValue (idx ())
  | 'i', "hash_type" -> AHashType (idx (), z_of va)
  | 'i', "sigs_required" -> ASigsRequired (idx (), z_of va)
  | 'i', "keys" -> AKeys (idx (), nat_list va)
  | 'i', "signatures" -> ASignatures (idx (), nat_list va)
  | 'i', "redeemscript" -> ARedeem (idx ())
  | 'i', "locking_script" -> ALocking (idx ())
  | 'i', "unlocking_script" -> AUnlocking (idx ())
  | 'i', "witnesses" -> AWitnesses (idx ())
  | 'o', "value" -> AOutValue (idx ())
  | 'o', "lock_script" -> AOutScript (idx ())
  | _ -> AOther

let n_outputs = nat_of_int 2

let patch_of_tok t =
  match String.split_on_char '.' t with
  | [i; p; ht] -> ((nat_of_int (int_of_string i), nat_of_int (int_of_string p)), z_of ht)
  | _ -> failwith "patch"

let op_of_tok kinds t =
  match String.split_on_char '/' t with
  | ["A"; obj; attr; variant; es] ->
      OProbe (attr_of obj attr variant, n_outputs, List.map z_of (split ',' es), kinds)
  | ["AW"; obj; attr; variant; es] -> OWrite (attr_of obj attr variant, n_outputs, List.map z_of (split ',' es))
  | ["AX"] -> OUnknownAttrs
  | ["S"; tg; r; f; ks] ->
      OSign ((if tg = "*" then None else Some (nat_of_int (int_of_string tg))), r = "r", f = "f",
             List.map key_of_tok (split ',' ks))
  | ["P"; i; ht; ks] -> OPlace (nat_of_int (int_of_string i), z_of ht, List.map key_of_tok (split ',' ks))
  | ["Q"; ps] -> ORoundHt (List.map patch_of_tok (split ',' ps))
  | ["C"; ps] -> OCtor (List.map patch_of_tok (split ',' ps))
  | ["V"] -> OVerify
  | ["R"] -> ORound
  | ["T"; _name; _arg; es] -> OEpochs (List.map z_of (split ',' es))
  | ["H"; i; b] -> OHashOk (nat_of_int (int_of_string i), b = "1")
  | ["X"; i; "drop"; p] -> ODrop (nat_of_int (int_of_string i), nat_of_int (int_of_string p))
  | ["X"; i; "dup"; p] -> ODup (nat_of_int (int_of_string i), nat_of_int (int_of_string p))
  | ["X"; i; "swap"; p] -> OSwap (nat_of_int (int_of_string i), nat_of_int (int_of_string p))
  | ["X"; i; "untag"; p] -> OUntag (nat_of_int (int_of_string i), nat_of_int (int_of_string p))
  | ["X"; i; "ins"; p; k] -> OIns (nat_of_int (int_of_string i), nat_of_int (int_of_string p), key_of_tok k)
  | ["X"; i; "var"; p; v] -> OVar (nat_of_int (int_of_string i), nat_of_int (int_of_string p), z_of v)
  | _ -> failwith ("op " ^ t)

let str_matrix m =
  String.concat "|" (List.map (fun rows ->
      if rows = [] then "-"
      else String.concat "," (List.map (fun r -> String.concat "" (List.map bool_s r)) rows)) m)

let str_obs = function
  | ObsSign c -> Some ("S" ^ str_z c)
  | ObsVerify (b, vs, m) ->
      Some ("V" ^ (if b then "T" else "F") ^ "/"
            ^ String.concat "" (List.map (function Some true -> "T" | Some false -> "F" | None -> "N") vs)
            ^ "/" ^ str_matrix m)
  | ObsBoth (b, vs, r) ->
      Some ("B" ^ (if b then "T" else "F") ^ "/"
            ^ String.concat "" (List.map (function Some true -> "T" | Some false -> "F" | None -> "N") vs)
            ^ "/" ^ (if r then "T" else "F"))
  | ObsAttrs -> Some "X-"
  | ObsNone -> None

(* mut / sigf: the same extracted machine (run_scenario), driven by library operations instead of explicit ops.
   mut <inputs> <cfg> <steps>: every input holds the private keys of its first m listed keys and is signed; each step is a
     library method that changes committed fields (new digest id for every input) and re-signs (replace_signatures) all
     inputs, or only the one it names (set_locktime_relative_*, sign_and_update(i)), or nothing (update_totals); a
     merge_transaction step brings one more single-key input (present from the start in the model: only verdicts are
     compared).  answer per step: M<verify()>/<consensus verdict on raw()>/<parse(raw()).verify()>
   sigf <inputs> <lead> <form> <ctor>: the inputs rebuilt from public keys + signatures (the argument form and the leading
     bytes of r / s are invisible to the model).  answer: F<verify()>/<raw verdict>/<parsed>/<signatures kept per input> *)
let first_m_signers tokn =
  match String.split_on_char '/' tokn with
  | [_; m; ks] -> List.map key_of_tok (List.filteri (fun p _ -> p < int_of_string m) (split ',' ks))
  | _ -> failwith "input"

let bs b = if b then "T" else "F"

let mut_run ins steps =
  let toks = split ';' ins and steps = split ';' steps in
  let is_mg s = String.length s >= 2 && String.sub s 0 2 = "mg" in
  let nmg = List.length (List.filter is_mg steps) in
  let legacy = List.for_all (fun t -> match String.split_on_char '/' t with
      | ty :: _ -> List.mem ty ["pkh"; "pk"; "sh"] | _ -> false) toks in
  let extra = List.init nmg (fun j -> Printf.sprintf "%s/1/%dc" (if legacy then "pkh" else "wpkh") (9 + j)) in
  let all = toks @ extra in
  let inputs = List.map input_of_tok all and kinds = kinds_of_inputs all in
  let n = List.length all in
  let idx = List.init n (fun i -> i) in
  let sign_op r i = OSign (Some (nat_of_int i), r, true, first_m_signers (List.nth all i)) in
  let epoch = ref 0 in
  let es () = List.init n (fun _ -> BZ.of_int !epoch) in
  let observe () = [OVerify; OProbe (AOther, n_outputs, es (), kinds); ORound] in
  (* an input that merge_transaction brings is not part of the transaction before its mg step: until then it stands for
     the OTHER transaction, which is signed on its own for whatever it is merged into - the model keeps it freshly signed
     at every digest change, so that a step that re-signs one named input leaves stale only inputs that are really there *)
  let n0 = List.length toks in
  let merged = ref 0 in
  let absent () = List.filter (fun i -> i >= n0 + !merged) idx in
  let step s = match String.split_on_char '/' s with
    | "ut" :: _ -> observe ()
    | ["su"; i] -> sign_op true (int_of_string i) :: observe ()
    | ("lrb" | "lrt") :: i :: _ ->
        incr epoch;
        let e = OEpochs (es ()) in
        (e :: sign_op true (int_of_string i) :: List.map (sign_op true) (absent ())) @ observe ()
    | "mg" :: _ -> incr merged; incr epoch; let e = OEpochs (es ()) in (e :: List.map (sign_op true) idx) @ observe ()
    | _ -> incr epoch; let e = OEpochs (es ()) in (e :: List.map (sign_op true) idx) @ observe () in
  let ops = List.map (sign_op false) idx @ List.concat_map step steps in
  let verdicts = List.filter_map (function
      | ObsVerify (b, _, _) -> Some (bs b) | ObsBoth (_, _, r) -> Some (bs r) | _ -> None) (run_scenario inputs ops) in
  let rec group = function
    | a :: b :: c :: rest -> ("M" ^ a ^ "/" ^ b ^ "/" ^ c) :: group rest
    | _ -> [] in
  match group verdicts with [] -> "-" | l -> String.concat " " l

let sigf_run ins =
  let toks = split ';' ins in
  let inputs = List.map input_of_tok toks in
  let ops = List.mapi (fun i t -> OSign (Some (nat_of_int i), false, true, first_m_signers t)) toks @ [OCtor []; ORound] in
  match List.filter_map (function ObsVerify (b, _, m) -> Some (b, m) | _ -> None) (run_scenario inputs ops) with
  | [(b, m); (b2, _)] ->
      "F" ^ bs b ^ "/" ^ bs b ^ "/" ^ bs b2 ^ "/" ^ String.concat "." (List.map (fun rows -> string_of_int (List.length rows)) m)
  | _ -> "BADREQ"

let dispatch = function
  | ["mut"; ins; _cfg; steps] -> mut_run ins steps
  | ["sigf"; ins; _lead; _form; _ctor] -> sigf_run ins
  | ["scn"; ins; ops] ->
      let kinds = kinds_of_inputs (split ';' ins) in
      let obs = run_scenario (List.map input_of_tok (split ';' ins)) (List.map (op_of_tok kinds) (split ';' ops)) in
      let l = List.filter_map str_obs obs in
      if l = [] then "-" else String.concat " " l
  | ["thr"; _src; kind; m; n; sel] ->
      let sig_of = function
        | "f" -> BZ.of_int (-1)
        | s when String.length s > 0 && s.[0] = 'x' -> BZ.of_int (-2)
        | s -> z_of s in
      let ((sr, b), mat) = lib_thr_run (kind <> "sh") (z_of m) (nat_of_int (int_of_string n)) (List.map sig_of (split '.' sel)) in
      "V" ^ (if b then "T" else "F") ^ "/" ^ (if b then "T" else "F") ^ "/" ^ str_matrix [mat] ^ "/" ^ str_z sr
  | ["vin"; rows; n; m] ->
      (* explicit table: signature i is row i, key j is column j *)
      let tab = Array.of_list (List.map (fun r -> r) (split ',' rows)) in
      let n = int_of_string n in
      let sv (i : int) (j : int) = j < String.length tab.(i) && tab.(i).[j] = '1' in
      let keys = List.init n (fun j -> j) and sigs = List.init (Array.length tab) (fun i -> i) in
      bool_s (lib_verify_input sv false keys sigs (nat_of_int (int_of_string m)))
      ^ bool_s (match sigs with [] -> false | _ -> unfixed_verify_loop sv keys None sigs (nat_of_int (int_of_string m)))
  | _ -> "BADREQ"

let () = main dispatch
