(* c06_driver.ml — evaluates the extracted C06 model (transactions, blocks) on request lines. *)
module BZ = Z
open C06_model
module H = Common.Make (struct type byte = C06_model.byte let zb = C06_model.zb let bz = C06_model.bz end)
open H

let split c s = if s = "-" || s = "" then [] else String.split_on_char c s

(* fields token:  version;locktime;sw;in|in|..;out|out|..
   in  = prevhex(display order):vout:scripthex:sequence:wit,wit,..   ("-" = empty bytes, "" = no stack)
   out = value:scripthex *)
let in_of_tok s =
  match String.split_on_char ':' s with
  | [p; n; sc; q; w] ->
      { ti_prev = List.rev (bytes_of_hex p); ti_vout = z_of n; ti_script = bytes_of_hex sc; ti_seq = z_of q;
        ti_wit = (if w = "" then [] else List.map bytes_of_hex (String.split_on_char ',' w)) }
  | _ -> failwith "in"

let out_of_tok s =
  match String.split_on_char ':' s with
  | [v; sc] -> { to_value = z_of v; to_script = bytes_of_hex sc }
  | _ -> failwith "out"

let tx_of_tok s =
  match String.split_on_char ';' s with
  | [v; lt; sw; ins; outs] ->
      { tx_version = z_of v; tx_locktime = z_of lt; tx_segwit = (sw = "1");
        tx_ins = List.map in_of_tok (split '|' ins); tx_outs = List.map out_of_tok (split '|' outs) }
  | _ -> failwith "tx"

let tok_of_in i =
  String.concat ":" [hex_of_bytes (List.rev i.ti_prev); str_z i.ti_vout; hex_of_bytes i.ti_script; str_z i.ti_seq;
                     String.concat "," (List.map hex_of_bytes i.ti_wit)]

let tok_of_out o = str_z o.to_value ^ ":" ^ hex_of_bytes o.to_script

let tok_of_tx t =
  let l f = function [] -> "-" | x -> String.concat "|" (List.map f x) in
  String.concat ";" [str_z t.tx_version; str_z t.tx_locktime; (if t.tx_segwit then "1" else "0");
                     l tok_of_in t.tx_ins; l tok_of_out t.tx_outs]

let raw_of t = opt hex_of_bytes (lib_raw t)

(* SL:<s><l> — does the script layer refuse the transaction with strict=True / strict=False (Model/TxStrict.v) *)
let spec_part b =
  match spec_parse b with
  | Some (t, []) ->
      "SPEC:" ^ hex_of_bytes (spec_txid t) ^ ":" ^ (if spec_ser t = b then "1" else "0") ^
      " SL:" ^ bool_s (sl_refuses true t) ^ bool_s (sl_refuses false t)
  | Some (_, _) -> "SPEC:trailing SL:--"
  | None -> "SPEC:reject SL:--"

let dispatch = function
  | ["tx"; _tag; h] ->
      let b = bytes_of_hex h in
      (match lib_parse b with
       | Some t -> raw_of t ^ " " ^ hex_of_bytes t.l_txid ^ " " ^ tok_of_tx (view t)
       | None -> "ERR") ^ " " ^ spec_part b
  | ["api"; f] | ["apif"; _; f] ->
      (* apif: the same fields in another argument form (list / tuple / hex strings / one bytes string for the witness
         stack, ...): the model has no notion of argument form, the bytes are those of the fields *)
      let t = tx_of_tok f in
      let l = api_build t in
      (match lib_raw l with
       | Some r ->
           hex_of_bytes r ^ " " ^ tok_of_tx (view l) ^ " P:" ^
           (match spec_parse r with
            | Some (t', []) -> tok_of_tx t'
            | _ -> "reject")
       | None -> "ERR")
  | ["block"; h] ->
      let b = bytes_of_hex h in
      let first =
        match lib_block_parse b with
        | None -> "ERR"
        | Some lb ->
            let zi x = str_z (of_be x) in
            String.concat " "
              [opt hex_of_bytes (lib_block_serialize lb); hex_of_bytes lb.lb_hash; zi lb.lb_version;
               hex_of_bytes lb.lb_prev; hex_of_bytes lb.lb_merkle; str_z lb.lb_time; zi lb.lb_bits; zi lb.lb_nonce;
               (match lib_target lb.lb_bits with Some t -> str_z t | None -> "FLOAT");
               str_z lb.lb_tx_count;
               (match lb.lb_txs with [] -> "-" | l -> String.concat "," (List.map (fun t -> hex_of_bytes t.l_txid) l))] in
      let second =
        match lib_block_dict b with
        | None -> "ERR"
        | Some l ->
            (match l with [] -> "-" | _ -> String.concat "," (List.map (fun (id, _) -> hex_of_bytes id) l)) ^ " " ^
            hex_of_bytes (List.concat (List.map snd l)) in
      let third =
        match spec_block_parse b with
        | Some (sb, []) ->
            "SPEC:" ^ hex_of_bytes (spec_block_hash sb.b_hdr) ^ ":" ^ str_z (spec_target sb.b_hdr.h_bits) ^ ":" ^
            (if spec_block_ser sb = b then "1" else "0") ^ ":" ^
            String.concat "," (List.map (fun t -> hex_of_bytes (spec_txid t)) sb.b_txs)
        | Some _ -> "SPEC:trailing"
        | None -> "SPEC:reject" in
      first ^ " D:" ^ second ^ " " ^ third
  | "bsess" :: h :: op :: ops ->
      (* reader calls on ONE Block object: entry:P:k then T<k> | t | D | d | S *)
      let b = bytes_of_hex h in
      let rec nat_of_int n = if n <= 0 then O else S (nat_of_int (n - 1)) in
      let bop_of s =
        if s = "t" then BTx else if s = "D" then BDictAll else if s = "d" then BDictOne else if s = "S" then BSer
        else if String.length s >= 2 && s.[0] = 'T' then
          BTxs (nat_of_int (int_of_string (String.sub s 1 (String.length s - 1))))
        else failwith "op" in
      (match String.split_on_char ':' op with
       | [_entry; p; k] ->
           (match lib_bsession b (p = "1") (nat_of_int (int_of_string k)) (List.map bop_of ops) with
            | None -> "ERR"
            | Some (s0, run) ->
                let snap st res =
                  res ^ ";" ^
                  (match st.bs_blk.lb_txs with
                   | [] -> "-" | l -> String.concat "," (List.map (fun t -> hex_of_bytes t.l_txid) l)) ^
                  ";" ^ str_z st.bs_blk.lb_tx_count in
                let dtok (id, raw) = hex_of_bytes id ^ "/" ^ hex_of_bytes raw in
                let res_of = function
                  | OOk -> "ok"
                  | OTx None -> "F"
                  | OTx (Some id) -> hex_of_bytes id
                  | ODicts [] -> "-"
                  | ODicts l -> String.concat "," (List.map dtok l)
                  | ODict None -> "F"
                  | ODict (Some d) -> dtok d
                  | OSer None -> "NOSER"
                  | OSer (Some r) -> hex_of_bytes r in
                let steps = List.map (function Some (st, o) -> snap st (res_of o) | None -> "X") run in
                String.concat " | " ((snap s0 "ok" :: steps) @ ["#" ^ hex_of_bytes s0.bs_blk.lb_hash]))
       | _ -> "BADREQ")
  | ["target"; n] ->
      let bits = z_of n in
      (match lib_target (be_bytes (S (S (S (S O)))) bits) with Some t -> str_z t | None -> "FLOAT") ^ " " ^
      str_z (spec_target bits)
  | _ -> "BADREQ"

(* the extracted SHA-256 on Z is slow (65535-byte scripts take seconds): answer the request lines in parallel worker
   processes (line j goes to worker j mod k, so neighbouring heavy cases are spread), output in request order *)
let answer line =
  let toks = Stdlib.String.split_on_char ' ' (Stdlib.String.trim line) in
  try dispatch toks with
  | Stack_overflow -> "CRASH stack"
  | e -> "CRASH " ^ Printexc.to_string e

let () =
  let buf = ref [] in
  (try while true do buf := input_line stdin :: !buf done with End_of_file -> ());
  let lines = Array.of_list (List.rev !buf) in
  let n = Array.length lines in
  let want = try int_of_string (Sys.getenv "C06_DRIVER_WORKERS") with _ -> 8 in
  let k = max 1 (min want (n / 8)) in
  if k = 1 then begin
    Array.iter (fun l -> print_string (answer l); print_char '\n') lines; flush stdout
  end else begin
    let dir = if Sys.file_exists "run" && Sys.is_directory "run" then "run" else Filename.get_temp_dir_name () in
    let tmp = Array.init k (fun _ -> Filename.temp_file ~temp_dir:dir "c06drv" ".out") in
    let pids = Array.init k (fun i ->
        match Unix.fork () with
        | 0 ->
            let oc = open_out tmp.(i) in
            let j = ref i in
            while !j < n do
              output_string oc (answer lines.(!j)); output_char oc '\n';
              j := !j + k
            done;
            close_out oc; Unix._exit 0
        | pid -> pid) in
    Array.iter (fun pid -> ignore (Unix.waitpid [] pid)) pids;
    let ics = Array.map open_in tmp in
    for j = 0 to n - 1 do
      (* a worker that died leaves its file short: the missing answers are reported as such *)
      let l = try input_line ics.(j mod k) with End_of_file -> "CRASH worker died" in
      print_string l; print_char '\n'
    done;
    Array.iter close_in ics;
    Array.iter Sys.remove tmp;
    flush stdout
  end
