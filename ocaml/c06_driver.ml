(* c06_driver.ml — evaluates the extracted C06 model (transactions, blocks) on request lines. *)
module BZ = Z
open C06_model
module H = Common.Make (struct type byte = C06_model.byte let zb = C06_model.zb let bz = C06_model.bz end)
open H

let split c s = if s = "-" || s = "" then [] else String.split_on_char c s

(* fields token:  version;locktime;sw;in|in|..;out|out|..
   in  = prevhex(display order):vout:scripthex:sequence:wit,wit,..   ("-" = empty bytes, "" = no stack)
   out = value:scripthex *)
let in_of_tok s =
  match String.split_on_char ':' s with
  | [p; n; sc; q; w] ->
      { ti_prev = List.rev (bytes_of_hex p); ti_vout = z_of n; ti_script = bytes_of_hex sc; ti_seq = z_of q;
        ti_wit = (if w = "" then [] else List.map bytes_of_hex (String.split_on_char ',' w)) }
  | _ -> failwith "in"

let out_of_tok s =
  match String.split_on_char ':' s with
  | [v; sc] -> { to_value = z_of v; to_script = bytes_of_hex sc }
  | _ -> failwith "out"

let tx_of_tok s =
  match String.split_on_char ';' s with
  | [v; lt; sw; ins; outs] ->
      { tx_version = z_of v; tx_locktime = z_of lt; tx_segwit = (sw = "1");
        tx_ins = List.map in_of_tok (split '|' ins); tx_outs = List.map out_of_tok (split '|' outs) }
  | _ -> failwith "tx"

let tok_of_in i =
  String.concat ":" [hex_of_bytes (List.rev i.ti_prev); str_z i.ti_vout; hex_of_bytes i.ti_script; str_z i.ti_seq;
                     String.concat "," (List.map hex_of_bytes i.ti_wit)]

let tok_of_out o = str_z o.to_value ^ ":" ^ hex_of_bytes o.to_script

let tok_of_tx t =
  let l f = function [] -> "-" | x -> String.concat "|" (List.map f x) in
  String.concat ";" [str_z t.tx_version; str_z t.tx_locktime; (if t.tx_segwit then "1" else "0");
                     l tok_of_in t.tx_ins; l tok_of_out t.tx_outs]

let raw_of t = opt hex_of_bytes (lib_raw t)

let spec_part b =
  match spec_parse b with
  | Some (t, []) -> "SPEC:" ^ hex_of_bytes (spec_txid t) ^ ":" ^ (if spec_ser t = b then "1" else "0")
  | Some (_, _) -> "SPEC:trailing"
  | None -> "SPEC:reject"

let dispatch = function
  | ["tx"; _tag; h] ->
      let b = bytes_of_hex h in
      (match lib_parse b with
       | Some t -> raw_of t ^ " " ^ hex_of_bytes t.l_txid ^ " " ^ tok_of_tx (view t)
       | None -> "ERR") ^ " " ^ spec_part b
  | ["api"; f] ->
      let t = tx_of_tok f in
      let l = api_build t in
      (match lib_raw l with
       | Some r ->
           hex_of_bytes r ^ " " ^ tok_of_tx (view l) ^ " P:" ^
           (match spec_parse r with
            | Some (t', []) -> tok_of_tx t'
            | _ -> "reject")
       | None -> "ERR")
  | ["block"; h] ->
      let b = bytes_of_hex h in
      let first =
        match lib_block_parse b with
        | None -> "ERR"
        | Some lb ->
            let zi x = str_z (of_be x) in
            String.concat " "
              [opt hex_of_bytes (lib_block_serialize lb); hex_of_bytes lb.lb_hash; zi lb.lb_version;
               hex_of_bytes lb.lb_prev; hex_of_bytes lb.lb_merkle; str_z lb.lb_time; zi lb.lb_bits; zi lb.lb_nonce;
               (match lib_target lb.lb_bits with Some t -> str_z t | None -> "FLOAT");
               str_z lb.lb_tx_count;
               (match lb.lb_txs with [] -> "-" | l -> String.concat "," (List.map (fun t -> hex_of_bytes t.l_txid) l))] in
      let second =
        match lib_block_dict b with
        | None -> "ERR"
        | Some l ->
            (match l with [] -> "-" | _ -> String.concat "," (List.map (fun (id, _) -> hex_of_bytes id) l)) ^ " " ^
            hex_of_bytes (List.concat (List.map snd l)) in
      let third =
        match spec_block_parse b with
        | Some (sb, []) ->
            "SPEC:" ^ hex_of_bytes (spec_block_hash sb.b_hdr) ^ ":" ^ str_z (spec_target sb.b_hdr.h_bits) ^ ":" ^
            (if spec_block_ser sb = b then "1" else "0") ^ ":" ^
            String.concat "," (List.map (fun t -> hex_of_bytes (spec_txid t)) sb.b_txs)
        | Some _ -> "SPEC:trailing"
        | None -> "SPEC:reject" in
      first ^ " D:" ^ second ^ " " ^ third
  | ["target"; n] ->
      let bits = z_of n in
      (match lib_target (be_bytes (S (S (S (S O)))) bits) with Some t -> str_z t | None -> "FLOAT") ^ " " ^
      str_z (spec_target bits)
  | _ -> "BADREQ"

let () = main dispatch
