(* common.ml — line protocol helpers shared by all drivers.
   Request: one line, space-separated tokens; bytes are lower-case hex, "-" for the empty string.
   Response: one line. *)
module Make (M : sig
  type byte
  val zb : Z.t -> byte
  val bz : byte -> Z.t
end) = struct
  let hexval c =
    match c with
    | '0' .. '9' -> Char.code c - 48
    | 'a' .. 'f' -> Char.code c - 87
    | 'A' .. 'F' -> Char.code c - 55
    | _ -> failwith "hex"

  let table = Array.init 256 (fun i -> M.zb (Z.of_int i))

  let bytes_of_hex (s : string) : M.byte list =
    if s = "-" then []
    else begin
      let n = String.length s / 2 in
      let rec go i acc =
        if i < 0 then acc
        else go (i - 1) (table.((hexval s.[2 * i] * 16) + hexval s.[(2 * i) + 1]) :: acc)
      in
      go (n - 1) []
    end

  let hex_of_bytes (l : M.byte list) : string =
    if l = [] then "-"
    else begin
      let b = Buffer.create 64 in
      List.iter (fun x -> Buffer.add_string b (Printf.sprintf "%02x" (Z.to_int (M.bz x)))) l;
      Buffer.contents b
    end

  let z_of s = Z.of_string s
  let str_z z = Z.to_string z
  let bool_s b = if b then "1" else "0"
  let opt f = function Some x -> f x | None -> "ERR"


  let main (dispatch : string list -> string) =
    try
      while true do
        let line = input_line stdin in
        let toks = String.split_on_char ' ' (String.trim line) in
        let out = try dispatch toks with
          | Stack_overflow -> "CRASH stack"
          | e -> "CRASH " ^ Printexc.to_string e in
        print_string out; print_char '\n'
      done
    with End_of_file -> flush stdout
end
