(* c04_driver.ml — evaluates the extracted C04 model (Model/KeyPoint.v, Model/AddrEnc.v) on request lines.
   import  <entry> <fmt> <arg> <compressed> <strict> <net>
   addr    <entry> <fmt> <arg> <compressed> <net> <carg> <script_type> <encoding>
   address <net> <script_type> <encoding> <witver> <data hex> <hashed_data hex>
   keyhash <entry> <fmt> <arg> <compressed>
   modsqrt <a>
   stdaddr <net> <script_type> <encoding> <data hex>      the standard address over the FROZEN specification table
                                                          (Model/SpecNetworks.v; frozen_address_by_name), not the regenerated one
   addrx ... / sess ...                                   outside the model (answer OOS): harness/props/c04.py judges them
   entry = Key | HDKey; fmt = int | dec | hex | bytes | point (arg "x,y"); booleans 1/0; carg N/1/0 *)
module BZ = Z
open C04_model
module H = Common.Make (struct type byte = C04_model.byte let zb = C04_model.zb let bz = C04_model.bz end)
open H

let rec name_of = function
  | EmptyString -> ""
  | String (Ascii (a, b, c, d, e, f, g, h), r) ->
      let bit x k = if x then 1 lsl k else 0 in
      let code = bit a 0 + bit b 1 + bit c 2 + bit d 3 + bit e 4 + bit f 5 + bit g 6 + bit h 7 in
      Stdlib.String.make 1 (Char.chr code) ^ name_of r

(* OCaml string -> extracted Coq string *)
let coq_string_of s =
  let n = Stdlib.String.length s in
  let rec go i =
    if i = n then EmptyString
    else
      let c = Char.code s.[i] in
      let b k = (c lsr k) land 1 = 1 in
      String (Ascii (b 0, b 1, b 2, b 3, b 4, b 5, b 6, b 7), go (i + 1)) in
  go 0

let net_of s = List.find (fun n -> name_of n.nw_name = s) all_networks
let str_of_bytes l =
  if l = [] then "-"
  else Stdlib.String.concat "" (List.map (fun b -> Stdlib.String.make 1 (Char.chr (BZ.to_int (bz b)))) l)

let bool_of = function "1" -> true | "0" -> false | _ -> failwith "bool"
let carg_of = function "N" -> None | s -> Some (bool_of s)
let st_of = function
  | "N" -> None
  | "p2pkh" -> Some StP2pkh | "p2sh" -> Some StP2sh | "p2sh_p2wpkh" -> Some StP2shP2wpkh
  | "p2sh_p2wsh" -> Some StP2shP2wsh | "p2wpkh" -> Some StP2wpkh | "p2wsh" -> Some StP2wsh
  | "p2tr" -> Some StP2tr | "p2sh_multisig" -> Some StP2shMultisig | "multisig" -> Some StMultisig
  | "p2pk" -> Some StP2pk
  | _ -> failwith "script_type"
let enc_of = function "N" -> None | "base58" -> Some EncBase58 | "bech32" -> Some EncBech32 | _ -> failwith "encoding"

let input_of fmt arg =
  match fmt with
  | "int" -> KInt (z_of arg)
  | "dec" -> KDecStr (z_of arg)
  | "hex" -> KHexStr (bytes_of_hex arg)
  | "bytes" -> KBytes (bytes_of_hex arg)
  | "point" ->
      (match Stdlib.String.split_on_char ',' arg with
       | [x; y] -> KPoint (z_of x, z_of y)
       | _ -> failwith "point")
  | _ -> failwith "fmt"

(* the repaired code: all switches on.  Results are memoised per request component (the extracted functions are
   pure): lib_key_import per (input, compressed, strict); lib_address per argument tuple.  Key.address is
   lib_key_address_args_gen followed by lib_address, exactly as lib_key_address_gen is defined in Model/KeyPoint.v. *)
let import_tbl = Hashtbl.create 1024
let import fmt arg c s =
  let key = Stdlib.String.concat " " [fmt; arg; c; s] in
  match Hashtbl.find_opt import_tbl key with
  | Some r -> r
  | None ->
      let r = lib_key_import_gen true true true (input_of fmt arg) (bool_of c) (bool_of s) in
      Hashtbl.replace import_tbl key r; r

let addr_tbl = Hashtbl.create 4096
let st_tok = function
  | None -> "N" | Some StP2pkh -> "p2pkh" | Some StP2sh -> "p2sh" | Some StP2shP2wpkh -> "p2sh_p2wpkh"
  | Some StP2shP2wsh -> "p2sh_p2wsh" | Some StP2wpkh -> "p2wpkh" | Some StP2wsh -> "p2wsh" | Some StP2tr -> "p2tr"
  | Some StP2shMultisig -> "p2sh_multisig" | Some StMultisig -> "multisig" | Some StP2pk -> "p2pk"
let enc_tok = function None -> "N" | Some EncBase58 -> "base58" | Some EncBech32 -> "bech32"
let address net st enc witver data hashed =
  let key = Stdlib.String.concat " " [net; st_tok st; enc_tok enc; str_z witver; hex_of_bytes data; hex_of_bytes hashed] in
  match Hashtbl.find_opt addr_tbl key with
  | Some r -> r
  | None ->
      let r = lib_address (net_of net) st enc witver data hashed in
      Hashtbl.replace addr_tbl key r; r

let key_address entry net k carg st enc =
  let args = if entry = "HDKey" then lib_hdkey_address_args_gen true k carg st enc
             else lib_key_address_args_gen true k carg st enc in
  match args with
  | Some ((st', e), data) -> address net st' (Some e) BZ.zero data []
  | None -> None

let oaddr = function Some a -> str_of_bytes a | None -> "ERR"

let dispatch = function
  | ["import"; entry; fmt; arg; c; s; net] ->
      (match import fmt arg c s with
       | ImpReject -> "ERR"
       | ImpRandom -> "RANDOM"
       | ImpOutOfScope -> "OOS"
       | ImpOk k ->
           let (x, y) = lib_public_point k in
           Stdlib.String.concat " "
             ["OK"; bool_s k.k_private; (if k.k_private then str_z k.k_secret else "-");
              hex_of_bytes (lib_public_byte k); hex_of_bytes (lib_public_compressed k);
              hex_of_bytes (lib_public_uncompressed k); str_z x; str_z y])
  | ["keyhash"; entry; fmt; arg; c] ->
      (match import fmt arg c "1" with
       | ImpReject -> "ERR import"
       | ImpRandom -> "RANDOM"
       | ImpOutOfScope -> "OOS"
       | ImpOk k -> hex_of_bytes (lib_key_hash160 k))
  | ["addr"; entry; fmt; arg; c; net; carg; st; enc] ->
      (match import fmt arg c "1" with
       | ImpReject -> "ERR import"
       | ImpRandom -> "RANDOM"
       | ImpOutOfScope -> "OOS"
       | ImpOk k -> oaddr (key_address entry net k (carg_of carg) (st_of st) (enc_of enc)))
  | ["address"; net; st; enc; witver; data; hashed] ->
      oaddr (address net (st_of st) (enc_of enc) (z_of witver) (bytes_of_hex data) (bytes_of_hex hashed))
  | ["modsqrt"; a] -> str_z (lib_mod_sqrt (z_of a))
  | ["stdaddr"; net; st; enc; data] ->
      (match st_of st, enc_of enc with
       | Some s, Some e ->
           (match frozen_address_by_name (coq_string_of net) s e (bytes_of_hex data) with
            | Some (Some a) -> str_of_bytes a
            | Some None -> "NONE"
            | None -> "NONET")
       | _ -> "BADREQ")
  | ["spec_address"; net; st; enc; data] ->
      (match st_of st, enc_of enc with
       | Some s, Some e -> (match spec_address (net_of net) s e (bytes_of_hex data) with Some a -> str_of_bytes a | None -> "NONE")
       | _ -> "BADREQ")
  (* argument combinations (addrx), histories on one key object (sess) and the text routes of a private key (route: WIF,
     BIP38) are judged by the property-level oracle only *)
  | "addrx" :: _ | "sess" :: _ | "route" :: _ -> "OOS"
  | _ -> "BADREQ"

let () = main dispatch
