(* c07_driver.ml — evaluates the extracted C07 model (coin selection, transaction_create, send, sweep,
   bumpfee) on request lines.  Token formats are documented in harness/props/c07.py. *)
module BZ = Z
open C07_model
module H = Common.Make (struct type byte = C07_model.byte let zb = C07_model.zb let bz = C07_model.bz end)
open H

let split c s = if s = "-" || s = "" then [] else String.split_on_char c s
let b01 s = s = "1"
let optz s = if s = "N" then None else Some (z_of s)

let wkind_of t =
  match String.split_on_char ',' t with
  | [w; ms; nk; nr; sg] ->
      { wk_wit = (match w with "L" -> Legacy | "S" -> Segwit | _ -> P2shSegwit);
        wk_multisig = b01 ms; wk_nkeys = z_of nk; wk_nreq = z_of nr; wk_single = b01 sg }
  | _ -> failwith "wkind"

let utxo_of s =
  match String.split_on_char ':' s with
  | [i; v; c; sp] -> { u_id = z_of i; u_value = z_of v; u_conf = z_of c; u_spent = b01 sp }
  | _ -> failwith "utxo"
let view_of t = List.map utxo_of (split ';' t)

let recip_of s =
  match String.split_on_char ':' s with
  | [h; a; c] -> { r_script = bytes_of_hex h; r_amount = z_of a; r_change = b01 c }
  | _ -> failwith "recipient"
let recips_of t = List.map recip_of (split ';' t)

let fee_of_tok t =
  if t = "none" then FeeNone else if t = "named" then FeeNamed
  else FeeInt (z_of (String.sub t 1 (String.length t - 1)))

let inputs_of t = if t = "N" then None else Some (List.map z_of (split ',' t))

let oracle_of t =
  match String.split_on_char ',' t with
  | [a; b; c; d; w] -> { or_fpk = z_of a; or_fpk2 = z_of b; or_r1 = z_of c; or_r2 = z_of d;
                         or_weights = List.map z_of (split '/' w) }
  | _ -> failwith "oracle"

let q_of t = match String.split_on_char '/' t with [a; b] -> (z_of a, z_of b) | _ -> failwith "q"

let err_s = function
  | EMaxUtxos -> "maxutxos" | ENoUtxos -> "noutxos" | ENotEnough -> "notenough" | EUnknownUtxo -> "unknownutxo"
  | EOutGtIn -> "outgtin" | EMultiChange -> "multichange" | EConserve -> "conserve" | ENegOutput -> "badvalue"
  | EOverflow -> "badvalue" | EFeeLow -> "feelow" | EFeeHigh -> "feehigh" | EDomain -> "domain"
  | ESweepNone -> "sweepnone" | ESweepDust -> "sweepdust" | ESweepMismatch -> "sweepmismatch"
  | EBumpZeroFee -> "bumpzerofee" | EBumpFeeLow -> "bumpfeelow" | EBumpExtraLow -> "bumpextralow"
  | EBumpNoChange -> "bumpnochange" | EBumpNoInput -> "bumpnoinput"

let out_s o =
  (match o.o_dest with ToScript s -> "s" ^ hex_of_bytes s | ToChange i -> "c" ^ str_z i)
  ^ ":" ^ str_z o.o_value ^ ":" ^ bool_s o.o_change
let outs_s l = if l = [] then "-" else String.concat ";" (List.map out_s l)
let ids_s l = if l = [] then "-" else String.concat "," (List.map (fun u -> str_z u.u_id) l)

let wtx_s = function
  | Err e -> "ERR " ^ err_s e
  | Ok t -> Printf.sprintf "OK fee=%s change=%s vsize=%s in=%s out=%s" (str_z t.t_fee) (str_z t.t_change)
              (str_z t.t_vsize) (ids_s t.t_inputs) (outs_s t.t_outputs)

let btx_s = function
  | Err e -> "ERR " ^ err_s e
  | Ok b -> Printf.sprintf "OK fee=%s in=%s out=%s" (str_z b.b_fee) (ids_s b.b_inputs) (outs_s b.b_outputs)

let bout_of s =
  match String.split_on_char ':' s with
  | [d; v; c] ->
      let dest = if d.[0] = 'c' then ToChange (z_of (String.sub d 1 (String.length d - 1)))
                 else ToScript (bytes_of_hex (String.sub d 1 (String.length d - 1))) in
      { o_dest = dest; o_value = z_of v; o_change = b01 c }
  | _ -> failwith "bout"

let mkreq outs inputs fee minc maxu k =
  { rq_outputs = recips_of outs; rq_inputs = inputs_of inputs; rq_fee = fee_of_tok fee; rq_min_conf = z_of minc;
    rq_max_utxos = optz maxu; rq_nchange = z_of k }

(* ---- histories (Model/TxCreateHistory.v) *)
let fsplit s = String.split_on_char '~' s

let xin_of s =
  match String.split_on_char ':' s with
  | [i; shape; k; claim] ->
      let numeric = k <> "N" && k <> "X" in
      { x_id = z_of i;
        x_key = (if k = "N" then None else if k = "X" then Some (z_of "9999") else Some (z_of k));
        x_claim = (if claim = "N" then None else Some (z_of claim));
        x_addr = (shape = "a" && numeric); x_obj = (shape = "o") }
  | _ -> failwith "xin"

let xins_of t = if t = "N" then None else Some (List.map xin_of (split ',' t))

let keys_of t =
  if t = "-" then [] else List.map z_of (split ',' (String.sub t 1 (String.length t - 1)))

let acct_of t = if t = "N" then BZ.zero else z_of t

let litem_of s =
  match String.split_on_char ':' s with
  | [i; v; c; k] -> { li_id = z_of i; li_value = z_of v; li_conf = z_of c; li_key = z_of k }
  | _ -> failwith "litem"

let hreq_of outs inputs fee minc maxu k keys acct lt rbf =
  { hq_outputs = recips_of outs; hq_inputs = xins_of inputs; hq_fee = fee_of_tok fee; hq_min_conf = z_of minc;
    hq_max_utxos = optz maxu; hq_nchange = z_of k; hq_keys = keys_of keys; hq_acct = acct_of acct;
    hq_locktime = z_of lt; hq_rbf = b01 rbf }

let btx_of ins outs fee vsize =
  { b_inputs = view_of ins; b_outputs = List.map bout_of (split ';' outs); b_fee = z_of fee; b_vsize = z_of vsize }

let hop_of s =
  match fsplit s with
  | ["c"; outs; inputs; fee; minc; maxu; k; keys; acct; lt; rbf; o1] ->
      HCreate (hreq_of outs inputs fee minc maxu k keys acct lt rbf, oracle_of o1)
  | ["s"; outs; inputs; fee; minc; maxu; k; keys; acct; lt; rbf; o1; o2; bc; sg] ->
      HSend (hreq_of outs inputs fee minc maxu k keys acct lt rbf, oracle_of o1, oracle_of o2, b01 bc, b01 sg)
  | ["w"; single; targets; fee; fpk; minc; maxu; keys; acct; lt; rbf; o1; o2; bc; sg] ->
      HSweep ({ hw_sweep = { sw_single = b01 single; sw_targets = recips_of targets; sw_fee = fee_of_tok fee;
                             sw_fee_per_kb = optz fpk; sw_min_conf = z_of minc; sw_max_utxos = z_of maxu };
                hw_keys = keys_of keys; hw_acct = acct_of acct; hw_locktime = z_of lt; hw_rbf = b01 rbf },
              oracle_of o1, oracle_of o2, b01 bc, b01 sg)
  | ["u"; acct; rescan; listing] -> HUpdate (acct_of acct, List.map litem_of (split ';' listing), b01 rescan)
  | ["a"; acct; item] -> HUtxoAdd (acct_of acct, litem_of item)
  | ["r"] -> HReopen
  | ["b"; farg; earg; bc; sg; ins; outs; fee; vsize] ->
      HBump (btx_of ins outs fee vsize, z_of farg, z_of earg, b01 bc, b01 sg)
  | _ -> failwith ("hop " ^ s)

let snap_s st =
  let l = List.sort (fun (a, _) (b, _) -> BZ.compare a b) (spendable st) in
  if l = [] then "-" else String.concat "," (List.map (fun (i, c) -> str_z i ^ ":" ^ str_z c) l)

let rec zip a b = match a, b with x :: r, y :: s -> (x, y) :: zip r s | _ -> []

let hout_s = function
  | OTx (x, pushed) ->
      let t = x.x_tx in
      let ins = zip t.t_inputs x.x_seqs in
      Printf.sprintf "OK fee=%s change=%s vsize=%s in=%s out=%s lt=%s pushed=%s" (str_z t.t_fee) (str_z t.t_change)
        (str_z t.t_vsize)
        (if ins = [] then "-" else String.concat "," (List.map (fun (u, s) -> str_z u.u_id ^ "/" ^ str_z s) ins))
        (outs_s t.t_outputs) (str_z x.x_locktime) (bool_s pushed)
  | OErr e -> "ERR " ^ err_s e
  | OCount n -> "U " ^ str_z n
  | ODone -> "R"
  | OBump (b, pushed) ->
      Printf.sprintf "OK fee=%s in=%s out=%s pushed=%s" (str_z b.b_fee) (ids_s b.b_inputs) (outs_s b.b_outputs) (bool_s pushed)
  | ONoLast -> "NOLAST"
  | ODeleted -> "D"
  | ONoTx -> "NOTX"

let dispatch = function
  | ["select"; view; amount; variance; minc; dust; maxu] ->
      (match lib_select_inputs (view_of view) (z_of amount) (z_of variance) (z_of minc) (z_of dust) (optz maxu) with
       | SelNoUtxos -> "ERR noutxos"
       | SelOk l -> "OK " ^ ids_s l)
  | ["create"; rep; net; wk; view; outs; inputs; fee; minc; maxu; k; o1] ->
      wtx_s (tx_create (b01 rep) (net_by_index (z_of net)) (wkind_of wk) (view_of view)
               (mkreq outs inputs fee minc maxu k) (oracle_of o1))
  | ["send"; rep; net; wk; view; outs; inputs; fee; minc; maxu; k; o1; o2] ->
      wtx_s (send_gen (b01 rep) (net_by_index (z_of net)) (wkind_of wk) (view_of view)
               (mkreq outs inputs fee minc maxu k) (oracle_of o1) (oracle_of o2))
  | ["sweep"; rep; net; wk; view; single; targets; fee; fpk; minc; maxu; o1; o2] ->
      wtx_s (sweep_gen (b01 rep) (net_by_index (z_of net)) (wkind_of wk) (view_of view)
               { sw_single = b01 single; sw_targets = recips_of targets; sw_fee = fee_of_tok fee;
                 sw_fee_per_kb = optz fpk; sw_min_conf = z_of minc; sw_max_utxos = z_of maxu }
               (oracle_of o1) (oracle_of o2))
  | ["txbump"; rep; ins; outs; fee; vsize; farg; earg; mult] ->
      btx_s (tx_bumpfee (b01 rep)
               { b_inputs = view_of ins; b_outputs = List.map bout_of (split ';' outs); b_fee = z_of fee;
                 b_vsize = z_of vsize } (z_of farg) (z_of earg) (q_of mult))
  | ["wbump"; rep; net; view; ins; outs; fee; vsize; farg; earg; mult; mult2] ->
      btx_s (wallet_bumpfee (b01 rep) (net_by_index (z_of net)) (view_of view)
               { b_inputs = view_of ins; b_outputs = List.map bout_of (split ';' outs); b_fee = z_of fee;
                 b_vsize = z_of vsize } (z_of farg) (z_of earg) (q_of mult) (q_of mult2))
  | ["calcfee"; net; vsize; fpk] ->
      str_z (calculate_fee (net_by_index (z_of net))
               { t_inputs = []; t_outputs = []; t_fee = BZ.zero; t_change = BZ.zero; t_vsize = z_of vsize;
                 t_fpk = z_of fpk })
  | ["estsize"; wk; n_in; scripts; k] ->
      str_z (estimate_size (wkind_of wk) (z_of n_in) (List.map bytes_of_hex (split ',' scripts)) (z_of k))
  | ["netlimits"; net] ->
      let n = net_by_index (z_of net) in
      str_z n.nw_dust_amount ^ " " ^ str_z n.nw_fee_min ^ " " ^ str_z n.nw_fee_max
  | "hist" :: net :: wk :: bcount :: mult :: mult2 :: ops ->
      let env = { he_bcount = z_of bcount; he_mult = q_of mult; he_mult2 = q_of mult2 } in
      let nw = net_by_index (z_of net) and w = wkind_of wk in
      (* d~pos: delete the transaction that operation number pos broadcast (its serial = hs_next of the state before) *)
      let serials = Hashtbl.create 8 in
      let st = ref h_empty in
      let answers = List.mapi (fun pos tok ->
          let op = match fsplit tok with
            | ["d"; p] -> HDelete (Hashtbl.find_opt serials (int_of_string p))
            | _ -> hop_of tok in
          let pre = !st in
          let (st', out) = h_step env nw w pre op in
          (match out with
           | OTx (_, true) | OBump (_, true) -> Hashtbl.replace serials pos pre.hs_next
           | _ -> ());
          st := st';
          hout_s out ^ " U=" ^ snap_s st') ops in
      String.concat " @ " answers
  | _ -> "BADREQ"

let () = main dispatch
