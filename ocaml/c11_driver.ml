(* c11_driver.ml — evaluates the extracted C11 model (Base58Check / Bech32) on request lines.
   Text strings travel as hex of their bytes ("-" = empty). *)
module BZ = Z
open C11_model
module H = Common.Make (struct type byte = C11_model.byte let zb = C11_model.zb let bz = C11_model.bz end)
open H

let rec nat_of_int n = if n <= 0 then O else S (nat_of_int (n - 1))

(* Coq string -> OCaml string *)
let char_of_ascii = function
  | Ascii (b0, b1, b2, b3, b4, b5, b6, b7) ->
      let v b k = if b then 1 lsl k else 0 in
      Char.chr (v b0 0 + v b1 1 + v b2 2 + v b3 3 + v b4 4 + v b5 5 + v b6 6 + v b7 7)
let rec str_of_coq = function
  | EmptyString -> ""
  | String (a, r) -> Stdlib.String.make 1 (char_of_ascii a) ^ str_of_coq r

let zlist_of_tok t =
  if t = "-" then [] else List.map BZ.of_string (Stdlib.String.split_on_char ',' t)
let tok_of_zlist l =
  if l = [] then "-" else Stdlib.String.concat "," (List.map BZ.to_string l)

let flag s = (s = "1")
let hash = sha256d

let script_s = function
  | SkNone -> "-" | SkP2pkh -> "p2pkh" | SkP2sh -> "p2sh" | SkP2wpkh -> "p2wpkh" | SkP2wsh -> "p2wsh" | SkP2tr -> "p2tr"
let wit_s = function WkNone -> "-" | WkLegacy -> "legacy" | WkSegwit -> "segwit" | WkTaproot -> "taproot"

let info_s i =
  Printf.sprintf "%s pfx=%s pkh=%s net=%s st=%s wt=%s nets=%s wv=%s raw=%s"
    (if i.ai_bech32 then "bech32" else "base58")
    (hex_of_bytes i.ai_prefix) (hex_of_bytes i.ai_pkh)
    (match i.ai_network with None -> "None" | Some s -> let s = str_of_coq s in if s = "" then "''" else s)
    (script_s i.ai_script) (wit_s i.ai_witness)
    (if i.ai_networks = [] then "-" else Stdlib.String.concat "," (List.map str_of_coq i.ai_networks))
    (match i.ai_witver with None -> "None" | Some z -> BZ.to_string z)
    (hex_of_bytes i.ai_raw)

(* fold/canon flags of the model: "0 1" is the repaired code, "1 0" the code before fixes C11-1..2;
   deser additionally: lowpfx (fix C11-7) and p2tr_any (fix C05-1) *)
let dispatch = function
  | ["b58enc"; h] -> hex_of_bytes (b58_enc (bytes_of_hex h))
  | ["specdec"; s] -> opt hex_of_bytes (spec_b58_dec (bytes_of_hex s))
  | ["b58dec"; fold; s; minlen] ->
      opt hex_of_bytes (lib_b58_dec (flag fold) (bytes_of_hex s) (nat_of_int (int_of_string minlen)))
  | ["addr58"; fold; canon; s] ->
      (match lib_addr_b58_gen hash (flag fold) (flag canon) (bytes_of_hex s) with
       | AOk p -> hex_of_bytes p | AErr -> "ERR" | AAssert -> "ERR assert")
  | ["a2p"; fold; canon; s] ->
      (match lib_addr_to_pkh_gen hash (flag fold) (flag canon) (bytes_of_hex s) with
       | PkOk p -> hex_of_bytes p | PkErr -> "ERR" | PkAssert -> "ERR assert")
  | ["enc58"; pfx; pkh] -> hex_of_bytes (lib_addr_b58_enc hash (bytes_of_hex pfx) (bytes_of_hex pkh))
  | ["deser"; fold; canon; lowpfx; p2tr_any; enc; s] ->
      let e = match enc with "b58" -> EncB58 | "bech32" -> EncBech32 | _ -> EncNone in
      (match lib_deserialize_gen hash (flag fold) (flag canon) (flag lowpfx) (flag p2tr_any) e (bytes_of_hex s) with
       | DOk i -> info_s i | DErrKey -> "ERR key" | DErrEnc -> "ERR enc")
  | ["bech32dec"; s] -> opt (fun r -> hex_of_bytes (lib_bech32_raw r)) (lib_bech32_dec (bytes_of_hex s))
  | ["bech32enc"; pkh; hrp; wv; cx] ->
      opt hex_of_bytes (lib_bech32_enc (bytes_of_hex pkh) (bytes_of_hex hrp) (z_of wv) (z_of cx))
  | ["specbech32enc"; hrp; wv; prog] ->
      opt hex_of_bytes (spec_bech32_enc (bytes_of_hex hrp) (z_of wv) (bytes_of_hex prog))
  | ["bech32chk"; s] -> opt str_z (lib_bech32_checksum (bytes_of_hex s))
  | ["convertbits"; f; t; pad; l] ->
      (match convertbits (zlist_of_tok l) (z_of f) (z_of t) (flag pad) with
       | CbOk r -> tok_of_zlist r | CbNone -> "None" | CbErr -> "ERR")
  | ["polymod"; l] -> str_z (polymod (zlist_of_tok l))
  (* the fixed-length Base58Check guard of HDKey.from_wif / HDKey(xkey) (82) and bip38_decrypt (43): payload or ERR *)
  | ["fixedchk"; total; s] ->
      (match lib_fixed_check hash (nat_of_int (int_of_string total)) (bytes_of_hex s) with
       | Some p -> "OK " ^ hex_of_bytes p | None -> "ERR")
  | "skip" :: _ -> "-"
  | _ -> "BADREQ"

(* the extracted SHA-256 on Z is slow (about 2 ms per double hash): answer the request lines in parallel
   worker processes, output in request order *)
let answer line =
  let toks = Stdlib.String.split_on_char ' ' (Stdlib.String.trim line) in
  try dispatch toks with
  | Stack_overflow -> "CRASH stack"
  | e -> "CRASH " ^ Printexc.to_string e

let () =
  let buf = ref [] in
  (try while true do buf := input_line stdin :: !buf done with End_of_file -> ());
  let lines = Array.of_list (List.rev !buf) in
  let n = Array.length lines in
  let k = max 1 (min 14 (n / 500)) in
  if k = 1 then begin
    Array.iter (fun l -> print_string (answer l); print_char '\n') lines; flush stdout
  end else begin
    let tmp = Array.init k (fun _ -> Filename.temp_file "c11drv" ".out") in
    let pids = Array.init k (fun i ->
        match Unix.fork () with
        | 0 ->
            let oc = open_out tmp.(i) in
            for j = i * n / k to ((i + 1) * n / k) - 1 do
              output_string oc (answer lines.(j)); output_char oc '\n'
            done;
            close_out oc; Unix._exit 0
        | pid -> pid) in
    Array.iter (fun pid -> ignore (Unix.waitpid [] pid)) pids;
    Array.iter (fun f ->
        let ic = open_in f in
        (try while true do print_string (input_line ic); print_char '\n' done with End_of_file -> ());
        close_in ic; Sys.remove f) tmp;
    flush stdout
  end
