(* crypto_driver.ml — evaluates the extracted shared crypto foundation on request lines.
   Points are one token: "inf" or "X,Y" (decimal).  Bytes are hex ("-" = empty). *)
module BZ = Z
open Crypto_model
module H = Common.Make (struct type byte = Crypto_model.byte let zb = Crypto_model.zb let bz = Crypto_model.bz end)
open H

let rec nat_of_int n = if n <= 0 then O else S (nat_of_int (n - 1))

let pt_of_tok t =
  if t = "inf" then None
  else match String.split_on_char ',' t with
    | [x; y] -> Some (z_of x, z_of y)
    | _ -> failwith "point"

let tok_of_pt = function
  | None -> "inf"
  | Some (x, y) -> str_z x ^ "," ^ str_z y

let xy = function Some (x, y) -> str_z x ^ "," ^ str_z y | None -> "ERR"
let rs = function Some (r, s) -> str_z r ^ " " ^ str_z s | None -> "ERR"
let parity s = (s = "1")

(* CPU time of n repetitions, in microseconds per call (used by the selftest's timing report only) *)
let bench n f =
  let t0 = Sys.time () in
  for _ = 1 to n do ignore (Sys.opaque_identity (f ())) done;
  Printf.sprintf "%.1f" ((Sys.time () -. t0) *. 1e6 /. float_of_int n)

let dispatch = function
  | ["sha256"; h] -> hex_of_bytes (sha256 (bytes_of_hex h))
  | ["sha256d"; h] -> hex_of_bytes (sha256d (bytes_of_hex h))
  | ["sha512"; h] -> hex_of_bytes (sha512 (bytes_of_hex h))
  | ["sha256n"; h] -> hex_of_bytes (sha256_n (bytes_of_hex h))
  | ["ripemd160z"; h] -> hex_of_bytes (ripemd160_z (bytes_of_hex h))
  | ["sha512z"; h] -> hex_of_bytes (sha512_z (bytes_of_hex h))
  | ["ripemd160"; h] -> hex_of_bytes (ripemd160 (bytes_of_hex h))
  | ["hash160"; h] -> hex_of_bytes (hash160 (bytes_of_hex h))
  | ["hmac256"; k; m] -> hex_of_bytes (hmac_sha256 (bytes_of_hex k) (bytes_of_hex m))
  | ["hmac512"; k; m] -> hex_of_bytes (hmac_sha512 (bytes_of_hex k) (bytes_of_hex m))
  | ["pbkdf2"; p; s; it; dk] ->
      hex_of_bytes (pbkdf2_hmac_sha512 (bytes_of_hex p) (bytes_of_hex s)
                      (nat_of_int (int_of_string it)) (nat_of_int (int_of_string dk)))
  | ["powmod"; b; e; m] -> str_z (powmod (z_of b) (z_of e) (z_of m))
  | ["invmod"; a; m] -> str_z (inv_mod (z_of a) (z_of m))
  | ["invmodf"; a; m] -> str_z (inv_mod_fermat (z_of a) (z_of m))
  | ["sqrt"; a] ->
      (* the smaller of the two roots, or NONE when the candidate does not square to a *)
      let a = BZ.erem (z_of a) secp_p in
      let y = mod_sqrt a in
      if BZ.equal (BZ.erem (BZ.mul y y) secp_p) a then str_z (BZ.min y (BZ.sub secp_p y)) else "NONE"
  | ["oncurve"; p] -> bool_s (on_curve (pt_of_tok p))
  | ["neg"; p] -> tok_of_pt (pt_neg (pt_of_tok p))
  | ["add"; p; q] -> tok_of_pt (pt_add (pt_of_tok p) (pt_of_tok q))
  | ["double"; p] -> tok_of_pt (pt_double (pt_of_tok p))
  | ["mul"; k; p] -> tok_of_pt (pt_mul (z_of k) (pt_of_tok p))
  | ["mulG"; k] -> tok_of_pt (secp_pub (z_of k))
  | ["decompress"; par; x] -> xy (decompress (parity par) (z_of x))
  | ["compress"; p] ->
      (match compress (pt_of_tok p) with Some (b, x) -> bool_s b ^ " " ^ str_z x | None -> "ERR")
  | ["serc"; p] -> hex_of_bytes (ser_point_compressed (pt_of_tok p))
  | ["seru"; p] -> hex_of_bytes (ser_point_uncompressed (pt_of_tok p))
  | ["parse"; h] -> xy (parse_point (bytes_of_hex h))
  | ["sign"; d; z; k] -> rs (ecdsa_sign (z_of d) (z_of z) (z_of k))
  | ["lows"; s] -> str_z (ecdsa_low_s (z_of s))
  | ["verify"; z; r; s; q] -> bool_s (ecdsa_verify (z_of z) (z_of r) (z_of s) (pt_of_tok q))
  | ["bits2int"; h] -> str_z (bits2int (bytes_of_hex h))
  | ["nonce"; d; h] -> str_z (rfc6979_nonce (z_of d) (bytes_of_hex h))
  | ["signdet"; d; h] -> rs (ecdsa_sign_rfc6979 (z_of d) (bytes_of_hex h))
  | ["consts"] -> str_z secp_p ^ " " ^ str_z secp_n ^ " " ^ tok_of_pt secp_G
  | ["bench"; n; "mulG"; k] -> let k = z_of k in bench (int_of_string n) (fun () -> secp_pub k)
  | ["bench"; n; "invmod"; a] -> let a = z_of a in bench (int_of_string n) (fun () -> inv_mod a secp_p)
  | ["bench"; n; what; h] ->
      let b = bytes_of_hex h in
      let f = (match what with
          | "sha256" -> sha256 | "sha512" -> sha512 | "sha512z" -> sha512_z | "sha256n" -> sha256_n | "ripemd160z" -> ripemd160_z | "ripemd160" -> ripemd160 | "hash160" -> hash160
          | _ -> failwith "bench") in
      bench (int_of_string n) (fun () -> f b)
  | _ -> "BADREQ"

let () = main dispatch
