(* c12_driver.ml — evaluates the extracted C12 model (key export / import formats) on request lines.
   First token of every request: four characters "fwpc" (f = Base58 lower-casing retry, w = fixes/C12-1 applied,
   p = fixes/C12-2 applied, c = the harness's answer t/f to the curve oracle for the one public key the request can
   submit to Key.__init__'s strict point test), e.g. "011t" = the repaired code, point on the curve.
   Key input tokens: i:<decimal> | b:<hex> | s:<hex of the ASCII text>.  Optional names: "-" = None.
   Booleans t/f, optional booleans n/t/f. *)
module BZ = Z
open C12_model
module H = Common.Make (struct type byte = C12_model.byte let zb = C12_model.zb let bz = C12_model.bz end)
open H

let char_of_ascii = function
  | Ascii (b0, b1, b2, b3, b4, b5, b6, b7) ->
      let v b k = if b then 1 lsl k else 0 in
      Char.chr (v b0 0 + v b1 1 + v b2 2 + v b3 3 + v b4 4 + v b5 5 + v b6 6 + v b7 7)
let rec str_of_coq = function
  | EmptyString -> ""
  | String (a, r) -> Stdlib.String.make 1 (char_of_ascii a) ^ str_of_coq r
let ascii_of_char c =
  let n = Char.code c in
  let b k = (n lsr k) land 1 = 1 in
  Ascii (b 0, b 1, b 2, b 3, b 4, b 5, b 6, b 7)
let coq_of_str (s : Stdlib.String.t) =
  let r = ref EmptyString in
  for i = Stdlib.String.length s - 1 downto 0 do r := String (ascii_of_char s.[i], !r) done;
  !r

let text_of_bytes (l : C12_model.byte list) =
  Stdlib.String.concat "" (List.map (fun x -> Stdlib.String.make 1 (Char.chr (BZ.to_int (bz x)))) l)

let tf = function "t" -> true | "f" -> false | _ -> failwith "bool"
let otf = function "n" -> None | s -> Some (tf s)
let oname = function "-" -> None | s -> Some (coq_of_str s)
let b01 b = if b then "1" else "0"

let key_of_tok t =
  let body = Stdlib.String.sub t 2 (Stdlib.String.length t - 2) in
  match t.[0] with
  | 'i' -> KInt (BZ.of_string body)
  | 'b' -> KBytes (bytes_of_hex body)
  | 's' -> KStr (bytes_of_hex body)
  | _ -> failwith "keytok"

let fmt_s = function
  | FDecimal -> "decimal" | FBinCompressed -> "bin_compressed" | FBin -> "bin"
  | FPublicUncompressed -> "public_uncompressed" | FHex -> "hex" | FPublic -> "public"
  | FHexCompressed -> "hex_compressed" | FWifProtected -> "wif_protected" | FMnemonic -> "mnemonic"
  | FHdPublic -> "hdkey_public" | FHdPrivate -> "hdkey_private" | FWifCompressed -> "wif_compressed" | FWif -> "wif"

let names l = if l = [] then "[]" else Stdlib.String.concat "," (List.map str_of_coq l)
let bools l = if l = [] then "[]" else Stdlib.String.concat "," (List.map b01 l)

let err_s = function
  | EKey -> "ERR key" | EAmbiguous -> "ERR ambiguous" | ENetwork -> "ERR network" | EOther -> "ERR other"
  | EUnmodelled -> "UNMODELLED"

let kf_s = function
  | KfOk i ->
      Printf.sprintf "OK fmt=%s nets=%s priv=%s scripts=%s wits=%s ms=%s" (fmt_s i.kf_format)
        (match i.kf_networks with None -> "None" | Some l -> names l) (b01 i.kf_private)
        (names i.kf_scripts) (names i.kf_witness) (bools i.kf_multisig)
  | KfEmpty -> "ERR empty"
  | KfAmbiguous -> "ERR ambiguous"
  | KfNoKey -> "NOKEY"
  | KfUnmodelled -> "UNMODELLED"

let ko_s k =
  Printf.sprintf "priv=%s key=%s comp=%s net=%s fmt=%s" (b01 k.ko_private) (hex_of_bytes k.ko_key)
    (b01 k.ko_compressed) (str_of_coq k.ko_network) (fmt_s k.ko_format)
let key_res = function Ok k -> "OK " ^ ko_s k | Err e -> err_s e
let hd_res = function
  | Ok h ->
      Printf.sprintf "OK %s chain=%s depth=%s fp=%s child=%s wt=%s ms=%s" (ko_s h.ho_key) (hex_of_bytes h.ho_chain)
        (str_z h.ho_depth) (hex_of_bytes h.ho_fp) (str_z h.ho_child) (str_of_coq h.ho_witness) (b01 h.ho_multisig)
  | Err e -> err_s e

let match_s m =
  let r = m.hm_row in
  Printf.sprintf "%s/%s/%s/%s/%s/%s" (str_of_coq m.hm_network) (b01 r.wr_private) (str_of_coq r.wr_witness_type)
    (b01 r.wr_multisig) (str_of_coq r.wr_script_type) (str_of_coq r.wr_hrp)

(* keymeta from tokens: priv secret pubc pubu comp chain depth fp child net wt ms *)
let km_of = function
  | [priv; secret; pubc; pubu; comp; chain; depth; fp; child; net; wt; ms] ->
      { km_private = tf priv; km_secret = bytes_of_hex secret; km_pubc = bytes_of_hex pubc;
        km_pubu = bytes_of_hex pubu; km_compressed = tf comp; km_chain = bytes_of_hex chain;
        km_depth = z_of depth; km_fp = bytes_of_hex fp; km_child = z_of child;
        km_network = coq_of_str net; km_witness = coq_of_str wt; km_multisig = tf ms }
  | _ -> failwith "keymeta"

let rec take n l = if n = 0 then [] else match l with [] -> [] | x :: r -> x :: take (n - 1) r
let rec drop n l = if n = 0 then l else match l with [] -> [] | _ :: r -> drop (n - 1) r

(* ---------- sessions: seq <K|KW|H|HW> <12 keymeta tokens> <op> ... ---------- *)
let split_colon (s : Stdlib.String.t) = Stdlib.String.split_on_char ':' s
let sub_from (s : Stdlib.String.t) i = Stdlib.String.sub s i (Stdlib.String.length s - i)

(* explicit version bytes: "-" None | "e" b'' | b<hex> bytes | s<hex text> hex text (bytes.fromhex) *)
let pref_of tok : C12_model.byte list option =
  if tok = "-" then None
  else if tok = "e" then Some []
  else match tok.[0] with
    | 'b' | 's' -> Some (bytes_of_hex (Stdlib.String.lowercase_ascii (sub_from tok 1)))
    | _ -> failwith "prefix token"
let wt_of tok = if tok = "-" then None else if tok = "e" then Some (coq_of_str "") else Some (coq_of_str tok)

(* (call, how the exported value is imported back: n = no hint, h = the object's network as hint, x = not at all) *)
let sop_of tok =
  match split_colon tok with
  | ["wif"; p; i] -> (SWif (pref_of p), i)
  | ["x"; isp; child; p; wt; ms; i] ->
      (SXkey (otf isp, (if child = "-" then None else Some (z_of child)), pref_of p, wt_of wt, otf ms), i)
  | ["xprv"; p; wt; ms; i] -> (SXkey (Some true, None, pref_of p, wt_of wt, otf ms), i)
  | ["xpub"; p; wt; ms; i] -> (SXkey (Some false, None, pref_of p, wt_of wt, otf ms), i)
  | ["net"; name] -> (SNet (coq_of_str name), "x")
  | ["public"] -> (SPublic, "x")
  | ["addr"; c; _] -> (SAddr (otf c), "x")
  | ["hex"; b; i] -> (SHex (tf b), i)
  | ["bytes"; b; i] -> (SBytes (tf b), i)
  | ["int"; i] -> (SInt, i)
  | ["enc"; _; _] | ["dict"; _] | ["repr"] -> (SOpaque, "x")
  | _ -> failwith "op token"

let fields_s hd (s : sstate) =
  Printf.sprintf "p=%s c=%s net=%s child=%s" (b01 s.ss_km.km_private) (b01 s.ss_compressed)
    (str_of_coq s.ss_km.km_network) (if hd then str_z s.ss_km.km_child else "-")

let dispatch toks =
  match toks with
  | [] -> "BADREQ"
  | flags :: req when Stdlib.String.length flags = 4 ->
      let fold = flags.[0] = '1' and wifcheck = flags.[1] = '1' and pubser = flags.[2] = '1' in
      let oc (_ : C12_model.byte list) = flags.[3] = 't' in
      let gkf k ip = kf_s (lib_get_key_format fold wifcheck k ip) in
      let import via text rest =
        (* via = key | hdkey | fromwif, text = exported string (Coq bytes) *)
        match via, rest with
        | "key", [hint; comp; ip] -> key_res (lib_key_import fold wifcheck oc (KStr text) (oname hint) (tf comp) (otf ip))
        | "hdkey", [hint; wt; ms; comp] ->
            hd_res (lib_hdkey_import fold wifcheck oc (KStr text) (oname hint) (oname wt) (tf ms) (tf comp))
        | "fromwif", [hint; ms; comp] ->
            hd_res (lib_hdkey_from_wif fold wifcheck oc text (oname hint) (otf ms) (tf comp))
        | _ -> "BADREQ" in
      (match req with
       (* public-form round trips over points with short coordinates and BIP38 round trips through every entry point are
          judged by the property-level oracle only (the model is a codec over bytes: no curve arithmetic, no scrypt/AES) *)
       | "pubrt" :: _ | "bip38rt" :: _ -> "UNMODELLED"
       | ["gkf"; k; ip] -> gkf (key_of_tok k) (otf ip)
       | ["wps"; p; wt; ms; nw] ->
           let l = lib_wif_prefix_search (bytes_of_hex p) (oname wt) (otf ms) (oname nw) in
           if l = [] then "-" else Stdlib.String.concat ";" (List.map match_s l)
       | ["nbw"; v] -> names (lib_networks_by_wif (bytes_of_hex v))
       | ["prefix"; net; priv; wt; ms] ->
           (match find_network (coq_of_str net) with
            | None -> "ERR network"
            | Some n ->
                (match lib_network_wif_prefix n (tf priv) (coq_of_str wt) (tf ms) with
                 | Ok b -> hex_of_bytes b
                 | Err e -> err_s e))
       | ["key"; k; hint; comp; ip] ->
           key_res (lib_key_import fold wifcheck oc (key_of_tok k) (oname hint) (tf comp) (otf ip))
       | ["hdkey"; k; hint; wt; ms; comp] ->
           hd_res (lib_hdkey_import fold wifcheck oc (key_of_tok k) (oname hint) (oname wt) (tf ms) (tf comp))
       | ["fromwif"; s; hint; ms; comp] ->
           hd_res (lib_hdkey_from_wif fold wifcheck oc (bytes_of_hex s) (oname hint) (otf ms) (tf comp))
       | "seq" :: mode :: rest when List.length rest >= 12 ->
           let hd = mode.[0] = 'H' in
           let km = km_of (take 12 rest) in
           if not (network_defined km.km_network) then "BUILD ERR network"
           else if not (km_constructible oc km) then "BUILD ERR key"
           else begin
             let ops = List.map sop_of (drop 12 rest) in
             let calls = List.map fst ops in
             let s0 = ss_init km in
             let answers = session pubser oc s0 calls in
             let befores = session_states s0 calls in
             let afters = (match befores with [] -> [] | _ :: r -> r) @ [session_final s0 calls] in
             let reimport (after : sstate) text mode xkey =
               if mode = "x" then "-"
               else begin
                 let hint = if mode = "h" then Some after.ss_km.km_network else None in
                 if hd || xkey then hd_res (lib_hdkey_import fold wifcheck oc (KStr text) hint None false true)
                 else key_res (lib_key_import fold wifcheck oc (KStr text) hint true None)
               end in
             let one ((call, imode), (ans, after)) =
               let body =
                 match ans with
                 | AText (Err e) -> err_s e
                 | AText (Ok w) ->
                     let xkey = (match call with SXkey _ -> true | _ -> false) in
                     Printf.sprintf "X=%s | %s | %s" (text_of_bytes w) (gkf (KStr w) None) (reimport after w imode xkey)
                 | ARaw v ->
                     let ki, shown =
                       (match v with
                        | RBytes b -> (Some (KBytes b), "b:" ^ hex_of_bytes b)
                        | RText t -> (Some (KStr t), "s:" ^ hex_of_bytes t)
                        | RInt z -> (Some (KInt z), "i:" ^ str_z z)
                        | RNone -> (None, "None")) in
                     let r =
                       (match ki with
                        | None -> "-"
                        | Some _ when imode = "x" -> "-"
                        | Some k -> key_res (lib_key_import fold wifcheck oc k (Some after.ss_km.km_network)
                                               after.ss_compressed None)) in
                     Printf.sprintf "R=%s | %s" shown r
                 | ADone (Ok _) -> "OK"
                 | ADone (Err e) -> err_s e
                 | AComp c -> "A comp=" ^ b01 c
                 | AUnmodelled -> "OPAQUE" in
               body ^ " # " ^ fields_s hd after in
             Stdlib.String.concat " || " (List.map one (List.combine ops (List.combine answers afters)))
           end
       | "rtwif" :: rest when List.length rest >= 14 ->
           (* rtwif <12 keymeta tokens> <via> <import args…> *)
           let km = km_of (take 12 rest) in
           (match lib_wif oc km with
            | Err e -> "EXPORT " ^ err_s e
            | Ok w ->
                (match drop 12 rest with
                 | via :: args ->
                     Printf.sprintf "X=%s | %s | %s" (text_of_bytes w) (gkf (KStr w) None) (import via w args)
                 | [] -> "BADREQ"))
       | "rtx" :: which :: rest when List.length rest >= 14 ->
           let km = km_of (take 12 rest) in
           let want_private = (which = "prv") in
           (match lib_xkey pubser oc km want_private with
            | Err e -> "EXPORT " ^ err_s e
            | Ok w ->
                (match drop 12 rest with
                 | via :: args ->
                     Printf.sprintf "X=%s | %s | %s" (text_of_bytes w) (gkf (KStr w) None) (import via w args)
                 | [] -> "BADREQ"))
       | _ -> "BADREQ")
  | _ -> "BADREQ"

let () = main dispatch
