(* c19_driver.ml — evaluates the extracted C19 models on request lines.

   ev <env> <libsigs> <coresigs> <cmds>
     env  = R:S:L:V    redeemscript (hex, "-" empty, "N" absent), sequence, locktime, version (decimal or "N")
     sigs = "_" or  sighex/pkhex=V|I  joined by ","   (pkhex may be "*"; pairs not listed make the oracle raise);
            one table for the library model (what Signature.parse_bytes + verify do), one for the Core model
     cmds = "-" or  oXX / dHEX joined by ","          (d- is the empty data item)
   answer:  <lib verdict> <lib stack bottom..top> | <core verdict> <core stack> <limits>
     a stack is "." when empty, otherwise items joined by "," ("-" is the empty item)

   Hash oracles are instantiated with the extracted Gallina SHA-256 / RIPEMD-160 / SHA-1. *)
module BZ = Z
open C19_model
module H = Common.Make (struct type byte = C19_model.byte let zb = C19_model.zb let bz = C19_model.bz end)
open H

let cmds_of_tok t =
  if t = "-" then []
  else List.map (fun s ->
      let body = String.sub s 1 (String.length s - 1) in
      match s.[0] with
      | 'o' -> COp (BZ.of_int (int_of_string ("0x" ^ body)))
      | 'd' -> CPush (bytes_of_hex body)
      | _ -> failwith "cmd") (String.split_on_char ',' t)

let optz s = if s = "N" then None else Some (z_of s)

let env_of_tok t =
  match String.split_on_char ':' t with
  | [r; s; l; v] ->
      { e_redeem = (if r = "N" then None else Some (bytes_of_hex r));
        e_sequence = optz s; e_locktime = optz l; e_version = optz v }
  | _ -> failwith "env"

let oracle_of_tok_raw t =
  let tbl = Hashtbl.create 16 in
  if t <> "_" then
    List.iter (fun ent ->
        match String.split_on_char '=' ent with
        | [k; v] -> Hashtbl.replace tbl k (if v = "V" then SigValid else SigInvalid)
        | _ -> failwith "sig") (String.split_on_char ',' t);
  fun sg pk ->
    match Hashtbl.find_opt tbl (hex_of_bytes sg ^ "/" ^ hex_of_bytes pk) with
    | Some r -> r
    | None -> (match Hashtbl.find_opt tbl (hex_of_bytes sg ^ "/*") with Some r -> r | None -> SigRaise)

let oracle_tbl = Hashtbl.create 4
let oracle_of_tok t =
  match Hashtbl.find_opt oracle_tbl t with
  | Some o -> o
  | None -> let o = oracle_of_tok_raw t in Hashtbl.add oracle_tbl t o; o

let stack_tok (s : bytes list) =
  (* model stacks are top first; print bottom .. top like the Python list *)
  if s = [] then "." else String.concat "," (List.rev_map hex_of_bytes s)

let verdict_tok = function
  | Valid -> "VALID"
  | Invalid -> "INVALID"
  | Unimplemented -> "UNIMPL"
  | CrashIndex -> "CRASH:IndexError"
  | CrashKey -> "CRASH:KeyError"
  | Unmodelled -> "UNMODELLED"

let memo f =
  let t = Hashtbl.create 64 in
  fun x -> match Hashtbl.find_opt t x with Some y -> y | None -> let y = f x in Hashtbl.add t x y; y

let h_r = memo ripemd160
let h_1 = memo sha1
let h_2 = memo sha256

(* ---- sessions:  ses <libsigs> <coresigs> <step> ...
     sigs = "_" or  msghex/sighex/pkhex=V|I  joined by ","  (pkhex may be "*"); an evaluation without message, or a
            triple that is not listed, makes the oracle raise
     step = N/<id>/<cmds>/<msg|N>/<env|N>   constructor          E/<id>/<msg|N>/<env|N>   evaluate
   answer: per step "-" | "MISSING" | <verdict>:<stack>, joined by ";",  " | ",  the same for Core with ":<limits>" *)
let oracle3_of_tok t =
  let tbl = Hashtbl.create 16 in
  if t <> "_" then
    List.iter (fun ent ->
        match String.split_on_char '=' ent with
        | [k; v] -> Hashtbl.replace tbl k (if v = "V" then SigValid else SigInvalid)
        | _ -> failwith "sig3") (String.split_on_char ',' t);
  fun m sg pk ->
    match m with
    | None -> SigRaise
    | Some mb ->
        let pre = hex_of_bytes mb ^ "/" ^ hex_of_bytes sg ^ "/" in
        (match Hashtbl.find_opt tbl (pre ^ hex_of_bytes pk) with
         | Some r -> r
         | None -> (match Hashtbl.find_opt tbl (pre ^ "*") with Some r -> r | None -> SigRaise))

let optb s = if s = "N" then None else Some (bytes_of_hex s)
let opte s = if s = "N" then None else Some (env_of_tok s)

let step_of_tok t =
  match String.split_on_char '/' t with
  | ["N"; i; c; m; e] -> SNew (z_of i, cmds_of_tok c, optb m, opte e)
  | ["E"; i; m; e] -> SEval (z_of i, optb m, opte e)
  | _ -> failwith "step"

let dispatch = function
  | "ses" :: sg :: csg :: steps ->
      let o = oracle3_of_tok sg and co = oracle3_of_tok csg and xs = List.map step_of_tok steps in
      let lib = lib_session h_r h_1 h_2 o [] xs in
      let ltok = function
        | ONew -> "-" | OMissing -> "MISSING"
        | ORes r -> verdict_tok r.r_verdict ^ ":" ^ stack_tok r.r_stack in
      let ctok r =
        match r with
        | REval (cmds, m, e) ->
            (match core_obs h_r h_1 h_2 co consensus_flags (REval (cmds, m, env_u32_version e)) with
             | Some (cv, cs) ->
                 verdict_tok cv ^ ":" ^ stack_tok cs ^ ":" ^ (if core_limits_ok cmds then "L1" else "L0")
             | None -> "-")
        | RNew -> "-"
        | RMissing -> "MISSING" in
      String.concat ";" (List.map ltok lib) ^ " | " ^ String.concat ";" (List.map ctok (resolve [] xs))
  | ["ev"; e; sg; csg; c] ->
      let env = env_of_tok e and o = oracle_of_tok sg and co = oracle_of_tok csg and cmds = cmds_of_tok c in
      let l = lib_eval h_r h_1 h_2 o env cmds in
      let (cv, cs) = core_eval h_r h_1 h_2 co (env_u32_version env) consensus_flags cmds in
      verdict_tok l.r_verdict ^ " " ^ stack_tok l.r_stack ^ " | " ^ verdict_tok cv ^ " " ^ stack_tok cs
      ^ " " ^ (if core_limits_ok cmds then "L1" else "L0")
  | ["hash"; f; h] ->
      let b = bytes_of_hex h in
      hex_of_bytes (match f with "sha1" -> sha1 b | "sha256" -> sha256 b | "ripemd160" -> ripemd160 b | _ -> failwith "fn")
  | _ -> "BADREQ"

let () = main dispatch
