(* c10_driver.ml — evaluates the extracted C10 model (Model/Multisig.v) on request lines.

   cer K m sort given coin cpath wallets addrs inputs chains
     K        L | P | S                        (legacy p2sh, p2sh-p2wsh, p2wsh)
     given    "-" or the cosigner_id passed to Wallet.create
     wallets  per wallet (';'), the supplied keys in supplied order (','): who:priv:masterpubhex
     addrs    per address (';'), the derived child public key of every participant 0..n-1 (',')
     inputs   one digit per transaction input: which address it spends
     chains   per chain (';'), ops ('.'): cW create in wallet W | s sign | p send | oW dW rW hand off to W
              (cer2 only) kPR sign with the child key of participant P for address row R only
   answer:  W:<cid>/<order>;...  A:<redeem>/<hash>/<owners>/<path>,...;...  X:<obs,obs,...>;...

   cer2 K m sort given coin cpath wallets addrs chains spends opts
     given    "-" | one cosigner_id for all wallets | one entry per wallet (',')
     wallets  who:form:pubhex; forms M m R r are private keys, A a public ones
     addrs    per row (';'): change/address_index/childpub,childpub,...
     spends   per chain (';'): rows/rbf/locktime/fee/value+value/number_of_change_outputs/sel   (sel: e | a<min_confirms>)
     opts     k=v (';'): afs (one bit per wallet), bc, dust, conf, uv and vstep=R:O (an unspent output of address row r,
              ordinal o holds uv + R*r + O*o)
   answer as above, a state observation being <sigs>=<v>~<version>/<locktime>/<prev:seq:value:code|..>/<d0:v+..+cN:total>;
   the create op yields one too; a signature made over other fields than the present ones is shown as signer x *)
module BZ = Z
open C10_model
module H = Common.Make (struct type byte = C10_model.byte let zb = C10_model.zb let bz = C10_model.bz end)
open H

let rec nat_of_int n = if n <= 0 then O else S (nat_of_int (n - 1))
let zi z = BZ.to_string z
let split c s = if s = "-" || s = "" then [] else String.split_on_char c s
let join = String.concat

let kind_of = function "L" -> Legacy | "P" -> P2shSegwit | "S" -> Segwit | _ -> failwith "kind"

let parse_wallet s =
  List.map (fun e -> match String.split_on_char ':' e with
      | [who; pr; hex] -> { co_master = bytes_of_hex hex; co_private = (pr = "1"); co_who = z_of who }
      | _ -> failwith "wallet entry") (split ',' s)

let path_s p = join "/" (List.map (function Hard i -> zi i ^ "'" | Soft i -> zi i) p)
let whos l = if l = [] then "-" else join "." (List.map zi l)

let sig_s s = zi s.sg_by ^ ":" ^ (match s.sg_tag with Some t -> zi t | None -> "-")
let sigs_s l = if l = [] then "_" else join "+" (List.map sig_s l)
let obs_s = function
  | ObState (v, ins) -> join "|" (List.map sigs_s ins) ^ "=" ^ bool_s v
  | ObPushed b -> "P" ^ bool_s b
  | ObRaise -> "EXC"

let dispatch = function
  | ["cer"; k; m; sort; given; coin; cpath; wallets; addrs; inputs; chains] ->
    let k = kind_of k and mz = z_of m and sort = (sort = "1") in
    let given = if given = "-" then None else Some (z_of given) in
    let ws = List.map parse_wallet (split ';' wallets) in
    let ads = List.map (fun a -> List.map bytes_of_hex (split ',' a)) (split ';' addrs) in
    let with_child w a = List.map (fun c -> (c, List.nth a (BZ.to_int c.co_who))) w in
    let wpart = join ";" (List.map (fun w ->
        (match lib_cosigner_id w sort given with Some c -> zi c | None -> "ERR") ^ "/" ^
        whos (List.map (fun c -> c.co_who) (lib_cosigner_order w sort))) ws) in
    let apart = join ";" (List.map (fun w ->
        join "," (List.mapi (fun idx a ->
            let ks = with_child w a in
            let rs = lib_wallet_redeemscript ks mz sort in
            let h = match rs with Some r -> lib_script_hash hash160 sha256 k r | None -> None in
            opt hex_of_bytes rs ^ "/" ^ opt hex_of_bytes h ^ "/" ^ whos (lib_script_owners ks sort) ^ "/" ^
            path_s (lib_key_path k (z_of coin) BZ.zero (z_of cpath) BZ.zero (BZ.of_int idx))) ads)) ws) in
    let run_chain c =
      let ops = split '.' c in
      match ops with
      | [] -> "-"
      | first :: rest ->
        let w0 = int_of_string (String.sub first 1 (String.length first - 1)) in
        let w = List.nth ws w0 in
        let keyss = List.map (fun ch -> lib_script_owners (with_child w (List.nth ads (Char.code ch - 48))) sort)
            (List.init (String.length inputs) (String.get inputs)) in
        (* the wallet in which the following ops happen holds the private key of participant = wallet index *)
        let cur = ref w0 in
        let mops = List.map (fun o ->
            match o.[0] with
            | 's' -> MSign (let wl = List.nth ws !cur in
                            match List.filter (fun c -> c.co_private) wl with
                            | [c] -> Some c.co_who | _ -> None)
            | 'p' -> MSend
            | 'o' | 'd' | 'r' ->
              cur := int_of_string (String.sub o 1 (String.length o - 1));
              MHand (match o.[0] with 'o' -> HObject | 'd' -> HDict | _ -> HRaw)
            | _ -> failwith "op") rest in
        let obs = ms_run (nat_of_int (BZ.to_int mz)) (ms_init keyss) mops in
        join "," (List.map obs_s obs) in
    let xpart = join ";" (List.map run_chain (split ';' chains)) in
    "W:" ^ wpart ^ " A:" ^ apart ^ " X:" ^ (if xpart = "" then "-" else xpart)

  | ["cer2"; k; m; sort; given; coin; cpath; wallets; addrs; chains; spends; opts] ->
    let k = kind_of k and mz = z_of m and sort = (sort = "1") in
    let wtxt = split ';' wallets in
    let nw = List.length wtxt in
    let givens =
      if given = "-" then List.init nw (fun _ -> None)
      else if String.contains given ',' then List.map (fun g -> if g = "-" then None else Some (z_of g)) (split ',' given)
      else List.init nw (fun _ -> Some (z_of given)) in
    let parse_wallet2 s =
      List.map (fun e -> match String.split_on_char ':' e with
          | [who; form; hex] -> { co_master = bytes_of_hex hex; co_private = String.contains "MmRr" form.[0]; co_who = z_of who }
          | _ -> failwith "wallet entry") (split ',' s) in
    let ws = List.map parse_wallet2 wtxt in
    let rows = List.map (fun a -> match String.split_on_char '/' a with
        | [c; idx; pubs] -> (z_of c, z_of idx, List.map bytes_of_hex (split ',' pubs))
        | _ -> failwith "row") (split ';' addrs) in
    let opt_tbl = List.map (fun e -> match String.index_opt e '=' with
        | Some i -> (String.sub e 0 i, String.sub e (i + 1) (String.length e - i - 1))
        | None -> (e, "")) (split ';' opts) in
    let optv key d = try List.assoc key opt_tbl with Not_found -> d in
    let afs_s = optv "afs" (String.make nw '1') in
    let afs_of w = w < String.length afs_s && afs_s.[w] = '1' in
    let bc = z_of (optv "bc" "1") in
    let env = { ev_blockcount = bc; ev_dust = z_of (optv "dust" "1000"); ev_confirms = z_of (optv "conf" "10") } in
    let uv = z_of (optv "uv" "100000000") in
    let (vr, vo) = match String.split_on_char ':' (optv "vstep" "0:0") with
      | [a; b] -> (z_of a, z_of b) | _ -> (BZ.zero, BZ.zero) in
    let with_child w a = List.map (fun c -> (c, List.nth a (BZ.to_int c.co_who))) w in
    let wpart = join ";" (List.map2 (fun w g ->
        (match lib_cosigner_id w sort g with Some c -> zi c | None -> "ERR") ^ "/" ^
        whos (List.map (fun c -> c.co_who) (lib_cosigner_order w sort))) ws givens) in
    let apart = join ";" (List.map (fun w ->
        join "," (List.map (fun (c, idx, a) ->
            let ks = with_child w a in
            let rs = lib_wallet_redeemscript ks mz sort in
            let h = match rs with Some r -> lib_script_hash hash160 sha256 k r | None -> None in
            opt hex_of_bytes rs ^ "/" ^ opt hex_of_bytes h ^ "/" ^ whos (lib_script_owners ks sort) ^ "/" ^
            path_s (lib_key_path k (z_of coin) BZ.zero (z_of cpath) c idx)) rows)) ws) in
    let fields_s f =
      let ins = join "|" (List.map (fun i -> zi i.ti_prev ^ ":" ^ zi i.ti_seq ^ ":" ^ zi i.ti_value ^ ":" ^ zi i.ti_code) f.tf_ins) in
      let req = List.filter (fun o -> BZ.sign o.to_dest >= 0) f.tf_outs in
      let cho = List.filter (fun o -> BZ.sign o.to_dest < 0) f.tf_outs in
      let outs = List.map (fun o -> "d" ^ zi o.to_dest ^ ":" ^ zi o.to_value) req @
                 (if cho = [] then [] else
                    ["c" ^ string_of_int (List.length cho) ^ ":" ^
                     zi (List.fold_left (fun a o -> BZ.add a o.to_value) BZ.zero cho)]) in
      zi f.tf_version ^ "/" ^ zi f.tf_locktime ^ "/" ^ ins ^ "/" ^ join "+" outs in
    let rec int_of_nat = function O -> 0 | S n -> 1 + int_of_nat n in
    let sig2_s e s =
      let q = BZ.to_int (BZ.fdiv s.sg_by (BZ.of_int 16)) and r = BZ.erem s.sg_by (BZ.of_int 16) in
      (if q = e then zi r else "x") ^ ":" ^ (match s.sg_tag with Some t -> zi t | None -> "-") in
    let sigs2_s e l = if l = [] then "_" else join "+" (List.map (sig2_s e) l) in
    let sptxt = split ';' spends in
    let run_chain ci c =
      let ops = split '.' c in
      match ops, String.split_on_char '/' (List.nth sptxt ci) with
      | first :: rest, [srows; rbf; lock; fee; vals; nch; sel] ->
        let w0 = int_of_string (String.sub first 1 (String.length first - 1)) in
        let w = List.nth ws w0 in
        let rowl = List.init (String.length srows) (fun i -> Char.code srows.[i] - 48) in
        let used = Hashtbl.create 4 in
        let ins = List.map (fun r ->
            let n = try Hashtbl.find used r with Not_found -> 0 in
            Hashtbl.replace used r (n + 1);
            ((BZ.of_int (2 * r + n), BZ.add uv (BZ.add (BZ.mul vr (BZ.of_int r)) (BZ.mul vo (BZ.of_int n)))), BZ.of_int r)) rowl in
        let sp = { sp_rbf = (rbf = "1"); sp_locktime = z_of lock; sp_fee = z_of fee;
                   sp_outs = List.map z_of (split '+' vals); sp_nchange = nat_of_int (int_of_string nch);
                   sp_ins = ins;
                   sp_minconf = (if sel = "e" then None else Some (z_of (String.sub sel 1 (String.length sel - 1)))) } in
        (match lib_create_fields env (afs_of w0) sp with
         | None -> "EXC"
         | Some f ->
           let keyss = List.map (fun r -> let (_, _, a) = List.nth rows r in lib_script_owners (with_child w a) sort) rowl in
           let cur = ref w0 in
           let cops = List.map (fun o ->
               match o.[0] with
               | 's' -> CSign (let wl = List.nth ws !cur in
                               match List.filter (fun c -> c.co_private) wl with
                               | [c] -> Some c.co_who | _ -> None)
               | 'p' -> CSend
               | 'k' ->       (* k<participant><row>: sign(keys=[that child key]); it is a key of the inputs of that row *)
                 let r = Char.code o.[2] - 48 in
                 CSignKey (BZ.of_int (Char.code o.[1] - 48), List.map (fun x -> x = r) rowl)
               | 'o' | 'd' | 'r' ->
                 cur := int_of_string (String.sub o 1 (String.length o - 1));
                 CHand ((match o.[0] with 'o' -> HObject | 'd' -> HDict | _ -> HRaw), afs_of !cur)
               | _ -> failwith "op") rest in
           let obs = cs_run (nat_of_int (BZ.to_int mz)) bc (cs_init f keyss) cops in
           let first_ob = join "|" (List.map (fun _ -> "_") keyss) ^ "=0~" ^ fields_s f in
           join "," (first_ob :: List.map (fun ((ob, fl), e) ->
               match ob with
               | ObState (v, insg) -> join "|" (List.map (sigs2_s (int_of_nat e)) insg) ^ "=" ^ bool_s v ^ "~" ^ fields_s fl
               | ObPushed b -> "P" ^ bool_s b
               | ObRaise -> "EXC") obs))
      | _ -> "-" in
    let xpart = join ";" (List.mapi run_chain (split ';' chains)) in
    "W:" ^ wpart ^ " A:" ^ apart ^ " X:" ^ (if xpart = "" then "-" else xpart)
  | ["redeem"; m; sort; keys] ->
    opt hex_of_bytes (lib_redeemscript (List.map bytes_of_hex (split ',' keys)) (z_of m) (sort = "1"))
  | ["spec_script"; m; keys] ->
    hex_of_bytes (spec_multisig_script (z_of m) (ms_sort (fun k -> k) (List.map bytes_of_hex (split ',' keys))))
  | ["leb"; a; b] -> bool_s (bytes_leb (bytes_of_hex a) (bytes_of_hex b))
  | _ -> "BADREQ"

let () = main dispatch
