(* c10_driver.ml — evaluates the extracted C10 model (Model/Multisig.v) on request lines.

   cer K m sort given coin cpath wallets addrs inputs chains
     K        L | P | S                        (legacy p2sh, p2sh-p2wsh, p2wsh)
     given    "-" or the cosigner_id passed to Wallet.create
     wallets  per wallet (';'), the supplied keys in supplied order (','): who:priv:masterpubhex
     addrs    per address (';'), the derived child public key of every participant 0..n-1 (',')
     inputs   one digit per transaction input: which address it spends
     chains   per chain (';'), ops ('.'): cW create in wallet W | s sign | p send | oW dW rW hand off to W
   answer:  W:<cid>/<order>;...  A:<redeem>/<hash>/<owners>/<path>,...;...  X:<obs,obs,...>;...  *)
module BZ = Z
open C10_model
module H = Common.Make (struct type byte = C10_model.byte let zb = C10_model.zb let bz = C10_model.bz end)
open H

let rec nat_of_int n = if n <= 0 then O else S (nat_of_int (n - 1))
let zi z = BZ.to_string z
let split c s = if s = "-" || s = "" then [] else String.split_on_char c s
let join = String.concat

let kind_of = function "L" -> Legacy | "P" -> P2shSegwit | "S" -> Segwit | _ -> failwith "kind"

let parse_wallet s =
  List.map (fun e -> match String.split_on_char ':' e with
      | [who; pr; hex] -> { co_master = bytes_of_hex hex; co_private = (pr = "1"); co_who = z_of who }
      | _ -> failwith "wallet entry") (split ',' s)

let path_s p = join "/" (List.map (function Hard i -> zi i ^ "'" | Soft i -> zi i) p)
let whos l = if l = [] then "-" else join "." (List.map zi l)

let sig_s s = zi s.sg_by ^ ":" ^ (match s.sg_tag with Some t -> zi t | None -> "-")
let sigs_s l = if l = [] then "_" else join "+" (List.map sig_s l)
let obs_s = function
  | ObState (v, ins) -> join "|" (List.map sigs_s ins) ^ "=" ^ bool_s v
  | ObPushed b -> "P" ^ bool_s b
  | ObRaise -> "EXC"

let dispatch = function
  | ["cer"; k; m; sort; given; coin; cpath; wallets; addrs; inputs; chains] ->
    let k = kind_of k and mz = z_of m and sort = (sort = "1") in
    let given = if given = "-" then None else Some (z_of given) in
    let ws = List.map parse_wallet (split ';' wallets) in
    let ads = List.map (fun a -> List.map bytes_of_hex (split ',' a)) (split ';' addrs) in
    let with_child w a = List.map (fun c -> (c, List.nth a (BZ.to_int c.co_who))) w in
    let wpart = join ";" (List.map (fun w ->
        (match lib_cosigner_id w sort given with Some c -> zi c | None -> "ERR") ^ "/" ^
        whos (List.map (fun c -> c.co_who) (lib_cosigner_order w sort))) ws) in
    let apart = join ";" (List.map (fun w ->
        join "," (List.mapi (fun idx a ->
            let ks = with_child w a in
            let rs = lib_wallet_redeemscript ks mz sort in
            let h = match rs with Some r -> lib_script_hash hash160 sha256 k r | None -> None in
            opt hex_of_bytes rs ^ "/" ^ opt hex_of_bytes h ^ "/" ^ whos (lib_script_owners ks sort) ^ "/" ^
            path_s (lib_key_path k (z_of coin) BZ.zero (z_of cpath) BZ.zero (BZ.of_int idx))) ads)) ws) in
    let run_chain c =
      let ops = split '.' c in
      match ops with
      | [] -> "-"
      | first :: rest ->
        let w0 = int_of_string (String.sub first 1 (String.length first - 1)) in
        let w = List.nth ws w0 in
        let keyss = List.map (fun ch -> lib_script_owners (with_child w (List.nth ads (Char.code ch - 48))) sort)
            (List.init (String.length inputs) (String.get inputs)) in
        (* the wallet in which the following ops happen holds the private key of participant = wallet index *)
        let cur = ref w0 in
        let mops = List.map (fun o ->
            match o.[0] with
            | 's' -> MSign (let wl = List.nth ws !cur in
                            match List.filter (fun c -> c.co_private) wl with
                            | [c] -> Some c.co_who | _ -> None)
            | 'p' -> MSend
            | 'o' | 'd' | 'r' ->
              cur := int_of_string (String.sub o 1 (String.length o - 1));
              MHand (match o.[0] with 'o' -> HObject | 'd' -> HDict | _ -> HRaw)
            | _ -> failwith "op") rest in
        let obs = ms_run (nat_of_int (BZ.to_int mz)) (ms_init keyss) mops in
        join "," (List.map obs_s obs) in
    let xpart = join ";" (List.map run_chain (split ';' chains)) in
    "W:" ^ wpart ^ " A:" ^ apart ^ " X:" ^ (if xpart = "" then "-" else xpart)
  | ["redeem"; m; sort; keys] ->
    opt hex_of_bytes (lib_redeemscript (List.map bytes_of_hex (split ',' keys)) (z_of m) (sort = "1"))
  | ["spec_script"; m; keys] ->
    hex_of_bytes (spec_multisig_script (z_of m) (ms_sort (fun k -> k) (List.map bytes_of_hex (split ',' keys))))
  | ["leb"; a; b] -> bool_s (bytes_leb (bytes_of_hex a) (bytes_of_hex b))
  | _ -> "BADREQ"

let () = main dispatch
