(* Float/B64.v — Python float operations on primitive binary64 floats (definitions only).
   Strings are lists of Unicode code points (Z), as Python's str. *)
From Coq Require Import ZArith List Bool String Ascii.
From Coq Require Import Floats.PrimFloat Floats.SpecFloat Floats.FloatOps Numbers.Cyclic.Int63.Uint63.
From Verif Require Import Float.DecRound.
Import ListNotations.
Open Scope Z_scope.

Definition str := list Z.

Fixpoint str_eqb (a b : str) : bool :=
  match a, b with
  | [], [] => true
  | x :: a', y :: b' => (x =? y) && str_eqb a' b'
  | _, _ => false
  end.

(* s is a prefix of l *)
Fixpoint prefix_eqb (s l : str) : bool :=
  match s, l with
  | [], _ => true
  | x :: s', y :: l' => (x =? y) && prefix_eqb s' l'
  | _ :: _, [] => false
  end.

Fixpoint contains (s l : str) : bool :=
  prefix_eqb s l || match l with [] => false | _ :: l' => contains s l' end.

(* ---- Coq string literals of the generated tables -> code points (Python unicode_escape undone) ---- *)
Fixpoint raw_of_string (s : string) : list Z :=
  match s with
  | EmptyString => []
  | String a r => Z.of_N (N_of_ascii a) :: raw_of_string r
  end.

Definition hexval (c : Z) : option Z :=
  if (48 <=? c) && (c <=? 57) then Some (c - 48)
  else if (97 <=? c) && (c <=? 102) then Some (c - 87)
  else if (65 <=? c) && (c <=? 70) then Some (c - 55)
  else None.

Fixpoint take_hex (k : nat) (l : list Z) (acc : Z) : option (Z * list Z) :=
  match k with
  | O => Some (acc, l)
  | S k' => match l with
            | c :: r => match hexval c with Some d => take_hex k' r (acc * 16 + d) | None => None end
            | [] => None
            end
  end.

Fixpoint unescape (fuel : nat) (l : list Z) : list Z :=
  match fuel with
  | O => l
  | S f =>
    match l with
    | [] => []
    | 92 :: c :: r =>
        if c =? 92 then 92 :: unescape f r
        else if c =? 110 then 10 :: unescape f r
        else if c =? 116 then 9 :: unescape f r
        else if c =? 114 then 13 :: unescape f r
        else
          let k := if c =? 120 then 2%nat else if c =? 117 then 4%nat else if c =? 85 then 8%nat else 0%nat in
          match k with
          | O => 92 :: unescape f (c :: r)
          | _ => match take_hex k r 0 with
                 | Some (v, r') => v :: unescape f r'
                 | None => 92 :: unescape f (c :: r)
                 end
          end
    | c :: r => c :: unescape f r
    end
  end.

Definition cps (s : string) : str := let l := raw_of_string s in unescape (List.length l) l.

(* ---- conversions ---- *)
Definition b64_of_dec (neg : bool) (m e10 : Z) : float := SF2Prim (dec_to_sf neg m e10).

(* float(int): correctly rounded, OverflowError (None) when the result is not finite *)
Definition b64_of_Z (n : Z) : option float :=
  match ratio_to_sf (n <? 0) (Z.abs n) 1 with
  | S754_infinity _ => None
  | S754_nan => None
  | sf => Some (SF2Prim sf)
  end.

(* round(x) -> int; None = OverflowError / ValueError on inf / nan *)
Definition b64_round (x : float) : option Z := sf_to_Z_rne (Prim2SF x).

(* round(x, nd), nd >= 0 *)
Definition b64_round_nd (x : float) (nd : Z) : float :=
  if 323 <? nd then x
  else match sf_scaled_rne (Prim2SF x) nd with
       | Some (s, N) => SF2Prim (dec_to_sf s N (- nd))
       | None => x
       end.

(* '%.<nd>f' % x *)
Definition b64_fmt (x : float) (nd : Z) : str :=
  match Prim2SF x with
  | S754_nan => [110; 97; 110]
  | S754_infinity s => (if s then [45] else []) ++ [105; 110; 102]
  | sf => match sf_scaled_rne sf nd with
          | Some (s, N) => fmt_fixed s N nd
          | None => []
          end
  end.

Definition b64_is_integer (x : float) : bool := sf_is_integer (Prim2SF x).
Definition b64_trunc (x : float) : option Z := sf_trunc (Prim2SF x).

(* ---- float.hex() strings of the generated tables -> float ---- *)
Fixpoint take_hexdigits (l : str) (acc cnt : Z) : Z * Z * str :=
  match l with
  | c :: r => match hexval c with
              | Some d => take_hexdigits r (acc * 16 + d) (cnt + 1)
              | None => (acc, cnt, l)
              end
  | [] => (acc, cnt, [])
  end.

Definition is_digit (c : Z) : bool := (48 <=? c) && (c <=? 57).

Fixpoint take_digits (l : str) (acc cnt : Z) : Z * Z * str :=
  match l with
  | c :: r => if is_digit c then take_digits r (acc * 10 + (c - 48)) (cnt + 1) else (acc, cnt, l)
  | [] => (acc, cnt, [])
  end.

Definition take_sign (l : str) : bool * str :=
  match l with
  | c :: r => if c =? 43 then (false, r) else if c =? 45 then (true, r) else (false, l)
  | [] => (false, [])
  end.

Definition sf_of_hex (l : str) : option spec_float :=
  let '(neg, l0) := take_sign l in
  if str_eqb l0 [105; 110; 102] then Some (S754_infinity neg)
  else if str_eqb l0 [110; 97; 110] then Some S754_nan
  else match l0 with
  | 48 :: 120 :: l1 =>
      let '(m1, c1, l2) := take_hexdigits l1 0 0 in
      let '(m2, c2, l3) := match l2 with 46 :: r => take_hexdigits r m1 0 | _ => (m1, 0, l2) end in
      if c1 + c2 =? 0 then None else
      match l3 with
      | 112 :: l4 =>
          let '(eneg, l5) := take_sign l4 in
          let '(ev, ec, l6) := take_digits l5 0 0 in
          match l6 with
          | [] => if ec =? 0 then None
                  else let e := (if eneg then - ev else ev) - 4 * c2 in
                       Some (binary_normalize b64_prec b64_emax (if neg then - m2 else m2) e neg)
          | _ => None
          end
      | _ => None
      end
  | _ => None
  end.

Definition b64_of_hex (s : string) : option float :=
  match sf_of_hex (cps s) with Some sf => Some (SF2Prim sf) | None => None end.

(* ---- float("<token>") for the decimal grammar  [sign] digits [. digits] [e [sign] digits]  | inf | nan ---- *)
Definition lower (c : Z) : Z := if (65 <=? c) && (c <=? 90) then c + 32 else c.

Definition parse_decimal (l : str) : option (bool * Z * Z) :=
  let '(neg, l1) := take_sign l in
  let '(m1, c1, l2) := take_digits l1 0 0 in
  let '(m2, c2, l3) := match l2 with 46 :: r => take_digits r m1 0 | _ => (m1, 0, l2) end in
  if c1 + c2 =? 0 then None else
  match l3 with
  | [] => Some (neg, m2, - c2)
  | c :: r =>
      if (c =? 101) || (c =? 69) then
        let '(eneg, r1) := take_sign r in
        let '(ev, ec, r2) := take_digits r1 0 0 in
        match r2 with
        | [] => if ec =? 0 then None else Some (neg, m2, (if eneg then - ev else ev) - c2)
        | _ => None
        end
      else None
  end.

Definition py_float (tok : str) : option float :=
  match parse_decimal tok with
  | Some (neg, m, e) => Some (b64_of_dec neg m e)
  | None =>
      let '(neg, r) := take_sign tok in
      let lr := map lower r in
      if str_eqb lr [105; 110; 102] || str_eqb lr [105; 110; 102; 105; 110; 105; 116; 121]
      then Some (if neg then neg_infinity else infinity)
      else if str_eqb lr [110; 97; 110] then Some nan
      else None
  end.

(* int("<token>") for  [sign] digits *)
Definition py_int (tok : str) : option Z :=
  let '(neg, l1) := take_sign tok in
  let '(m, c, l2) := take_digits l1 0 0 in
  match l2 with
  | [] => if c =? 0 then None else Some (if neg then - m else m)
  | _ => None
  end.
