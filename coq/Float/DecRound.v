(* Float/DecRound.v — the decimal <-> binary64 conversions Python performs, as exact integer algorithms
   (definitions only; proofs in Proofs/AmountDecRound.v).

   float("<decimal>")      = the binary64 nearest (ties to even) to  m * 10^e          -> [dec_to_sf]
   float(int)              = the binary64 nearest to the integer                     -> [ratio_to_sf _ |n| 1]
   round(x)                = nearest integer, ties to even, of the exact binary value -> [sf_to_Z_rne]
   round(x, nd), '%.*f'%x  = the exact binary value scaled by 10^nd, rounded half-even -> [sf_scaled_rne]
   All arithmetic is on Z; the quotient/remainder bracketing is Flocq's [Fdiv] and the final rounding is the
   standard library's [SpecFloat.binary_round_aux] (the function that specifies the primitive operations). *)
From Coq Require Import ZArith List Bool.
From Coq Require Import Floats.SpecFloat.
From Flocq Require Import Core.Zaux Core.Defs Core.FLT Calc.Bracket Calc.Div.
Import ListNotations.
Open Scope Z_scope.

Definition b64_prec : Z := 53.
Definition b64_emax : Z := 1024.
Definition b64_emin : Z := -1074.
Definition b64_fexp : Z -> Z := FLT_exp b64_emin b64_prec.

(* nearest integer to p/q (q > 0), ties to even; p may be negative (floor division) *)
Definition rne_div (p q : Z) : Z :=
  let f := p / q in
  let r := p mod q in
  match 2 * r ?= q with
  | Lt => f
  | Gt => f + 1
  | Eq => if Z.even f then f else f + 1
  end.

(* the binary64 nearest to p/q (p >= 0, q > 0), with sign [neg]; overflow gives infinity *)
Definition ratio_to_sf (neg : bool) (p q : Z) : spec_float :=
  if p <=? 0 then S754_zero neg
  else
    let '(m, e, l) := @Fdiv radix2 b64_fexp (Float radix2 p 0) (Float radix2 q 0) in
    binary_round_aux b64_prec b64_emax neg m e l.

(* the binary64 nearest to m * 10^e10 (m >= 0).  The two cut-offs only avoid astronomically large powers:
   above 10^310 every positive value overflows, below 10^-330 every value rounds to zero. *)
Definition dec_to_sf (neg : bool) (m e10 : Z) : spec_float :=
  if m <=? 0 then S754_zero neg
  else if 310 <? e10 then S754_infinity neg
  else if e10 + (Z.log2 m + 1) <? -330 then S754_zero neg
  else if 0 <=? e10 then ratio_to_sf neg (m * 10 ^ e10) 1
  else ratio_to_sf neg m (10 ^ (- e10)).

(* round(x): exact value of a finite float to the nearest integer, ties to even *)
Definition sf_to_Z_rne (x : spec_float) : option Z :=
  match x with
  | S754_zero _ => Some 0
  | S754_finite s m e =>
      let sm := if s then Zneg m else Zpos m in
      Some (if 0 <=? e then sm * 2 ^ e else rne_div sm (2 ^ (- e)))
  | _ => None
  end.

(* |x| * 10^nd rounded half-even to an integer, with the sign bit of x (nd >= 0) *)
Definition sf_scaled_rne (x : spec_float) (nd : Z) : option (bool * Z) :=
  match x with
  | S754_zero s => Some (s, 0)
  | S754_finite s m e =>
      Some (s, if 0 <=? e then Zpos m * 2 ^ e * 10 ^ nd else rne_div (Zpos m * 10 ^ nd) (2 ^ (- e)))
  | _ => None
  end.

(* is the exact value an integer?  and its truncation (int(x)) *)
Definition sf_is_integer (x : spec_float) : bool :=
  match x with
  | S754_zero _ => true
  | S754_finite _ m e => (0 <=? e) || (Zpos m mod 2 ^ (- e) =? 0)
  | _ => false
  end.

Definition sf_trunc (x : spec_float) : option Z :=
  match x with
  | S754_zero _ => Some 0
  | S754_finite s m e =>
      let a := if 0 <=? e then Zpos m * 2 ^ e else Zpos m / 2 ^ (- e) in
      Some (if s then - a else a)
  | _ => None
  end.

(* ---- decimal digits (code points 48..57) ---- *)
Fixpoint digits_acc (w : nat) (v : Z) (acc : list Z) : list Z :=
  match w with
  | O => acc
  | S w' => digits_acc w' (v / 10) ((48 + v mod 10) :: acc)
  end.

(* exactly w digits of v, most significant first (v < 10^w) *)
Definition digits_w (w : nat) (v : Z) : list Z := digits_acc w v [].

(* number of decimal digits of v >= 0 (at least one); fuel log2 v suffices *)
Fixpoint ndig (fuel : nat) (v : Z) : nat :=
  match fuel with
  | O => 1%nat
  | S f => if v <? 10 then 1%nat else S (ndig f (v / 10))
  end.

(* decimal numeral of v >= 0 without leading zeros ("0" for zero) *)
Definition dec_digits (v : Z) : list Z :=
  digits_w (ndig (Z.to_nat (Z.log2 v)) v) v.

(* '%.<nd>f' of the scaled integer N = |x| * 10^nd *)
Definition fmt_fixed (neg : bool) (N nd : Z) : list Z :=
  (if neg then [45] else []) ++ dec_digits (N / 10 ^ nd) ++
  (if nd <=? 0 then [] else 46 :: digits_w (Z.to_nat nd) (N mod 10 ^ nd)).
