(* Lib/Py.v — the Python primitives that translated functions (coq/Gen/GenFuncs.v) are written in.
   Partial operations return option (None = the exception the Python operation raises). *)
From Coq Require Import ZArith List Bool Lia.
From Coq.Strings Require Import Byte.
From Verif Require Import Lib.Bytes.
Import ListNotations.
Open Scope Z_scope.

Notation "x <- e ;; f" := (match e with Some x => f | None => None end)
  (at level 61, e at next level, right associativity).

(* int.to_bytes(length, byteorder): OverflowError when negative or too big *)
Definition py_to_bytes (len : Z) (little : bool) (x : Z) : option bytes :=
  if (x <? 0) || (256 ^ len <=? x) || (len <? 0) then None
  else Some (if little then le_bytes (Z.to_nat len) x else be_bytes (Z.to_nat len) x).

Definition py_from_bytes (little : bool) (b : bytes) : Z := if little then of_le b else of_be b.

Definition py_len (b : bytes) : Z := Z.of_nat (length b).

(* normalise a slice bound: None -> default; negative counts from the end; clamp to [0, len] *)
Definition py_bound (len : Z) (dflt : Z) (i : option Z) : Z :=
  match i with
  | None => dflt
  | Some v => let v' := if v <? 0 then len + v else v in Z.max 0 (Z.min len v')
  end.

(* b[lo:hi] *)
Definition py_slice (b : bytes) (lo hi : option Z) : bytes :=
  let n := py_len b in
  let l := py_bound n 0 lo in
  let h := py_bound n n hi in
  firstn (Z.to_nat (h - l)) (skipn (Z.to_nat l) b).

(* b[i]: IndexError outside [-len, len) *)
Definition py_index (b : bytes) (i : Z) : option Z :=
  let n := py_len b in
  let j := if i <? 0 then n + i else i in
  if (j <? 0) || (n <=? j) then None else Some (bz (nth (Z.to_nat j) b x00)).

(* b[::-1] *)
Definition py_reverse (b : bytes) : bytes := rev b.

(* int.bit_length() *)
Definition py_bit_length (x : Z) : Z := let a := Z.abs x in if a =? 0 then 0 else Z.log2 a + 1.

Definition py_bytes_eqb (a b : bytes) : bool := bytes_eqb a b.

(* bytes([v]) for one int: ValueError outside range(256) *)
Definition py_byte1 (v : Z) : option bytes := if (v <? 0) || (256 <=? v) then None else Some [zb v].
