(* Lib/BitRegroup.v — positional digit lists (most significant first) and regrouping of a bit stream
   between symbol widths (8 <-> 11 for BIP39; usable for any widths without padding).
   Bits are the integers 0 and 1.  Pure definitions and lemmas, standard library only. *)
From Coq Require Import ZArith List Lia Bool.
Import ListNotations.
Open Scope Z_scope.

(* value of a digit list in base B, most significant digit first *)
Fixpoint val (B : Z) (ds : list Z) : Z :=
  match ds with
  | [] => 0
  | d :: r => d * B ^ Z.of_nat (length r) + val B r
  end.

Definition in_base (B : Z) (ds : list Z) : Prop := Forall (fun d => 0 <= d < B) ds.

(* the w low bits of x, most significant first *)
Fixpoint to_bits (w : nat) (x : Z) : list Z :=
  match w with
  | O => []
  | S w' => Z.b2z (Z.testbit x (Z.of_nat w')) :: to_bits w' x
  end.

(* symbols of width w -> bit stream *)
Definition unpack (w : nat) (syms : list Z) : list Z := flat_map (to_bits w) syms.

(* bit stream -> m symbols of width w *)
Fixpoint groups (w m : nat) (bits : list Z) : list Z :=
  match m with
  | O => []
  | S m' => val 2 (firstn w bits) :: groups w m' (skipn w bits)
  end.

(* a-bit symbols -> b-bit symbols, no padding (a * length must be a multiple of b to be lossless) *)
Definition regroup (a b : nat) (syms : list Z) : list Z :=
  let bits := unpack a syms in groups b (length bits / b) bits.

(* leading zero digits *)
Fixpoint strip (ds : list Z) : list Z :=
  match ds with
  | [] => []
  | d :: r => if d =? 0 then strip r else ds
  end.

Fixpoint clz (ds : list Z) : nat :=
  match ds with
  | [] => O
  | d :: r => if d =? 0 then S (clz r) else O
  end.

Fixpoint zlist_eqb (a b : list Z) : bool :=
  match a, b with
  | [], [] => true
  | x :: a', y :: b' => (x =? y) && zlist_eqb a' b'
  | _, _ => false
  end.

(* ------------------------------------------------------------------ lemmas *)

Lemma in_base_app B a b : in_base B (a ++ b) <-> in_base B a /\ in_base B b.
Proof. unfold in_base. apply Forall_app. Qed.

Lemma in_base_cons B d r : in_base B (d :: r) <-> 0 <= d < B /\ in_base B r.
Proof. unfold in_base. split; intros H; [inversion H; auto | destruct H; constructor; auto]. Qed.

Lemma in_base_repeat0 B n : 0 < B -> in_base B (repeat 0 n).
Proof. intros HB. induction n; simpl; constructor; [lia | assumption]. Qed.

Lemma in_base_firstn B n l : in_base B l -> in_base B (firstn n l).
Proof.
  unfold in_base. revert l. induction n as [|n IH]; intros l Hl; simpl; [constructor|].
  destruct l; [constructor|]. inversion Hl; subst. constructor; auto.
Qed.

Lemma in_base_skipn B n l : in_base B l -> in_base B (skipn n l).
Proof.
  unfold in_base. revert l. induction n as [|n IH]; intros l Hl; simpl; [assumption|].
  destruct l; [constructor|]. inversion Hl; subst. auto.
Qed.

Lemma val_cons B d r : val B (d :: r) = d * B ^ Z.of_nat (length r) + val B r.
Proof. reflexivity. Qed.

Lemma val_app B a b : val B (a ++ b) = val B a * B ^ Z.of_nat (length b) + val B b.
Proof.
  induction a as [|d a IH]; [simpl; lia|].
  rewrite <- app_comm_cons, !val_cons, IH, app_length, Nat2Z.inj_add, Z.pow_add_r by lia. ring.
Qed.

Lemma val_range B ds : 0 < B -> in_base B ds -> 0 <= val B ds < B ^ Z.of_nat (length ds).
Proof.
  intros HB. induction ds as [|d r IH]; intros Hd; [simpl; lia|].
  apply in_base_cons in Hd. destruct Hd as [Hd Hr]. specialize (IH Hr).
  rewrite val_cons. cbn [length]. rewrite Nat2Z.inj_succ, Z.pow_succ_r by lia.
  assert (0 < B ^ Z.of_nat (length r)) by (apply Z.pow_pos_nonneg; lia). nia.
Qed.

Lemma val_repeat0 B n ds : val B (repeat 0 n ++ ds) = val B ds.
Proof. induction n as [|n IH]; [reflexivity|]. cbn [repeat]. rewrite <- app_comm_cons, val_cons, IH. lia. Qed.

Lemma val_snoc B a d : val B (a ++ [d]) = val B a * B + d.
Proof. rewrite val_app. cbn [length val]. change (Z.of_nat 1) with 1. rewrite Z.pow_1_r, Z.pow_0_r. lia. Qed.

(* --- leading zeros --- *)
Lemma strip_spec ds : ds = repeat 0 (clz ds) ++ strip ds.
Proof.
  induction ds as [|d r IH]; [reflexivity|]. cbn [strip clz].
  destruct (d =? 0) eqn:E; [|reflexivity]. apply Z.eqb_eq in E. subst d.
  cbn [repeat]. rewrite <- app_comm_cons. f_equal. exact IH.
Qed.

Lemma clz_length ds : (clz ds + length (strip ds) = length ds)%nat.
Proof. rewrite (strip_spec ds) at 3. rewrite app_length, repeat_length. reflexivity. Qed.

Lemma val_strip B ds : val B (strip ds) = val B ds.
Proof. rewrite (strip_spec ds) at 2. rewrite val_repeat0. reflexivity. Qed.

Lemma strip_head ds : match strip ds with [] => True | d :: _ => d <> 0 end.
Proof.
  induction ds as [|d r IH]; [exact I|]. cbn [strip]. destruct (d =? 0) eqn:E; [exact IH|].
  apply Z.eqb_neq in E. exact E.
Qed.

Lemma in_base_strip B ds : in_base B ds -> in_base B (strip ds).
Proof.
  induction ds as [|d r IH]; intros H; [exact H|]. cbn [strip]. destruct (d =? 0); [|exact H].
  apply in_base_cons in H. apply IH, H.
Qed.

Lemma strip_repeat0 n ds : strip (repeat 0 n ++ ds) = strip ds.
Proof. induction n as [|n IH]; [reflexivity|]. cbn [repeat]. rewrite <- app_comm_cons. cbn [strip]. exact IH. Qed.

Lemma clz_repeat0 n ds : clz (repeat 0 n ++ ds) = (n + clz ds)%nat.
Proof. induction n as [|n IH]; [reflexivity|]. cbn [repeat]. rewrite <- app_comm_cons. cbn [clz]. rewrite IH. reflexivity. Qed.

Lemma strip_idem ds : strip (strip ds) = strip ds.
Proof.
  induction ds as [|d r IH]; [reflexivity|]. cbn [strip]. destruct (d =? 0) eqn:E; [exact IH|].
  cbn [strip]. rewrite E. reflexivity.
Qed.

Lemma strip_nonzero_head d r : d <> 0 -> strip (d :: r) = d :: r.
Proof. intros H. cbn [strip]. apply Z.eqb_neq in H. rewrite H. reflexivity. Qed.

Lemma clz_nonzero_head d r : d <> 0 -> clz (d :: r) = O.
Proof. intros H. cbn [clz]. apply Z.eqb_neq in H. rewrite H. reflexivity. Qed.

(* a digit list with value 0 is all zeros *)
Lemma val_zero_strip B ds : 0 < B -> in_base B ds -> val B ds = 0 -> strip ds = [].
Proof.
  intros HB. induction ds as [|d r IH]; intros Hd Hv; [reflexivity|].
  apply in_base_cons in Hd. destruct Hd as [Hd Hr].
  rewrite val_cons in Hv. pose proof (val_range B r HB Hr) as Hrr.
  assert (0 < B ^ Z.of_nat (length r)) by (apply Z.pow_pos_nonneg; lia).
  assert (d = 0) by nia. subst d. cbn [strip]. apply IH; [assumption | lia].
Qed.

(* a stripped non-empty list has value >= B^(len-1) *)
Lemma val_strip_lower B ds : 0 < B -> in_base B ds -> strip ds <> [] ->
  B ^ (Z.of_nat (length (strip ds)) - 1) <= val B ds.
Proof.
  intros HB Hd Hne. rewrite <- (val_strip B ds).
  pose proof (strip_head ds) as Hh. pose proof (in_base_strip B ds Hd) as Hs.
  destruct (strip ds) as [|d r]; [congruence|].
  apply in_base_cons in Hs. destruct Hs as [Hdr Hr].
  rewrite val_cons. cbn [length]. rewrite Nat2Z.inj_succ.
  replace (Z.succ (Z.of_nat (length r)) - 1) with (Z.of_nat (length r)) by lia.
  pose proof (val_range B r HB Hr).
  assert (0 < B ^ Z.of_nat (length r)) by (apply Z.pow_pos_nonneg; lia). nia.
Qed.

(* two zero-padded copies of the same stripped list of the same length are equal *)
Lemma pad_unique a b : strip a = strip b -> length a = length b -> a = b.
Proof.
  intros Hs Hl. rewrite (strip_spec a), (strip_spec b), Hs. f_equal. f_equal.
  pose proof (clz_length a). pose proof (clz_length b). rewrite Hs in *. lia.
Qed.

(* --- bits --- *)
Lemma to_bits_length w x : length (to_bits w x) = w.
Proof. induction w as [|w IH]; [reflexivity|]. cbn [to_bits length]. rewrite IH. reflexivity. Qed.

Lemma to_bits_in_base w x : in_base 2 (to_bits w x).
Proof.
  induction w as [|w IH]; [constructor|]. cbn [to_bits]. constructor; [|exact IH].
  destruct (Z.testbit x (Z.of_nat w)); simpl; lia.
Qed.

Lemma val_to_bits w x : val 2 (to_bits w x) = x mod 2 ^ Z.of_nat w.
Proof.
  induction w as [|w IH]; [simpl; rewrite Z.mod_1_r; reflexivity|].
  cbn [to_bits]. rewrite val_cons, IH, to_bits_length.
  rewrite Z.testbit_spec' by lia.
  rewrite Nat2Z.inj_succ, Z.pow_succ_r by lia.
  assert (Hp : 0 < 2 ^ Z.of_nat w) by (apply Z.pow_pos_nonneg; lia).
  rewrite (Z.mul_comm 2), Z.rem_mul_r by lia. lia.
Qed.

Lemma to_bits_mod n : forall m x, (n <= m)%nat -> to_bits n (x mod 2 ^ Z.of_nat m) = to_bits n x.
Proof.
  induction n as [|n IH]; intros m x Hnm; [reflexivity|].
  cbn [to_bits]. rewrite IH by lia. f_equal. f_equal.
  apply Z.mod_pow2_bits_low. lia.
Qed.

Lemma to_bits_val bs : in_base 2 bs -> to_bits (length bs) (val 2 bs) = bs.
Proof.
  induction bs as [|b r IH]; intros Hb; [reflexivity|].
  apply in_base_cons in Hb. destruct Hb as [Hb Hr]. specialize (IH Hr).
  pose proof (val_range 2 r ltac:(lia) Hr) as Hv.
  assert (Hp : 0 < 2 ^ Z.of_nat (length r)) by (apply Z.pow_pos_nonneg; lia).
  cbn [length to_bits]. rewrite val_cons. f_equal.
  - rewrite Z.testbit_spec' by lia.
    rewrite Z.div_add_l by lia. rewrite Z.div_small by lia.
    rewrite Z.add_0_r. rewrite Z.mod_small by lia. reflexivity.
  - rewrite <- (to_bits_mod (length r) (length r)) by lia.
    rewrite Z.add_comm, Z.mod_add by lia. rewrite Z.mod_small by lia. exact IH.
Qed.

(* --- regrouping --- *)
Lemma groups_length w m : forall bits, length (groups w m bits) = m.
Proof. induction m as [|m IH]; intros bits; [reflexivity|]. cbn [groups length]. rewrite IH. reflexivity. Qed.

Lemma unpack_length w syms : length (unpack w syms) = (w * length syms)%nat.
Proof.
  unfold unpack. induction syms as [|s r IH]; [simpl; lia|].
  cbn [flat_map length]. rewrite app_length, to_bits_length, IH. lia.
Qed.

Lemma unpack_in_base w syms : in_base 2 (unpack w syms).
Proof.
  unfold unpack. induction syms as [|s r IH]; [constructor|].
  cbn [flat_map]. apply in_base_app. split; [apply to_bits_in_base | exact IH].
Qed.

Lemma unpack_app w a b : unpack w (a ++ b) = unpack w a ++ unpack w b.
Proof. unfold unpack. apply flat_map_app. Qed.

Lemma firstn_app_exact {A} (a b : list A) n : n = length a -> firstn n (a ++ b) = a.
Proof. intros ->. rewrite firstn_app, Nat.sub_diag, firstn_all. simpl. apply app_nil_r. Qed.

Lemma skipn_app_exact {A} (a b : list A) n : n = length a -> skipn n (a ++ b) = b.
Proof. intros ->. rewrite skipn_app, Nat.sub_diag, skipn_all. reflexivity. Qed.

Lemma groups_in_base w m : forall bits, in_base 2 bits -> in_base (2 ^ Z.of_nat w) (groups w m bits).
Proof.
  induction m as [|m IH]; intros bits Hb; [constructor|].
  cbn [groups]. constructor; [|apply IH, in_base_skipn, Hb].
  pose proof (val_range 2 (firstn w bits) ltac:(lia) (in_base_firstn 2 w bits Hb)) as Hv.
  pose proof (firstn_le_length w bits).
  assert (2 ^ Z.of_nat (length (firstn w bits)) <= 2 ^ Z.of_nat w) by (apply Z.pow_le_mono_r; lia). lia.
Qed.

Lemma groups_unpack w syms : forall rest, in_base (2 ^ Z.of_nat w) syms ->
  groups w (length syms) (unpack w syms ++ rest) = syms.
Proof.
  induction syms as [|s r IH]; intros rest Hs; [reflexivity|].
  apply in_base_cons in Hs. destruct Hs as [Hs Hr].
  cbn [length groups]. unfold unpack in *. cbn [flat_map]. rewrite <- app_assoc.
  rewrite firstn_app_exact by (rewrite to_bits_length; reflexivity).
  rewrite skipn_app_exact by (rewrite to_bits_length; reflexivity).
  rewrite val_to_bits, Z.mod_small by lia. f_equal. apply IH, Hr.
Qed.

Lemma unpack_groups w m : forall bits, in_base 2 bits -> length bits = (m * w)%nat ->
  unpack w (groups w m bits) = bits.
Proof.
  induction m as [|m IH]; intros bits Hb Hl.
  - destruct bits; [reflexivity | discriminate].
  - cbn [groups]. unfold unpack in *. cbn [flat_map].
    assert (Hf : length (firstn w bits) = w) by (rewrite firstn_length; lia).
    rewrite <- Hf at 1. rewrite to_bits_val by (apply in_base_firstn, Hb).
    rewrite IH; [apply firstn_skipn | apply in_base_skipn, Hb | rewrite skipn_length; lia].
Qed.

Lemma val_groups w m : forall bits, length bits = (m * w)%nat ->
  val (2 ^ Z.of_nat w) (groups w m bits) = val 2 bits.
Proof.
  induction m as [|m IH]; intros bits Hl.
  - destruct bits; [reflexivity | discriminate].
  - cbn [groups]. rewrite val_cons, groups_length.
    rewrite IH by (rewrite skipn_length; lia).
    rewrite <- (firstn_skipn w bits) at 3. rewrite val_app, skipn_length, Hl.
    rewrite <- Z.pow_mul_r by lia. f_equal. f_equal. f_equal. lia.
Qed.

Lemma val_unpack w syms : in_base (2 ^ Z.of_nat w) syms -> val 2 (unpack w syms) = val (2 ^ Z.of_nat w) syms.
Proof.
  intros Hs. rewrite <- (groups_unpack w syms [] Hs) at 2. rewrite app_nil_r.
  symmetry. apply val_groups. rewrite unpack_length. lia.
Qed.

Lemma clz_to_bits_zero w : clz (to_bits w 0) = w.
Proof. induction w as [|w IH]; [reflexivity|]. cbn [to_bits clz]. rewrite Z.testbit_0_l. simpl. rewrite IH. reflexivity. Qed.

Lemma to_bits_zero w : to_bits w 0 = repeat 0 w.
Proof. induction w as [|w IH]; [reflexivity|]. cbn [to_bits repeat]. rewrite Z.testbit_0_l, IH. reflexivity. Qed.

(* each leading zero symbol contributes w leading zero bits *)
Lemma clz_unpack w syms : (w * clz syms <= clz (unpack w syms))%nat.
Proof.
  induction syms as [|s r IH]; [simpl; lia|].
  cbn [clz]. destruct (s =? 0) eqn:E; [|lia]. apply Z.eqb_eq in E. subst s.
  unfold unpack in *. cbn [flat_map]. rewrite to_bits_zero, clz_repeat0. lia.
Qed.

Theorem regroup_roundtrip a b syms :
  in_base (2 ^ Z.of_nat a) syms -> a <> O -> b <> O -> ((a * length syms) mod b = 0)%nat ->
  regroup b a (regroup a b syms) = syms.
Proof.
  intros Hs Ha Hb Hm. unfold regroup.
  assert (Hl : length (unpack a syms) = ((length (unpack a syms) / b) * b)%nat).
  { rewrite unpack_length. apply Nat.div_exact in Hm; [|exact Hb]. lia. }
  rewrite unpack_groups; [|apply unpack_in_base | exact Hl].
  rewrite unpack_length.
  rewrite (Nat.mul_comm a), Nat.div_mul by exact Ha.
  rewrite <- (app_nil_r (unpack a syms)). apply groups_unpack, Hs.
Qed.
