(* Lib/Bytes.v — bytes as [list byte], little/big endian fixed-width integers over Z.
   Pure lemmas, standard library only. *)
From Coq Require Import ZArith List Lia Bool.
From Coq.Strings Require Import Byte.
Import ListNotations.
Open Scope Z_scope.

Definition bytes := list byte.

Definition bz (b : byte) : Z := Z.of_N (Byte.to_N b).

Definition zb (z : Z) : byte :=
  match Byte.of_N (Z.to_N (z mod 256)) with Some b => b | None => x00 end.

Lemma bz_range b : 0 <= bz b < 256.
Proof.
  unfold bz. pose proof (Byte.to_N_bounded b) as H.
  split; [apply N2Z.is_nonneg|].
  apply N2Z.inj_le in H. change (Z.of_N 255) with 255 in H. lia.
Qed.

Lemma bz_zb z : bz (zb z) = z mod 256.
Proof.
  unfold bz, zb.
  assert (Hr : 0 <= z mod 256 < 256) by (apply Z.mod_pos_bound; lia).
  destruct (Byte.of_N (Z.to_N (z mod 256))) as [b|] eqn:E.
  - apply Byte.to_of_N in E. rewrite E. rewrite Z2N.id; lia.
  - apply Byte.of_N_None_iff in E.
    apply N2Z.inj_lt in E. rewrite Z2N.id in E by lia. change (Z.of_N 255) with 255 in E. lia.
Qed.

Lemma zb_bz b : zb (bz b) = b.
Proof.
  unfold zb. pose proof (bz_range b) as H.
  rewrite Z.mod_small by lia. unfold bz. rewrite N2Z.id. rewrite Byte.of_to_N. reflexivity.
Qed.

Lemma bz_inj a b : bz a = bz b -> a = b.
Proof. intros H. rewrite <- (zb_bz a), <- (zb_bz b), H. reflexivity. Qed.

Lemma zb_small_inj x y : 0 <= x < 256 -> 0 <= y < 256 -> zb x = zb y -> x = y.
Proof.
  intros Hx Hy H. apply (f_equal bz) in H. rewrite !bz_zb in H.
  rewrite !Z.mod_small in H by lia. exact H.
Qed.

(* byte equality as a boolean *)
Definition beq (a b : byte) : bool := Byte.eqb a b.
Lemma beq_true a b : beq a b = true <-> a = b.
Proof. unfold beq. split; [apply Byte.byte_dec_bl | apply Byte.byte_dec_lb]. Qed.
Lemma beq_refl a : beq a a = true.
Proof. apply beq_true. reflexivity. Qed.
Lemma beq_false a b : beq a b = false <-> a <> b.
Proof.
  split.
  - intros H E. apply beq_true in E. congruence.
  - intros H. destruct (beq a b) eqn:E; [apply beq_true in E; contradiction | reflexivity].
Qed.

Fixpoint bytes_eqb (a b : bytes) : bool :=
  match a, b with
  | [], [] => true
  | x :: a', y :: b' => beq x y && bytes_eqb a' b'
  | _, _ => false
  end.

Lemma bytes_eqb_true a : forall b, bytes_eqb a b = true <-> a = b.
Proof.
  induction a as [|x a IH]; intros [|y b]; simpl; split; intros H; try reflexivity; try discriminate.
  - apply andb_true_iff in H. destruct H as [H1 H2]. apply beq_true in H1. apply IH in H2. congruence.
  - inversion H; subst. rewrite beq_refl. simpl. apply IH. reflexivity.
Qed.

Lemma bytes_eqb_refl a : bytes_eqb a a = true.
Proof. apply bytes_eqb_true. reflexivity. Qed.

(* little endian, fixed width *)
Fixpoint le_bytes (k : nat) (n : Z) : bytes :=
  match k with
  | O => []
  | S k' => zb n :: le_bytes k' (n / 256)
  end.

Fixpoint of_le (l : bytes) : Z :=
  match l with
  | [] => 0
  | b :: r => bz b + 256 * of_le r
  end.

Lemma le_bytes_length k : forall n, length (le_bytes k n) = k.
Proof. induction k as [|k IH]; intros n; simpl; [reflexivity | rewrite IH; reflexivity]. Qed.

Lemma of_le_range l : 0 <= of_le l < 256 ^ Z.of_nat (length l).
Proof.
  induction l as [|b r IH].
  - simpl. lia.
  - cbn [of_le length]. rewrite Nat2Z.inj_succ, Z.pow_succ_r by lia.
    pose proof (bz_range b). lia.
Qed.

Lemma of_le_nonneg l : 0 <= of_le l.
Proof. apply of_le_range. Qed.

Lemma of_le_le_bytes k : forall n, 0 <= n -> of_le (le_bytes k n) = n mod 256 ^ Z.of_nat k.
Proof.
  induction k as [|k IH]; intros n Hn.
  - simpl. rewrite Z.mod_1_r. reflexivity.
  - cbn [le_bytes of_le]. rewrite bz_zb, IH by (apply Z.div_pos; lia).
    rewrite Nat2Z.inj_succ, Z.pow_succ_r by lia.
    assert (Hp : 0 < 256 ^ Z.of_nat k) by (apply Z.pow_pos_nonneg; lia).
    rewrite Z.rem_mul_r by lia. reflexivity.
Qed.

Lemma of_le_le_bytes_small k n : 0 <= n < 256 ^ Z.of_nat k -> of_le (le_bytes k n) = n.
Proof. intros H. rewrite of_le_le_bytes by lia. apply Z.mod_small. exact H. Qed.

Lemma le_bytes_of_le l : le_bytes (length l) (of_le l) = l.
Proof.
  induction l as [|b r IH]; [reflexivity|].
  cbn [length le_bytes of_le]. pose proof (bz_range b) as Hb.
  assert (Hm : (bz b + 256 * of_le r) mod 256 = bz b) by (Z.div_mod_to_equations; lia).
  assert (Hd : (bz b + 256 * of_le r) / 256 = of_le r) by (Z.div_mod_to_equations; lia).
  rewrite Hd, IH. f_equal.
  unfold zb. rewrite Hm. unfold bz. rewrite N2Z.id, Byte.of_to_N. reflexivity.
Qed.

Lemma le_bytes_inj k a b :
  0 <= a < 256 ^ Z.of_nat k -> 0 <= b < 256 ^ Z.of_nat k -> le_bytes k a = le_bytes k b -> a = b.
Proof.
  intros Ha Hb H. apply (f_equal of_le) in H.
  rewrite !of_le_le_bytes_small in H by assumption. exact H.
Qed.

Lemma of_le_app a b : of_le (a ++ b) = of_le a + 256 ^ Z.of_nat (length a) * of_le b.
Proof.
  induction a as [|x a IH]; cbn [app of_le length].
  - change (256 ^ Z.of_nat 0) with 1. lia.
  - rewrite IH, Nat2Z.inj_succ, Z.pow_succ_r by lia. ring.
Qed.

(* big endian *)
Definition be_bytes (k : nat) (n : Z) : bytes := rev (le_bytes k n).
Definition of_be (l : bytes) : Z := of_le (rev l).

Lemma be_bytes_length k n : length (be_bytes k n) = k.
Proof. unfold be_bytes. rewrite rev_length. apply le_bytes_length. Qed.

Lemma of_be_be_bytes_small k n : 0 <= n < 256 ^ Z.of_nat k -> of_be (be_bytes k n) = n.
Proof. intros H. unfold of_be, be_bytes. rewrite rev_involutive. apply of_le_le_bytes_small. exact H. Qed.

Lemma be_bytes_of_be l : be_bytes (length l) (of_be l) = l.
Proof.
  unfold be_bytes, of_be. rewrite <- (rev_length l). rewrite le_bytes_of_le. apply rev_involutive.
Qed.

Lemma of_be_range l : 0 <= of_be l < 256 ^ Z.of_nat (length l).
Proof. unfold of_be. rewrite <- rev_length. apply of_le_range. Qed.

(* number of bytes needed for a non-negative integer (0 -> 0 bytes); fuel-free via Z.log2 *)
Definition byte_len (n : Z) : nat :=
  if n <=? 0 then O else Z.to_nat (Z.log2 n / 8 + 1).

Lemma byte_len_bound n : 0 <= n -> n < 256 ^ Z.of_nat (byte_len n).
Proof.
  intros Hn. unfold byte_len. destruct (n <=? 0) eqn:E.
  - apply Z.leb_le in E. simpl. lia.
  - apply Z.leb_gt in E.
    assert (Hl : 0 <= Z.log2 n) by apply Z.log2_nonneg.
    assert (Hq : 0 <= Z.log2 n / 8) by (apply Z.div_pos; lia).
    rewrite Z2Nat.id by lia.
    change 256 with (2 ^ 8). rewrite <- Z.pow_mul_r by lia.
    apply Z.log2_lt_pow2; [lia|].
    pose proof (Z.mul_div_le (Z.log2 n) 8 ltac:(lia)).
    pose proof (Z.mod_pos_bound (Z.log2 n) 8 ltac:(lia)).
    pose proof (Z.div_mod (Z.log2 n) 8 ltac:(lia)). lia.
Qed.

Lemma byte_len_min n : 0 < n -> 256 ^ (Z.of_nat (byte_len n) - 1) <= n.
Proof.
  intros Hn. unfold byte_len. destruct (n <=? 0) eqn:E; [apply Z.leb_le in E; lia|].
  assert (Hl : 0 <= Z.log2 n) by apply Z.log2_nonneg.
  assert (Hq : 0 <= Z.log2 n / 8) by (apply Z.div_pos; lia).
  rewrite Z2Nat.id by lia.
  replace (Z.log2 n / 8 + 1 - 1) with (Z.log2 n / 8) by lia.
  change 256 with (2 ^ 8). rewrite <- Z.pow_mul_r by lia.
  pose proof (Z.log2_spec n Hn) as [Hlo _].
  eapply Z.le_trans; [|exact Hlo].
  apply Z.pow_le_mono_r; [lia|].
  apply Z.mul_div_le. lia.
Qed.
