(* Lib/Py2.v — further Python primitives used by the second translated set (coq/Gen/GenFuncs2.v).
   Same conventions as Lib/Py.v: a partial operation returns option; None = the Python operation raises,
   or (py_pow only) its value leaves the typed fragment (an int ** negative int is a float).
   A Python str is the list of its code points ([list Z]); a Python list of ints is [list Z].
   Definitions only (the facts about them are proved in Glue/*.v). *)
From Coq Require Import ZArith List Bool Zpow_facts.
From Coq.Strings Require Import Byte.
From Verif Require Import Lib.Bytes Lib.Py.
Import ListNotations.
Open Scope Z_scope.

(* len(l) for a list / str *)
Definition py_llen {A : Type} (l : list A) : Z := Z.of_nat (length l).

(* l[lo:hi] for a list / str (same bound normalisation as Py.py_slice) *)
Definition py_lslice {A : Type} (l : list A) (lo hi : option Z) : list A :=
  let n := py_llen l in
  let a := py_bound n 0 lo in
  let b := py_bound n n hi in
  firstn (Z.to_nat (b - a)) (skipn (Z.to_nat a) l).

(* l[i] for a list of ints: IndexError outside [-len, len) *)
Definition py_lindex (l : list Z) (i : Z) : option Z :=
  let n := py_llen l in
  let j := if i <? 0 then n + i else i in
  if (j <? 0) || (n <=? j) then None else Some (nth (Z.to_nat j) l 0).

(* s * n for a list / str: the empty sequence when n <= 0 *)
Definition py_lrepeat {A : Type} (l : list A) (n : Z) : list A := concat (repeat l (Z.to_nat n)).

(* x in [literal ints] *)
Definition py_in (x : Z) (l : list Z) : bool := existsb (Z.eqb x) l.

(* b.lstrip(chars): drop the leading bytes that occur in chars *)
Fixpoint py_lstrip (chars b : bytes) : bytes :=
  match b with
  | [] => []
  | x :: r => if existsb (beq x) chars then py_lstrip chars r else b
  end.

(* bytes(l) for a list of ints: ValueError when an element is outside range(256) *)
Fixpoint py_bytes_of (l : list Z) : option bytes :=
  match l with
  | [] => Some []
  | v :: r =>
      if (v <? 0) || (256 <=? v) then None
      else match py_bytes_of r with Some t => Some (zb v :: t) | None => None end
  end.

(* a ** b on ints: for b < 0 Python yields a float (ZeroDivisionError when a = 0): no int result *)
Definition py_pow (a b : Z) : option Z := if b <? 0 then None else Some (a ^ b).

(* pow(b, e, m) on ints with e >= 0 (the translator emits it only for an exponent it has shown to be a
   non-negative literal sum): ValueError when m = 0; the result has the sign of m, like Z.modulo.
   Zpow_mod is the standard library's square-and-multiply; Glue/KeyGlue.v proves py_pow3_spec:
   0 <= e -> m <> 0 -> py_pow3 b e m = Some (b ^ e mod m). *)
Definition py_pow3 (b e m : Z) : option Z :=
  if (m =? 0) || (e <? 0) then None else Some (Zpow_mod b e m).

(* divmod(a, b), a // b, a % b: ZeroDivisionError for b = 0; otherwise floor division for every sign
   combination, which is what Z.div / Z.modulo compute (the remainder takes the sign of the divisor). *)
Definition py_divmod (a b : Z) : option (Z * Z) := if b =? 0 then None else Some (a / b, a mod b).
