(* Properties/C13.v — ECDSA signatures are valid, canonical, deterministic; the verifier is exact.
   Only statements closed by [exact lemma], their non-vacuity examples, refutation witnesses for the classes
   excluded by a guard, and Print Assumptions.
   lib_*  = bitcoinlib/keys.py (Signature.create / parse_bytes / __init__ / verify, sign, verify) with the repairs
            fixes/C13-1 (integer division in the low-S step), fixes/C13-2 (DER dispatch for every length but 64) and
            fixes/C13-3 (public key given as hex text) applied; *_prefix = the code before them; spec_* / ecdsa_* / g_* = SEC 1 ECDSA,
            BIP62/146 low S, BIP66 strict DER. *)
From Coq Require Import ZArith List Bool Znumtheory.
From Coq.Strings Require Import Byte.
From Verif Require Import Lib.Bytes Crypto.Sha256 Crypto.Secp256k1 Crypto.EcdsaAlgebra.
From Verif Require Import Model.Der Model.Ecdsa Proofs.Der Proofs.Ecdsa Proofs.EcdsaWitness Proofs.EcdsaSession Proofs.EcdsaForms.
Import ListNotations.
Open Scope Z_scope.

(* --- signatures verify: for ANY structure with an addition, a Z-action, a base point and an x-coordinate map
       satisfying the listed laws (a commutative group with a generator of prime order n satisfies them), every
       key d, every message representative z and every nonce k in [1, n-1]: what the textbook signer returns,
       and its low-S twin (r, n - s), pass the textbook verifier under the public key d.G --- *)
Theorem sign_verifies :
  forall (G : Type) (gzero : G) (gadd : G -> G -> G) (smul : Z -> G -> G) (gen : G) (xof : G -> option Z) (n : Z),
  prime n -> n < 2 ^ 500 ->
  (forall P, gadd P gzero = P) ->
  (forall a b P, smul (a + b) P = gadd (smul a P) (smul b P)) ->
  (forall a b P, smul (a * b) P = smul a (smul b P)) ->
  (forall a, smul a gzero = gzero) ->
  smul n gen = gzero ->
  (forall P, xof (smul (-1) P) = xof P) ->
  forall d z k r s, 1 <= k < n ->
  g_sign G smul gen xof n d z k = Some (r, s) ->
  g_verify G gadd smul gen xof n z r s (smul d gen) = true /\
  g_verify G gadd smul gen xof n z r (n - s) (smul d gen) = true.
Proof. exact EcdsaAlgebra.sign_verifies. Qed.

(* the executable signer / verifier the library model is built on ARE these generic ones at the affine instance *)
Theorem executable_is_generic :
  (forall d z k, ecdsa_sign d z k = g_sign point pt_mul secp_G xof_pt secp_n d z k) /\
  (forall z r s Q, ecdsa_verify z r s (Some Q) = g_verify point pt_add pt_mul secp_G xof_pt secp_n z r s (Some Q)).
Proof. exact (conj ecdsa_sign_is_generic ecdsa_verify_is_generic). Qed.

(* end to end through the library model, with the laws of the affine instance as ONE explicit premise (they are
   not proved here): sign with the RFC 6979 nonce or an explicit nonce in [1, n-1], hand the DER bytes to verify *)
Theorem lib_sign_verifies : forall d msg k ht r s enc Q,
  secp_laws ->
  match k with Some k0 => 1 <= k0 < secp_n | None => True end ->
  secp_pub d = Some Q -> coords_reduced Q = true -> lib_on_curve Q = true ->
  lib_digest msg <> [] -> Z.of_nat (length enc) <> 64 ->
  lib_sign d msg k ht = Some (r, s, enc) ->
  lib_verify (lib_digest msg) enc Q = Some true.
Proof. exact Proofs.Ecdsa.lib_sign_verifies. Qed.

(* --- low S: EVERY signature lib_sign returns (any key, message, nonce source, hash type) --- *)
Theorem lib_sign_low_s : forall d msg k ht r s enc,
  lib_sign d msg k ht = Some (r, s, enc) -> 1 <= r < secp_n /\ 1 <= s <= (secp_n - 1) / 2.
Proof. exact Proofs.Ecdsa.lib_sign_low_s. Qed.

(* the comparison the source had before fix C13-1 (float n / 2 = 2^255) returns this signature HIGH;
   the repaired code returns its twin *)
Example lib_sign_low_s_prefix_refuted :
  lib_sign_prefix w1_d w1_msg (Some w1_k) 1 = Some (w1_r, w1_s_high, der_enc w1_r w1_s_high ++ [x01]) /\
  (secp_n - 1) / 2 < w1_s_high.
Proof. exact w1_prefix_high_s. Qed.

Example lib_sign_low_s_witness :
  lib_sign w1_d w1_msg (Some w1_k) 1 =
    Some (w1_r, secp_n - w1_s_high, der_enc w1_r (secp_n - w1_s_high) ++ [x01]) /\
  secp_n - w1_s_high <= (secp_n - 1) / 2.
Proof. exact w1_fixed_low_s. Qed.

(* --- canonical encoding --- *)
Theorem der_strict : forall r s ht, 1 <= r < secp_n -> 1 <= s < secp_n -> is_strict_der (der_enc r s ++ [ht]) = true.
Proof.
  exact (fun r s ht Hr Hs =>
    Proofs.Der.der_strict r s ht (conj (Z.lt_le_trans 0 1 r Z.lt_0_1 (proj1 Hr)) (Z.lt_trans r secp_n (2 ^ 256) (proj2 Hr) secp_n_lt_2_256))
                                 (conj (Z.lt_le_trans 0 1 s Z.lt_0_1 (proj1 Hs)) (Z.lt_trans s secp_n (2 ^ 256) (proj2 Hs) secp_n_lt_2_256))).
Qed.

Theorem der_roundtrip : forall r s, 1 <= r < secp_n -> 1 <= s < secp_n -> der_dec (der_enc r s) = Some (r, s).
Proof.
  exact (fun r s Hr Hs =>
    Proofs.Der.der_roundtrip r s (conj (Z.lt_le_trans 0 1 r Z.lt_0_1 (proj1 Hr)) (Z.lt_trans r secp_n (2 ^ 256) (proj2 Hr) secp_n_lt_2_256))
                                 (conj (Z.lt_le_trans 0 1 s Z.lt_0_1 (proj1 Hs)) (Z.lt_trans s secp_n (2 ^ 256) (proj2 Hs) secp_n_lt_2_256))).
Qed.

(* one accepted spelling per signature value: whatever the strict decoder accepts is the encoder's output *)
Theorem der_canonical : forall b r s, der_dec b = Some (r, s) -> 0 < r -> 0 < s -> der_enc r s = b.
Proof. exact Proofs.Der.der_canonical. Qed.

(* what lib_sign hands out: der_enc r s followed by the hash-type byte, BIP66-valid, strictly decodable to (r, s) *)
Theorem lib_sign_encoding : forall d msg k ht r s enc, lib_sign d msg k ht = Some (r, s, enc) ->
  enc = der_enc r s ++ [zb ht] /\ is_strict_der enc = true /\ der_dec (removelast enc) = Some (r, s) /\
  spec_parse enc = Some (r, s, ht).
Proof. exact Proofs.Ecdsa.lib_sign_encoding. Qed.

(* and parse_bytes reads it back (unless it is exactly 64 bytes long: finding der64_read_as_raw) *)
Theorem lib_sign_parse_roundtrip : forall d msg k ht r s enc, lib_sign d msg k ht = Some (r, s, enc) ->
  Z.of_nat (length enc) <> 64 -> lib_parse enc = Some (r, s, ht).
Proof. exact Proofs.Ecdsa.lib_sign_parse_roundtrip. Qed.

Example der_edges :
  der_enc 1 1 = [x30; x06; x02; x01; x01; x02; x01; x01] /\
  der_enc 127 128 = [x30; x07; x02; x01; x7f; x02; x02; x00; x80] /\
  length (der_enc (secp_n - 1) (secp_n - 1)) = 72%nat /\
  der_dec [x30; x07; x02; x02; x00; x7f; x02; x01; x01] = None /\        (* padded r *)
  der_dec [x30; x06; x02; x01; x80; x02; x01; x01] = None.                 (* negative r *)
Proof. repeat split; vm_compute; reflexivity. Qed.

(* --- determinism: without an explicit nonce the signature is the normalised textbook signature at the RFC 6979
       nonce of (d, SHA256 (hex text of the digest)): a function of key and message only --- *)
Theorem nonce_is_rfc6979 : forall d msg ht, 1 <= d < secp_n -> 0 <= ht < 256 ->
  lib_sign d msg None ht =
  with_der ht (spec_sign d (lib_z (lib_digest msg)) (rfc6979_nonce d (sha256 (hex_ascii (lib_digest msg))))).
Proof. exact lib_sign_deterministic. Qed.

Theorem explicit_nonce_is_used : forall d msg k ht, 1 <= d < secp_n -> 0 <= ht < 256 -> k <> 0 ->
  lib_sign d msg (Some k) ht =
  with_der ht (spec_sign d (lib_z (lib_digest msg)) k).
Proof. exact lib_sign_explicit. Qed.

(* a private key outside [1, n-1] never signs: Key() refuses it (C04 fix 39fdc6f) *)
Theorem lib_sign_refuses_bad_key : forall d msg k ht, ~ (1 <= d < secp_n) -> lib_sign d msg k ht = None.
Proof. exact (lib_sign_key_range lib_low_s). Qed.

Example nonce_witness :
  lib_nonce 1 (be_bytes 32 1) = rfc6979_nonce 1 (sha256 (hex_ascii (be_bytes 32 1))) /\
  1 <= lib_nonce 1 (be_bytes 32 1) < secp_n.
Proof. exact w5_nonce. Qed.

(* finding hex_case_changes_nonce: the nonce is a function of the digest's TEXT — the same digest handed over as
   upper-case hex (sign('..AB', key)) is signed with a different nonce than as bytes / lower-case hex *)
Example nonce_hex_case_refuted : lib_nonce 1 w7_dg <> lib_nonce_upper 1 w7_dg.
Proof. exact w7_hex_case. Qed.

(* --- the verifier is exact: for every digest, every byte string offered as a signature and every byte string
       offered as a public key in SEC form (Key(bytes), strict — the default), outside the two recorded signature
       classes, verify = standard ECDSA on the strictly decoded signature and the SEC 1 decoded key;
       None = refused with an exception, Some b = the boolean returned.  No guard on the key. --- *)
Theorem lib_verify_exact : forall dg sig pk,
  dg <> [] -> der64 sig = false -> lax_der sig = false ->
  lib_verify_key dg sig pk = spec_verify_key (lib_z dg) sig pk.
Proof. exact lib_verify_key_exact. Qed.

(* the key reader alone: Key(bytes) and SEC 1 2.3.4 refuse together, or accept together — the library's point
   passes the Signature.public_key check and reduces to the standard point, which is a valid public key *)
Theorem lib_pub_point_exact : forall pk,
  (lib_pub_point pk = None /\ parse_point pk = None) \/
  (exists Ql Qs, lib_pub_point pk = Some Ql /\ parse_point pk = Some Qs /\
                 lib_on_curve Ql = true /\ reduce_pt Ql = Some Qs /\ spec_pub_ok Qs = true).
Proof. exact lib_pub_point_spec. Qed.

(* the same one level down, for a public key handed over as a point / Key object: here the coordinates must be
   reduced — unreduced ones reach Signature.verify only through Key(.., strict=False) since C04 fix 75f674d *)
Theorem lib_verify_point_exact : forall dg sig Q,
  dg <> [] -> der64 sig = false -> lax_der sig = false -> coords_reduced Q = true ->
  lib_verify dg sig Q = spec_verify (lib_z dg) sig Q.
Proof. exact Proofs.Ecdsa.lib_verify_exact. Qed.

(* the signature reader alone, same guards: parse_bytes followed by the range checks of Signature.__init__ is the
   strict reader followed by the same range checks *)
Theorem lib_parse_exact : forall sig, der64 sig = false -> lax_der sig = false ->
  filt (lib_parse sig) = filt (spec_parse sig).
Proof. exact parse_agree. Qed.

Example lib_verify_exact_witness :
  der64 w3_strict = false /\ lax_der w3_strict = false /\ coords_reduced w3_Q = true /\
  lib_verify w3_dg w3_strict w3_Q = Some true /\ spec_verify (lib_z w3_dg) w3_strict w3_Q = Some true.
Proof. exact w3_strict_agrees. Qed.

(* fixed finding short_der_rejected: a valid, BIP66-strict signature of 49 bytes was refused by the dispatch the
   source had before fix C13-2 (len > 64); the repaired dispatch reads and verifies it *)
Example lib_verify_short_der_witness :
  length w2_sig = 49%nat /\ is_strict_der w2_sig = true /\
  lib_parse_prefix w2_sig = None /\ lib_parse w2_sig = Some (w2_r, w2_r, 1) /\
  der64 w2_sig = false /\ lax_der w2_sig = false /\ coords_reduced w2_Q = true /\
  lib_verify w2_dg w2_sig w2_Q = Some true /\ spec_verify (lib_z w2_dg) w2_sig w2_Q = Some true.
Proof. exact w2_short_der. Qed.

(* finding der64_read_as_raw (the guard that remains): BIP66-strict, exactly 64 bytes, read as raw r||s *)
Example lib_parse_der64_refuted :
  length w6_sig = 64%nat /\ der64 w6_sig = true /\ lax_der w6_sig = false /\
  filt (spec_parse w6_sig) = Some (2 ^ 223, 2 ^ 222, 1) /\
  filt (lib_parse w6_sig) = Some (of_be (firstn 32 w6_sig), of_be (skipn 32 w6_sig), 1) /\
  of_be (firstn 32 w6_sig) <> 2 ^ 223.
Proof. exact w6_der64_read_as_raw. Qed.

(* finding lax_der_accepted: a junk byte inside the SEQUENCE after s — not BIP66 — is accepted *)
Example lib_verify_lax_der_refuted :
  der64 w3_lax = false /\ lax_der w3_lax = true /\ is_strict_der w3_lax = false /\
  lib_verify w3_dg w3_lax w3_Q = Some true /\ spec_verify (lib_z w3_dg) w3_lax w3_Q = None.
Proof. exact w3_lax_der_accepted. Qed.

(* why lib_verify_point_exact keeps its guard (C04 finding 14, repaired for strict keys by 75f674d): the point
   (1 + p, y), obtainable only with Key(.., strict=False), is accepted *)
Example lib_verify_point_unreduced_refuted :
  der64 w4_sig = false /\ lax_der w4_sig = false /\ coords_reduced w4_Q = false /\
  lib_verify w4_dg w4_sig w4_Q = Some true /\ spec_verify (lib_z w4_dg) w4_sig w4_Q = None /\
  spec_verify (lib_z w4_dg) w4_sig (1, w4_y) = Some true.
Proof. exact w4_unreduced_key_accepted. Qed.

(* ... and the same key as bytes 02 || (p + 1) is refused by the strict reader the public entry point uses,
   while 02 || 1 verifies *)
Example lib_verify_key_bytes_witness :
  lib_pub_point w4_pk = None /\ parse_point w4_pk = None /\ lib_pub_point_lax w4_pk = Some w4_Q /\
  lib_verify_key w4_dg w4_sig w4_pk = None /\ spec_verify_key (lib_z w4_dg) w4_sig w4_pk = None /\
  lib_verify_key w4_dg w4_sig (x02 :: be_bytes 32 1) = Some true /\
  spec_verify_key (lib_z w4_dg) w4_sig (x02 :: be_bytes 32 1) = Some true.
Proof. exact w4_key_bytes_refused. Qed.

(* --- sessions: sign and verify are FUNCTIONS of their arguments also when one process signs many requests and one
       Signature object is verified again and again.  lib_sign_session / lib_verify_session are folds over the
       list of calls that carry the state the code keeps (nothing for signing; the attributes _txid, x, y,
       _public_key of the Signature object for verifying).  The correspondence runs whole sessions against the
       real library in one process / on one object (requests signseq, vseq); a cache or a remembered attribute
       that reaches an answer breaks it.  NOT claimed: that RFC 6979 nonces of different (key, digest) pairs
       differ (HMAC pseudo-randomness) — the harness checks that on the enumerated colliding pairs. --- *)
Theorem sign_session_is_function : forall reqs, lib_sign_session reqs = map lib_sign_req reqs.
Proof. exact sign_session_is_map. Qed.

(* the answer to a request does not depend on what the process signed before or signs afterwards *)
Theorem sign_session_position_independent : forall pre q post,
  nth_error (lib_sign_session (pre ++ q :: post)) (length pre) = Some (lib_sign_req q).
Proof. exact sign_session_position. Qed.

(* the same request asked twice in one process gets the same answer twice, whatever is signed in between *)
Theorem sign_session_repeatable : forall pre q mid post,
  nth_error (lib_sign_session (pre ++ q :: mid ++ q :: post)) (length pre) =
  nth_error (lib_sign_session (pre ++ q :: mid ++ q :: post)) (length pre + 1 + length mid).
Proof. exact sign_session_repeat. Qed.

Theorem sign_session_all_low_s : forall reqs i r s enc,
  nth_error (lib_sign_session reqs) i = Some (Some (r, s, enc)) -> 1 <= r < secp_n /\ 1 <= s <= (secp_n - 1) / 2.
Proof. exact sign_session_low_s. Qed.

Example sign_session_witness :
  exists a a', a <> a' /\ a <> None /\ lib_sign_session [w10_q; w10_q'; w10_q] = [a; a'; a].
Proof. exact w10_sign_session. Qed.

(* ONE Signature object — from sign(), from parsing (with or without public_key=), from Signature(r, s, ..) —
   verified against a sequence of (digest, key) pairs, both given each time: every verdict is the stateless
   verifier on (r, s, digest, key); the digest and key remembered from earlier calls never reach it *)
Theorem verify_session_is_function : forall src steps, forallb explicit_step steps = true ->
  lib_verify_session src steps =
  match src_values src with
  | Some (r, s) => Some (map (stateless_step r s) steps)
  | None => None
  end.
Proof. exact lib_verify_session_explicit. Qed.

Theorem signed_object_session : forall q r s enc steps, lib_sign_req q = Some (r, s, enc) ->
  forallb explicit_step steps = true ->
  lib_verify_session (SrcSign q) steps = Some (map (stateless_step r s) steps).
Proof. exact signed_session_explicit. Qed.

(* ... and for an object parsed from bytes, keys in SEC form (Key / HDKey object, bytes or hex text), outside the two recorded signature classes: standard
   ECDSA at EVERY step of the session *)
Theorem verify_session_exact : forall sig key o steps,
  lib_new_obj (SrcBytes sig key) = Some o -> der64 sig = false -> lax_der sig = false ->
  forallb sec_step steps = true -> forallb (fun st => negb (length (fst (sec_step_args st)) =? 0)%nat) steps = true ->
  lib_verify_session (SrcBytes sig key) steps =
  Some (map (fun st => spec_verify_key (lib_z (fst (sec_step_args st))) sig (snd (sec_step_args st))) steps).
Proof. exact parsed_session_exact. Qed.

(* omitted arguments are answered from what the object remembers: after a call that returned a verdict, verify()
   returns that verdict again and changes nothing; verify(txid') judges txid' under the key of that call *)
Theorem verify_defaults_replay : forall o dg a o' b,
  obj_verify o (Some dg, Some a) = (o', Some b) -> obj_verify o' (None, None) = (o', Some b).
Proof. exact obj_verify_replay. Qed.

Theorem verify_defaults_keep_key : forall o dg a o' b dg',
  obj_verify o (Some dg, Some a) = (o', Some b) ->
  snd (obj_verify o' (Some dg', None)) = lib_verify_step (so_r o) (so_s o) dg' a.
Proof. exact obj_verify_keeps_key. Qed.

(* own key (bytes), negated key (Key object), own key (hex text), no arguments — on one object; and the same steps on an object that was parsed
   WITH the negated key: same verdicts; the hypotheses of verify_session_exact hold for these steps *)
Example verify_session_witness :
  lib_verify_session (SrcBytes w3_strict None) (w8_steps ++ [(None, None)]) =
    Some [Some true; Some false; Some true; Some true] /\
  lib_verify_session (SrcBytes w3_strict (Some (KBytes w8_pk_neg))) w8_steps = Some [Some true; Some false; Some true] /\
  forallb sec_step w8_steps = true /\
  forallb (fun st => negb (length (fst (sec_step_args st)) =? 0)%nat) w8_steps = true /\
  map (fun st => spec_verify_key (lib_z (fst (sec_step_args st))) w3_strict (snd (sec_step_args st))) w8_steps =
    [Some true; Some false; Some true].
Proof. exact w8_session. Qed.

(* a public key handed over as hex text (fix C13-3) is judged exactly like the same key handed over as bytes *)
Theorem verify_text_key_is_bytes_key : forall r s dg pk,
  lib_verify_step r s dg (KText pk) = lib_verify_step r s dg (KBytes pk).
Proof. exact text_key_is_bytes_key. Qed.

(* fixed finding text_key_rejected: before fix C13-3 the public key as hex text (a documented argument type) was
   refused with an exception although the triple is valid; the repaired code accepts it *)
Example verify_text_key_prefix_refuted :
  lib_verify_step_prefix w3_r w3_r w3_dg (KText w8_pk) = None /\
  lib_verify_step w3_r w3_r w3_dg (KText w8_pk) = Some true /\
  lib_verify_step w3_r w3_r w3_dg (KBytes w8_pk) = Some true /\
  spec_verify_key (lib_z w3_dg) w3_strict w8_pk = Some true.
Proof. exact w9_text_key. Qed.

(* --- argument forms: every digest / signature / key argument is a bytes object or a str ("bytes, hexstring" in every
       docstring).  The MEANING of a bytes argument is its bytes; the meaning of a str argument is the bytes its
       base-16 text (two digits per byte, either case, nothing else) decodes to (arg_meaning).  The library's helpers
       guess the form from the content (to_bytes un-hexlifies bytes that read as hex text, to_hexstring takes text that
       does not read as hex as UTF-8).  lib_verify_forms / lib_sign_forms / lib_verify_session_forms are the code
       paths on the arguments AS GIVEN (to_hexstring, the txid setter, bytes.fromhex, HDKey(text), the C code's
       reading of the digest text); the correspondence runs them against the library with hex-looking bytes,
       lower / upper / mixed-case text, text with white space and text that is not base-16 in every position. --- *)

(* keys.verify(txid, signature, public_key): whenever the three arguments have meanings, the answer is the stateless
   verifier on the meanings — bytes that happen to look like hex text are bytes, text in any case is its bytes *)
Theorem verify_argument_form_irrelevant : forall dg sg key bd bs bk,
  arg_meaning dg = Some bd -> arg_meaning sg = Some bs -> arg_meaning key = Some bk ->
  lib_verify_forms dg sg key = lib_verify_key bd bs bk.
Proof. exact verify_forms_meaning. Qed.

Theorem verify_bytes_and_text_agree : forall bd bs bk,
  lib_verify_forms (PBytes bd) (PBytes bs) (PBytes bk) = lib_verify_key bd bs bk /\
  lib_verify_forms (PText (hex_ascii bd)) (PText (hex_ascii bs)) (PText (hex_ascii bk)) = lib_verify_key bd bs bk /\
  lib_verify_forms (PText (hex_ascii_upper bd)) (PText (hex_ascii_upper bs)) (PText (hex_ascii_upper bk)) =
    lib_verify_key bd bs bk.
Proof. exact verify_forms_bytes_text. Qed.

(* ... hence standard ECDSA on the meanings (with lib_verify_exact) *)
Theorem verify_forms_exact : forall dg sg key bd bs bk,
  arg_meaning dg = Some bd -> arg_meaning sg = Some bs -> arg_meaning key = Some bk ->
  bd <> [] -> der64 bs = false -> lax_der bs = false ->
  lib_verify_forms dg sg key = spec_verify_key (lib_z bd) bs bk.
Proof. exact Proofs.EcdsaForms.verify_forms_exact. Qed.

(* one call on an object holding (r, s) — obj.verify(txid, key), keys.verify(txid, obj, key), or the attribute
   assignments obj.txid = ..; obj.public_key = ..; obj.verify() *)
Theorem verify_step_form_irrelevant : forall r s by_attr dg k bd a,
  arg_meaning dg = Some bd -> fkey_meaning k = Some a ->
  lib_verify_step r s ((if by_attr : bool then dg_via_set else dg_via_verify) dg) (key_of_fkey k) =
  lib_verify_step r s bd a.
Proof. exact verify_step_forms_meaning. Qed.

(* whole sessions on ONE object (arguments given or omitted, by call or by attribute assignment), the object parsed
   from a signature given as bytes or text (.., public_key=), or built by Signature(r, s, txid=, public_key=), or
   returned by sign(): arguments with meanings give the verdicts of the session on the meanings *)
Theorem parsed_session_form_irrelevant : forall sg key steps bs key' steps',
  arg_meaning sg = Some bs -> opt_meaning fkey_meaning key = Some key' -> steps_meaning steps = Some steps' ->
  lib_verify_session_forms (FBytes sg key) steps = lib_verify_session (SrcBytes bs key') steps'.
Proof. exact parsed_session_forms_meaning. Qed.

Theorem values_session_form_irrelevant : forall r s dg key steps dg' key' steps',
  opt_meaning arg_meaning dg = Some dg' -> opt_meaning fkey_meaning key = Some key' -> steps_meaning steps = Some steps' ->
  lib_verify_session_forms (FValues r s dg key) steps = lib_verify_session (SrcValues r s dg' key') steps'.
Proof. exact values_session_forms_meaning. Qed.

Theorem signed_session_form_irrelevant : forall d a m k ht steps steps', arg_meaning a = Some m ->
  (32 <? length m)%nat = true \/ lower_text a = true -> steps_meaning steps = Some steps' ->
  lib_verify_session_forms (FSign d a k ht) steps = lib_verify_session (SrcSign (mk_sign_req d m k ht)) steps'.
Proof. exact signed_session_forms_meaning. Qed.

(* the signature argument of Signature.parse / parse_hex / verify alone *)
Theorem parse_argument_form_irrelevant : forall a m, arg_meaning a = Some m ->
  match sig_of_form a with Some b => lib_parse b | None => None end = lib_parse m.
Proof. exact parse_forms_meaning. Qed.

(* every parse entry point either reads the meaning or refuses (parse_bytes a str, parse_hex a bytes object) *)
Theorem parse_entry_points_read_meaning : forall how a m, arg_meaning a = Some m ->
  lib_parse_forms how a = lib_parse m \/ lib_parse_forms how a = None.
Proof. exact parse_how_meaning. Qed.

(* signing sessions with the digests as given: still the map of a stateless function *)
Theorem sign_session_forms_is_function : forall reqs, lib_sign_session_forms reqs = map lib_sign_req_f reqs.
Proof. exact sign_session_forms_is_map. Qed.

(* signing: the digest as bytes or as lower-case text (what bytes.hex() gives), and every message longer than 32
   bytes in any case — the signature of the meaning, RFC 6979 nonce included *)
Theorem sign_argument_form_irrelevant : forall d a m k ht, arg_meaning a = Some m ->
  (32 <? length m)%nat = true \/ lower_text a = true ->
  lib_sign_forms d a k ht = lib_sign d m k ht.
Proof. exact sign_forms_meaning. Qed.

(* any case, explicit nonce: the signature of the meaning *)
Theorem sign_explicit_nonce_form_irrelevant : forall d a m k ht, arg_meaning a = Some m -> k <> 0 ->
  lib_sign_forms d a (Some k) ht = lib_sign d m (Some k) ht.
Proof. exact sign_forms_explicit. Qed.

(* any case, no nonce given: the VALUE that is signed is the meaning; only the nonce comes from the text
   (finding hex_case_changes_nonce: upper / mixed-case text of at most 32 bytes) *)
Theorem sign_form_reaches_nonce_only : forall d a m ht, arg_meaning a = Some m ->
  exists t, unhex t = Some (lib_digest m) /\
            lib_sign_forms d a None ht = lib_sign_forms d a (Some (rfc6979_nonce d (sha256 t))) ht /\
            (rfc6979_nonce d (sha256 t) <> 0 ->
             lib_sign_forms d a None ht = lib_sign d m (Some (rfc6979_nonce d (sha256 t))) ht).
Proof. exact sign_forms_value. Qed.

Theorem sign_upper_text_is_lib_sign_upper : forall d m ht, lib_nonce_upper d m <> 0 ->
  lib_sign_forms d (PText (hex_ascii_upper m)) None ht = lib_sign_upper d m ht.
Proof. exact sign_forms_upper. Qed.

(* the hypotheses are satisfiable; hex-looking BYTES keep their own value *)
Example argument_form_witness :
  arg_meaning (PText (hex_ascii_upper w3_dg)) = Some w3_dg /\ arg_meaning (PText (hex_ascii w3_strict)) = Some w3_strict /\
  arg_meaning (PBytes w8_pk) = Some w8_pk /\
  lib_verify_forms (PText (hex_ascii_upper w3_dg)) (PText (hex_ascii w3_strict)) (PBytes w8_pk) = Some true /\
  lib_verify_key w3_dg w3_strict w8_pk = Some true /\
  arg_meaning (PBytes (hex_ascii w3_dg)) = Some (hex_ascii w3_dg) /\ hex_ascii w3_dg <> w3_dg.
Proof. exact w15_mixed_forms. Qed.

Example hexlike_bytes_digest_witness :
  length w14_D = 32%nat /\ unhex w14_D = Some (be_bytes 16 0x0123456789abcdef0123456789abcdef) /\
  lib_z (dg_via_verify (PBytes w14_D)) = of_be w14_D /\ lib_z (dg_via_set (PBytes w14_D)) = of_be w14_D /\
  lib_z (dg_via_verify (PText (hex_ascii_upper w14_D))) = of_be w14_D /\
  lib_create_text (PBytes w14_D) = Some (hex_ascii w14_D).
Proof. exact w14_hexlike_bytes_digest. Qed.

(* OUTSIDE the meanings.  Finding spaced_digest_text: a digest text with white space (which bytes.fromhex, the
   library's own test for "is hex", accepts) — the C code counts the white space as digits when it cuts the integer
   to 256 bits, so verify judges another number: W11 is accepted for '<64 digits>\n' and rejected for the digest
   those digits spell *)
Example verify_spaced_digest_refuted :
  arg_meaning (PText w11_text) = None /\ py_fromhex w11_text = Some w11_D /\
  lib_to_hexstring (PText w11_text) = w11_text /\ c_digest w11_text = bits2int w11_D / 16 /\
  lib_verify_forms (PText w11_text) (PBytes w11_sig) (PBytes w8_pk) = Some true /\
  lib_verify_forms (PBytes w11_D) (PBytes w11_sig) (PBytes w8_pk) = Some false /\
  lib_verify_forms (PText (hex_ascii w11_D)) (PBytes w11_sig) (PBytes w8_pk) = Some false /\
  spec_verify_key (lib_z w11_D) w11_sig w8_pk = Some false.
Proof. exact w11_newline_digest. Qed.

(* ... and Signature.create counts CHARACTERS: a 32-byte digest spelled with blanks is longer than 64 and its double
   SHA-256 is signed instead of the digest *)
Example sign_spaced_digest_refuted :
  arg_meaning (PText (spaced w11_D)) = None /\ py_fromhex (spaced w11_D) = Some w11_D /\
  lib_create_text (PText (spaced w11_D)) = Some (hex_ascii (sha256d w11_D)) /\
  lib_create_text (PBytes w11_D) = Some (hex_ascii w11_D) /\
  lib_create_text (PText (hex_ascii_upper w11_D)) = Some (hex_ascii_upper w11_D).
Proof. exact w11_spaced_digest_signed_hashed. Qed.

(* Finding nonhex_digest_text: text that is not base-16 under any reading is judged by verify as its UTF-8 bytes
   (to_hexstring's second guess) and signed as the integer 0 (the C code's failed conversion), whatever it says *)
Theorem nonhex_text_judged_as_utf8 : forall s sg key, py_fromhex s = None ->
  lib_verify_forms (PText s) sg key = lib_verify_forms (PBytes s) sg key.
Proof. exact Proofs.EcdsaForms.nonhex_text_judged_as_utf8. Qed.

Theorem nonhex_text_signed_as_zero : forall d s k ht, clean_text s = false -> (length s <= 64)%nat -> k <> 0 ->
  lib_sign_forms d (PText s) (Some k) ht =
  if (1 <=? d) && (d <? secp_n) then
    match ecdsa_sign d 0 k with
    | None => None
    | Some (r, s0) =>
        if (0 <=? ht) && (ht <? 256) then Some (r, lib_low_s s0, der_enc r (lib_low_s s0) ++ [zb ht]) else None
    end
  else None.
Proof. exact Proofs.EcdsaForms.nonhex_text_signed_as_zero. Qed.

Example nonhex_digest_text_refuted :
  arg_meaning (PText w12_text) = None /\ py_fromhex w12_text = None /\ py_fromhex w12_text' = None /\
  lib_to_hexstring (PText w12_text) = hex_ascii w12_text /\
  lib_create_text (PText w12_text) = Some w12_text /\ c_digest w12_text = 0 /\ c_digest w12_text' = 0 /\
  clean_text w12_text = false /\ clean_text w12_text' = false.
Proof. exact w12_nonhex_text. Qed.

Print Assumptions sign_verifies.
Print Assumptions executable_is_generic.
Print Assumptions lib_sign_verifies.
Print Assumptions lib_sign_low_s.
Print Assumptions der_strict.
Print Assumptions der_roundtrip.
Print Assumptions der_canonical.
Print Assumptions lib_sign_encoding.
Print Assumptions lib_sign_parse_roundtrip.
Print Assumptions nonce_is_rfc6979.
Print Assumptions explicit_nonce_is_used.
Print Assumptions lib_sign_refuses_bad_key.
Print Assumptions lib_verify_exact.
Print Assumptions lib_pub_point_exact.
Print Assumptions lib_verify_point_exact.
Print Assumptions lib_parse_exact.
Print Assumptions sign_session_is_function.
Print Assumptions sign_session_position_independent.
Print Assumptions sign_session_repeatable.
Print Assumptions sign_session_all_low_s.
Print Assumptions verify_session_is_function.
Print Assumptions signed_object_session.
Print Assumptions verify_session_exact.
Print Assumptions verify_defaults_replay.
Print Assumptions verify_defaults_keep_key.
Print Assumptions verify_text_key_is_bytes_key.
Print Assumptions verify_argument_form_irrelevant.
Print Assumptions verify_bytes_and_text_agree.
Print Assumptions verify_forms_exact.
Print Assumptions verify_step_form_irrelevant.
Print Assumptions parsed_session_form_irrelevant.
Print Assumptions values_session_form_irrelevant.
Print Assumptions signed_session_form_irrelevant.
Print Assumptions parse_argument_form_irrelevant.
Print Assumptions sign_argument_form_irrelevant.
Print Assumptions sign_explicit_nonce_form_irrelevant.
Print Assumptions sign_form_reaches_nonce_only.
Print Assumptions sign_upper_text_is_lib_sign_upper.
Print Assumptions nonhex_text_judged_as_utf8.
Print Assumptions nonhex_text_signed_as_zero.
Print Assumptions parse_entry_points_read_meaning.
Print Assumptions sign_session_forms_is_function.
