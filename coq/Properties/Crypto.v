(* Properties/Crypto.v — what is PROVED about the shared executable crypto foundation (coq/Crypto/*.v):
   output lengths, facts about the curve constants, and their tie to the constants regenerated from /repo.
   That the transcriptions equal the standards is validated differentially (./check CRYPTO), not proved;
   the group law of the curve instance and primality of p, n are not proved. *)
From Coq Require Import ZArith List.
From Verif Require Import Lib.Bytes Gen.GenConsts.
From Verif Require Import Crypto.Sha256 Crypto.Sha512 Crypto.Ripemd160 Crypto.Hmac Crypto.Secp256k1.
From Verif Require Import Crypto.HashLemmas Crypto.Secp256k1Lemmas Crypto.Secp256k1Glue.
Open Scope Z_scope.

Theorem crypto_sha256_length : forall m, length (sha256 m) = 32%nat.
Proof. exact sha256_length. Qed.

Theorem crypto_sha512_length : forall m, length (sha512 m) = 64%nat.
Proof. exact sha512_length. Qed.

Theorem crypto_ripemd160_length : forall m, length (ripemd160 m) = 20%nat.
Proof. exact ripemd160_length. Qed.

Theorem crypto_hash160_length : forall m, length (hash160 m) = 20%nat.
Proof. exact hash160_length. Qed.

Theorem crypto_hmac_sha256_length : forall key msg, length (hmac_sha256 key msg) = 32%nat.
Proof. exact hmac_sha256_length. Qed.

Theorem crypto_hmac_sha512_length : forall key msg, length (hmac_sha512 key msg) = 64%nat.
Proof. exact hmac_sha512_length. Qed.

Theorem crypto_pbkdf2_length : forall pw salt it dklen, length (pbkdf2_hmac_sha512 pw salt it dklen) = dklen.
Proof. exact pbkdf2_hmac_sha512_length. Qed.

Theorem crypto_consts_from_repo :
  secp_p = secp256k1_p /\ secp_n = secp256k1_n /\ secp_Gx = secp256k1_Gx /\ secp_Gy = secp256k1_Gy /\
  secp256k1_a = 0 /\ secp_b = secp256k1_b.
Proof. exact secp_consts_glue. Qed.

Theorem crypto_G_on_curve : on_curve secp_G = true.
Proof. exact secp_G_on_curve. Qed.

Theorem crypto_n_G : pt_mul secp_n secp_G = None.
Proof. exact secp_n_G. Qed.

Theorem crypto_p_mod_4 : secp_p mod 4 = 3.
Proof. exact secp_p_mod_4. Qed.

Theorem crypto_sqrt_exp : 4 * secp_sqrt_exp = secp_p + 1.
Proof. exact secp_sqrt_exp_eq. Qed.

Theorem crypto_decompress_on_curve : forall par x x' y,
  decompress par x = Some (x', y) -> x' = x /\ on_curve (Some (x', y)) = true.
Proof. exact decompress_on_curve. Qed.

Theorem crypto_ecdsa_verify_range : forall z r s Q,
  ecdsa_verify z r s Q = true -> 1 <= r < secp_n /\ 1 <= s < secp_n /\ Q <> None.
Proof. exact ecdsa_verify_range. Qed.

Theorem crypto_ecdsa_sign_range : forall d z k r s,
  ecdsa_sign d z k = Some (r, s) -> 1 <= r < secp_n /\ 1 <= s < secp_n.
Proof. exact ecdsa_sign_range. Qed.

Theorem crypto_ser_point_compressed_length : forall x y, length (ser_point_compressed (Some (x, y))) = 33%nat.
Proof. exact ser_point_compressed_length. Qed.

Theorem crypto_ser_point_uncompressed_length : forall x y, length (ser_point_uncompressed (Some (x, y))) = 65%nat.
Proof. exact ser_point_uncompressed_length. Qed.

Print Assumptions crypto_sha256_length.
Print Assumptions crypto_sha512_length.
Print Assumptions crypto_ripemd160_length.
Print Assumptions crypto_hash160_length.
Print Assumptions crypto_hmac_sha256_length.
Print Assumptions crypto_hmac_sha512_length.
Print Assumptions crypto_pbkdf2_length.
Print Assumptions crypto_consts_from_repo.
Print Assumptions crypto_G_on_curve.
Print Assumptions crypto_n_G.
Print Assumptions crypto_p_mod_4.
Print Assumptions crypto_sqrt_exp.
Print Assumptions crypto_decompress_on_curve.
Print Assumptions crypto_ecdsa_verify_range.
Print Assumptions crypto_ecdsa_sign_range.
Print Assumptions crypto_ser_point_compressed_length.
Print Assumptions crypto_ser_point_uncompressed_length.
