(* Properties/C08.v — wallet ledger stays consistent over any history and survives reopening.
   Model: Model/Ledger.v ([step] mirrors bitcoinlib/wallets.py with fixes/C08-1..3 applied, [step_orig] the code
   before them).  Only statements, witnesses and Print Assumptions here. *)
From Coq Require Import ZArith List Bool.
From Verif Require Import Lib.Bytes Model.Ledger Proofs.LedgerBalance Proofs.LedgerInv Proofs.LedgerGroups
  Proofs.LedgerWitness.
Import ListNotations.
Open Scope Z_scope.

(* Inv s := well-formed keys /\ every output consumed by a sent transaction present in the ledger is spent *)
Theorem inv_init : forall d b, Inv (init d b).
Proof. exact inv_init_proof. Qed.

Theorem inv_step : forall s o, Inv s -> op_ok s o = true -> Inv (fst (step s o)).
Proof. exact inv_step_proof. Qed.

Theorem inv_reachable : forall ops s, Inv s -> ops_ok s ops = true -> Inv (run s ops).
Proof. exact inv_run_proof. Qed.

(* reported balance = sum of unspent outputs = sum of per-key balances, for every (network, account) *)
Theorem balance_after_update : forall s g, WF s ->
  let s' := balance_update true f_all s in reported s' g = usum s' g /\ ksum s' g = usum s' g.
Proof. exact balance_consistent. Qed.

Theorem ledger_consistent : forall d b ops g,
  ops_ok (init d b) ops = true ->
  let s' := fst (step (run (init d b) ops) Balance) in
  reported s' g = usum s' g /\ ksum s' g = usum s' g /\
  (forall u, In u (utxos s' (l_default s') 0) -> spent_by_sent (l_txs s') (u_txid u) (u_n u) = false).
Proof. exact ledger_consistent_proof. Qed.

(* the same with every clause PER GROUP: for every (network, account) of the wallet, not only the default one, the
   reported balance, the unspent outputs and the key balances agree, and nothing listed for the group (at any
   confirmation threshold) is consumed by a sent transaction the ledger holds *)
Theorem ledger_consistent_groups : forall d b ops,
  ops_ok (init d b) ops = true ->
  let s' := fst (step (run (init d b) ops) Balance) in
  forall g,
  reported s' g = usum s' g /\ ksum s' g = usum s' g /\
  (forall mc u, In u (utxos s' g mc) -> spent_by_sent (l_txs s') (u_txid u) (u_n u) = false).
Proof. exact ledger_consistent_groups_proof. Qed.

(* ... and stays so through any sequence of reading calls after it: balance(account_id, network) with its
   filtered cache / key-balance update, utxos(account_id, network, min_confirms), selection checks *)
Theorem groups_consistent_after_queries : forall d b ops qs,
  ops_ok (init d b) ops = true -> forallb is_query qs = true ->
  let s' := run (fst (step (run (init d b) ops) Balance)) qs in
  forall g, reported s' g = usum s' g /\ ksum s' g = usum s' g.
Proof. exact groups_consistent_after_queries_proof. Qed.

(* balance(account_id=fa, network=fn) returns the sum of the unspent outputs of the group it names *)
Theorem balance_of_value : forall s fa fn,
  WF s -> snd (step s (BalanceOf fa fn)) = OBal (usum s (lookup_grp s fa fn)).
Proof. exact balance_of_value_proof. Qed.

(* no guarded history reaches a ledger with an output of a key of one group in a transaction of another *)
Theorem no_cross_reachable : forall d b ops,
  ops_ok (init d b) ops = true -> has_cross (run (init d b) ops) = false.
Proof. exact no_cross_reachable_proof. Qed.

Theorem select_never_spent : forall s g minconf sel txid n,
  Inv s -> snd (step s (Select g minconf sel)) = OSel true -> In (txid, n) sel ->
  spent_by_sent (l_txs s) txid n = false.
Proof. exact select_never_spent_proof. Qed.

Theorem reload_equal : forall s,
  persisted (fst (step s Reopen)) = persisted s /\
  l_default (fst (step s Reopen)) = l_default s /\
  (forall g mc, utxos (fst (step s Reopen)) g mc = utxos s g mc) /\
  snd (step (fst (step s Reopen)) Utxos) = snd (step s Utxos).
Proof. exact reload_equal_proof. Qed.

(* ---------------------------------------------------------------- witnesses *)
(* non-vacuity: a history with receive, send with change, second send spending the change, reopen and delete of
   the second send meets every precondition; the ledger then reports 139 995 301 = its two unspent outputs = the
   key balances (concrete operations: Proofs/LedgerWitness.v) *)
Example history_ok :
  let ops := [NewKey 6 G0 5; NewKey 8 G0 5; recv; Select G0 1 [(101, 0)]; Store true pay_a; Balance;
              Store true pay_c; Reopen; Delete 903; Balance] in
  ops_ok (init G0 true) ops = true /\
  let s := run (init G0 true) ops in
  reported s G0 = 139995301 /\ usum s G0 = 139995301 /\ ksum s G0 = 139995301 /\
  map (fun u => (u_txid u, u_n u)) (utxos s G0 0) = [(102, 0); (901, 1)].
Proof. vm_compute. repeat split. Qed.

(* non-vacuity, several accounts: keys 6 and 9 of account 0 lie below and above key 8 of account 1 in key-id order;
   all three are funded, account 1 pays out with change, the wallet is reopened.  Every precondition holds, the
   reading calls are queries, and each account reports its own unspent outputs = its own key balances *)
Example groups_history_ok :
  let ops := [NewKey 6 G0 5; NewKey 8 G1 5; NewKey 9 G0 5; recv_a0; recv_a1; Balance; BalanceOf (Some 1) None;
              Select G1 1 [(202, 0)]; Store true pay_a1; Reopen] in
  let qs := [BalanceOf (Some 1) None; UtxosOf G1 0; BalanceOf (Some 0) None; UtxosOf G0 1; Utxos] in
  ops_ok (init G0 true) ops = true /\ forallb is_query qs = true /\
  let s := run (fst (step (run (init G0 true) ops) Balance)) qs in
  reported s G0 = 500000 /\ usum s G0 = 500000 /\ ksum s G0 = 500000 /\
  reported s G1 = 7000 /\ usum s G1 = 7000 /\ ksum s G1 = 7000 /\
  snd (step s (BalanceOf (Some 1) None)) = OBal 7000 /\ snd (step s Balance) = OBal 500000 /\
  map (fun u => (u_txid u, u_n u)) (utxos s G1 0) = [(904, 1)] /\ has_cross s = false.
Proof. vm_compute. repeat split. Qed.

(* the precondition of UtxosUpdate / Store on the key's group is needed (recorded finding cross_account_output):
   an output of key 8 (account 1) handed over without naming its account lands in a transaction of account 0;
   account 0 then reports 5000 that no key of account 0 holds, and the keys of account 1 hold 5000 more than
   utxos(account 1) lists *)
Example cross_account_refuted :
  let ops := [NewKey 6 G0 5; NewKey 8 G1 5; recv_a1] in
  let s := run (init G0 true) ops in
  ops_ok (init G0 true) ops = true /\ op_ok s recv_cross = false /\
  let s' := fst (step (fst (step s recv_cross)) Balance) in
  has_cross s' = true /\
  reported s' G0 = 5000 /\ usum s' G0 = 5000 /\ ksum s' G0 = 0 /\
  reported s' G1 = 20000 /\ usum s' G1 = 20000 /\ ksum s' G1 = 25000.
Proof. vm_compute. repeat split. Qed.

(* finding 19 (code before fixes/C08-1): utxos_update; sweep(broadcast); balance() keeps reporting 200 000 000
   although nothing is unspent — the balance clause fails for the original _balance_update *)
Example balance_update_orig_refuted :
  let ops := [NewKey 6 G0 5; recv; Balance; Store true sweep_tx; Balance] in
  ops_ok (init G0 true) ops = true /\
  let s := run_gen false false (init G0 true) ops in
  reported s G0 = 200000000 /\ usum s G0 = 0 /\ ksum s G0 = 0 /\
  reported (run (init G0 true) ops) G0 = 0.
Proof. vm_compute. repeat split. Qed.

(* code before fixes/C08-2: with two sent transactions spending the same output, deleting one lists the output as
   unspent although the other one, still in the ledger, consumes it; the repaired delete keeps it spent *)
Example delete_orig_refuted :
  let ops := [NewKey 6 G0 5; NewKey 8 G0 5; recv; Store true pay_a; Store true pay_b; Delete 902] in
  ops_ok (init G0 true) ops = true /\
  let s := run_gen true false (init G0 true) ops in
  existsb (fun u => (u_txid u =? 101) && (u_n u =? 0)) (utxos s G0 0) = true /\
  spent_by_sent (l_txs s) 101 0 = true /\
  existsb (fun u => (u_txid u =? 101) && (u_n u =? 0)) (utxos (run (init G0 true) ops) G0 0) = false.
Proof. vm_compute. repeat split. Qed.

(* the precondition of Store is needed (recorded finding restore_resets_spent): storing the object of pay_a again
   after pay_c, which spends its change, has been sent resets the change output to unspent *)
Example restore_refuted :
  let ops := [NewKey 6 G0 5; NewKey 8 G0 5; recv; Store true pay_a; Store true pay_c] in
  let s := run (init G0 true) ops in
  ops_ok (init G0 true) ops = true /\ op_ok s (Store false pay_a) = false /\
  store_respends s (Store false pay_a) = true /\
  let s' := fst (step s (Store false pay_a)) in
  existsb (fun u => (u_txid u =? 901) && (u_n u =? 1)) (utxos s' G0 0) = true /\
  spent_by_sent (l_txs s') 901 1 = true.
Proof. vm_compute. repeat split. Qed.

Print Assumptions inv_init.
Print Assumptions inv_step.
Print Assumptions inv_reachable.
Print Assumptions balance_after_update.
Print Assumptions ledger_consistent.
Print Assumptions ledger_consistent_groups.
Print Assumptions groups_consistent_after_queries.
Print Assumptions balance_of_value.
Print Assumptions no_cross_reachable.
Print Assumptions select_never_spent.
Print Assumptions reload_equal.
