(* Properties/C08.v — wallet ledger stays consistent over any history and survives reopening.
   Model: Model/Ledger.v ([step] mirrors bitcoinlib/wallets.py with fixes/C08-1..3 applied, [step_orig] the code
   before them).  Only statements, witnesses and Print Assumptions here. *)
From Coq Require Import ZArith List Bool.
From Verif Require Import Lib.Bytes Model.Ledger Proofs.LedgerBalance Proofs.LedgerInv Proofs.LedgerGroups
  Proofs.LedgerDb Proofs.LedgerWitness Proofs.LedgerDefault.
Import ListNotations.
Open Scope Z_scope.

(* Inv s := well-formed keys /\ every output consumed by a sent transaction present in the ledger is spent *)
Theorem inv_init : forall d b, Inv (init d b).
Proof. exact inv_init_proof. Qed.

Theorem inv_step : forall s o, Inv s -> op_ok s o = true -> Inv (fst (step s o)).
Proof. exact inv_step_proof. Qed.

Theorem inv_reachable : forall ops s, Inv s -> ops_ok s ops = true -> Inv (run s ops).
Proof. exact inv_run_proof. Qed.

(* reported balance = sum of unspent outputs = sum of per-key balances, for every (network, account) *)
Theorem balance_after_update : forall s g, WF s ->
  let s' := balance_update true f_all s in reported s' g = usum s' g /\ ksum s' g = usum s' g.
Proof. exact balance_consistent. Qed.

Theorem ledger_consistent : forall d b ops g,
  ops_ok (init d b) ops = true ->
  let s' := fst (step (run (init d b) ops) Balance) in
  reported s' g = usum s' g /\ ksum s' g = usum s' g /\
  (forall u, In u (utxos s' (l_default s') 0) -> spent_by_sent (l_txs s') (u_txid u) (u_n u) = false).
Proof. exact ledger_consistent_proof. Qed.

(* the same with every clause PER GROUP: for every (network, account) of the wallet, not only the default one, the
   reported balance, the unspent outputs and the key balances agree, and nothing listed for the group (at any
   confirmation threshold) is consumed by a sent transaction the ledger holds *)
Theorem ledger_consistent_groups : forall d b ops,
  ops_ok (init d b) ops = true ->
  let s' := fst (step (run (init d b) ops) Balance) in
  forall g,
  reported s' g = usum s' g /\ ksum s' g = usum s' g /\
  (forall mc u, In u (utxos s' g mc) -> spent_by_sent (l_txs s') (u_txid u) (u_n u) = false).
Proof. exact ledger_consistent_groups_proof. Qed.

(* ... and stays so through any sequence of reading calls after it: balance(account_id, network) with its
   filtered cache / key-balance update, utxos(account_id, network, min_confirms), selection checks *)
Theorem groups_consistent_after_queries : forall d b ops qs,
  ops_ok (init d b) ops = true -> forallb is_query qs = true ->
  let s' := run (fst (step (run (init d b) ops) Balance)) qs in
  forall g, reported s' g = usum s' g /\ ksum s' g = usum s' g.
Proof. exact groups_consistent_after_queries_proof. Qed.

(* balance(account_id=fa, network=fn) returns the sum of the unspent outputs of the group it names *)
Theorem balance_of_value : forall s fa fn,
  WF s -> snd (step s (BalanceOf fa fn)) = OBal (usum s (lookup_grp s fa fn)).
Proof. exact balance_of_value_proof. Qed.

(* no guarded history reaches a ledger with an output of a key of one group in a transaction of another *)
Theorem no_cross_reachable : forall d b ops,
  ops_ok (init d b) ops = true -> has_cross (run (init d b) ops) = false.
Proof. exact no_cross_reachable_proof. Qed.

Theorem select_never_spent : forall s g minconf sel txid n,
  Inv s -> snd (step s (Select g minconf sel)) = OSel true -> In (txid, n) sel ->
  spent_by_sent (l_txs s) txid n = false.
Proof. exact select_never_spent_proof. Qed.

Theorem reload_equal : forall s,
  persisted (fst (step s Reopen)) = persisted s /\
  l_default (fst (step s Reopen)) = l_default s /\
  (forall g mc, utxos (fst (step s Reopen)) g mc = utxos s g mc) /\
  snd (step (fst (step s Reopen)) Utxos) = snd (step s Utxos).
Proof. exact reload_equal_proof. Qed.

(* ---------------------------------------------------------------- the database file
   [dbase]: the wallets of one sqlite file, each with the view of its live Wallet object (session) and its committed
   rows; [db_step] = [db_step_gen lib_variant] mirrors the code as it is.  Synced w: the committed rows of w are the
   rows its live object sees.  DbInv D: every wallet of D satisfies Inv and is Synced. *)

(* durability, for EVERY operation kind (delete included) and without any precondition: after the operation the
   committed rows of every wallet are what its live object sees *)
Theorem durable_step : forall v D wid o,
  v_del_commits v = true -> DbSynced D -> DbSynced (fst (db_step_gen v D wid o)).
Proof. exact synced_step_proof. Qed.

(* ... so a second Wallet object on the file, another process, or the wallet after close + reopen reads the same
   keys, transactions (ids, inputs, outputs, amounts, raw bytes), and unspent outputs of every group *)
Theorem second_object_reads_live : forall w,
  Synced w ->
  persisted (open_disk w) = persisted (wl_live w) /\
  l_default (open_disk w) = l_default (wl_live w) /\
  (forall g mc, utxos (open_disk w) g mc = utxos (wl_live w) g mc) /\
  persisted (fst (step (open_disk w) Reopen)) = persisted (wl_live w).
Proof. exact second_object_reads_live_proof. Qed.

(* reload_equal after every operation of any history over the file, for every wallet of the file *)
Theorem reload_equal_every_op : forall xs w,
  In w (db_run lib_variant [] xs) ->
  persisted (open_disk w) = persisted (wl_live w) /\
  l_default (open_disk w) = l_default (wl_live w) /\
  (forall g mc, utxos (open_disk w) g mc = utxos (wl_live w) g mc) /\
  persisted (fst (step (open_disk w) Reopen)) = persisted (wl_live w).
Proof. exact reload_equal_every_op_proof. Qed.

(* an operation on one wallet keeps the invariant (and the durability) of EVERY wallet of the file *)
Theorem db_inv_step : forall v D wid o,
  good v -> DbInv D -> db_op_ok D wid o = true -> DbInv (fst (db_step_gen v D wid o)).
Proof. exact db_inv_step_proof. Qed.

Theorem db_inv_reachable : forall v xs,
  good v -> forall D, DbInv D -> db_ops_ok v D xs = true -> DbInv (db_run v D xs).
Proof. exact db_inv_run_proof. Qed.

(* the property for every wallet of the file after any guarded history over the file *)
Theorem db_ledger_consistent : forall xs,
  db_ops_ok lib_variant [] xs = true ->
  forall w, In w (db_run lib_variant [] xs) ->
  let s' := fst (step (wl_live w) Balance) in
  forall g,
  reported s' g = usum s' g /\ ksum s' g = usum s' g /\
  (forall mc u, In u (utxos s' g mc) -> spent_by_sent (l_txs s') (u_txid u) (u_n u) = false).
Proof. exact db_ledger_consistent_proof. Qed.

(* an operation on one wallet leaves every other wallet of the file exactly as it was (session view and committed
   rows), unless it is a send() consuming an outpoint which the other wallet lists as unspent *)
Theorem other_wallets_untouched : forall v D wid o x,
  In x D -> wl_id x <> wid -> touches_others v D wid o = false -> In x (fst (db_step_gen v D wid o)).
Proof. exact other_wallets_untouched_proof. Qed.

(* without the guard: the other wallet is as it was or carries the spent marks of the transaction just sent, nothing
   else (keys, key balances and in-memory balances are those of before: mark_wal changes transaction rows only) *)
Theorem other_wallets_only_marked : forall v D wid o x,
  In x D -> wl_id x <> wid ->
  In x (fst (db_step_gen v D wid o)) \/
  (exists d, o = Store true d /\ v_mark_all v = true /\ In (mark_wal (d_ins d) x) (fst (db_step_gen v D wid o))).
Proof. exact other_wallets_only_marked_proof. Qed.

(* with a send() restricted to the rows of its own wallet the guard is not needed *)
Theorem other_wallets_untouched_isolated : forall v D wid o x,
  v_mark_all v = false -> In x D -> wl_id x <> wid -> In x (fst (db_step_gen v D wid o)).
Proof. exact other_wallets_untouched_isolated_proof. Qed.

(* delete re-opens only outpoints the deleted transaction consumed: whatever is listed as unspent afterwards was
   listed before or is (txid, output_n) of one of ITS inputs — sibling outputs of the same funding transaction,
   consumed by other transactions, stay spent *)
Theorem delete_reopens_only_its_inputs : forall s txid d g mc u,
  find_tx (l_txs s) txid = Some d ->
  In u (utxos (delete_tx true txid s) g mc) ->
  In u (utxos s g mc) \/ consumed (t_ins d) (u_txid u) (u_n u) = true.
Proof. exact delete_reopens_only_its_inputs_proof. Qed.

(* ---------------------------------------------------------------- witnesses *)
(* non-vacuity: a history with receive, send with change, second send spending the change, reopen and delete of
   the second send meets every precondition; the ledger then reports 139 995 301 = its two unspent outputs = the
   key balances (concrete operations: Proofs/LedgerWitness.v) *)
Example history_ok :
  let ops := [NewKey 6 G0 5; NewKey 8 G0 5; recv; Select G0 1 [(101, 0)]; Store true pay_a; Balance;
              Store true pay_c; Reopen; Delete 903; Balance] in
  ops_ok (init G0 true) ops = true /\
  let s := run (init G0 true) ops in
  reported s G0 = 139995301 /\ usum s G0 = 139995301 /\ ksum s G0 = 139995301 /\
  map (fun u => (u_txid u, u_n u)) (utxos s G0 0) = [(102, 0); (901, 1)].
Proof. vm_compute. repeat split. Qed.

(* non-vacuity, several accounts: keys 6 and 9 of account 0 lie below and above key 8 of account 1 in key-id order;
   all three are funded, account 1 pays out with change, the wallet is reopened.  Every precondition holds, the
   reading calls are queries, and each account reports its own unspent outputs = its own key balances *)
Example groups_history_ok :
  let ops := [NewKey 6 G0 5; NewKey 8 G1 5; NewKey 9 G0 5; recv_a0; recv_a1; Balance; BalanceOf (Some 1) None;
              Select G1 1 [(202, 0)]; Store true pay_a1; Reopen] in
  let qs := [BalanceOf (Some 1) None; UtxosOf G1 0; BalanceOf (Some 0) None; UtxosOf G0 1; Utxos] in
  ops_ok (init G0 true) ops = true /\ forallb is_query qs = true /\
  let s := run (fst (step (run (init G0 true) ops) Balance)) qs in
  reported s G0 = 500000 /\ usum s G0 = 500000 /\ ksum s G0 = 500000 /\
  reported s G1 = 7000 /\ usum s G1 = 7000 /\ ksum s G1 = 7000 /\
  snd (step s (BalanceOf (Some 1) None)) = OBal 7000 /\ snd (step s Balance) = OBal 500000 /\
  map (fun u => (u_txid u, u_n u)) (utxos s G1 0) = [(904, 1)] /\ has_cross s = false.
Proof. vm_compute. repeat split. Qed.

(* the precondition of UtxosUpdate / Store on the key's group is needed (recorded finding cross_account_output):
   an output of key 8 (account 1) handed over without naming its account lands in a transaction of account 0;
   account 0 then reports 5000 that no key of account 0 holds, and the keys of account 1 hold 5000 more than
   utxos(account 1) lists *)
Example cross_account_refuted :
  let ops := [NewKey 6 G0 5; NewKey 8 G1 5; recv_a1] in
  let s := run (init G0 true) ops in
  ops_ok (init G0 true) ops = true /\ op_ok s recv_cross = false /\
  let s' := fst (step (fst (step s recv_cross)) Balance) in
  has_cross s' = true /\
  reported s' G0 = 5000 /\ usum s' G0 = 5000 /\ ksum s' G0 = 0 /\
  reported s' G1 = 20000 /\ usum s' G1 = 20000 /\ ksum s' G1 = 25000.
Proof. vm_compute. repeat split. Qed.

(* finding 19 (code before fixes/C08-1): utxos_update; sweep(broadcast); balance() keeps reporting 200 000 000
   although nothing is unspent — the balance clause fails for the original _balance_update *)
Example balance_update_orig_refuted :
  let ops := [NewKey 6 G0 5; recv; Balance; Store true sweep_tx; Balance] in
  ops_ok (init G0 true) ops = true /\
  let s := run_gen false false (init G0 true) ops in
  reported s G0 = 200000000 /\ usum s G0 = 0 /\ ksum s G0 = 0 /\
  reported (run (init G0 true) ops) G0 = 0.
Proof. vm_compute. repeat split. Qed.

(* code before fixes/C08-2: with two sent transactions spending the same output, deleting one lists the output as
   unspent although the other one, still in the ledger, consumes it; the repaired delete keeps it spent *)
Example delete_orig_refuted :
  let ops := [NewKey 6 G0 5; NewKey 8 G0 5; recv; Store true pay_a; Store true pay_b; Delete 902] in
  ops_ok (init G0 true) ops = true /\
  let s := run_gen true false (init G0 true) ops in
  existsb (fun u => (u_txid u =? 101) && (u_n u =? 0)) (utxos s G0 0) = true /\
  spent_by_sent (l_txs s) 101 0 = true /\
  existsb (fun u => (u_txid u =? 101) && (u_n u =? 0)) (utxos (run (init G0 true) ops) G0 0) = false.
Proof. vm_compute. repeat split. Qed.

(* the precondition of Store is needed (recorded finding restore_resets_spent): storing the object of pay_a again
   after pay_c, which spends its change, has been sent resets the change output to unspent *)
Example restore_refuted :
  let ops := [NewKey 6 G0 5; NewKey 8 G0 5; recv; Store true pay_a; Store true pay_c] in
  let s := run (init G0 true) ops in
  ops_ok (init G0 true) ops = true /\ op_ok s (Store false pay_a) = false /\
  store_respends s (Store false pay_a) = true /\
  let s' := fst (step s (Store false pay_a)) in
  existsb (fun u => (u_txid u =? 901) && (u_n u =? 1)) (utxos s' G0 0) = true /\
  spent_by_sent (l_txs s') 901 1 = true.
Proof. vm_compute. repeat split. Qed.

(* non-vacuity, several outputs of one funding transaction: 301:0 (key 6) and 301:1 (key 8) are spent by two sent
   transactions; deleting the second one re-opens 301:1 only, 301:0 stays spent and the balance is 50 000 *)
Example siblings_ok :
  let ops := [NewKey 6 G0 5; NewKey 8 G0 5; recv2; Select G0 1 [(301, 0)]; Store true pay_x;
              Select G0 1 [(301, 1)]; Store true pay_y; Delete 912; Balance] in
  ops_ok (init G0 true) ops = true /\
  let s := run (init G0 true) ops in
  reported s G0 = 50000 /\ usum s G0 = 50000 /\ ksum s G0 = 50000 /\
  map (fun u => (u_txid u, u_n u)) (utxos s G0 0) = [(301, 1)] /\
  spent_by_sent (l_txs s) 301 0 = true /\ spent_by_sent (l_txs s) 301 1 = false.
Proof. vm_compute. repeat split. Qed.

(* non-vacuity, two wallets in one file which both registered 101:0 and 102:0 (wallet 1 first); wallet 2 spends
   101:0.  Every precondition holds; wallet 2 reports 139 995 301 = its unspent outputs = its key balances; the send
   reached into wallet 1 (touches_others), whose row of 101:0 is spent now and whose balance() then reports
   100 000 000 = its unspent outputs = its key balances; both wallets are durable *)
Example file_history_ok :
  db_ops_ok lib_variant [] file_history = true /\
  let D := db_run lib_variant [] file_history in
  match find_wal D 1, find_wal D 2 with
  | Some w1, Some w2 =>
      reported (wl_live w2) G0 = 139995301 /\ usum (wl_live w2) G0 = 139995301 /\ ksum (wl_live w2) G0 = 139995301 /\
      map (fun u => (u_txid u, u_n u)) (utxos (wl_live w1) G0 0) = [(102, 0)] /\
      wl_disk w1 = persisted (wl_live w1) /\ wl_disk w2 = persisted (wl_live w2) /\
      let s1 := fst (step (wl_live w1) Balance) in
      reported s1 G0 = 100000000 /\ usum s1 G0 = 100000000 /\ ksum s1 G0 = 100000000
  | _, _ => False
  end.
Proof. vm_compute. repeat split. Qed.

(* the guard of other_wallets_untouched is needed for the code as it is: before wallet 2 sends, wallet 1 lists
   101:0 and 102:0; the send reaches into wallet 1 (class predicate touches_others) and wallet 1 lists 102:0 only,
   its key 6 still carrying the balance 200 000 000 until its next balance().  With a send() restricted to its own
   wallet (v_mark_all = false) wallet 1 is what it was *)
Example other_wallets_untouched_refuted :
  let D := db_run lib_variant [] (firstn 9 file_history) in
  let o := Store true pay_w2 in
  touches_others lib_variant D 2 o = true /\
  match find_wal D 1, find_wal (fst (db_step D 2 o)) 1,
        find_wal (fst (db_step_gen (mkVar true true true false false) D 2 o)) 1 with
  | Some w1, Some w1', Some w1'' =>
      map (fun u => (u_txid u, u_n u)) (utxos (wl_live w1) G0 0) = [(101, 0); (102, 0)] /\
      map (fun u => (u_txid u, u_n u)) (utxos (wl_live w1') G0 0) = [(102, 0)] /\
      map k_bal (l_keys (wl_live w1')) = [200000000; 0] /\ usum (wl_live w1') G0 = 100000000 /\
      map (fun u => (u_txid u, u_n u)) (utxos (wl_live w1'') G0 0) = [(101, 0); (102, 0)]
  | _, _, _ => False
  end.
Proof. vm_compute. repeat split. Qed.

(* durable_step needs "delete ends in a commit": in the variant without it the wallet object no longer holds the
   deleted transaction 901 and lists 101:0 again, while a second Wallet object on the file (open_disk) still finds 901
   and does not list 101:0; in the code as it is both agree *)
Example delete_uncommitted_refuted :
  let xs := [DCreate 1 G0 true; DOp 1 (NewKey 6 G0 5); DOp 1 (NewKey 8 G0 5); DOp 1 recv; DOp 1 (Store true pay_a);
             DOp 1 (Delete 901)] in
  match find_wal (db_run nocommit_variant [] xs) 1, find_wal (db_run lib_variant [] xs) 1 with
  | Some w, Some w' =>
      has_tx (l_txs (wl_live w)) 901 = false /\ has_tx (l_txs (open_disk w)) 901 = true /\
      map (fun u => (u_txid u, u_n u)) (utxos (wl_live w) G0 0) = [(101, 0); (102, 0)] /\
      map (fun u => (u_txid u, u_n u)) (utxos (open_disk w) G0 0) = [(102, 0); (901, 1)] /\
      has_tx (l_txs (open_disk w')) 901 = false /\
      map (fun u => (u_txid u, u_n u)) (utxos (open_disk w') G0 0) = [(101, 0); (102, 0)]
  | _, _ => False
  end.
Proof. vm_compute. repeat split. Qed.

(* recorded finding delete_shared_txid: delete() looks its transaction row up by txid only; when another wallet of
   the file holds a transaction with the same id the call raises and nothing changes (DRefused).  With the lookup
   restricted to the wallet (own_variant, fixes/C08-8) wallet 1 loses its row of 101 and wallet 2 keeps its own *)
Example delete_shared_refused :
  let D := db_run lib_variant [] (firstn 8 file_history) in
  delete_blocked lib_variant D 1 (Delete 101) = true /\
  snd (db_step D 1 (Delete 101)) = DRefused /\ fst (db_step D 1 (Delete 101)) = D /\
  match find_wal (fst (db_step_gen own_variant D 1 (Delete 101))) 1,
        find_wal (fst (db_step_gen own_variant D 1 (Delete 101))) 2, find_wal D 2 with
  | Some w1, Some w2, Some w2' => has_tx (l_txs (wl_live w1)) 101 = false /\ has_tx (snd (wl_disk w1)) 101 = false /\
                                  has_tx (l_txs (wl_live w2)) 101 = true /\ w2 = w2'
  | _, _, _ => False
  end.
Proof. vm_compute. repeat split. Qed.

(* Round 3 — a reading that names its account does not depend on the wallet's default account: balance(account_id=a),
   utxos(account_id=a) of a wallet whose default account is d are those of the same ledger under any other default
   (only an argument left EMPTY is replaced by the default: account 0 named explicitly stays account 0); the key
   balances and the balance cache the call leaves behind are the same too. *)
Theorem named_account_ignores_default : forall s a fn d,
  snd (step s (BalanceOf (Some a) fn)) = snd (step (with_default_account s d) (BalanceOf (Some a) fn)) /\
  (forall g mc, snd (step s (UtxosOf g mc)) = snd (step (with_default_account s d) (UtxosOf g mc))) /\
  l_keys (fst (step s (BalanceOf (Some a) fn))) = l_keys (fst (step (with_default_account s d) (BalanceOf (Some a) fn))) /\
  l_cache (fst (step s (BalanceOf (Some a) fn))) = l_cache (fst (step (with_default_account s d) (BalanceOf (Some a) fn))).
Proof. exact named_account_ignores_default_proof. Qed.

(* a wallet with default account 1 holding 100 in account 0 and 50 in account 1: the named reading of account 0 is 100
   under either default, the unnamed reading follows the default (so the name is what matters) *)
Example named_account_ok :
  snd (step two_accounts (BalanceOf (Some 0) None)) = OBal 100 /\
  snd (step (with_default_account two_accounts 0) (BalanceOf (Some 0) None)) = OBal 100 /\
  snd (step two_accounts Balance) = OBal 50 /\
  snd (step (with_default_account two_accounts 0) Balance) = OBal 100 /\
  map u_value (utxos two_accounts (0, 0) 0) = [100] /\ map u_value (utxos two_accounts (l_default two_accounts) 0) = [50].
Proof. exact named_account_example. Qed.

Print Assumptions inv_init.
Print Assumptions inv_step.
Print Assumptions inv_reachable.
Print Assumptions balance_after_update.
Print Assumptions ledger_consistent.
Print Assumptions ledger_consistent_groups.
Print Assumptions groups_consistent_after_queries.
Print Assumptions balance_of_value.
Print Assumptions no_cross_reachable.
Print Assumptions select_never_spent.
Print Assumptions reload_equal.
Print Assumptions durable_step.
Print Assumptions second_object_reads_live.
Print Assumptions reload_equal_every_op.
Print Assumptions db_inv_step.
Print Assumptions db_inv_reachable.
Print Assumptions db_ledger_consistent.
Print Assumptions other_wallets_untouched.
Print Assumptions other_wallets_only_marked.
Print Assumptions other_wallets_untouched_isolated.
Print Assumptions delete_reopens_only_its_inputs.
Print Assumptions named_account_ignores_default.
