(* Properties/C08.v — wallet ledger stays consistent over any history and survives reopening.
   Model: Model/Ledger.v ([step] mirrors bitcoinlib/wallets.py with fixes/C08-1..3 applied, [step_orig] the code
   before them).  Only statements, witnesses and Print Assumptions here. *)
From Coq Require Import ZArith List Bool.
From Verif Require Import Lib.Bytes Model.Ledger Proofs.LedgerBalance Proofs.LedgerInv Proofs.LedgerWitness.
Import ListNotations.
Open Scope Z_scope.

(* Inv s := well-formed keys /\ every output consumed by a sent transaction present in the ledger is spent *)
Theorem inv_init : forall d b, Inv (init d b).
Proof. exact inv_init_proof. Qed.

Theorem inv_step : forall s o, Inv s -> op_ok s o = true -> Inv (fst (step s o)).
Proof. exact inv_step_proof. Qed.

Theorem inv_reachable : forall ops s, Inv s -> ops_ok s ops = true -> Inv (run s ops).
Proof. exact inv_run_proof. Qed.

(* reported balance = sum of unspent outputs = sum of per-key balances, for every (network, account) *)
Theorem balance_after_update : forall s g, WF s ->
  let s' := balance_update true f_all s in reported s' g = usum s' g /\ ksum s' g = usum s' g.
Proof. exact balance_consistent. Qed.

Theorem ledger_consistent : forall d b ops g,
  ops_ok (init d b) ops = true ->
  let s' := fst (step (run (init d b) ops) Balance) in
  reported s' g = usum s' g /\ ksum s' g = usum s' g /\
  (forall u, In u (utxos s' (l_default s') 0) -> spent_by_sent (l_txs s') (u_txid u) (u_n u) = false).
Proof. exact ledger_consistent_proof. Qed.

Theorem select_never_spent : forall s g minconf sel txid n,
  Inv s -> snd (step s (Select g minconf sel)) = OSel true -> In (txid, n) sel ->
  spent_by_sent (l_txs s) txid n = false.
Proof. exact select_never_spent_proof. Qed.

Theorem reload_equal : forall s,
  persisted (fst (step s Reopen)) = persisted s /\
  l_default (fst (step s Reopen)) = l_default s /\
  (forall g mc, utxos (fst (step s Reopen)) g mc = utxos s g mc) /\
  snd (step (fst (step s Reopen)) Utxos) = snd (step s Utxos).
Proof. exact reload_equal_proof. Qed.

(* ---------------------------------------------------------------- witnesses *)
(* non-vacuity: a history with receive, send with change, second send spending the change, reopen and delete of
   the second send meets every precondition; the ledger then reports 139 995 301 = its two unspent outputs = the
   key balances (concrete operations: Proofs/LedgerWitness.v) *)
Example history_ok :
  let ops := [NewKey 6 G0 5; NewKey 8 G0 5; recv; Select G0 1 [(101, 0)]; Store true pay_a; Balance;
              Store true pay_c; Reopen; Delete 903; Balance] in
  ops_ok (init G0 true) ops = true /\
  let s := run (init G0 true) ops in
  reported s G0 = 139995301 /\ usum s G0 = 139995301 /\ ksum s G0 = 139995301 /\
  map (fun u => (u_txid u, u_n u)) (utxos s G0 0) = [(102, 0); (901, 1)].
Proof. vm_compute. repeat split. Qed.

(* finding 19 (code before fixes/C08-1): utxos_update; sweep(broadcast); balance() keeps reporting 200 000 000
   although nothing is unspent — the balance clause fails for the original _balance_update *)
Example balance_update_orig_refuted :
  let ops := [NewKey 6 G0 5; recv; Balance; Store true sweep_tx; Balance] in
  ops_ok (init G0 true) ops = true /\
  let s := run_gen false false (init G0 true) ops in
  reported s G0 = 200000000 /\ usum s G0 = 0 /\ ksum s G0 = 0 /\
  reported (run (init G0 true) ops) G0 = 0.
Proof. vm_compute. repeat split. Qed.

(* code before fixes/C08-2: with two sent transactions spending the same output, deleting one lists the output as
   unspent although the other one, still in the ledger, consumes it; the repaired delete keeps it spent *)
Example delete_orig_refuted :
  let ops := [NewKey 6 G0 5; NewKey 8 G0 5; recv; Store true pay_a; Store true pay_b; Delete 902] in
  ops_ok (init G0 true) ops = true /\
  let s := run_gen true false (init G0 true) ops in
  existsb (fun u => (u_txid u =? 101) && (u_n u =? 0)) (utxos s G0 0) = true /\
  spent_by_sent (l_txs s) 101 0 = true /\
  existsb (fun u => (u_txid u =? 101) && (u_n u =? 0)) (utxos (run (init G0 true) ops) G0 0) = false.
Proof. vm_compute. repeat split. Qed.

(* the precondition of Store is needed (recorded finding restore_resets_spent): storing the object of pay_a again
   after pay_c, which spends its change, has been sent resets the change output to unspent *)
Example restore_refuted :
  let ops := [NewKey 6 G0 5; NewKey 8 G0 5; recv; Store true pay_a; Store true pay_c] in
  let s := run (init G0 true) ops in
  ops_ok (init G0 true) ops = true /\ op_ok s (Store false pay_a) = false /\
  store_respends s (Store false pay_a) = true /\
  let s' := fst (step s (Store false pay_a)) in
  existsb (fun u => (u_txid u =? 901) && (u_n u =? 1)) (utxos s' G0 0) = true /\
  spent_by_sent (l_txs s') 901 1 = true.
Proof. vm_compute. repeat split. Qed.

Print Assumptions inv_init.
Print Assumptions inv_step.
Print Assumptions inv_reachable.
Print Assumptions balance_after_update.
Print Assumptions ledger_consistent.
Print Assumptions select_never_spent.
Print Assumptions reload_equal.
