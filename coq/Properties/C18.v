(* Properties/C18.v — wire primitives are canonical and round-trip.
   Only statements closed by [exact lemma], their non-vacuity examples, refutation witnesses for the
   classes excluded by a guard, and Print Assumptions. *)
From Coq Require Import ZArith List Bool.
From Coq.Strings Require Import Byte.
From Verif Require Import Lib.Bytes Lib.Py Model.Wire Proofs.CompactSize Proofs.ScriptNum Proofs.ScriptCodec Proofs.VarStr.
From Verif Require Import Gen.GenFuncs Glue.WireGlue.
Import ListNotations.
Open Scope Z_scope.

(* --- tie: the functions regenerated from /repo's source on this run are the model functions --- *)
Theorem source_is_model :
  (forall n, gen_int_to_varbyteint n = lib_cs_enc n) /\
  (forall b, gen_varbyteint_to_int b = Some (fst (lib_cs_dec b), Z.of_nat (snd (lib_cs_dec b)))) /\
  (forall s, gen_varstr s = lib_varstr s) /\
  (forall d, gen_data_pack d = lib_data_pack d) /\
  (forall z, gen_encode_num z = Some (lib_encode_num z)) /\
  (forall e, gen_decode_num e = Some (lib_decode_num e)).
Proof.
  exact (conj gen_int_to_varbyteint_eq (conj gen_varbyteint_to_int_eq (conj gen_varstr_eq
        (conj gen_data_pack_eq (conj gen_encode_num_eq gen_decode_num_eq))))).
Qed.

(* --- CompactSize: all integers 0 .. 2^64-1, every boundary --- *)
Theorem cs_total : forall n, lib_cs_enc n <> None <-> 0 <= n < 2 ^ 64.
Proof. exact lib_cs_enc_domain. Qed.

Theorem cs_roundtrip : forall n e rest,
  lib_cs_enc n = Some e -> lib_cs_dec (e ++ rest) = (n, length e).
Proof. exact CompactSize.cs_roundtrip. Qed.

Theorem cs_canonical : forall n, 0 <= n < 2 ^ 64 -> lib_cs_enc n = Some (core_cs_enc n).
Proof. exact lib_cs_enc_core. Qed.

Theorem cs_accepted_by_core : forall n e rest,
  lib_cs_enc n = Some e -> core_cs_dec (e ++ rest) = Some (n, rest).
Proof. exact cs_core_reads. Qed.

Theorem cs_shortest : forall n e, lib_cs_enc n = Some e ->
  length e = if n <? 253 then 1%nat else if n <? 65536 then 3%nat else if n <? 4294967296 then 5%nat else 9%nat.
Proof. exact cs_length. Qed.

Theorem cs_prefix_free : forall a b ea eb ra rb,
  lib_cs_enc a = Some ea -> lib_cs_enc b = Some eb -> ea ++ ra = eb ++ rb -> a = b /\ ra = rb.
Proof. exact CompactSize.cs_prefix_free. Qed.

Theorem cs_core_language : forall l v rest,
  core_cs_dec l = Some (v, rest) -> exists e, lib_cs_enc v = Some e /\ l = e ++ rest.
Proof. exact core_dec_is_lib_enc. Qed.

Example cs_boundaries :
  lib_cs_enc 252 = Some [xfc] /\ lib_cs_enc 253 = Some [xfd; xfd; x00] /\
  lib_cs_enc 65535 = Some [xfd; xff; xff] /\ lib_cs_enc 65536 = Some [xfe; x00; x00; x01; x00] /\
  lib_cs_enc 4294967295 = Some [xfe; xff; xff; xff; xff] /\
  lib_cs_enc 4294967296 = Some [xff; x00; x00; x00; x00; x01; x00; x00; x00].
Proof. repeat split; vm_compute; reflexivity. Qed.

(* --- script numbers: every integer, no bound --- *)
Theorem scriptnum_roundtrip : forall z, lib_decode_num (lib_encode_num z) = z.
Proof. exact ScriptNum.scriptnum_roundtrip. Qed.

Theorem scriptnum_minimal : forall z, core_minimal (lib_encode_num z) = true.
Proof. exact ScriptNum.scriptnum_minimal. Qed.

Theorem scriptnum_canonical : forall b, core_minimal b = true -> lib_encode_num (lib_decode_num b) = b.
Proof. exact ScriptNum.scriptnum_canonical. Qed.

Theorem scriptnum_is_core : forall z, lib_encode_num z = core_scriptnum_ser z.
Proof. exact lib_encode_is_core. Qed.

Example scriptnum_edges :
  lib_encode_num 127 = [x7f] /\ lib_encode_num 128 = [x80; x00] /\ lib_encode_num (-128) = [x80; x80] /\
  lib_encode_num (-127) = [xff] /\ lib_encode_num 32768 = [x00; x80; x00] /\
  lib_encode_num (-2147483647) = [xff; xff; xff; xff] /\ lib_encode_num 2147483648 = [x00; x00; x00; x80; x00].
Proof. repeat split; vm_compute; reflexivity. Qed.

(* --- pushes: all lengths the encoder accepts (0 .. 65535); beyond that it refuses --- *)
Theorem push_total : forall d, lib_data_pack d <> None <-> Z.of_nat (length d) <= 65535.
Proof. exact push_domain. Qed.

Theorem push_shortest : forall d, Z.of_nat (length d) <= 65535 -> lib_data_pack d = Some (core_push d).
Proof. exact push_is_core. Qed.

Theorem push_roundtrip : forall d p rest f,
  1 <= Z.of_nat (length d) -> lib_data_pack d = Some p ->
  parse_plain_f (S f) (p ++ rest) =
  match parse_plain_f f rest with Some cs => Some (Data d :: cs) | None => None end.
Proof. exact push_parse. Qed.

(* --- scripts: any sequence of opcodes and data items, any length --- *)
Theorem script_roundtrip_plain : forall cs, forallb wf_cmd cs = true ->
  exists s, lib_serialize cs = Some s /\ parse_plain s = Some cs.
Proof. exact ScriptCodec.script_roundtrip_plain. Qed.

Theorem script_roundtrip_lib : forall sig_ok key_ok cs s dl,
  forallb wf_cmd cs = true -> inert_from false cs = true ->
  lib_serialize cs = Some s ->
  (match s with b :: _ => whole_script_data (bz b) dl | [] => false end) = false ->
  lib_parse_dl sig_ok key_ok dl s = POk (items_of_cmds cs) /\
  lib_serialize_items (items_of_cmds cs) = Some s.
Proof. exact ScriptCodec.script_roundtrip_lib. Qed.

(* non-vacuity: a P2PKH locking script and an OP_RETURN script meet all hypotheses *)
Definition h20 : bytes := repeat x11 20.
Definition p2pkh_cmds : list cmd := [Op x76; Op xa9; Data h20; Op x88; Op xac].
Example p2pkh_is_inert :
  forallb wf_cmd p2pkh_cmds = true /\ inert_from false p2pkh_cmds = true /\
  exists s, lib_serialize p2pkh_cmds = Some s /\ length s = 25%nat /\
            whole_script_data 118 25 = false /\
            lib_parse_bytes (fun _ => true) (fun _ => true) s = POk (items_of_cmds p2pkh_cmds).
Proof. split; [reflexivity|]. split; [reflexivity|]. eexists. repeat split; vm_compute; reflexivity. Qed.

(* the guards of script_roundtrip_lib are needed: witnesses for each excluded class
   (known findings whole_script_heuristic and subscript_reparse, DESIGN.md section 7) *)
Definition six51 : bytes := repeat x51 6.
Example subscript_reparse_refuted :
  lib_serialize [Data six51] = Some (x06 :: six51) /\
  lib_parse_bytes (fun _ => true) (fun _ => true) (x06 :: six51)
    = POk (repeat (IOp x51) 6) /\
  lib_serialize_items (repeat (IOp x51) 6) = Some six51.
Proof. repeat split; vm_compute; reflexivity. Qed.

Definition ops64 : list cmd := repeat (Op x51) 64.
Example whole_script_heuristic_refuted :
  exists s, lib_serialize ops64 = Some s /\
  lib_parse_bytes (fun _ => true) (fun _ => true) s = POk [IData s] /\
  lib_serialize_items [IData s] = Some (x40 :: s).
Proof. eexists. repeat split; vm_compute; reflexivity. Qed.

(* --- corollaries: one encoding per value --- *)
Theorem cs_injective : forall a b e, lib_cs_enc a = Some e -> lib_cs_enc b = Some e -> a = b.
Proof. exact VarStr.cs_injective. Qed.

Theorem scriptnum_injective : forall a b, lib_encode_num a = lib_encode_num b -> a = b.
Proof. exact VarStr.scriptnum_injective. Qed.

Theorem scriptnum_minimal_unique : forall x y,
  core_minimal x = true -> core_minimal y = true -> lib_decode_num x = lib_decode_num y -> x = y.
Proof. exact VarStr.scriptnum_minimal_unique. Qed.

Theorem script_serialize_injective : forall cs1 cs2 s,
  forallb wf_cmd cs1 = true -> forallb wf_cmd cs2 = true ->
  lib_serialize cs1 = Some s -> lib_serialize cs2 = Some s -> cs1 = cs2.
Proof. exact VarStr.script_serialize_injective. Qed.

(* --- varstr: every byte string but the single zero byte (the single zero byte is recorded under C06 as known finding single_zero_byte_item) --- *)
Theorem varstr_total : forall s, lib_varstr s <> None <-> Z.of_nat (length s) < 2 ^ 64.
Proof. exact varstr_domain. Qed.

Theorem varstr_roundtrip : forall s e rest, s <> [x00] -> lib_varstr s = Some e ->
  exists p, lib_cs_enc (Z.of_nat (length s)) = Some p /\ e = p ++ s /\
            lib_cs_dec (e ++ rest) = (Z.of_nat (length s), length p) /\
            firstn (length s) (skipn (length p) (e ++ rest)) = s /\
            skipn (length s) (skipn (length p) (e ++ rest)) = rest.
Proof. exact VarStr.varstr_roundtrip. Qed.

Theorem varstr_prefix_free : forall a b ea eb ra rb,
  a <> [x00] -> b <> [x00] -> lib_varstr a = Some ea -> lib_varstr b = Some eb ->
  ea ++ ra = eb ++ rb -> a = b /\ ra = rb.
Proof. exact VarStr.varstr_prefix_free. Qed.

(* non-vacuity and the witness for the excluded string *)
Example varstr_holds_somewhere :
  [x01; x02] <> [x00] /\ lib_varstr [x01; x02] = Some [x02; x01; x02] /\
  lib_varstr (repeat x00 253) = Some (xfd :: xfd :: x00 :: repeat x00 253).
Proof. split; [discriminate|]. split; vm_compute; reflexivity. Qed.

Example varstr_zero_byte_refuted : lib_varstr [x00] = lib_varstr [] /\ lib_varstr [x00] = Some [x00].
Proof. exact varstr_zero_collides. Qed.

Print Assumptions source_is_model.
Print Assumptions cs_total.
Print Assumptions cs_roundtrip.
Print Assumptions cs_canonical.
Print Assumptions cs_accepted_by_core.
Print Assumptions cs_shortest.
Print Assumptions cs_prefix_free.
Print Assumptions cs_core_language.
Print Assumptions scriptnum_roundtrip.
Print Assumptions scriptnum_minimal.
Print Assumptions scriptnum_canonical.
Print Assumptions scriptnum_is_core.
Print Assumptions push_total.
Print Assumptions push_shortest.
Print Assumptions push_roundtrip.
Print Assumptions script_roundtrip_plain.
Print Assumptions script_roundtrip_lib.
Print Assumptions cs_injective.
Print Assumptions scriptnum_injective.
Print Assumptions scriptnum_minimal_unique.
Print Assumptions varstr_total.
Print Assumptions varstr_roundtrip.
Print Assumptions varstr_prefix_free.
Print Assumptions script_serialize_injective.
