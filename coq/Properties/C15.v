(* Properties/C15.v — BIP38: the right passphrase decrypts, a wrong one cannot silently yield another key,
   new keys use fresh entropy.
   scrypt, AES, NFC, the hashes, Base58 and the curve are universally quantified; what is assumed about them
   is written in each statement (aes_inverse, aes_block_length, scrypt_length, hash_length, b58_roundtrip43,
   b58_protected_shape, b58_roundtrip53, b58_protected_shape_ec, curve_mul_law, pub_length33: Model/Bip38.v). *)
From Coq Require Import ZArith List Bool.
From Coq.Strings Require Import Byte.
From Verif Require Import Lib.Bytes Model.Bip38 Proofs.Bip38 Proofs.Bip38Ec Proofs.Bip38Spec.
Import ListNotations.
Open Scope Z_scope.

(* --- Key(enc, password=pw, network) after Key(k, network, compressed).encrypt(pw): every secret in [1, n-1],
       both compression flags, every passphrase, every address prefix (network) --- *)
Theorem bip38_roundtrip :
  forall P utf8 scrypt aes_enc aes_dec H H160 b58e b58d pubser,
  aes_inverse aes_enc aes_dec -> aes_block_length aes_enc -> scrypt_length scrypt -> hash_length H ->
  b58_roundtrip43 b58e b58d -> b58_protected_shape b58e ->
  forall pfx c k pw e, 0 < k < secp_order ->
  lib_key_encrypt P utf8 scrypt aes_enc H H160 b58e pubser pfx c k pw = Some e ->
  lib_key_decrypt P utf8 scrypt aes_dec H H160 b58e b58d pubser pfx e pw = KOk k c.
Proof. exact key_roundtrip_n. Qed.

(* encryption fails only when the curve code cannot produce the public key *)
Theorem bip38_encrypt_total :
  forall P utf8 scrypt aes_enc H H160 b58e pubser pfx c k pw,
  pubser c k <> None ->
  exists e, lib_key_encrypt P utf8 scrypt aes_enc H H160 b58e pubser pfx c k pw = Some e.
Proof. exact encrypt_total. Qed.

(* --- whatever string and passphrase are given (plain or EC-multiplied key, right or wrong passphrase):
       a key is returned only if the address derived from it hashes to the 4 bytes stored in the string --- *)
Theorem wrong_passphrase_checked :
  forall P utf8 scrypt aes_dec H H160 b58e b58d pubser pfx e pw k c,
  lib_key_decrypt P utf8 scrypt aes_dec H H160 b58e b58d pubser pfx e pw = KOk k c ->
  exists d a, b58d e = Some d /\ lib_address H H160 b58e pubser pfx c k = Some a /\ firstn 4 (H a) = sl 3 7 d.
Proof. exact decrypt_checked. Qed.

(* hence: decrypting an encryption of k under any other passphrase fails, or the 4-byte address hashes collide *)
Theorem wrong_passphrase_no_other_key :
  forall P utf8 scrypt aes_enc aes_dec H H160 b58e b58d pubser,
  aes_block_length aes_enc -> hash_length H -> b58_roundtrip43 b58e b58d ->
  forall pfx c k pw e pw' k' c',
  lib_key_encrypt P utf8 scrypt aes_enc H H160 b58e pubser pfx c k pw = Some e ->
  lib_key_decrypt P utf8 scrypt aes_dec H H160 b58e b58d pubser pfx e pw' = KOk k' c' ->
  exists a a', lib_address H H160 b58e pubser pfx c k = Some a /\
               lib_address H H160 b58e pubser pfx c' k' = Some a' /\ firstn 4 (H a') = firstn 4 (H a).
Proof. exact other_passphrase. Qed.

(* --- EC-multiplied mode: a key made by bip38_create_new_encrypted_wif (network bitcoin: class ec_foreign_network)
       from an intermediate code of the BIP form  magic ++ ownerentropy ++ passpoint  decrypts, with the passphrase
       the pass point was derived from, to passfactor * factorb mod n; its address is the generated address; seed,
       compression flag and lot/sequence come back.  (That bip38_intermediate_password writes this form is
       bip38_intermediate_is_spec + the correspondence.) --- *)
Theorem bip38_ec_roundtrip :
  forall P utf8 scrypt aes_enc aes_dec H H160 b58e b58d pubser ptmulser,
  aes_inverse aes_enc aes_dec -> aes_block_length aes_enc -> scrypt_length scrypt -> hash_length H ->
  b58_roundtrip53 b58e b58d -> b58_roundtrip43 b58e b58d -> b58_protected_shape_ec b58e ->
  curve_mul_law pubser ptmulser -> pub_length33 pubser ->
  forall has_lot c pw oe pp seed nk,
  length oe = 8%nat -> length seed = 24%nat ->
  let pfz := of_be (pass_factor_of P utf8 scrypt H has_lot pw oe) in
  0 < pfz < secp_order -> pubser true pfz = Some pp ->
  lib_create_new scrypt aes_enc H H160 b58e b58d pubser ptmulser [x00]
    (b58check H b58e (ec_magic has_lot ++ oe ++ pp)) c seed = Ok nk ->
  lib_key_decrypt P utf8 scrypt aes_dec H H160 b58e b58d pubser [x00] (nk_wif nk) pw
    = KOk ((pfz * of_be (H seed)) mod secp_order) c /\
  lib_address H H160 b58e pubser [x00] c ((pfz * of_be (H seed)) mod secp_order) = Some (nk_address nk) /\
  exists i, lib_bip38_decrypt P utf8 scrypt aes_dec H H160 b58e b58d pubser (nk_wif nk) pw = Ok i /\
            di_seed i = seed /\
            di_lot i = (if has_lot then Some (of_be (skipn 4 oe) / 4096) else None) /\
            di_sequence i = (if has_lot then Some (of_be (skipn 4 oe) mod 4096) else None).
Proof. exact ec_roundtrip. Qed.

(* --- agreement with the BIP text; guard = the passphrase is already in NFC form (class passphrase_not_nfc) --- *)
Theorem bip38_is_spec :
  forall P utf8 nfc scrypt aes_enc H H160 b58e pubser,
  scrypt_length scrypt ->
  forall pfx c k pw, utf8 (nfc pw) = utf8 pw ->
  lib_key_encrypt P utf8 scrypt aes_enc H H160 b58e pubser pfx c k pw =
  spec_encrypt P utf8 nfc scrypt aes_enc H H160 b58e pubser pfx c k pw.
Proof. exact encrypt_is_spec. Qed.

(* intermediate codes; guard = sequence number not 0 (class sequence_zero_refused) *)
Theorem bip38_intermediate_is_spec :
  forall P utf8 nfc scrypt H b58e pubser pw ls salt r,
  match ls with Some (_, s) => s <> 0 | None => True end ->
  lib_intermediate P utf8 nfc scrypt H b58e pubser pw (option_map fst ls) (option_map snd ls) salt = Ok r <->
  spec_intermediate P utf8 nfc scrypt H b58e pubser pw ls salt = Some r.
Proof. exact intermediate_is_spec. Qed.

(* --- Key(s, password=pw, network) agrees with the DECRYPTION procedure of the BIP text, both modes: a key comes out
       exactly when the BIP's own steps (scrypt on the passphrase, AES, xor, EC multiplication, address-hash check)
       yield it.  So a ciphertext produced by ANY conforming implementation opens with its passphrase, and nothing
       opens that the BIP would refuse.  Guards: the passphrase is in NFC form (class passphrase_not_nfc); the string
       has the protected shape; its flag byte is one the BIP defines (the library is laxer: plain_flag20_laxer below);
       an EC-multiplied key is checked against address version 00 (class ec_foreign_network). --- *)
Theorem bip38_decrypt_is_spec :
  forall P utf8 nfc scrypt aes_dec H H160 b58e b58d pubser,
  aes_block_length aes_dec -> scrypt_length scrypt ->
  forall pfx s pw k c, utf8 (nfc pw) = utf8 pw -> lib_is_protected s = true ->
  (forall d, b58d s = Some d -> bip38_flag_defined d = true /\ (is_ec_key d = true -> pfx = [x00])) ->
  (lib_key_decrypt P utf8 scrypt aes_dec H H160 b58e b58d pubser pfx s pw = KOk k c <->
   spec_decrypt P utf8 nfc scrypt aes_dec H H160 b58e b58d pubser pfx s pw = Some (k, c)).
Proof. exact decrypt_is_spec. Qed.

(* --- the passphrase ARGUMENT (a str or a bytes object) -> scrypt input: exactly the bytes the BIP prescribes
       (UTF-8 of the text, a bytes object as it is; no un-hexlify, trimming, case folding, truncation) --- *)
Theorem passphrase_bytes_are_spec :
  forall T (utf8 : T -> bytes) nfc a, nfc_stable utf8 nfc a -> arg_bytes utf8 a = spec_pw_bytes utf8 nfc a.
Proof. exact arg_is_spec. Qed.

(* two texts reach scrypt as the same bytes only if they are the same text (UTF-8 being injective) *)
Theorem passphrase_no_conflation :
  forall T (utf8 : T -> bytes), (forall a b, utf8 a = utf8 b -> a = b) ->
  forall a b : T, arg_bytes utf8 (PStr a) = arg_bytes utf8 (PStr b) -> a = b.
Proof. exact arg_injective. Qed.

(* Key.encrypt / Key(enc, password=) depend on the argument only through the passphrase it denotes: arguments that are
   the same passphrase per the BIP give the same results ... *)
Theorem same_passphrase_same_key :
  forall T utf8 nfc scrypt aes_enc aes_dec H H160 b58e b58d pubser (a b : pyarg T),
  nfc_stable utf8 nfc a -> nfc_stable utf8 nfc b -> same_passphrase utf8 nfc a b ->
  (forall pfx c k, lib_key_encrypt (pyarg T) (arg_bytes utf8) scrypt aes_enc H H160 b58e pubser pfx c k a =
                   lib_key_encrypt (pyarg T) (arg_bytes utf8) scrypt aes_enc H H160 b58e pubser pfx c k b) /\
  (forall pfx s, lib_key_decrypt (pyarg T) (arg_bytes utf8) scrypt aes_dec H H160 b58e b58d pubser pfx s a =
                 lib_key_decrypt (pyarg T) (arg_bytes utf8) scrypt aes_dec H H160 b58e b58d pubser pfx s b).
Proof. exact same_passphrase_same_result. Qed.

(* ... in particular a str and the bytes object holding its UTF-8 encoding are interchangeable *)
Theorem passphrase_str_or_bytes :
  forall T utf8 scrypt aes_enc aes_dec H H160 b58e b58d pubser (t : T),
  (forall pfx c k, lib_key_encrypt (pyarg T) (arg_bytes utf8) scrypt aes_enc H H160 b58e pubser pfx c k (PStr t) =
                   lib_key_encrypt (pyarg T) (arg_bytes utf8) scrypt aes_enc H H160 b58e pubser pfx c k (PBytes (utf8 t))) /\
  (forall pfx s, lib_key_decrypt (pyarg T) (arg_bytes utf8) scrypt aes_dec H H160 b58e b58d pubser pfx s (PStr t) =
                 lib_key_decrypt (pyarg T) (arg_bytes utf8) scrypt aes_dec H H160 b58e b58d pubser pfx s (PBytes (utf8 t))).
Proof. exact str_or_bytes. Qed.

(* Key.encrypt on a str-or-bytes argument is the BIP's encryption of the passphrase the argument denotes *)
Theorem bip38_is_spec_arg :
  forall T utf8 nfc scrypt aes_enc H H160 b58e pubser,
  scrypt_length scrypt ->
  forall pfx c k (a : pyarg T), nfc_stable utf8 nfc a ->
  lib_key_encrypt (pyarg T) (arg_bytes utf8) scrypt aes_enc H H160 b58e pubser pfx c k a =
  spec_encrypt (pyarg T) (arg_bytes utf8) (arg_nfc nfc) scrypt aes_enc H H160 b58e pubser pfx c k a.
Proof. exact encrypt_is_spec_arg. Qed.

(* --- entropy: which os.urandom draw each generating call consumes (repaired code, fixes/C15-1) --- *)
Theorem fresh_entropy :
  forall ops, (forall o, In o ops -> op_explicit o = false) ->
  lib_entropy_use ops = map Some (seq 0 (length ops)).
Proof. exact kth_call_kth_chunk. Qed.

Theorem fresh_entropy_mixed : forall ops, lib_entropy_use ops = spec_entropy_use 0 ops.
Proof. exact entropy_is_spec. Qed.

Theorem fresh_entropy_distinct :
  forall ops i j a b, i <> j ->
  nth_error (lib_entropy_use ops) i = Some (Some a) ->
  nth_error (lib_entropy_use ops) j = Some (Some b) -> a <> b.
Proof. exact distinct_calls_distinct_chunks. Qed.

(* ---------------------------------------------------------------- witnesses *)
(* before the repair (defaults evaluated at import) the statement is false: two-call histories *)
Example fresh_entropy_refuted_before_fix :
  legacy_entropy_use [OpCreateNew false; OpCreateNew false] = [Some 1%nat; Some 1%nat] /\
  legacy_entropy_use [OpIntermediate false; OpIntermediate false] = [Some 0%nat; Some 0%nat] /\
  lib_entropy_use [OpCreateNew false; OpCreateNew false] = [Some 0%nat; Some 1%nat].
Proof. repeat split. Qed.

(* sequence 0: refused by the library for every choice of the oracles, accepted by the BIP text *)
Example intermediate_sequence_zero_refuted :
  forall P utf8 nfc scrypt H b58e pubser pw salt, length salt = 8%nat ->
  lib_intermediate P utf8 nfc scrypt H b58e pubser pw (Some 100000) (Some 0) salt = Err EValue /\
  (pubser true (of_be (H (scrypt (utf8 (nfc pw)) (firstn 4 salt) 16384 8 8 32%nat ++
                          (firstn 4 salt ++ be_bytes 4 (100000 * 4096 + 0))))) <> None ->
   spec_intermediate P utf8 nfc scrypt H b58e pubser pw (Some (100000, 0)) salt <> None).
Proof.
  intros. split; [apply intermediate_seq0_lib | apply intermediate_seq0_spec]; assumption.
Qed.

(* toy oracles of Model/Bip38.v (identity AES, a checksum as hash, scrypt = password padded): the functions compute,
   the round trip returns the key, a wrong passphrase is refused, and without the NFC guard the library and the
   BIP text differ *)
Example roundtrip_witness :
  exists e,
  lib_key_encrypt bytes (fun p => p) toy_scrypt toy_aes toy_H toy_H toy_b58e toy_pub [x00] true 305419896 [x70; x77] = Some e /\
  lib_key_decrypt bytes (fun p => p) toy_scrypt toy_aes toy_H toy_H toy_b58e toy_b58d toy_pub [x00] e [x70; x77] = KOk 305419896 true /\
  lib_key_decrypt bytes (fun p => p) toy_scrypt toy_aes toy_H toy_H toy_b58e toy_b58d toy_pub [x00] e [x70; x78] = KErr EKey.
Proof. eexists. split; [vm_compute; reflexivity|]. split; vm_compute; reflexivity. Qed.

Example passphrase_not_nfc_refuted :
  lib_key_encrypt bytes (fun p => p) toy_scrypt toy_aes toy_H toy_H toy_b58e toy_pub [x00] true 1 [x65; xcc; x81] <>
  spec_encrypt bytes (fun p => p) (fun _ => [xc3; xa9]) toy_scrypt toy_aes toy_H toy_H toy_b58e toy_pub [x00] true 1 [x65; xcc; x81].
Proof. vm_compute. discriminate. Qed.

(* the premises of bip38_decrypt_is_spec are satisfiable and both sides return the key (toy oracles):
   a key encrypted by the library model opens under the BIP's procedure and under Key(...) *)
Example decrypt_is_spec_witness :
  aes_block_length toy_aes /\ scrypt_length toy_scrypt /\
  exists e d,
  lib_key_encrypt bytes (fun p => p) toy_scrypt toy_aes toy_H toy_H toy_b58e toy_pub [x00] true 305419896 [x70; x77] = Some e /\
  lib_is_protected e = true /\ toy_b58d e = Some d /\ bip38_flag_defined d = true /\ is_ec_key d = false /\
  spec_decrypt bytes (fun p => p) (fun p => p) toy_scrypt toy_aes toy_H toy_H toy_b58e toy_b58d toy_pub [x00] e [x70; x77]
    = Some (305419896, true) /\
  lib_key_decrypt bytes (fun p => p) toy_scrypt toy_aes toy_H toy_H toy_b58e toy_b58d toy_pub [x00] e [x70; x77] = KOk 305419896 true /\
  spec_decrypt bytes (fun p => p) (fun p => p) toy_scrypt toy_aes toy_H toy_H toy_b58e toy_b58d toy_pub [x00] e [x70; x78] = None.
Proof.
  split; [exact toy_aes_len|]. split; [exact toy_scrypt_len|].
  eexists. eexists. split; [vm_compute; reflexivity|]. repeat split; vm_compute; reflexivity.
Qed.

(* outside the flag guard the library is LAXER than the BIP: plain-mode flag byte 20 (not defined by the BIP) is read as
   "compressed" and the key is returned, while the BIP's procedure refuses the string *)
Example plain_flag20_laxer :
  exists a e,
  lib_address toy_H toy_H toy_b58e toy_pub [x00] true 305419896 = Some a /\
  e = lib_bip38_encrypt toy_scrypt toy_aes toy_H toy_b58e (be_bytes 32 305419896) a [x70; x77] x20 /\
  lib_key_decrypt bytes (fun p => p) toy_scrypt toy_aes toy_H toy_H toy_b58e toy_b58d toy_pub [x00] e [x70; x77] = KOk 305419896 true /\
  spec_decrypt bytes (fun p => p) (fun p => p) toy_scrypt toy_aes toy_H toy_H toy_b58e toy_b58d toy_pub [x00] e [x70; x77] = None.
Proof. eexists. eexists. split; [vm_compute; reflexivity|]. split; [reflexivity|]. split; vm_compute; reflexivity. Qed.

(* the passphrase arguments: a str and a bytes object that are the same passphrase, and two that are not
   ('12' as text is 31 32; the byte 12 it would spell as hexadecimal is a different passphrase) *)
Example passphrase_argument_witness :
  same_passphrase (fun t : bytes => t) (fun t => t) (PStr [x31; x32]) (PBytes [x31; x32]) /\
  ~ same_passphrase (fun t : bytes => t) (fun t => t) (PStr [x31; x32]) (PBytes [x12]) /\
  nfc_stable (fun t : bytes => t) (fun t => t) (PStr [x31; x32]) /\
  lib_key_encrypt (pyarg bytes) (arg_bytes (fun t => t)) toy_scrypt toy_aes toy_H toy_H toy_b58e toy_pub [x00] true 1 (PStr [x31; x32]) <>
  lib_key_encrypt (pyarg bytes) (arg_bytes (fun t => t)) toy_scrypt toy_aes toy_H toy_H toy_b58e toy_pub [x00] true 1 (PBytes [x12]).
Proof.
  split; [reflexivity|]. split; [intros E; discriminate E|]. split; [reflexivity|]. vm_compute. discriminate.
Qed.

Print Assumptions bip38_roundtrip.
Print Assumptions bip38_encrypt_total.
Print Assumptions bip38_ec_roundtrip.
Print Assumptions wrong_passphrase_checked.
Print Assumptions wrong_passphrase_no_other_key.
Print Assumptions bip38_is_spec.
Print Assumptions bip38_intermediate_is_spec.
Print Assumptions fresh_entropy.
Print Assumptions fresh_entropy_mixed.
Print Assumptions fresh_entropy_distinct.
Print Assumptions bip38_decrypt_is_spec.
Print Assumptions passphrase_bytes_are_spec.
Print Assumptions passphrase_no_conflation.
Print Assumptions same_passphrase_same_key.
Print Assumptions passphrase_str_or_bytes.
Print Assumptions bip38_is_spec_arg.
