(* Properties/C03.v — HD key derivation conforms to BIP32; public and private derivation agree.
   Only statements closed by [exact lemma], their non-vacuity examples, witnesses for what the guards
   exclude, and Print Assumptions.
   ckd_commute / path_split hold for every commutative group with Z-action and generator of order n
   (premise [group_laws]); the secp256k1 instance of Crypto/Secp256k1.v is NOT proved to satisfy it, so
   their *_secp forms keep the premise.  Everything else is premise-free. *)
From Coq Require Import String.
From Coq Require Import ZArith List Bool.
From Coq.Strings Require Import Byte.
From Verif Require Import Lib.Bytes Crypto.Sha256 Crypto.Ripemd160 Crypto.Hmac Crypto.Secp256k1 Crypto.Group
  Model.Bip32 Proofs.Bip32Algebra Proofs.Bip32Lib Proofs.Bip32Session Proofs.Bip32Construct.
From Verif Require Import Gen.GenBip32 Proofs.Bip32Glue.
Import ListNotations.
Open Scope Z_scope.

(* --- tie: the guards and flag handling read from /repo's bitcoinlib/keys.py on this run are the model's --- *)
Theorem source_is_model :
  gen_seed_key = bitcoin_seed /\
  (forall k, gen_from_seed_guard k = ((k =? 0) || (secp_n <=? k))) /\
  (forall h i, gen_child_private_hard h i = (h || (two31 <=? i))) /\
  (forall h i, (if gen_child_private_hard h i then Z.lor i gen_child_private_bit else i) = lib_priv_index i h) /\
  (forall i, gen_child_public_guard i = (two31 <=? i)) /\
  (forall b, existsb (beq b) gen_markers = is_marker b) /\
  (forall h i, gen_marked_guard h i = (h && (two31 <=? i))) /\
  (forall i, gen_negative_guard i = (i <? 0)) /\
  gen_bare_M_public = true /\
  (forall fp key i h,
     (if fp || negb (lib_is_private key)
      then if gen_public_refuses_marker && h then None
           else if gen_child_public_guard i then None else lib_child_public key i
      else lib_child_private key i h) = lib_step fp key (i, h)).
Proof.
  exact (conj gen_seed_key_eq (conj gen_from_seed_guard_eq (conj gen_child_private_hard_eq (conj gen_priv_index_eq
        (conj gen_child_public_guard_eq (conj gen_markers_eq (conj gen_marked_guard_eq (conj gen_negative_guard_eq
        (conj gen_bare_M_public_eq gen_step_eq))))))))).
Qed.

(* --- tie: the derivation methods keep no state.  Read from /repo on this run: what from_seed, _key_derivation,
   fingerprint, subkey_for_path, child_private, child_public write outside their local variables (nothing), the
   memoised renderings of the immutable public key, the attributes HDKey.__init__ sets (no cache among them), what
   public() clears on its deepcopy, and the wallet settings public_master / network_change write on self — the
   session model (lib_session, cfg_after) has exactly this state --- *)
Theorem source_is_stateless :
  gen_derivation_writes = [] /\
  gen_key_lazy_writes = ["x: self._x"%string; "y: self._y"%string; "y: self._public_uncompressed_hex"%string;
                         "hash160: self._hash160"%string] /\
  gen_hdkey_init_writes = ["self.script_type"%string; "self.encoding"%string; "self.witness_type"%string;
                           "self.multisig"%string; "self.chain"%string; "self.depth"%string;
                           "self.parent_fingerprint"%string; "self.child_index"%string; "self.key_type"%string] /\
  gen_public_copy = "hdkey = deepcopy(self)"%string /\
  gen_public_writes = ["hdkey.is_private"%string; "hdkey.secret"%string; "hdkey.private_hex"%string;
                       "hdkey.private_byte"%string; "hdkey._wif"%string; "hdkey._wif_prefix"%string;
                       "hdkey.key_hex"%string] /\
  gen_public_master_writes = ["self.multisig"%string; "self.witness_type"%string] /\
  gen_public_master_multisig_writes = [] /\
  gen_network_change_writes = ["self.network"%string].
Proof. exact gen_state_eq. Qed.

(* ================================================================ algebra (premise: group laws) *)

Theorem ckd_commute :
  forall (Pt : Type) (add : Pt -> Pt -> Pt) (zero : Pt) (neg : Pt -> Pt) (smul : Z -> Pt -> Pt) (gen : Pt) (n : Z)
         (is_zero : Pt -> bool) (serP : Pt -> bytes) (HM : bytes -> bytes -> bytes) (H160 : bytes -> bytes),
    group_laws add zero neg smul gen n ->
    (forall P, is_zero P = true <-> P = zero) ->
    forall (x : xprv) (i : Z), 0 <= i < two31 ->
      option_map (neuter_prv Pt smul gen) (spec_ckd_priv Pt smul gen n serP HM H160 x i) =
      spec_ckd_pub Pt add smul gen n is_zero serP HM H160 (neuter_prv Pt smul gen x) i.
Proof. exact Bip32Algebra.ckd_commute. Qed.

(* every split point: l1 (any indices) privately, then N, then the non-hardened l2 publicly *)
Theorem path_split :
  forall (Pt : Type) (add : Pt -> Pt -> Pt) (zero : Pt) (neg : Pt -> Pt) (smul : Z -> Pt -> Pt) (gen : Pt) (n : Z)
         (is_zero : Pt -> bool) (serP : Pt -> bytes) (HM : bytes -> bytes -> bytes) (H160 : bytes -> bytes),
    group_laws add zero neg smul gen n ->
    (forall P, is_zero P = true <-> P = zero) ->
    forall (x : xprv) (l1 l2 : list Z), Forall (fun i => 0 <= i < two31) l2 ->
      option_map (neuter_prv Pt smul gen) (spec_derive_priv Pt smul gen n serP HM H160 x (l1 ++ l2)) =
      obind (spec_derive_priv Pt smul gen n serP HM H160 x l1)
            (fun y => spec_derive_pub Pt add smul gen n is_zero serP HM H160 (neuter_prv Pt smul gen y) l2).
Proof. exact Bip32Algebra.path_split. Qed.

(* any two split points of a non-hardened stretch agree *)
Theorem path_split_any :
  forall (Pt : Type) (add : Pt -> Pt -> Pt) (zero : Pt) (neg : Pt -> Pt) (smul : Z -> Pt -> Pt) (gen : Pt) (n : Z)
         (is_zero : Pt -> bool) (serP : Pt -> bytes) (HM : bytes -> bytes -> bytes) (H160 : bytes -> bytes),
    group_laws add zero neg smul gen n ->
    (forall P, is_zero P = true <-> P = zero) ->
    forall (x : xprv) (l1 l2 l3 : list Z),
      Forall (fun i => 0 <= i < two31) l2 -> Forall (fun i => 0 <= i < two31) l3 ->
      obind (spec_derive_priv Pt smul gen n serP HM H160 x l1)
            (fun y => spec_derive_pub Pt add smul gen n is_zero serP HM H160 (neuter_prv Pt smul gen y) (l2 ++ l3)) =
      obind (spec_derive_priv Pt smul gen n serP HM H160 x (l1 ++ l2))
            (fun y => spec_derive_pub Pt add smul gen n is_zero serP HM H160 (neuter_prv Pt smul gen y) l3).
Proof. exact Bip32Algebra.path_split_any. Qed.

(* the instance the library computes with: the group laws of the executable curve remain a premise *)
Theorem ckd_commute_secp :
  group_laws pt_add None pt_neg pt_mul secp_G secp_n ->
  forall (x : xprv) (i : Z), 0 <= i < two31 ->
    option_map s_neuter_prv (s_ckd_priv x i) = s_ckd_pub (s_neuter_prv x) i.
Proof. exact Bip32Lib.ckd_commute_secp. Qed.

Theorem path_split_secp :
  group_laws pt_add None pt_neg pt_mul secp_G secp_n ->
  forall (x : xprv) (l1 l2 : list Z), Forall (fun i => 0 <= i < two31) l2 ->
    option_map s_neuter_prv (s_derive_priv x (l1 ++ l2)) =
    obind (s_derive_priv x l1) (fun y => s_derive_pub (s_neuter_prv y) l2).
Proof. exact Bip32Lib.path_split_secp. Qed.

(* for the library itself: a non-hardened path derived from a private key and from its public() version *)
Theorem lib_public_private_agree :
  group_laws pt_add None pt_neg pt_mul secp_G secp_n ->
  forall x path items Y1 Y2,
    xc x <> [] ->
    lib_parse_path path = Some (false, items) ->
    Forall (fun i => 0 <= i < two31) (snd (sem (false, items))) ->
    lib_subkey_for_path (XPrv x) path = Some Y1 ->
    lib_subkey_for_path (lib_public (XPrv x)) path = Some Y2 ->
    lib_public Y1 = Y2.
Proof. exact Bip32Lib.lib_public_private_agree. Qed.

(* the premise is satisfiable (Z/2Z), i.e. the abstract theorems are not vacuous *)
Example group_laws_inhabited : group_laws xorb false (fun b => b) z2_smul true 2.
Proof. exact z2_group_laws. Qed.

(* ================================================================ metadata (premise-free) *)

Theorem ckd_metadata :
  (forall x i y, s_ckd_priv x i = Some y ->
     0 <= i < two32 /\
     m_depth (xm y) = m_depth (xm x) + 1 /\ m_index (xm y) = i /\
     m_pfp (xm y) = firstn 4 (hash160 (ser_pub (secp_pub (xk x)))) /\
     (exists data, xc y = skipn 32 (hmac_sha512 (xc x) data) /\
        data = (if two31 <=? i then x00 :: be_bytes 32 (xk x) else ser_pub (secp_pub (xk x))) ++ be_bytes 4 i) /\
     length (xc y) = 32%nat /\ 1 <= xk y < secp_n) /\
  (forall (x y : spub) i, s_ckd_pub x i = Some y ->
     0 <= i < two31 /\
     m_depth (XM y) = m_depth (XM x) + 1 /\ m_index (XM y) = i /\
     m_pfp (XM y) = firstn 4 (hash160 (ser_pub (XK x))) /\
     XC y = skipn 32 (hmac_sha512 (XC x) (ser_pub (XK x) ++ be_bytes 4 i)) /\
     length (XC y) = 32%nat /\ XK y <> None).
Proof. exact (conj ckd_priv_metadata ckd_pub_metadata). Qed.

(* what child_private returns: depth + 1, the parent's fingerprint, the child number with the hardened
   bit set exactly when the hardened branch (marker given, or numeric index >= 2^31) was taken *)
Theorem lib_ckd_metadata :
  forall x i h Y, xc x <> [] -> lib_child_private (XPrv x) i h = Some Y ->
  exists y, Y = XPrv y /\
    m_depth (xm y) = m_depth (xm x) + 1 /\
    m_index (xm y) = lib_priv_index i h /\ 0 <= m_index (xm y) < two32 /\
    ((two31 <=? m_index (xm y)) = h || (two31 <=? i)) /\
    m_pfp (xm y) = lib_fingerprint (XPrv x) /\ length (xc y) = 32%nat /\ 1 <= xk y < secp_n.
Proof. exact lib_child_private_metadata. Qed.

(* ================================================================ the library computes BIP32 (premise-free) *)

(* child_private is CKDpriv at the child number it writes, failure cases included *)
Theorem lib_child_private_is_ckd :
  forall x i h, xc x <> [] ->
    lib_child_private (XPrv x) i h = option_map XPrv (s_ckd_priv x (lib_priv_index i h)).
Proof. exact lib_child_private_is_spec. Qed.

(* child_public returns only CKDpub results *)
Theorem lib_child_public_is_ckd :
  forall X i Y, wf_key X -> lib_child_public X i = Some Y ->
    option_map XPub (s_ckd_pub (pub_part X) i) = Some Y /\ wf_key Y.
Proof. exact lib_child_public_sound. Qed.

(* every key subkey_for_path returns is the key BIP32 defines for the path it parsed *)
Theorem lib_is_spec :
  forall X path Y, wf_key X -> lib_subkey_for_path X path = Some Y ->
    exists pp, lib_parse_path path = Some pp /\ s_subkey X (sem pp) = Some Y.
Proof. exact lib_is_spec_sound. Qed.

(* from a private key along m/... (or no prefix) the agreement is exact: same key or both fail *)
Theorem lib_is_spec_private :
  forall x path items, xc x <> [] -> lib_parse_path path = Some (false, items) ->
    lib_subkey_for_path (XPrv x) path = s_subkey (XPrv x) (sem (false, items)).
Proof. exact Bip32Lib.lib_is_spec_private. Qed.

Theorem lib_bare_prefix :
  forall X, lib_subkey_for_path X [x4d] = Some (s_neuter X) /\ lib_subkey_for_path X [x6d] = Some X.
Proof. exact (fun X => conj (lib_bare_M X) (lib_bare_m X)). Qed.

(* a hardened child is never obtained from public data: marked or numeric, anywhere in the path *)
Theorem hardened_from_public_fails :
  forall X path pp,
    lib_parse_path path = Some pp ->
    fst pp = true \/ lib_is_private X = false ->
    Exists (fun i => two31 <= i) (snd (sem pp)) ->
    lib_subkey_for_path X path = None.
Proof. exact Bip32Lib.hardened_from_public_fails. Qed.

Theorem child_public_hardened_fails : forall X i, two31 <= i -> lib_child_public X i = None.
Proof. exact lib_child_public_hardened. Qed.

Theorem child_public_never_private : forall X i Y, lib_child_public X i = Some Y -> lib_is_private Y = false.
Proof. exact lib_child_public_is_public. Qed.

(* exactly the five spellings ' H h P p denote hardening, and they are interchangeable *)
Theorem path_markers :
  (forall b, is_marker b = true <-> b = x27 \/ b = x48 \/ b = x68 \/ b = x50 \/ b = x70) /\
  (forall body b, is_marker b = true ->
     lib_parse_item (body ++ [b]) =
       match py_int body with
       | Some v => if (v <? 0) || (two31 <=? v) then None else Some (v, true)
       | None => None
       end) /\
  (forall body b, is_marker b = false ->
     lib_parse_item (body ++ [b]) =
       match py_int (body ++ [b]) with
       | Some v => if v <? 0 then None else Some (v, false)
       | None => None
       end) /\
  (forall item v hd, lib_parse_item item = Some (v, hd) ->
     exists body lastb, item = body ++ [lastb] /\ hd = is_marker lastb /\
       py_int (if hd then body else item) = Some v /\ 0 <= v /\ (hd = true -> v < two31)).
Proof. exact (conj is_marker_iff (conj lib_parse_item_marked (conj lib_parse_item_unmarked lib_parse_item_inv))). Qed.

(* master key *)
Theorem master_is_spec : forall S, lib_from_seed S = option_map XPrv (s_master S).
Proof. exact lib_from_seed_is_spec. Qed.

Theorem master_range :
  forall S X, lib_from_seed S = Some X ->
    exists x, X = XPrv x /\ 1 <= xk x < secp_n /\ length (xc x) = 32%nat /\
      xm x = {| m_depth := 0; m_pfp := zero_fp; m_index := 0 |}.
Proof. exact Bip32Lib.master_range. Qed.

(* wif() / wif_public() are Base58Check of the BIP32 serialization *)
Theorem wif_is_serialization :
  (forall v x, lib_wif v true (XPrv x) = option_map b58check_111 (s_ser_prv v x)) /\
  (forall v a X, a = false \/ lib_is_private X = false ->
     lib_wif v a X = option_map b58check_111 (s_ser_pub v (pub_part X))).
Proof. exact (conj lib_wif_private_is_spec lib_wif_public_is_spec). Qed.

(* wif(child_index=n) is the serialization with child number n in place of the key's own, and wif() that of the key *)
Theorem wif_child_index_is_serialization :
  (forall v a X, lib_wif_index v a X None = lib_wif v a X) /\
  (forall v X n,
     lib_wif_index v true (XPrv X) (Some n) =
       option_map b58check_111 (s_ser_prv v {| xk := xk X; xc := xc X; xm := with_index (xm X) n |}) /\
     forall a Y, a = false \/ lib_is_private Y = false ->
       lib_wif_index v a Y (Some n) = option_map b58check_111 (s_ser_pub v (pub_part (lib_with_index Y n)))).
Proof. exact (conj lib_wif_index_none lib_wif_index_is_spec). Qed.

(* ================================================================ sessions: many calls on one HDKey object *)

(* Every answer of a session is the stateless function of the key material of the object the request names:
   [slot_key (session_slots X reqs) s] is ONE key per slot for the whole session (slot 0 the start key, slot k+1
   the key request k returned), the named object keeps exactly that key after the call, and the key returned is
   lib_subkey_for_path / lib_child_private / lib_child_public / lib_public / lib_public_master ([op_key]) of it
   — whatever was called before, on this object or on any other.  The settings [c] (network, witness_type,
   multisig: what network_change and public_master write on the object) enter only public_master's choice of
   the account path. *)
Theorem derivation_session_is_function :
  forall X reqs k r a,
    nth_error reqs k = Some r -> nth_error (lib_session X reqs) k = Some a -> (rq_slot r <= k)%nat ->
    match slot_key (session_slots X reqs) (rq_slot r) with
    | None => an_target a = None /\ an_result a = RFail
    | Some key =>
        exists c, an_target a = Some {| ho_key := key; ho_cfg := c |} /\
          ans_key a = op_key key c (rq_op r) /\
          (an_result a = RSelf <-> op_self key (rq_op r) = true) /\
          (forall o, an_result a = RNew o -> ho_cfg o = c)
    end /\
    slot_key (session_slots X reqs) (S k) = match an_result a with RNew o => Some (ho_key o) | _ => None end.
Proof. exact session_is_function. Qed.

Theorem session_start_is_key : forall X reqs, slot_key (session_slots X reqs) O = Some (ho_key X).
Proof. exact session_start_key. Qed.

(* no memory: the same call put twice to the same object returns the same key, whatever happened in between *)
Theorem derivation_session_repeatable :
  forall X reqs k1 k2 r a1 a2,
    nth_error reqs k1 = Some r -> nth_error reqs k2 = Some r ->
    nth_error (lib_session X reqs) k1 = Some a1 -> nth_error (lib_session X reqs) k2 = Some a2 ->
    (rq_slot r <= k1)%nat -> (rq_slot r <= k2)%nat -> op_cfg_free (rq_op r) = true ->
    ans_key a1 = ans_key a2.
Proof. exact session_repeatable. Qed.

(* one call on a public-only object: the result is public-only and a request that needs private material
   (a hardened path element, marked or numeric; child_private; child_public(i >= 2^31); public_master) fails;
   public(), child_public, "M/..." and public_master(as_private=False) return public-only objects from any key *)
Theorem public_object_calls :
  (forall k c op k', lib_is_private k = false -> op_key k c op = Some k' -> lib_is_private k' = false) /\
  (forall k c op, op_needs_private op = true -> lib_is_private k = false -> op_key k c op = None) /\
  (forall k c op k', op_makes_public op = true -> op_key k c op = Some k' -> lib_is_private k' = false).
Proof. exact (conj op_key_public_closed (conj op_needs_private_fails op_makes_public_sound)). Qed.

(* for every start key X and every session: a request put to an object that is public-only by construction
   (X itself if public-only, a public() copy, a child_public / "M/..." / public_master result, and anything
   obtained from one of these — [session_public_marks]) leaves that object public-only, returns no private
   material, and fails if it needs private material; nothing derived earlier from the private original changes that *)
Theorem public_copy_never_private :
  forall X reqs k r a,
    nth_error reqs k = Some r -> nth_error (lib_session X reqs) k = Some a -> (rq_slot r <= k)%nat ->
    nth (rq_slot r) (session_public_marks X reqs) false = true ->
    (forall o, an_target a = Some o -> lib_is_private (ho_key o) = false) /\
    (forall key, ans_key a = Some key -> lib_is_private key = false) /\
    (op_needs_private (rq_op r) = true -> an_result a = RFail).
Proof. exact session_public. Qed.

Theorem public_marks_are :
  forall X reqs,
    nth O (session_public_marks X reqs) false = negb (lib_is_private (ho_key X)) /\
    forall k r, nth_error reqs k = Some r -> (rq_slot r <= k)%nat ->
      nth (S k) (session_public_marks X reqs) false =
      op_makes_public (rq_op r) || nth (rq_slot r) (session_public_marks X reqs) false.
Proof. exact session_marks_spec. Qed.

(* ================================================================ examples *)

Definition ex_chain : bytes := repeat x01 32.
Definition ex_key : lkey := XPrv {| xk := 1; xc := ex_chain; xm := {| m_depth := 0; m_pfp := zero_fp; m_index := 0 |} |}.
Definition ex_pub : lkey := XPub {| XK := secp_G; XC := ex_chain; XM := {| m_depth := 0; m_pfp := zero_fp; m_index := 0 |} |}.
(* "m/44'/0h/1H/2p/3P/7" *)
Definition ex_path : bytes :=
  [x6d; x2f; x34; x34; x27; x2f; x30; x68; x2f; x31; x48; x2f; x32; x70; x2f; x33; x50; x2f; x37].

Example path_markers_witness :
  lib_parse_path ex_path = Some (false, [(44, true); (0, true); (1, true); (2, true); (3, true); (7, false)]) /\
  snd (sem (false, [(44, true); (7, false)])) = [2147483692; 7].
Proof. split; vm_compute; reflexivity. Qed.

(* lib_is_spec is not vacuous: the hardened child m/0' of the key with secret 1 exists, with the expected metadata *)
Example lib_is_spec_witness :
  wf_key ex_key /\
  exists y, lib_subkey_for_path ex_key [x6d; x2f; x30; x27] = Some (XPrv y) /\
    m_depth (xm y) = 1 /\ m_index (xm y) = 2147483648 /\ m_pfp (xm y) = [x75; x1e; x76; xe8].
Proof.
  split; [split; [discriminate | exact I]|].
  eexists. split; [vm_compute; reflexivity|]. repeat split.
Qed.

(* findings 10-12 after the repair: marked or numeric hardened elements fail from public data;
   m/2147483648 is the hardened child m/0'; a marker on an index >= 2^31 is refused *)
Example hardened_from_public_witness :
  lib_subkey_for_path ex_pub [x30; x27] = None /\
  lib_subkey_for_path ex_pub [x4d; x2f; x30; x68] = None /\
  lib_subkey_for_path ex_key [x4d; x2f; x30; x27] = None /\
  lib_subkey_for_path ex_pub [x6d; x2f; x32; x31; x34; x37; x34; x38; x33; x36; x34; x38] = None /\
  lib_child_public ex_pub 2147483648 = None.
Proof. repeat split; vm_compute; reflexivity. Qed.

Example numeric_hardened_is_marked :
  lib_subkey_for_path ex_key [x6d; x2f; x32; x31; x34; x37; x34; x38; x33; x36; x34; x38] =
  lib_subkey_for_path ex_key [x6d; x2f; x30; x27] /\
  lib_subkey_for_path ex_key [x6d; x2f; x32; x31; x34; x37; x34; x38; x33; x36; x34; x38; x27] = None.
Proof. split; vm_compute; reflexivity. Qed.

(* a session on the key with secret 1: m/0' from the private original, a public() copy, the same path asked of
   the copy (fails), child_private on the copy (fails), public_master on the copy (fails), "m" on the copy (the copy
   itself, public), and m/0' from the original again (the same key as the first time) *)
Definition ex_cfg : kcfg :=
  {| kc_net := []; kc_coin := 0; kc_vprv := [x04; x88; xad; xe4]; kc_vpub := [x04; x88; xb2; x1e];
     kc_wit := WLegacy; kc_multi := false |}.
Definition ex_path0h : bytes := [x6d; x2f; x30; x27].
Definition ex_session : list sreq :=
  [ {| rq_slot := 0; rq_op := SPath ex_path0h |};
    {| rq_slot := 0; rq_op := SPublic |};
    {| rq_slot := 2; rq_op := SPath ex_path0h |};
    {| rq_slot := 2; rq_op := SChildPriv 0 true |};
    {| rq_slot := 2; rq_op := SMaster 0 None None None true |};
    {| rq_slot := 2; rq_op := SPath [x6d] |};
    {| rq_slot := 0; rq_op := SPath ex_path0h |} ].

Example session_witness :
  let a := lib_session {| ho_key := ex_key; ho_cfg := ex_cfg |} ex_session in
  session_public_marks {| ho_key := ex_key; ho_cfg := ex_cfg |} ex_session =
    [false; false; true; true; true; true; true; false] /\
  map (fun x => match ans_key x with Some k => Some (lib_is_private k) | None => None end) a =
    [Some true; Some false; None; None; None; Some false; Some true] /\
  map (fun x => match an_result x with RNew _ => 1 | RSelf => 2 | RFail => 0 end) a = [1; 1; 0; 0; 0; 2; 1] /\
  nth_error (map ans_key a) 0 = nth_error (map ans_key a) 6 /\
  nth_error (map ans_key a) 1 = Some (Some ex_pub).
Proof. vm_compute. repeat split. Qed.

(* --- construction forms: however the constructor is given (k, c) — key=/chain= keywords, 64 bytes key||chain,
   hex / bytes / int / WIF / BIP38 with chain=, a Key or HDKey OBJECT with chain= — the object is the extended key
   the caller specified, so every derivation is the derivation of that key; the chain code and metadata an imported
   object carries itself are never consulted; without chain= a plain key gets the documented 32 zero bytes --- *)
Theorem construction_is_callers_key :
  forall mat chain m, callers_chain mat chain <> [] -> lib_construct mat chain m = callers_key mat chain m.
Proof. exact construct_is_callers_key. Qed.

Theorem construction_derives_callers_children :
  forall mat chain m path, callers_chain mat chain <> [] ->
  lib_subkey_for_path (lib_construct mat chain m) path = lib_subkey_for_path (callers_key mat chain m) path.
Proof. exact construct_derivation. Qed.

Theorem construction_ignores_imported_objects_chain :
  forall k oc om oc' om' chain m,
  lib_construct (CObject k oc om) chain m = lib_construct (CObject k oc' om') chain m /\
  lib_construct (CObject k oc om) chain m = lib_construct (CScalar k) chain m.
Proof. exact construct_object_own_ignored. Qed.

Theorem construction_default_chain :
  forall k m, lib_construct (CScalar k) [] m = XPrv {| xk := k; xc := zero_chain; xm := m |}.
Proof. exact construct_default_chain. Qed.

Example construction_witness :
  let m := {| m_depth := 0; m_pfp := zero_fp; m_index := 0 |} in
  let c := repeat x01 32 in
  callers_chain (CObject 5 [] m) c <> [] /\
  lib_chain (lib_construct (CObject 5 (repeat x02 32) m) c m) = c /\
  lib_chain (lib_construct (CCat64 5 c) [] m) = c.
Proof. vm_compute. repeat split. intros E. discriminate E. Qed.

(* what the guard wf_key excludes: with an empty chain code the library keys the HMAC with
   "Bitcoin seed" (HDKey._key_derivation), which is not CKDpriv with an empty chain code *)
Example empty_chain_refuted :
  let x := {| xk := 1; xc := []; xm := {| m_depth := 0; m_pfp := zero_fp; m_index := 0 |} |} in
  lib_child_private (XPrv x) 0 true <> option_map XPrv (s_ckd_priv x (lib_priv_index 0 true)).
Proof. vm_compute. intros E. discriminate E. Qed.

Print Assumptions source_is_model.
Print Assumptions source_is_stateless.
Print Assumptions ckd_commute.
Print Assumptions path_split.
Print Assumptions path_split_any.
Print Assumptions ckd_commute_secp.
Print Assumptions path_split_secp.
Print Assumptions lib_public_private_agree.
Print Assumptions ckd_metadata.
Print Assumptions lib_ckd_metadata.
Print Assumptions lib_child_private_is_ckd.
Print Assumptions lib_child_public_is_ckd.
Print Assumptions lib_is_spec.
Print Assumptions lib_is_spec_private.
Print Assumptions lib_bare_prefix.
Print Assumptions hardened_from_public_fails.
Print Assumptions child_public_hardened_fails.
Print Assumptions child_public_never_private.
Print Assumptions path_markers.
Print Assumptions master_is_spec.
Print Assumptions master_range.
Print Assumptions wif_is_serialization.
Print Assumptions derivation_session_is_function.
Print Assumptions session_start_is_key.
Print Assumptions derivation_session_repeatable.
Print Assumptions public_object_calls.
Print Assumptions public_copy_never_private.
Print Assumptions public_marks_are.
Print Assumptions wif_child_index_is_serialization.
Print Assumptions construction_is_callers_key.
Print Assumptions construction_derives_callers_children.
Print Assumptions construction_ignores_imported_objects_chain.
Print Assumptions construction_default_chain.
