(* Properties/C14.v — Mnemonic sentences follow BIP39 in every language and round-trip.
   Only statements closed by [exact lemma], non-vacuity examples, refutation witnesses for the class excluded by
   a guard, and Print Assumptions.  H is an arbitrary hash with 32-byte output ([hash32 H], a visible premise);
   the _sha256 statements are the instances for the executable SHA-256 and carry no premise.
   Sentences are index lists; the word list is abstract (any 2048 distinct words). *)
From Coq Require Import ZArith List Bool.
From Coq.Strings Require Import Byte.
From Verif Require Import Lib.Bytes Lib.BitRegroup Model.ChangeBase Model.Bip39 Crypto.Sha256.
From Verif Require Import Gen.GenWordlists Proofs.Bip39Spec Proofs.Bip39Wordlists Proofs.Bip39Final.
Import ListNotations.
Open Scope Z_scope.

(* --- BIP39 itself: decoding inverts encoding; 12/15/18/21/24 indices below 2048 --- *)
Theorem bip39_roundtrip : forall H, hash32 H -> forall ent, valid_ent_len (length ent) ->
  spec_to_entropy H (spec_to_indices H ent) = Some ent /\
  in_base 2048 (spec_to_indices H ent) /\
  (length (spec_to_indices H ent) = length ent * 3 / 4)%nat /\
  valid_ms (length (spec_to_indices H ent)) = true.
Proof. exact final_roundtrip. Qed.

(* --- every accepted sentence is THE sentence of its entropy (any hash, no premise) --- *)
Theorem bip39_accept_canonical : forall H idxs ent,
  spec_to_entropy H idxs = Some ent -> idxs = spec_to_indices H ent /\ valid_ent_len (length ent).
Proof. exact spec_accept_canonical. Qed.

Theorem bip39_checksum_mismatch_rejected : forall H idxs,
  (forall ent, idxs <> spec_to_indices H ent) -> spec_to_entropy H idxs = None.
Proof. exact spec_reject_noncanonical. Qed.

(* --- the library: to_mnemonic gives the BIP39 sentence and to_entropy inverts it, for every entropy of the
       five lengths including every number of leading zero bits; guard: the entropy bytes do not read as hex
       text (encoding.to_bytes would unhexlify them) --- *)
Theorem lib_is_bip39 : forall H, hash32 H -> forall ent, valid_ent_len (length ent) -> hexlike ent = false ->
  lib_to_indices H ent = Some (spec_to_indices H ent) /\
  lib_to_entropy H (spec_to_indices H ent) = Some ent.
Proof. exact final_lib_is_bip39. Qed.

Theorem lib_is_bip39_sha256 : forall ent, valid_ent_len (length ent) -> hexlike ent = false ->
  lib_to_indices sha256 ent = Some (spec_to_indices sha256 ent) /\
  lib_to_entropy sha256 (spec_to_indices sha256 ent) = Some ent.
Proof. exact final_lib_is_bip39_sha256. Qed.

(* --- the library accepts exactly what BIP39 accepts (sentences of 12..24 known words) --- *)
Theorem lib_accepts_as_bip39 : forall H, hash32 H -> forall idxs,
  valid_ms (length idxs) = true -> in_base 2048 idxs -> hexlike (candidate_entropy idxs) = false ->
  lib_to_entropy H idxs = spec_to_entropy H idxs.
Proof. exact final_lib_accepts_as_bip39. Qed.

Theorem lib_rejects_bad_checksum : forall H, hash32 H -> forall idxs,
  valid_ms (length idxs) = true -> in_base 2048 idxs -> hexlike (candidate_entropy idxs) = false ->
  (forall ent, idxs <> spec_to_indices H ent) -> lib_to_entropy H idxs = None.
Proof. exact final_lib_rejects_bad_checksum. Qed.

(* --- words --- *)
Theorem word_index_inverse : forall (W : Type) (weqb : W -> W -> bool), (forall a b, weqb a b = true <-> a = b) ->
  forall wl, NoDup wl ->
  (forall i d, (i < length wl)%nat -> index_of W weqb (nth i wl d) wl = Some (Z.of_nat i)) /\
  (forall w i, index_of W weqb w wl = Some i -> 0 <= i < Z.of_nat (length wl) /\ forall d, nth (Z.to_nat i) wl d = w).
Proof. exact final_word_index_inverse. Qed.

Theorem unknown_word_rejected : forall (W : Type) (weqb : W -> W -> bool), (forall a b, weqb a b = true <-> a = b) ->
  forall H w ws wl, In w ws -> ~ In w wl -> lib_entropy_of_words H W weqb wl ws = None.
Proof. exact final_unknown_word_rejected. Qed.

Theorem lib_words_roundtrip : forall H, hash32 H ->
  forall (W : Type) (weqb : W -> W -> bool), (forall a b, weqb a b = true <-> a = b) ->
  forall (d : W) (wl : list W) ent, NoDup wl -> length wl = 2048%nat ->
  valid_ent_len (length ent) -> hexlike ent = false ->
  exists ws, lib_words_of_entropy H W d wl ent = Some ws /\
             (length ws = length ent * 3 / 4)%nat /\
             lib_entropy_of_words H W weqb wl ws = Some ent.
Proof. exact final_words_roundtrip. Qed.

(* --- the nine bundled word lists, regenerated from bitcoinlib/wordlist/*.txt on every run (a word is the integer
       of its UTF-8 bytes): 2048 distinct words each, so every statement above applies to every language --- *)
Theorem bundled_wordlists_ok : Forall wordlist_ok bundled_wordlists /\ bundled_count = 9%nat.
Proof. exact final_bundled_ok. Qed.

Theorem bundled_roundtrip : forall H, hash32 H -> forall wl, In wl bundled_wordlists ->
  forall ent, valid_ent_len (length ent) -> hexlike ent = false ->
  exists ws, lib_words_of_entropy H Z 0 wl ent = Some ws /\
             (length ws = length ent * 3 / 4)%nat /\
             lib_entropy_of_words H Z Z.eqb wl ws = Some ent.
Proof. exact final_bundled_roundtrip. Qed.

(* --- seed (repaired code, fixes/C14-1): PBKDF2 over the NFKD sentence and "mnemonic" ++ NFKD passphrase --- *)
Theorem seed_is_bip39 : forall (str : Type) (NFKD : str -> str) (utf8 : str -> bytes)
  (KDF : bytes -> bytes -> Z -> Z -> bytes) (accepts : str -> bool) s pw,
  lib_to_seed str NFKD utf8 KDF accepts s pw =
    if accepts (NFKD s) then Some (KDF (utf8 (NFKD s)) (mnemonic_salt ++ utf8 (NFKD pw)) 2048 64) else None.
Proof. exact final_seed. Qed.

(* --- the reusable 8 <-> 11 (any a <-> b) regrouping law --- *)
Theorem regroup_lossless : forall a b syms,
  in_base (2 ^ Z.of_nat a) syms -> a <> O -> b <> O -> ((a * length syms) mod b = 0)%nat ->
  regroup b a (regroup a b syms) = syms.
Proof. exact regroup_roundtrip. Qed.

(* --- non-vacuity: protocol vectors evaluated inside Coq --- *)
Example vector_zero :
  spec_to_indices sha256 (repeat x00 16) = [0; 0; 0; 0; 0; 0; 0; 0; 0; 0; 0; 3] /\
  lib_to_indices sha256 (repeat x00 16) = Some [0; 0; 0; 0; 0; 0; 0; 0; 0; 0; 0; 3] /\
  lib_to_entropy sha256 [0; 0; 0; 0; 0; 0; 0; 0; 0; 0; 0; 3] = Some (repeat x00 16) /\
  lib_to_entropy sha256 [0; 0; 0; 0; 0; 0; 0; 0; 0; 0; 0; 4] = None /\
  hexlike (repeat x00 16) = false.
Proof. repeat split; vm_compute; reflexivity. Qed.

Example vector_7f_ff :
  lib_to_indices sha256 (repeat x7f 16) =
    Some [1019; 2015; 1790; 2039; 1983; 1533; 2031; 1919; 1019; 2015; 1790; 2040] /\
  lib_to_indices sha256 (repeat xff 32) =
    Some [2047; 2047; 2047; 2047; 2047; 2047; 2047; 2047; 2047; 2047; 2047; 2047; 2047; 2047; 2047; 2047;
          2047; 2047; 2047; 2047; 2047; 2047; 2047; 1967] /\
  spec_to_entropy sha256 [2047; 2047; 2047; 2047; 2047; 2047; 2047; 2047; 2047; 2047; 2047; 2037] = Some (repeat xff 16).
Proof. repeat split; vm_compute; reflexivity. Qed.

(* --- refutation witness for the guard: 16 bytes that are the ASCII text "0123456789abcdef" are unhexlified to 8
       bytes, the sentence has 6 words, and the BIP39 sentence of those 16 bytes is rejected --- *)
Example lib_is_bip39_refuted :
  valid_ent_len (length hexlike_witness) /\ hexlike hexlike_witness = true /\
  lib_to_indices sha256 hexlike_witness = Some [9; 209; 719; 154; 1510; 1981] /\
  lib_to_indices sha256 hexlike_witness <> Some (spec_to_indices sha256 hexlike_witness) /\
  lib_to_entropy sha256 (spec_to_indices sha256 hexlike_witness) = None.
Proof.
  split; [left; reflexivity|]. split; [vm_compute; reflexivity|]. split; [vm_compute; reflexivity|].
  split; [vm_compute; discriminate | vm_compute; reflexivity].
Qed.

(* --- the unrepaired to_seed: a passphrase whose UTF-8 changes under NFKD ("é" composed) reaches PBKDF2 with a salt
       different from the BIP39 one (a string is the pair (UTF-8 bytes, UTF-8 bytes of its NFKD form)) --- *)
Example seed_unfixed_refuted :
  let nfkd := fun s : ostr => (snd s, snd s) in
  let pw : ostr := ([xc3; xa9], [x65; xcc; x81]) in
  let s : ostr := ([x61], [x61]) in
  lib_seed_query_unfixed ostr nfkd fst (fun _ => true) s pw = Some ([x61], mnemonic_salt ++ [xc3; xa9]) /\
  lib_seed_query ostr nfkd fst (fun _ => true) s pw = Some ([x61], mnemonic_salt ++ [x65; xcc; x81]).
Proof. split; vm_compute; reflexivity. Qed.

Print Assumptions bip39_roundtrip.
Print Assumptions bip39_accept_canonical.
Print Assumptions bip39_checksum_mismatch_rejected.
Print Assumptions lib_is_bip39.
Print Assumptions lib_is_bip39_sha256.
Print Assumptions lib_accepts_as_bip39.
Print Assumptions lib_rejects_bad_checksum.
Print Assumptions word_index_inverse.
Print Assumptions unknown_word_rejected.
Print Assumptions lib_words_roundtrip.
Print Assumptions bundled_wordlists_ok.
Print Assumptions bundled_roundtrip.
Print Assumptions seed_is_bip39.
Print Assumptions regroup_lossless.
