(* Properties/C14.v — Mnemonic sentences follow BIP39 in every language and round-trip.
   Only statements closed by [exact lemma], non-vacuity examples, refutation witnesses for the class excluded by
   a guard, and Print Assumptions.  H is an arbitrary hash with 32-byte output ([hash32 H], a visible premise);
   the _sha256 statements are the instances for the executable SHA-256 and carry no premise.
   Sentences are index lists; the word list is abstract (any 2048 distinct words). *)
From Coq Require Import ZArith List Bool.
From Coq.Strings Require Import Byte.
From Verif Require Import Lib.Bytes Lib.BitRegroup Model.ChangeBase Model.Bip39 Crypto.Sha256.
From Verif Require Import Gen.GenWordlists Proofs.Bip39Spec Proofs.Bip39Wordlists Proofs.Bip39Final.
From Verif Require Import Model.Bip39Frozen Proofs.Bip39Frozen Proofs.Bip39Detect.
Import ListNotations.
Open Scope Z_scope.

(* --- BIP39 itself: decoding inverts encoding; 12/15/18/21/24 indices below 2048 --- *)
Theorem bip39_roundtrip : forall H, hash32 H -> forall ent, valid_ent_len (length ent) ->
  spec_to_entropy H (spec_to_indices H ent) = Some ent /\
  in_base 2048 (spec_to_indices H ent) /\
  (length (spec_to_indices H ent) = length ent * 3 / 4)%nat /\
  valid_ms (length (spec_to_indices H ent)) = true.
Proof. exact final_roundtrip. Qed.

(* --- every accepted sentence is THE sentence of its entropy (any hash, no premise) --- *)
Theorem bip39_accept_canonical : forall H idxs ent,
  spec_to_entropy H idxs = Some ent -> idxs = spec_to_indices H ent /\ valid_ent_len (length ent).
Proof. exact spec_accept_canonical. Qed.

Theorem bip39_checksum_mismatch_rejected : forall H idxs,
  (forall ent, idxs <> spec_to_indices H ent) -> spec_to_entropy H idxs = None.
Proof. exact spec_reject_noncanonical. Qed.

(* --- the library: to_mnemonic gives the BIP39 sentence and to_entropy inverts it, for every entropy of the
       five lengths including every number of leading zero bits; guard: the entropy bytes do not read as hex
       text (encoding.to_bytes would unhexlify them) --- *)
Theorem lib_is_bip39 : forall H, hash32 H -> forall ent, valid_ent_len (length ent) -> hexlike ent = false ->
  lib_to_indices H ent = Some (spec_to_indices H ent) /\
  lib_to_entropy H (spec_to_indices H ent) = Some ent.
Proof. exact final_lib_is_bip39. Qed.

Theorem lib_is_bip39_sha256 : forall ent, valid_ent_len (length ent) -> hexlike ent = false ->
  lib_to_indices sha256 ent = Some (spec_to_indices sha256 ent) /\
  lib_to_entropy sha256 (spec_to_indices sha256 ent) = Some ent.
Proof. exact final_lib_is_bip39_sha256. Qed.

(* --- the library accepts exactly what BIP39 accepts (sentences of 12..24 known words) --- *)
Theorem lib_accepts_as_bip39 : forall H, hash32 H -> forall idxs,
  valid_ms (length idxs) = true -> in_base 2048 idxs -> hexlike (candidate_entropy idxs) = false ->
  lib_to_entropy H idxs = spec_to_entropy H idxs.
Proof. exact final_lib_accepts_as_bip39. Qed.

Theorem lib_rejects_bad_checksum : forall H, hash32 H -> forall idxs,
  valid_ms (length idxs) = true -> in_base 2048 idxs -> hexlike (candidate_entropy idxs) = false ->
  (forall ent, idxs <> spec_to_indices H ent) -> lib_to_entropy H idxs = None.
Proof. exact final_lib_rejects_bad_checksum. Qed.

(* --- words --- *)
Theorem word_index_inverse : forall (W : Type) (weqb : W -> W -> bool), (forall a b, weqb a b = true <-> a = b) ->
  forall wl, NoDup wl ->
  (forall i d, (i < length wl)%nat -> index_of W weqb (nth i wl d) wl = Some (Z.of_nat i)) /\
  (forall w i, index_of W weqb w wl = Some i -> 0 <= i < Z.of_nat (length wl) /\ forall d, nth (Z.to_nat i) wl d = w).
Proof. exact final_word_index_inverse. Qed.

Theorem unknown_word_rejected : forall (W : Type) (weqb : W -> W -> bool), (forall a b, weqb a b = true <-> a = b) ->
  forall H w ws wl, In w ws -> ~ In w wl -> lib_entropy_of_words H W weqb wl ws = None.
Proof. exact final_unknown_word_rejected. Qed.

Theorem lib_words_roundtrip : forall H, hash32 H ->
  forall (W : Type) (weqb : W -> W -> bool), (forall a b, weqb a b = true <-> a = b) ->
  forall (d : W) (wl : list W) ent, NoDup wl -> length wl = 2048%nat ->
  valid_ent_len (length ent) -> hexlike ent = false ->
  exists ws, lib_words_of_entropy H W d wl ent = Some ws /\
             (length ws = length ent * 3 / 4)%nat /\
             lib_entropy_of_words H W weqb wl ws = Some ent.
Proof. exact final_words_roundtrip. Qed.

(* --- the nine bundled word lists, regenerated from bitcoinlib/wordlist/*.txt on every run (a word is the integer
       of its UTF-8 bytes): 2048 distinct words each, so every statement above applies to every language --- *)
Theorem bundled_wordlists_ok : Forall wordlist_ok bundled_wordlists /\ bundled_count = 9%nat.
Proof. exact final_bundled_ok. Qed.

Theorem bundled_roundtrip : forall H, hash32 H -> forall wl, In wl bundled_wordlists ->
  forall ent, valid_ent_len (length ent) -> hexlike ent = false ->
  exists ws, lib_words_of_entropy H Z 0 wl ent = Some ws /\
             (length ws = length ent * 3 / 4)%nat /\
             lib_entropy_of_words H Z Z.eqb wl ws = Some ent.
Proof. exact final_bundled_roundtrip. Qed.

(* --- seed (repaired code, fixes/C14-1): PBKDF2 over the NFKD sentence and "mnemonic" ++ NFKD passphrase --- *)
Theorem seed_is_bip39 : forall (str : Type) (NFKD : str -> str) (utf8 : str -> bytes)
  (KDF : bytes -> bytes -> Z -> Z -> bytes) (accepts : str -> bool) s pw,
  lib_to_seed str NFKD utf8 KDF accepts s pw =
    if accepts (NFKD s) then Some (KDF (utf8 (NFKD s)) (mnemonic_salt ++ utf8 (NFKD pw)) 2048 64) else None.
Proof. exact final_seed. Qed.

(* --- the regenerated word lists ARE the frozen BIP39 lists (Model/Bip39Frozen.v): same nine lists, same order,
       same words at the same positions; an edited / swapped / added word in bitcoinlib/wordlist breaks this --- *)
Theorem bundled_wordlists_are_frozen : bundled_wordlists = frozen_wordlists /\ bundled_count = frozen_count.
Proof. exact bundled_is_frozen. Qed.

(* --- language detection and sanitising.  A word is known by its position in each list ([pos k w]); [order] is the
       order in which the directory lists the files (arbitrary).  detect_language returns a list with the largest
       number of sentence words, and THE list when only one list contains every word --- *)
Theorem detect_language_sound : forall (W : Type) (pos : nat -> W -> option Z) order ws k,
  lib_detect W pos order ws = Some k ->
  In k order /\ (0 < count_in W pos k ws)%nat /\
  forall j, In j order -> (count_in W pos j ws <= count_in W pos k ws)%nat.
Proof. exact final_detect_sound. Qed.

Theorem detect_language_unique : forall (W : Type) (pos : nat -> W -> option Z) order self ws,
  In self order -> ws <> [] -> forallb (known W pos self) ws = true ->
  (forall j, In j order -> j <> self -> forallb (known W pos j) ws = false) ->
  lib_detect W pos order ws = Some self.
Proof. exact final_detect_unique. Qed.

Theorem sanitize_sound : forall (W : Type) (pos : nat -> W -> option Z) order ws ws',
  lib_sanitize W pos order ws = Some ws' ->
  ws' = ws /\ ws <> [] /\ exists k, In k order /\ forallb (known W pos k) ws = true.
Proof. exact final_sanitize_sound. Qed.

Theorem sanitize_complete : forall (W : Type) (pos : nat -> W -> option Z) order self ws,
  In self order -> ws <> [] -> forallb (known W pos self) ws = true -> lib_sanitize W pos order ws = Some ws.
Proof. exact final_sanitize_complete. Qed.

(* --- Mnemonic(lang).to_entropy(sentence, includes_checksum) through sanitize + detection + lookup is the conversion
       over the OBJECT's own list, whatever the other lists contain and in whatever order the directory lists them
       (so sentences made of words shared between lists decode like any other) --- *)
Theorem to_entropy_uses_own_list : forall (W : Type) (weqb : W -> W -> bool) H langs order self flag ws,
  In self order ->
  lib_entropy_obj W (pos_of_lists W weqb langs) H order self flag ws =
  lib_entropy_of_words_opt H W weqb (nth self langs []) flag ws.
Proof. exact final_obj_is_own_list. Qed.

Theorem bundled_object_roundtrip : forall H, hash32 H -> forall order k, (k < 9)%nat -> In k order ->
  forall ent, valid_ent_len (length ent) -> hexlike ent = false ->
  exists ws, lib_words_of_entropy H Z 0 (nth k bundled_wordlists []) ent = Some ws /\
             lib_entropy_obj Z (pos_of_lists Z Z.eqb bundled_wordlists) H order k true ws = Some ent.
Proof. exact final_bundled_object_roundtrip. Qed.

Theorem object_rejects_bad_sentence : forall (W : Type) (weqb : W -> W -> bool) H langs order self ws,
  In self order -> lib_entropy_of_words H W weqb (nth self langs []) ws = None ->
  lib_entropy_obj W (pos_of_lists W weqb langs) H order self true ws = None /\
  lib_seed_accepts W (pos_of_lists W weqb langs) H order self true ws = false.
Proof. exact final_object_rejects. Qed.

(* --- to_seed with the validate switch: whenever a seed comes out it is the BIP39 seed (the switch changes only
       which sentences are refused; the sentence is NFKD-normalised in both settings) --- *)
Theorem seed_is_bip39_any_validate : forall (str : Type) (NFKD : str -> str) (utf8 : str -> bytes)
  (KDF : bytes -> bytes -> Z -> Z -> bytes) (accepts sanitizes : str -> bool) v s pw,
  lib_to_seed_v str NFKD utf8 KDF accepts sanitizes v s pw =
    if sanitizes (NFKD s) && (negb v || accepts (NFKD s))
    then Some (spec_seed str NFKD utf8 KDF s pw) else None.
Proof. exact final_seed_v. Qed.

Theorem seed_validate_default : forall (str : Type) (NFKD : str -> str) (utf8 : str -> bytes)
  (KDF : bytes -> bytes -> Z -> Z -> bytes) (accepts sanitizes : str -> bool) s pw,
  (forall x, accepts x = true -> sanitizes x = true) ->
  lib_to_seed_v str NFKD utf8 KDF accepts sanitizes true s pw = lib_to_seed str NFKD utf8 KDF accepts s pw.
Proof. exact final_seed_v_default. Qed.

(* --- the switches of to_mnemonic / to_entropy: the defaults are the functions of the theorems above;
       check_on_curve only refuses (0 and values >= n); without checksum both directions keep the NUMBER --- *)
Theorem default_switches : forall H d wi,
  lib_to_indices_opt H true false d = lib_to_indices H d /\ lib_to_entropy_opt H true wi = lib_to_entropy H wi.
Proof. exact final_default_switches. Qed.

Theorem check_on_curve_only_refuses : forall H a d,
  lib_to_indices_opt H a true d =
    if on_curve_ok (of_be (lib_to_bytes d)) then lib_to_indices_opt H a false d else None.
Proof. exact final_check_on_curve_only_refuses. Qed.

Theorem raw_indices_value : forall H c d wi, lib_to_indices_opt H false c d = Some wi ->
  val 2048 wi = of_be (lib_to_bytes d) /\ in_base 2048 wi /\ wi <> [].
Proof. exact final_raw_indices_value. Qed.

Theorem raw_entropy_value : forall H wi e, in_base 2048 wi -> lib_to_entropy_opt H false wi = Some e ->
  of_be e = val 2048 wi /\ (4 * length wi / 3 <= length e)%nat.
Proof. exact final_raw_entropy_value. Qed.

(* --- sessions: the answer to a call does not depend on the calls made before it --- *)
Theorem session_history_independent : forall pre r post,
  nth_error (run_session (pre ++ r :: post)) (length pre) = Some (answer r).
Proof. exact final_session_history_independent. Qed.

(* --- the reusable 8 <-> 11 (any a <-> b) regrouping law --- *)
Theorem regroup_lossless : forall a b syms,
  in_base (2 ^ Z.of_nat a) syms -> a <> O -> b <> O -> ((a * length syms) mod b = 0)%nat ->
  regroup b a (regroup a b syms) = syms.
Proof. exact regroup_roundtrip. Qed.

(* --- non-vacuity: protocol vectors evaluated inside Coq --- *)
Example vector_zero :
  spec_to_indices sha256 (repeat x00 16) = [0; 0; 0; 0; 0; 0; 0; 0; 0; 0; 0; 3] /\
  lib_to_indices sha256 (repeat x00 16) = Some [0; 0; 0; 0; 0; 0; 0; 0; 0; 0; 0; 3] /\
  lib_to_entropy sha256 [0; 0; 0; 0; 0; 0; 0; 0; 0; 0; 0; 3] = Some (repeat x00 16) /\
  lib_to_entropy sha256 [0; 0; 0; 0; 0; 0; 0; 0; 0; 0; 0; 4] = None /\
  hexlike (repeat x00 16) = false.
Proof. repeat split; vm_compute; reflexivity. Qed.

Example vector_7f_ff :
  lib_to_indices sha256 (repeat x7f 16) =
    Some [1019; 2015; 1790; 2039; 1983; 1533; 2031; 1919; 1019; 2015; 1790; 2040] /\
  lib_to_indices sha256 (repeat xff 32) =
    Some [2047; 2047; 2047; 2047; 2047; 2047; 2047; 2047; 2047; 2047; 2047; 2047; 2047; 2047; 2047; 2047;
          2047; 2047; 2047; 2047; 2047; 2047; 2047; 1967] /\
  spec_to_entropy sha256 [2047; 2047; 2047; 2047; 2047; 2047; 2047; 2047; 2047; 2047; 2047; 2037] = Some (repeat xff 16).
Proof. repeat split; vm_compute; reflexivity. Qed.

(* --- refutation witness for the guard: 16 bytes that are the ASCII text "0123456789abcdef" are unhexlified to 8
       bytes, the sentence has 6 words, and the BIP39 sentence of those 16 bytes is rejected --- *)
Example lib_is_bip39_refuted :
  valid_ent_len (length hexlike_witness) /\ hexlike hexlike_witness = true /\
  lib_to_indices sha256 hexlike_witness = Some [9; 209; 719; 154; 1510; 1981] /\
  lib_to_indices sha256 hexlike_witness <> Some (spec_to_indices sha256 hexlike_witness) /\
  lib_to_entropy sha256 (spec_to_indices sha256 hexlike_witness) = None.
Proof.
  split; [left; reflexivity|]. split; [vm_compute; reflexivity|]. split; [vm_compute; reflexivity|].
  split; [vm_compute; discriminate | vm_compute; reflexivity].
Qed.

(* --- the unrepaired to_seed: a passphrase whose UTF-8 changes under NFKD ("é" composed) reaches PBKDF2 with a salt
       different from the BIP39 one (a string is the pair (UTF-8 bytes, UTF-8 bytes of its NFKD form)) --- *)
Example seed_unfixed_refuted :
  let nfkd := fun s : ostr => (snd s, snd s) in
  let pw : ostr := ([xc3; xa9], [x65; xcc; x81]) in
  let s : ostr := ([x61], [x61]) in
  lib_seed_query_unfixed ostr nfkd fst (fun _ => true) s pw = Some ([x61], mnemonic_salt ++ [xc3; xa9]) /\
  lib_seed_query ostr nfkd fst (fun _ => true) s pw = Some ([x61], mnemonic_salt ++ [x65; xcc; x81]).
Proof. split; vm_compute; reflexivity. Qed.

(* --- non-vacuity of the detection statements: a 12-word sentence whose words are ALL in two lists (positions
       0,..,0,3 in list 0 = the zero-entropy sentence; other positions in list 1).  The directory order decides which
       language is detected, the entropy does not change; the object of list 1 refuses it (bad checksum there) --- *)
Example shared_words_tie :
  lib_detect_x [0%nat; 1%nat] shared_sentence = Some 0%nat /\
  lib_detect_x [1%nat; 0%nat] shared_sentence = Some 1%nat /\
  lib_entropy_obj_x [0%nat; 1%nat] 0 true shared_sentence = Some (repeat x00 16) /\
  lib_entropy_obj_x [1%nat; 0%nat] 0 true shared_sentence = Some (repeat x00 16) /\
  lib_entropy_obj_x [0%nat; 1%nat] 1 true shared_sentence = None /\
  lib_sanitize_x [1%nat; 0%nat] shared_sentence = true /\
  lib_sanitize_x [1%nat; 0%nat] (shared_sentence ++ [[-1; -1]]) = false /\
  lib_sanitize_x [1%nat; 0%nat] (shared_sentence ++ [[4; -1]; [-1; 4]]) = false.
Proof. exact ex_shared_words_tie. Qed.

(* --- the switches: all-zero entropy is refused only behind check_on_curve; without checksum 00 01 <-> [1] --- *)
Example switches_witness :
  lib_to_indices_opt sha256 true true (repeat x00 16) = None /\
  lib_to_indices_opt sha256 true false (repeat x00 16) = Some [0; 0; 0; 0; 0; 0; 0; 0; 0; 0; 0; 3] /\
  lib_to_indices_opt sha256 false false [x00; x01] = Some [1] /\
  lib_to_indices_opt sha256 false false [x00; x00; x08; x00] = Some [1; 0] /\
  lib_to_indices_opt sha256 false false [] = None /\
  lib_to_entropy_opt sha256 false [1; 0] = Some [x08; x00] /\
  lib_to_entropy_opt sha256 false [0; 0; 0; 0; 0; 0; 0; 0; 0; 0; 0; 4] = Some (repeat x00 15 ++ [x04]) /\
  lib_to_entropy_opt sha256 true [0; 0; 0; 0; 0; 0; 0; 0; 0; 0; 0; 4] = None.
Proof. exact ex_switches_witness. Qed.

(* --- validate=False: a sentence with a bad checksum still gets the PBKDF2 query of its NFKD form; an unknown
       word is refused in both settings (a string is the pair (UTF-8 bytes, UTF-8 bytes of its NFKD form)) --- *)
Example validate_switch_witness :
  let bad := repeat [0; 5] 11 ++ [[4; 77]] in
  let s : ostr := ([xe3; x80; x80], [x20]) in
  let pw : ostr := ([xc3; xa9], [x65; xcc; x81]) in
  lib_seed_query_vx [0%nat; 1%nat] 0 false bad s pw = Some ([x20], mnemonic_salt ++ [x65; xcc; x81]) /\
  lib_seed_query_vx [0%nat; 1%nat] 0 true bad s pw = None /\
  lib_seed_query_vx [0%nat; 1%nat] 0 true shared_sentence s pw = Some ([x20], mnemonic_salt ++ [x65; xcc; x81]) /\
  lib_seed_query_vx [0%nat; 1%nat] 0 false (bad ++ [[-1; -1]]) s pw = None.
Proof. exact ex_validate_switch_witness. Qed.

Example session_witness :
  run_session [RqEntropy [0%nat; 1%nat] 0 false shared_sentence; RqEntropy [0%nat; 1%nat] 0 true shared_sentence;
               RqDetect [1%nat; 0%nat] shared_sentence; RqSanitize [0%nat] [[-1]]] =
  [RsBytes (repeat x00 15 ++ [x03]); RsBytes (repeat x00 16); RsLang 1; RsErr].
Proof. exact ex_session_witness. Qed.

Print Assumptions bip39_roundtrip.
Print Assumptions bip39_accept_canonical.
Print Assumptions bip39_checksum_mismatch_rejected.
Print Assumptions lib_is_bip39.
Print Assumptions lib_is_bip39_sha256.
Print Assumptions lib_accepts_as_bip39.
Print Assumptions lib_rejects_bad_checksum.
Print Assumptions word_index_inverse.
Print Assumptions unknown_word_rejected.
Print Assumptions lib_words_roundtrip.
Print Assumptions bundled_wordlists_ok.
Print Assumptions bundled_roundtrip.
Print Assumptions seed_is_bip39.
Print Assumptions regroup_lossless.
Print Assumptions bundled_wordlists_are_frozen.
Print Assumptions detect_language_sound.
Print Assumptions detect_language_unique.
Print Assumptions sanitize_sound.
Print Assumptions sanitize_complete.
Print Assumptions to_entropy_uses_own_list.
Print Assumptions bundled_object_roundtrip.
Print Assumptions object_rejects_bad_sentence.
Print Assumptions seed_is_bip39_any_validate.
Print Assumptions seed_validate_default.
Print Assumptions default_switches.
Print Assumptions check_on_curve_only_refuses.
Print Assumptions raw_indices_value.
Print Assumptions raw_entropy_value.
Print Assumptions session_history_independent.
