(* Properties/C19.v — script evaluation against Bitcoin consensus for the implemented opcodes.
   Only statements closed by [exact lemma], non-vacuity examples, refutation witnesses (the classes the
   positive theorems exclude, each replayed on the implementation by the check) and Print Assumptions.

   Reading guide
   * lib_*  : coq/Model/EvalLib.v, the library as coded (Script.evaluate, class Stack), tied to /repo by
              Gen/GenConsts.v and by the differential correspondence of every run;
   * core_* : coq/Model/EvalCore.v, Bitcoin Core's EvalScript + final truth test;
   * a stack is a list with the TOP FIRST; [good x]: x is a minimally encoded number, or longer than 5 bytes
     and true (data pushes and hash outputs of real scripts); hash functions / signature checks are arbitrary
     oracles shared by both sides (premises on them are visible in each statement);
   * op_agree_good l c : both continue with the same stack of good items, or both fail the script;
   * agree l c : same verdict and, when valid, Core's final stack = the item the library popped :: Script.stack;
   * structured p (Proofs/EvalIf.v): p is well nested over the straight-line fragment plus OP_IF / OP_NOTIF
     (99 / 100), OP_ELSE (103), OP_ENDIF (104), at most one OP_ELSE per OP_IF, any nesting depth (section 6). *)
From Coq Require Import ZArith List Bool.
From Coq.Strings Require Import Byte.
From Verif Require Import Lib.Bytes Gen.GenConsts Model.Wire Model.EvalLib Model.EvalCore Model.EvalSession
  Proofs.EvalNum Proofs.EvalOps Proofs.EvalRun Proofs.EvalRefute Proofs.EvalIf Proofs.EvalStd Proofs.EvalIfOpen
  Proofs.EvalEnv Proofs.EvalSession Gen.GenC19 Proofs.EvalFootprint Proofs.EvalP2sh.
From Coq.Strings Require String.
Import Coq.Strings.String.StringSyntax.
Delimit Scope string_scope with string.
Import ListNotations.
Open Scope Z_scope.

(* ------------------------------------------------------------------------------------------------
   1. tables: what Script.evaluate can dispatch, from the regenerated GenConsts tables
   ------------------------------------------------------------------------------------------------ *)

(* the method reached through opcodenames[n].lower() is the operation Core assigns to opcode number n *)
Theorem dispatch_is_core_opcode : forall n k, lib_dispatch n = DKind k -> zassoc n core_kinds = Some k.
Proof. exact EvalRefute.dispatch_is_core_opcode. Qed.

(* every opcode the source dispatches has a body in the model, and the model dispatches nothing else *)
Theorem dispatchable_all_modelled : forallb modelled dispatchable_opcodes = true.
Proof. exact EvalRefute.dispatchable_all_modelled. Qed.

Theorem dispatch_only_dispatchable :
  forallb (fun n => match lib_dispatch n with
                    | DKind _ => existsb (Z.eqb n) dispatchable_opcodes
                    | _ => true end) (zrange 0 256) = true.
Proof. exact EvalRefute.dispatch_only_dispatchable. Qed.

(* OP_LESSTHAN .. OP_GREATERTHANOREQUAL, OP_CAT ...: a name exists, no Stack method of that name -> ScriptError;
   numbers without a name -> KeyError *)
Example unimplemented_examples :
  r_verdict (lib_eval0 [COp 82; COp 83; COp 159]) = Unimplemented /\ r_verdict (lib_eval0 [COp 126]) = Unimplemented /\
  r_verdict (lib_eval0 [COp 107]) = Unimplemented /\ r_verdict (lib_eval0 [COp 103]) = Unimplemented /\
  r_verdict (lib_eval0 [COp 200]) = CrashKey.
Proof. vm_compute. repeat split. Qed.

(* the straight-line fragment, computed: constants, and opcodes dispatched to a method of S_ok *)
Example straight_line_opcodes :
  filter ok_op (zrange 0 256) =
  [0; 79; 81; 82; 83; 84; 85; 86; 87; 88; 89; 90; 91; 92; 93; 94; 95; 96; 97; 105; 106; 109; 110; 111;
   112; 113; 115; 116; 117; 118; 119; 120; 123; 124; 130; 135; 136; 139; 140; 143; 144; 145; 146; 147;
   154; 155; 156; 158; 163; 164; 166; 167; 168; 169; 170; 172; 173; 176; 177; 178; 179; 180; 181; 182;
   183; 184; 185].
Proof. vm_compute. reflexivity. Qed.

(* ------------------------------------------------------------------------------------------------
   2. numbers and truth values
   ------------------------------------------------------------------------------------------------ *)

(* scripts.decode_num is CScriptNum::set_vch on every byte string (minimal or not) *)
Theorem decode_is_core : forall e, core_scriptnum_dec e = lib_decode_num e.
Proof. exact core_dec_is_lib. Qed.

(* on good items the library's truth test (!= b'') is CastToBool *)
Theorem truth_agrees_on_good : forall x, good x -> cast_to_bool x = negb (is_empty x).
Proof. exact good_truth. Qed.

(* the condition test of OP_IF / OP_NOTIF (decode_num(element) == 0) IS CastToBool, on every byte string *)
Theorem if_condition_is_cast_to_bool : forall x, (lib_decode_num x =? 0) = negb (cast_to_bool x).
Proof. exact if_truth_is_cast. Qed.

(* ... and only there *)
Example truth_refuted :
  cast_to_bool [x00] = false /\ is_empty [x00] = false /\ cast_to_bool [x80] = false /\ is_empty [x80] = false /\
  cast_to_bool [x00; x00] = false /\ is_empty [x00; x00] = false.
Proof. vm_compute. repeat split. Qed.

(* ------------------------------------------------------------------------------------------------
   3. per-opcode agreement: for all oracles, environments, flags (MINIMALDATA on or off) and all stacks of
      good items, the Stack method and Core's case do the same thing
   ------------------------------------------------------------------------------------------------ *)

Theorem op_nop_agrees :
  forall (h_ripemd160 h_sha1 h_sha256 : bytes -> bytes) (sigcheck : bytes -> bytes -> sigres) 
           (e : env) (fl : flags) (s : list bytes),
         Forall good s ->
         op_agree_good (lib_op h_ripemd160 h_sha1 h_sha256 sigcheck e K_NOP s)
           (core_op h_ripemd160 h_sha1 h_sha256 sigcheck e fl K_NOP s).
Proof. exact EvalOps.op_nop_agrees. Qed.

Theorem op_verify_agrees :
  forall (h_ripemd160 h_sha1 h_sha256 : bytes -> bytes) (sigcheck : bytes -> bytes -> sigres) 
           (e : env) (fl : flags) (s : list bytes),
         Forall good s ->
         op_agree_good (lib_op h_ripemd160 h_sha1 h_sha256 sigcheck e K_VERIFY s)
           (core_op h_ripemd160 h_sha1 h_sha256 sigcheck e fl K_VERIFY s).
Proof. exact EvalOps.op_verify_agrees. Qed.

Theorem op_return_agrees :
  forall (h_ripemd160 h_sha1 h_sha256 : bytes -> bytes) (sigcheck : bytes -> bytes -> sigres) 
           (e : env) (fl : flags) (s : list bytes),
         Forall good s ->
         op_agree_good (lib_op h_ripemd160 h_sha1 h_sha256 sigcheck e K_RETURN s)
           (core_op h_ripemd160 h_sha1 h_sha256 sigcheck e fl K_RETURN s).
Proof. exact EvalOps.op_return_agrees. Qed.

Theorem op_2drop_agrees :
  forall (h_ripemd160 h_sha1 h_sha256 : bytes -> bytes) (sigcheck : bytes -> bytes -> sigres) 
           (e : env) (fl : flags) (s : list bytes),
         Forall good s ->
         op_agree_good (lib_op h_ripemd160 h_sha1 h_sha256 sigcheck e K_2DROP s)
           (core_op h_ripemd160 h_sha1 h_sha256 sigcheck e fl K_2DROP s).
Proof. exact EvalOps.op_2drop_agrees. Qed.

Theorem op_2dup_agrees :
  forall (h_ripemd160 h_sha1 h_sha256 : bytes -> bytes) (sigcheck : bytes -> bytes -> sigres) 
           (e : env) (fl : flags) (s : list bytes),
         Forall good s ->
         op_agree_good (lib_op h_ripemd160 h_sha1 h_sha256 sigcheck e K_2DUP s)
           (core_op h_ripemd160 h_sha1 h_sha256 sigcheck e fl K_2DUP s).
Proof. exact EvalOps.op_2dup_agrees. Qed.

Theorem op_3dup_agrees :
  forall (h_ripemd160 h_sha1 h_sha256 : bytes -> bytes) (sigcheck : bytes -> bytes -> sigres) 
           (e : env) (fl : flags) (s : list bytes),
         Forall good s ->
         op_agree_good (lib_op h_ripemd160 h_sha1 h_sha256 sigcheck e K_3DUP s)
           (core_op h_ripemd160 h_sha1 h_sha256 sigcheck e fl K_3DUP s).
Proof. exact EvalOps.op_3dup_agrees. Qed.

Theorem op_2over_agrees :
  forall (h_ripemd160 h_sha1 h_sha256 : bytes -> bytes) (sigcheck : bytes -> bytes -> sigres) 
           (e : env) (fl : flags) (s : list bytes),
         Forall good s ->
         op_agree_good (lib_op h_ripemd160 h_sha1 h_sha256 sigcheck e K_2OVER s)
           (core_op h_ripemd160 h_sha1 h_sha256 sigcheck e fl K_2OVER s).
Proof. exact EvalOps.op_2over_agrees. Qed.

Theorem op_2rot_agrees :
  forall (h_ripemd160 h_sha1 h_sha256 : bytes -> bytes) (sigcheck : bytes -> bytes -> sigres) 
           (e : env) (fl : flags) (s : list bytes),
         Forall good s ->
         op_agree_good (lib_op h_ripemd160 h_sha1 h_sha256 sigcheck e K_2ROT s)
           (core_op h_ripemd160 h_sha1 h_sha256 sigcheck e fl K_2ROT s).
Proof. exact EvalOps.op_2rot_agrees. Qed.

Theorem op_ifdup_agrees :
  forall (h_ripemd160 h_sha1 h_sha256 : bytes -> bytes) (sigcheck : bytes -> bytes -> sigres) 
           (e : env) (fl : flags) (s : list bytes),
         Forall good s ->
         op_agree_good (lib_op h_ripemd160 h_sha1 h_sha256 sigcheck e K_IFDUP s)
           (core_op h_ripemd160 h_sha1 h_sha256 sigcheck e fl K_IFDUP s).
Proof. exact EvalOps.op_ifdup_agrees. Qed.

Theorem op_depth_agrees :
  forall (h_ripemd160 h_sha1 h_sha256 : bytes -> bytes) (sigcheck : bytes -> bytes -> sigres) 
           (e : env) (fl : flags) (s : list bytes),
         Forall good s ->
         op_agree_good (lib_op h_ripemd160 h_sha1 h_sha256 sigcheck e K_DEPTH s)
           (core_op h_ripemd160 h_sha1 h_sha256 sigcheck e fl K_DEPTH s).
Proof. exact EvalOps.op_depth_agrees. Qed.

Theorem op_drop_agrees :
  forall (h_ripemd160 h_sha1 h_sha256 : bytes -> bytes) (sigcheck : bytes -> bytes -> sigres) 
           (e : env) (fl : flags) (s : list bytes),
         Forall good s ->
         op_agree_good (lib_op h_ripemd160 h_sha1 h_sha256 sigcheck e K_DROP s)
           (core_op h_ripemd160 h_sha1 h_sha256 sigcheck e fl K_DROP s).
Proof. exact EvalOps.op_drop_agrees. Qed.

Theorem op_dup_agrees :
  forall (h_ripemd160 h_sha1 h_sha256 : bytes -> bytes) (sigcheck : bytes -> bytes -> sigres) 
           (e : env) (fl : flags) (s : list bytes),
         Forall good s ->
         op_agree_good (lib_op h_ripemd160 h_sha1 h_sha256 sigcheck e K_DUP s)
           (core_op h_ripemd160 h_sha1 h_sha256 sigcheck e fl K_DUP s).
Proof. exact EvalOps.op_dup_agrees. Qed.

Theorem op_nip_agrees :
  forall (h_ripemd160 h_sha1 h_sha256 : bytes -> bytes) (sigcheck : bytes -> bytes -> sigres) 
           (e : env) (fl : flags) (s : list bytes),
         Forall good s ->
         op_agree_good (lib_op h_ripemd160 h_sha1 h_sha256 sigcheck e K_NIP s)
           (core_op h_ripemd160 h_sha1 h_sha256 sigcheck e fl K_NIP s).
Proof. exact EvalOps.op_nip_agrees. Qed.

Theorem op_over_agrees :
  forall (h_ripemd160 h_sha1 h_sha256 : bytes -> bytes) (sigcheck : bytes -> bytes -> sigres) 
           (e : env) (fl : flags) (s : list bytes),
         Forall good s ->
         op_agree_good (lib_op h_ripemd160 h_sha1 h_sha256 sigcheck e K_OVER s)
           (core_op h_ripemd160 h_sha1 h_sha256 sigcheck e fl K_OVER s).
Proof. exact EvalOps.op_over_agrees. Qed.

Theorem op_rot_agrees :
  forall (h_ripemd160 h_sha1 h_sha256 : bytes -> bytes) (sigcheck : bytes -> bytes -> sigres) 
           (e : env) (fl : flags) (s : list bytes),
         Forall good s ->
         op_agree_good (lib_op h_ripemd160 h_sha1 h_sha256 sigcheck e K_ROT s)
           (core_op h_ripemd160 h_sha1 h_sha256 sigcheck e fl K_ROT s).
Proof. exact EvalOps.op_rot_agrees. Qed.

Theorem op_swap_agrees :
  forall (h_ripemd160 h_sha1 h_sha256 : bytes -> bytes) (sigcheck : bytes -> bytes -> sigres) 
           (e : env) (fl : flags) (s : list bytes),
         Forall good s ->
         op_agree_good (lib_op h_ripemd160 h_sha1 h_sha256 sigcheck e K_SWAP s)
           (core_op h_ripemd160 h_sha1 h_sha256 sigcheck e fl K_SWAP s).
Proof. exact EvalOps.op_swap_agrees. Qed.

Theorem op_size_agrees :
  forall (h_ripemd160 h_sha1 h_sha256 : bytes -> bytes) (sigcheck : bytes -> bytes -> sigres) 
           (e : env) (fl : flags) (s : list bytes),
         Forall good s ->
         op_agree_good (lib_op h_ripemd160 h_sha1 h_sha256 sigcheck e K_SIZE s)
           (core_op h_ripemd160 h_sha1 h_sha256 sigcheck e fl K_SIZE s).
Proof. exact EvalOps.op_size_agrees. Qed.

Theorem op_equal_agrees :
  forall (h_ripemd160 h_sha1 h_sha256 : bytes -> bytes) (sigcheck : bytes -> bytes -> sigres) 
           (e : env) (fl : flags) (s : list bytes),
         Forall good s ->
         op_agree_good (lib_op h_ripemd160 h_sha1 h_sha256 sigcheck e K_EQUAL s)
           (core_op h_ripemd160 h_sha1 h_sha256 sigcheck e fl K_EQUAL s).
Proof. exact EvalOps.op_equal_agrees. Qed.

Theorem op_equalverify_agrees :
  forall (h_ripemd160 h_sha1 h_sha256 : bytes -> bytes) (sigcheck : bytes -> bytes -> sigres) 
           (e : env) (fl : flags) (s : list bytes),
         Forall good s ->
         op_agree_good (lib_op h_ripemd160 h_sha1 h_sha256 sigcheck e K_EQUALVERIFY s)
           (core_op h_ripemd160 h_sha1 h_sha256 sigcheck e fl K_EQUALVERIFY s).
Proof. exact EvalOps.op_equalverify_agrees. Qed.

Theorem op_1add_agrees :
  forall (h_ripemd160 h_sha1 h_sha256 : bytes -> bytes) (sigcheck : bytes -> bytes -> sigres) 
           (e : env) (fl : flags) (s : list bytes),
         Forall good s ->
         op_agree_good (lib_op h_ripemd160 h_sha1 h_sha256 sigcheck e K_1ADD s)
           (core_op h_ripemd160 h_sha1 h_sha256 sigcheck e fl K_1ADD s).
Proof. exact EvalOps.op_1add_agrees. Qed.

Theorem op_1sub_agrees :
  forall (h_ripemd160 h_sha1 h_sha256 : bytes -> bytes) (sigcheck : bytes -> bytes -> sigres) 
           (e : env) (fl : flags) (s : list bytes),
         Forall good s ->
         op_agree_good (lib_op h_ripemd160 h_sha1 h_sha256 sigcheck e K_1SUB s)
           (core_op h_ripemd160 h_sha1 h_sha256 sigcheck e fl K_1SUB s).
Proof. exact EvalOps.op_1sub_agrees. Qed.

Theorem op_negate_agrees :
  forall (h_ripemd160 h_sha1 h_sha256 : bytes -> bytes) (sigcheck : bytes -> bytes -> sigres) 
           (e : env) (fl : flags) (s : list bytes),
         Forall good s ->
         op_agree_good (lib_op h_ripemd160 h_sha1 h_sha256 sigcheck e K_NEGATE s)
           (core_op h_ripemd160 h_sha1 h_sha256 sigcheck e fl K_NEGATE s).
Proof. exact EvalOps.op_negate_agrees. Qed.

Theorem op_abs_agrees :
  forall (h_ripemd160 h_sha1 h_sha256 : bytes -> bytes) (sigcheck : bytes -> bytes -> sigres) 
           (e : env) (fl : flags) (s : list bytes),
         Forall good s ->
         op_agree_good (lib_op h_ripemd160 h_sha1 h_sha256 sigcheck e K_ABS s)
           (core_op h_ripemd160 h_sha1 h_sha256 sigcheck e fl K_ABS s).
Proof. exact EvalOps.op_abs_agrees. Qed.

Theorem op_not_agrees :
  forall (h_ripemd160 h_sha1 h_sha256 : bytes -> bytes) (sigcheck : bytes -> bytes -> sigres) 
           (e : env) (fl : flags) (s : list bytes),
         Forall good s ->
         op_agree_good (lib_op h_ripemd160 h_sha1 h_sha256 sigcheck e K_NOT s)
           (core_op h_ripemd160 h_sha1 h_sha256 sigcheck e fl K_NOT s).
Proof. exact EvalOps.op_not_agrees. Qed.

Theorem op_0notequal_agrees :
  forall (h_ripemd160 h_sha1 h_sha256 : bytes -> bytes) (sigcheck : bytes -> bytes -> sigres) 
           (e : env) (fl : flags) (s : list bytes),
         Forall good s ->
         op_agree_good (lib_op h_ripemd160 h_sha1 h_sha256 sigcheck e K_0NOTEQUAL s)
           (core_op h_ripemd160 h_sha1 h_sha256 sigcheck e fl K_0NOTEQUAL s).
Proof. exact EvalOps.op_0notequal_agrees. Qed.

Theorem op_add_agrees :
  forall (h_ripemd160 h_sha1 h_sha256 : bytes -> bytes) (sigcheck : bytes -> bytes -> sigres) 
           (e : env) (fl : flags) (s : list bytes),
         Forall good s ->
         op_agree_good (lib_op h_ripemd160 h_sha1 h_sha256 sigcheck e K_ADD s)
           (core_op h_ripemd160 h_sha1 h_sha256 sigcheck e fl K_ADD s).
Proof. exact EvalOps.op_add_agrees. Qed.

Theorem op_booland_agrees :
  forall (h_ripemd160 h_sha1 h_sha256 : bytes -> bytes) (sigcheck : bytes -> bytes -> sigres) 
           (e : env) (fl : flags) (s : list bytes),
         Forall good s ->
         op_agree_good (lib_op h_ripemd160 h_sha1 h_sha256 sigcheck e K_BOOLAND s)
           (core_op h_ripemd160 h_sha1 h_sha256 sigcheck e fl K_BOOLAND s).
Proof. exact EvalOps.op_booland_agrees. Qed.

Theorem op_boolor_agrees :
  forall (h_ripemd160 h_sha1 h_sha256 : bytes -> bytes) (sigcheck : bytes -> bytes -> sigres) 
           (e : env) (fl : flags) (s : list bytes),
         Forall good s ->
         op_agree_good (lib_op h_ripemd160 h_sha1 h_sha256 sigcheck e K_BOOLOR s)
           (core_op h_ripemd160 h_sha1 h_sha256 sigcheck e fl K_BOOLOR s).
Proof. exact EvalOps.op_boolor_agrees. Qed.

Theorem op_numequal_agrees :
  forall (h_ripemd160 h_sha1 h_sha256 : bytes -> bytes) (sigcheck : bytes -> bytes -> sigres) 
           (e : env) (fl : flags) (s : list bytes),
         Forall good s ->
         op_agree_good (lib_op h_ripemd160 h_sha1 h_sha256 sigcheck e K_NUMEQUAL s)
           (core_op h_ripemd160 h_sha1 h_sha256 sigcheck e fl K_NUMEQUAL s).
Proof. exact EvalOps.op_numequal_agrees. Qed.

Theorem op_numnotequal_agrees :
  forall (h_ripemd160 h_sha1 h_sha256 : bytes -> bytes) (sigcheck : bytes -> bytes -> sigres) 
           (e : env) (fl : flags) (s : list bytes),
         Forall good s ->
         op_agree_good (lib_op h_ripemd160 h_sha1 h_sha256 sigcheck e K_NUMNOTEQUAL s)
           (core_op h_ripemd160 h_sha1 h_sha256 sigcheck e fl K_NUMNOTEQUAL s).
Proof. exact EvalOps.op_numnotequal_agrees. Qed.

Theorem op_min_agrees :
  forall (h_ripemd160 h_sha1 h_sha256 : bytes -> bytes) (sigcheck : bytes -> bytes -> sigres) 
           (e : env) (fl : flags) (s : list bytes),
         Forall good s ->
         op_agree_good (lib_op h_ripemd160 h_sha1 h_sha256 sigcheck e K_MIN s)
           (core_op h_ripemd160 h_sha1 h_sha256 sigcheck e fl K_MIN s).
Proof. exact EvalOps.op_min_agrees. Qed.

Theorem op_max_agrees :
  forall (h_ripemd160 h_sha1 h_sha256 : bytes -> bytes) (sigcheck : bytes -> bytes -> sigres) 
           (e : env) (fl : flags) (s : list bytes),
         Forall good s ->
         op_agree_good (lib_op h_ripemd160 h_sha1 h_sha256 sigcheck e K_MAX s)
           (core_op h_ripemd160 h_sha1 h_sha256 sigcheck e fl K_MAX s).
Proof. exact EvalOps.op_max_agrees. Qed.

Theorem op_ripemd160_agrees :
  forall (h_ripemd160 h_sha1 h_sha256 : bytes -> bytes) (sigcheck : bytes -> bytes -> sigres) 
           (e : env) (fl : flags),
         (forall x : bytes, good (h_ripemd160 x)) ->
         forall s : list bytes,
         Forall good s ->
         op_agree_good (lib_op h_ripemd160 h_sha1 h_sha256 sigcheck e K_RIPEMD160 s)
           (core_op h_ripemd160 h_sha1 h_sha256 sigcheck e fl K_RIPEMD160 s).
Proof. exact EvalOps.op_ripemd160_agrees. Qed.

Theorem op_sha1_agrees :
  forall (h_ripemd160 h_sha1 h_sha256 : bytes -> bytes) (sigcheck : bytes -> bytes -> sigres) 
           (e : env) (fl : flags),
         (forall x : bytes, good (h_sha1 x)) ->
         forall s : list bytes,
         Forall good s ->
         op_agree_good (lib_op h_ripemd160 h_sha1 h_sha256 sigcheck e K_SHA1 s)
           (core_op h_ripemd160 h_sha1 h_sha256 sigcheck e fl K_SHA1 s).
Proof. exact EvalOps.op_sha1_agrees. Qed.

Theorem op_sha256_agrees :
  forall (h_ripemd160 h_sha1 h_sha256 : bytes -> bytes) (sigcheck : bytes -> bytes -> sigres) 
           (e : env) (fl : flags),
         (forall x : bytes, good (h_sha256 x)) ->
         forall s : list bytes,
         Forall good s ->
         op_agree_good (lib_op h_ripemd160 h_sha1 h_sha256 sigcheck e K_SHA256 s)
           (core_op h_ripemd160 h_sha1 h_sha256 sigcheck e fl K_SHA256 s).
Proof. exact EvalOps.op_sha256_agrees. Qed.

Theorem op_hash160_agrees :
  forall (h_ripemd160 h_sha1 h_sha256 : bytes -> bytes) (sigcheck : bytes -> bytes -> sigres) 
           (e : env) (fl : flags),
         (forall x : bytes, good (h_ripemd160 x)) ->
         forall s : list bytes,
         Forall good s ->
         op_agree_good (lib_op h_ripemd160 h_sha1 h_sha256 sigcheck e K_HASH160 s)
           (core_op h_ripemd160 h_sha1 h_sha256 sigcheck e fl K_HASH160 s).
Proof. exact EvalOps.op_hash160_agrees. Qed.

Theorem op_hash256_agrees :
  forall (h_ripemd160 h_sha1 h_sha256 : bytes -> bytes) (sigcheck : bytes -> bytes -> sigres) 
           (e : env) (fl : flags),
         (forall x : bytes, good (h_sha256 x)) ->
         forall s : list bytes,
         Forall good s ->
         op_agree_good (lib_op h_ripemd160 h_sha1 h_sha256 sigcheck e K_HASH256 s)
           (core_op h_ripemd160 h_sha1 h_sha256 sigcheck e fl K_HASH256 s).
Proof. exact EvalOps.op_hash256_agrees. Qed.

Theorem op_checksig_agrees :
  forall (h_ripemd160 h_sha1 h_sha256 : bytes -> bytes) (sigcheck : bytes -> bytes -> sigres) 
           (e : env) (fl : flags) (s : list bytes),
         Forall good s ->
         op_agree_good (lib_op h_ripemd160 h_sha1 h_sha256 sigcheck e K_CHECKSIG s)
           (core_op h_ripemd160 h_sha1 h_sha256 sigcheck e fl K_CHECKSIG s).
Proof. exact EvalOps.op_checksig_agrees. Qed.

Theorem op_checksigverify_agrees :
  forall (h_ripemd160 h_sha1 h_sha256 : bytes -> bytes) (sigcheck : bytes -> bytes -> sigres) 
           (e : env) (fl : flags) (s : list bytes),
         Forall good s ->
         op_agree_good (lib_op h_ripemd160 h_sha1 h_sha256 sigcheck e K_CHECKSIGVERIFY s)
           (core_op h_ripemd160 h_sha1 h_sha256 sigcheck e fl K_CHECKSIGVERIFY s).
Proof. exact EvalOps.op_checksigverify_agrees. Qed.

Theorem op_cltv_agrees :
  forall (h_ripemd160 h_sha1 h_sha256 : bytes -> bytes) (sigcheck : bytes -> bytes -> sigres) 
           (e : env) (fl : flags) (s : list bytes),
         Forall good s ->
         op_agree_good (lib_op h_ripemd160 h_sha1 h_sha256 sigcheck e K_CLTV s)
           (core_op h_ripemd160 h_sha1 h_sha256 sigcheck e fl K_CLTV s).
Proof. exact EvalOps.op_cltv_agrees. Qed.

Theorem op_csv_agrees :
  forall (h_ripemd160 h_sha1 h_sha256 : bytes -> bytes) (sigcheck : bytes -> bytes -> sigres) 
           (e : env) (fl : flags) (s : list bytes),
         Forall good s ->
         op_agree_good (lib_op h_ripemd160 h_sha1 h_sha256 sigcheck e K_CSV s)
           (core_op h_ripemd160 h_sha1 h_sha256 sigcheck e fl K_CSV s).
Proof. exact EvalOps.op_csv_agrees. Qed.

(* the same for the whole agreeing set at once (this is what the induction below uses) *)
Theorem S_ok_step_agrees :
  forall (h_ripemd160 h_sha1 h_sha256 : bytes -> bytes) (sigcheck : bytes -> bytes -> sigres) (e : env) (fl : flags),
    (forall x, good (h_ripemd160 x)) -> (forall x, good (h_sha1 x)) -> (forall x, good (h_sha256 x)) ->
    forall (k : opk) (s : list bytes), In k S_ok -> Forall good s ->
    op_agree_good (lib_op h_ripemd160 h_sha1 h_sha256 sigcheck e k s)
                  (core_op h_ripemd160 h_sha1 h_sha256 sigcheck e fl k s).
Proof. exact S_ok_agree. Qed.

(* ------------------------------------------------------------------------------------------------
   4. per-opcode refutations: concrete stacks (top first) on which the Stack method and Core differ.
      Each is a known-finding class of fixes/C19-known.json and is replayed on the implementation.
   ------------------------------------------------------------------------------------------------ *)

(* 2 5 OP_SUB: the library computes top - second = 3, consensus second - top = -3 *)
Example op_sub_refuted :
  lib_op0 K_SUB [[x05]; [x02]] = ROk [[x03]] /\ core_op0 K_SUB [[x05]; [x02]] = Some [[x83]].
Proof. vm_compute. split; reflexivity. Qed.

(* 1 2 3 0 OP_PICK: index 0 is the bottom in the library, the top in consensus *)
Example op_pick_refuted :
  lib_op0 K_PICK [[]; [x03]; [x02]; [x01]] = ROk [[x01]; [x03]; [x02]; [x01]] /\
  core_op0 K_PICK [[]; [x03]; [x02]; [x01]] = Some [[x03]; [x03]; [x02]; [x01]].
Proof. vm_compute. split; reflexivity. Qed.

Example op_roll_refuted :
  lib_op0 K_ROLL [[]; [x03]; [x02]; [x01]] = ROk [[x01]; [x03]; [x02]] /\
  core_op0 K_ROLL [[]; [x03]; [x02]; [x01]] = Some [[x03]; [x02]; [x01]].
Proof. vm_compute. split; reflexivity. Qed.

(* 1 2 OP_TUCK: the library appends self[-2] (OP_OVER): 1 2 1 instead of 2 1 2 *)
Example op_tuck_refuted :
  lib_op0 K_TUCK [[x02]; [x01]] = ROk [[x01]; [x02]; [x01]] /\
  core_op0 K_TUCK [[x02]; [x01]] = Some [[x02]; [x01]; [x02]].
Proof. vm_compute. split; reflexivity. Qed.

(* 1 2 3 4 OP_2SWAP: library 4 3 1 2, consensus 3 4 1 2; with two items the library swaps, consensus fails *)
Example op_2swap_refuted :
  lib_op0 K_2SWAP [[x04]; [x03]; [x02]; [x01]] = ROk [[x02]; [x01]; [x03]; [x04]] /\
  core_op0 K_2SWAP [[x04]; [x03]; [x02]; [x01]] = Some [[x02]; [x01]; [x04]; [x03]] /\
  lib_op0 K_2SWAP [[x02]; [x01]] = ROk [[x01]; [x02]] /\ core_op0 K_2SWAP [[x02]; [x01]] = None.
Proof. vm_compute. repeat split. Qed.

(* truth tests on items that are false for CastToBool but not b'' (00, 80): outside [good] *)
Example op_verify_refuted_nonminimal : lib_op0 K_VERIFY [[x00]] = ROk [] /\ core_op0 K_VERIFY [[x00]] = None.
Proof. vm_compute. split; reflexivity. Qed.
Example op_ifdup_refuted_nonminimal :
  lib_op0 K_IFDUP [[x80]] = ROk [[x80]; [x80]] /\ core_op0 K_IFDUP [[x80]] = Some [[x80]].
Proof. vm_compute. split; reflexivity. Qed.
Example op_not_refuted_nonminimal : lib_op0 K_NOT [[x00]] = ROk [[]] /\ core_op0 K_NOT [[x00]] = Some [[x01]].
Proof. vm_compute. split; reflexivity. Qed.
Example op_0notequal_refuted_nonminimal :
  lib_op0 K_0NOTEQUAL [[x00]] = ROk [[x01]] /\ core_op0 K_0NOTEQUAL [[x00]] = Some [[]].
Proof. vm_compute. split; reflexivity. Qed.
Example op_booland_refuted_nonminimal :
  lib_op0 K_BOOLAND [[x00]; [x01]] = ROk [[x01]] /\ core_op0 K_BOOLAND [[x00]; [x01]] = Some [[]].
Proof. vm_compute. split; reflexivity. Qed.
Example op_boolor_refuted_nonminimal :
  lib_op0 K_BOOLOR [[x00]; []] = ROk [[x01]] /\ core_op0 K_BOOLOR [[x00]; []] = Some [[]].
Proof. vm_compute. split; reflexivity. Qed.
(* OP_NUMEQUAL / OP_NUMNOTEQUAL compare the bytes: 00 and b'' are both zero *)
Example op_numequal_refuted_nonminimal :
  lib_op0 K_NUMEQUAL [[x00]; []] = ROk [[]] /\ core_op0 K_NUMEQUAL [[x00]; []] = Some [[x01]].
Proof. vm_compute. split; reflexivity. Qed.
Example op_numnotequal_refuted_nonminimal :
  lib_op0 K_NUMNOTEQUAL [[x00]; []] = ROk [[x01]] /\ core_op0 K_NUMNOTEQUAL [[x00]; []] = Some [[]].
Proof. vm_compute. split; reflexivity. Qed.

(* OP_NUMEQUALVERIFY with a 5-byte operand: op_numequal returns False, the result is ignored, op_verify pops
   the top operand and the script CONTINUES; consensus fails (good items, so this one is not in S_ok) *)
Example op_numequalverify_refuted :
  lib_op0 K_NUMEQUALVERIFY [[x01]; [x01; x02; x03; x04; x05]; [x01]] = ROk [[x01; x02; x03; x04; x05]; [x01]] /\
  core_op0 K_NUMEQUALVERIFY [[x01]; [x01; x02; x03; x04; x05]; [x01]] = None.
Proof. vm_compute. split; reflexivity. Qed.

(* 3 2 5 OP_WITHIN: the library takes the top as x *)
Example op_within_refuted :
  lib_op0 K_WITHIN [[x05]; [x02]; [x03]] = ROk [[]] /\ core_op0 K_WITHIN [[x05]; [x02]; [x03]] = Some [[x01]].
Proof. vm_compute. split; reflexivity. Qed.

(* <dummy> 0 0 OP_CHECKMULTISIG: evaluate verifies, then pushes env_data['redeemscript'] (here 51) *)
Example op_checkmultisig_refuted :
  lib_op0 K_CHECKMULTISIG [[]; []; []] = ROk [[x51]] /\ core_op0 K_CHECKMULTISIG [[]; []; []] = Some [[x01]] /\
  lib_op0 K_CHECKMULTISIGVERIFY [[]; []; []] = ROk [[x51]] /\ core_op0 K_CHECKMULTISIGVERIFY [[]; []; []] = Some [].
Proof. vm_compute. repeat split. Qed.

(* ------------------------------------------------------------------------------------------------
   5. whole programs
   ------------------------------------------------------------------------------------------------ *)

(* for every program of the straight-line fragment (any length), every initial stack of good items, every
   oracle / environment / flag setting: same verdict and same final stack.  [fu] is the fuel of lib_run,
   lib_eval supplies S (length cmds). *)
Theorem agree_straightline :
  forall (h_ripemd160 h_sha1 h_sha256 : bytes -> bytes) (sigcheck : bytes -> bytes -> sigres) (e : env) (fl : flags),
    (forall x, good (h_ripemd160 x)) -> (forall x, good (h_sha1 x)) -> (forall x, good (h_sha256 x)) ->
    forall (cmds : list scmd) (fu : nat) (s : list bytes),
      (length cmds < fu)%nat -> straight cmds = true -> Forall good s ->
      agree (lib_run h_ripemd160 h_sha1 h_sha256 sigcheck e fu cmds s)
            (core_finish (core_run h_ripemd160 h_sha1 h_sha256 sigcheck e fl cmds s [])).
Proof. exact agree_straightline_gen. Qed.

(* Script(cmds).evaluate() against EvalScript + final truth test *)
Theorem agree_straightline_evaluate :
  forall (h_ripemd160 h_sha1 h_sha256 : bytes -> bytes) (sigcheck : bytes -> bytes -> sigres) (e : env) (fl : flags),
    (forall x, good (h_ripemd160 x)) -> (forall x, good (h_sha1 x)) -> (forall x, good (h_sha256 x)) ->
    forall cmds : list scmd, straight cmds = true ->
      agree (lib_eval h_ripemd160 h_sha1 h_sha256 sigcheck e cmds)
            (core_eval h_ripemd160 h_sha1 h_sha256 sigcheck e fl cmds).
Proof. exact agree_straightline_eval. Qed.

(* non-vacuity: 2 3 OP_ADD 5 OP_EQUAL is in the fragment and valid on both sides; P2PKH-shaped script is in it *)
Example straight_nonvacuous :
  straight [COp 82; COp 83; COp 147; COp 85; COp 135] = true /\
  r_verdict (lib_eval0 [COp 82; COp 83; COp 147; COp 85; COp 135]) = Valid /\
  core_eval0 [COp 82; COp 83; COp 147; COp 85; COp 135] = (Valid, [[x01]]) /\
  straight [CPush [x30; x01; x02; x03; x04; x05]; CPush [x02; x01; x02; x03; x04; x05];
            COp 118; COp 169; CPush [x0a; x0b; x0c; x0d; x0e; x0f]; COp 136; COp 172] = true.
Proof. vm_compute. repeat split. Qed.

(* the safety half on the fragment *)
Theorem never_valid_when_core_rejects_straight :
  forall (h_ripemd160 h_sha1 h_sha256 : bytes -> bytes) (sigcheck : bytes -> bytes -> sigres) (e : env) (fl : flags)
         (cmds : list scmd),
    (forall x, good (h_ripemd160 x)) -> (forall x, good (h_sha1 x)) -> (forall x, good (h_sha256 x)) ->
    straight cmds = true ->
    r_verdict (lib_eval h_ripemd160 h_sha1 h_sha256 sigcheck e cmds) = Valid ->
    fst (core_eval h_ripemd160 h_sha1 h_sha256 sigcheck e fl cmds) = Valid.
Proof. exact EvalRefute.never_valid_when_core_rejects_straight. Qed.

(* the safety half at full strength (all programs, all oracles, all environments) is FALSE on this tree:
   never_valid_when_core_rejects_statement :=
     forall oracles e cmds, lib_eval cmds is Valid -> core_eval consensus_flags cmds is Valid *)
Example never_valid_when_core_rejects_refuted_truthiness :      (* 00 OP_VERIFY 1 *)
  ~ never_valid_when_core_rejects_statement.
Proof. apply (never_valid_refuted_by [CPush [x00]; COp 105; COp 81]); vm_compute; congruence. Qed.

Example never_valid_when_core_rejects_refuted_final_item :      (* a script leaving 80 (negative zero) *)
  ~ never_valid_when_core_rejects_statement.
Proof. apply (never_valid_refuted_by [CPush [x80]]); vm_compute; congruence. Qed.

Example never_valid_when_core_rejects_refuted_numequalverify :  (* 1 <0102030405> 1 OP_NUMEQUALVERIFY *)
  ~ never_valid_when_core_rejects_statement.
Proof.
  apply (never_valid_refuted_by [COp 81; CPush [x01; x02; x03; x04; x05]; COp 81; COp 157]); vm_compute; congruence.
Qed.

Example never_valid_when_core_rejects_refuted_2swap :           (* 1 2 OP_2SWAP *)
  ~ never_valid_when_core_rejects_statement.
Proof. apply (never_valid_refuted_by [COp 81; COp 82; COp 114]); vm_compute; congruence. Qed.

(* a disabled opcode in a branch that is not executed: consensus fails the script, the library never looks *)
Example never_valid_when_core_rejects_refuted_unexecuted :      (* 0 OP_IF OP_CAT OP_ENDIF 1 *)
  ~ never_valid_when_core_rejects_statement.
Proof. apply (never_valid_refuted_by [COp 0; COp 99; COp 126; COp 104; COp 81]); vm_compute; congruence. Qed.

(* whole-program witnesses of the remaining classes *)
Example sub_program_refuted :                                   (* 2 5 OP_SUB: both valid, different stacks *)
  lib_eval0 [COp 82; COp 85; COp 148] = mkRes Valid [] (Some [x03]) /\
  core_eval0 [COp 82; COp 85; COp 148] = (Valid, [[x83]]).
Proof. vm_compute. split; reflexivity. Qed.

Example second_else_refuted :          (* 0 IF 0 ELSE 1 ELSE 0 ENDIF: a second OP_ELSE does not toggle back *)
  r_verdict (lib_eval0 [COp 0; COp 99; COp 0; COp 103; COp 81; COp 103; COp 0; COp 104]) = Invalid /\
  core_eval0 [COp 0; COp 99; COp 0; COp 103; COp 81; COp 103; COp 0; COp 104] = (Valid, [[x01]]).
Proof. vm_compute. split; reflexivity. Qed.

Example if_on_empty_stack_raises :     (* OP_IF / OP_NOTIF on an empty stack: IndexError escapes evaluate *)
  r_verdict (lib_eval0 [COp 99; COp 104]) = CrashIndex /\ r_verdict (lib_eval0 [COp 100; COp 104]) = CrashIndex /\
  fst (core_eval0 [COp 99; COp 104]) = Invalid.
Proof. vm_compute. repeat split. Qed.

Example no_resource_limits_refuted :   (* 1 followed by 202 OP_NOP: over MAX_OPS_PER_SCRIPT *)
  r_verdict (lib_eval0 (COp 81 :: repeat (COp 97) 202)) = Valid /\
  core_limits_ok (COp 81 :: repeat (COp 97) 202) = false.
Proof. vm_compute. split; reflexivity. Qed.

(* ------------------------------------------------------------------------------------------------
   6. conditionals: well-nested programs, at most one OP_ELSE per OP_IF, nested to any depth
      structured []                                              structured (c :: p)        [c straight]
      structured (COp n :: t ++ COp 104 :: p)                    [n = 99 / 100; t, p structured]
      structured (COp n :: t ++ COp 103 :: f ++ COp 104 :: p)    [n = 99 / 100; t, f, p structured]
   ------------------------------------------------------------------------------------------------ *)

(* the class is decidable: a boolean recogniser that is sound for it *)
Theorem structuredb_is_structured : forall cmds : list scmd, structuredb cmds = true -> structured cmds.
Proof. exact structuredb_sound. Qed.

(* it contains the straight-line fragment and is closed under concatenation *)
Theorem straight_is_structured : forall p : list scmd, straight p = true -> structured p.
Proof. exact straight_structured. Qed.

Theorem structured_concat : forall a b : list scmd, structured a -> structured b -> structured (a ++ b).
Proof. exact structured_app. Qed.

(* Stack.op_if's scan of the remaining commands returns exactly the two branches and the rest *)
Theorem lib_scan_finds_branches :
  forall t f p : list scmd, structured t -> structured f ->
    split_if (t ++ COp 103 :: f ++ COp 104 :: p) 0 false [] [] = Some (t, f, p).
Proof. exact split_if_block_else. Qed.

Theorem lib_scan_finds_branch_noelse :
  forall t p : list scmd, structured t -> split_if (t ++ COp 104 :: p) 0 false [] [] = Some (t, [], p).
Proof. exact split_if_block. Qed.

(* Core's condition stack on a block = running the branch CastToBool selects, then the rest *)
Theorem core_conditional_is_branch_choice :
  forall (h_ripemd160 h_sha1 h_sha256 : bytes -> bytes) (sigcheck : bytes -> bytes -> sigres) (e : env) (fl : flags)
         (n : Z) (t f p : list scmd) (x : bytes) (r : list bytes),
    is_if n = true -> structured t -> structured f ->
    core_run h_ripemd160 h_sha1 h_sha256 sigcheck e fl (COp n :: t ++ COp 103 :: f ++ COp 104 :: p) (x :: r) [] =
    core_run h_ripemd160 h_sha1 h_sha256 sigcheck e fl
      ((if (if n =? 100 then negb (cast_to_bool x) else cast_to_bool x) then t else f) ++ p) r [].
Proof. exact core_if_else. Qed.

(* a structured piece inside a branch that is not executed leaves data stack and condition stack alone *)
Theorem core_unexecuted_branch_is_noop :
  forall (h_ripemd160 h_sha1 h_sha256 : bytes -> bytes) (sigcheck : bytes -> bytes -> sigres) (e : env) (fl : flags)
         (t : list scmd), structured t ->
    forall (s : list bytes) (vf : list bool), forallb (fun b => b) vf = false ->
      core_run h_ripemd160 h_sha1 h_sha256 sigcheck e fl t s vf = CDone s vf.
Proof. exact core_skip. Qed.

(* THE theorem for conditionals, without any dynamic guard: for every structured program (any length, any
   nesting depth), every initial stack of good items, all oracles / environments / flags, either both
   interpreters agree (same verdict, same final stack) or the library raised IndexError out of
   op_if / op_notif (no condition item on the stack) at a point where Core fails the script *)
Theorem agree_if_or_crash :
  forall (h_ripemd160 h_sha1 h_sha256 : bytes -> bytes) (sigcheck : bytes -> bytes -> sigres) (e : env) (fl : flags),
    (forall x, good (h_ripemd160 x)) -> (forall x, good (h_sha1 x)) -> (forall x, good (h_sha256 x)) ->
    forall (cmds : list scmd) (fu : nat) (s : list bytes),
      (length cmds < fu)%nat -> structured cmds -> Forall good s ->
      agree (lib_run h_ripemd160 h_sha1 h_sha256 sigcheck e fu cmds s)
            (core_finish (core_run h_ripemd160 h_sha1 h_sha256 sigcheck e fl cmds s [])) \/
      (r_verdict (lib_run h_ripemd160 h_sha1 h_sha256 sigcheck e fu cmds s) = CrashIndex /\
       fst (core_finish (core_run h_ripemd160 h_sha1 h_sha256 sigcheck e fl cmds s [])) = Invalid).
Proof. exact agree_if_or_crash_gen. Qed.

(* agree_if: under the guard "every executed OP_IF / OP_NOTIF finds its condition item" (= the library does
   not raise IndexError), lib and Core agree on every structured program *)
Theorem agree_if :
  forall (h_ripemd160 h_sha1 h_sha256 : bytes -> bytes) (sigcheck : bytes -> bytes -> sigres) (e : env) (fl : flags),
    (forall x, good (h_ripemd160 x)) -> (forall x, good (h_sha1 x)) -> (forall x, good (h_sha256 x)) ->
    forall (cmds : list scmd) (fu : nat) (s : list bytes),
      (length cmds < fu)%nat -> structured cmds -> Forall good s ->
      r_verdict (lib_run h_ripemd160 h_sha1 h_sha256 sigcheck e fu cmds s) <> CrashIndex ->
      agree (lib_run h_ripemd160 h_sha1 h_sha256 sigcheck e fu cmds s)
            (core_finish (core_run h_ripemd160 h_sha1 h_sha256 sigcheck e fl cmds s [])).
Proof. exact agree_if_gen. Qed.

(* Script(cmds).evaluate() against EvalScript + final truth test *)
Theorem agree_if_evaluate :
  forall (h_ripemd160 h_sha1 h_sha256 : bytes -> bytes) (sigcheck : bytes -> bytes -> sigres) (e : env) (fl : flags),
    (forall x, good (h_ripemd160 x)) -> (forall x, good (h_sha1 x)) -> (forall x, good (h_sha256 x)) ->
    forall cmds : list scmd, structured cmds ->
      r_verdict (lib_eval h_ripemd160 h_sha1 h_sha256 sigcheck e cmds) <> CrashIndex ->
      agree (lib_eval h_ripemd160 h_sha1 h_sha256 sigcheck e cmds)
            (core_eval h_ripemd160 h_sha1 h_sha256 sigcheck e fl cmds).
Proof. exact agree_if_eval. Qed.

(* the excluded case itself is harmless for consensus: where IndexError escapes, Core rejects *)
Theorem if_crash_only_where_core_fails :
  forall (h_ripemd160 h_sha1 h_sha256 : bytes -> bytes) (sigcheck : bytes -> bytes -> sigres) (e : env) (fl : flags),
    (forall x, good (h_ripemd160 x)) -> (forall x, good (h_sha1 x)) -> (forall x, good (h_sha256 x)) ->
    forall cmds : list scmd, structured cmds ->
      r_verdict (lib_eval h_ripemd160 h_sha1 h_sha256 sigcheck e cmds) = CrashIndex ->
      fst (core_eval h_ripemd160 h_sha1 h_sha256 sigcheck e fl cmds) = Invalid.
Proof. exact if_crash_core_invalid. Qed.

(* the safety half on structured programs (no guard on the condition items needed) *)
Theorem never_valid_when_core_rejects_structured :
  forall (h_ripemd160 h_sha1 h_sha256 : bytes -> bytes) (sigcheck : bytes -> bytes -> sigres) (e : env) (fl : flags),
    (forall x, good (h_ripemd160 x)) -> (forall x, good (h_sha1 x)) -> (forall x, good (h_sha256 x)) ->
    forall cmds : list scmd, structured cmds ->
      r_verdict (lib_eval h_ripemd160 h_sha1 h_sha256 sigcheck e cmds) = Valid ->
      fst (core_eval h_ripemd160 h_sha1 h_sha256 sigcheck e fl cmds) = Valid.
Proof. exact never_valid_structured. Qed.

(* non-vacuity: the oracle hypotheses are satisfiable; an IF/ELSE/ENDIF nested inside an IF branch, and a
   NOTIF block with a nested IF/ELSE, are structured and Valid on both sides with the same final stack:
     1 IF  0 IF 0 ELSE 1 ENDIF  ELSE 0 ENDIF          0 NOTIF  1 IF 2 3 ADD ELSE 0 ENDIF 5 EQUAL  ELSE 0 ENDIF *)
Example oracle_hypotheses_satisfiable : forall x : bytes, good (consth x).
Proof. exact consth_good. Qed.

Example structured_nonvacuous :
  structuredb [COp 81; COp 99; COp 0; COp 99; COp 0; COp 103; COp 81; COp 104; COp 103; COp 0; COp 104] = true /\
  lib_eval1 [COp 81; COp 99; COp 0; COp 99; COp 0; COp 103; COp 81; COp 104; COp 103; COp 0; COp 104]
    = mkRes Valid [] (Some [x01]) /\
  core_eval1 [COp 81; COp 99; COp 0; COp 99; COp 0; COp 103; COp 81; COp 104; COp 103; COp 0; COp 104]
    = (Valid, [[x01]]) /\
  structuredb [COp 0; COp 100; COp 81; COp 99; COp 82; COp 83; COp 147; COp 103; COp 0; COp 104; COp 85; COp 135;
               COp 103; COp 0; COp 104] = true /\
  lib_eval1 [COp 0; COp 100; COp 81; COp 99; COp 82; COp 83; COp 147; COp 103; COp 0; COp 104; COp 85; COp 135;
             COp 103; COp 0; COp 104] = mkRes Valid [] (Some [x01]) /\
  core_eval1 [COp 0; COp 100; COp 81; COp 99; COp 82; COp 83; COp 147; COp 103; COp 0; COp 104; COp 85; COp 135;
              COp 103; COp 0; COp 104] = (Valid, [[x01]]).
Proof. vm_compute. repeat split. Qed.

(* the guard of agree_if is necessary: a structured program whose inner OP_NOTIF finds the stack empty *)
Example agree_if_refuted_missing_condition :      (* 1 IF NOTIF 1 ENDIF ENDIF *)
  structuredb [COp 81; COp 99; COp 100; COp 81; COp 104; COp 104] = true /\
  r_verdict (lib_eval0 [COp 81; COp 99; COp 100; COp 81; COp 104; COp 104]) = CrashIndex /\
  ~ agree (lib_eval0 [COp 81; COp 99; COp 100; COp 81; COp 104; COp 104])
          (core_eval0 [COp 81; COp 99; COp 100; COp 81; COp 104; COp 104]).
Proof. vm_compute. repeat split. exact (fun x => x). Qed.

(* the classes outside [structured], each with a program on which the two interpreters differ *)
Example second_else_not_structured :               (* see second_else_refuted below *)
  structuredb [COp 0; COp 99; COp 0; COp 103; COp 81; COp 103; COp 0; COp 104] = false.
Proof. vm_compute. reflexivity. Qed.

Example unexecuted_disabled_refuted :              (* 0 IF OP_CAT ENDIF 1: the leaf is not in the fragment *)
  structuredb [COp 0; COp 99; COp 126; COp 104; COp 81] = false /\
  r_verdict (lib_eval0 [COp 0; COp 99; COp 126; COp 104; COp 81]) = Valid /\
  fst (core_eval0 [COp 0; COp 99; COp 126; COp 104; COp 81]) = Invalid.
Proof. vm_compute. repeat split. Qed.

Example unexecuted_verif_refuted :                 (* 0 IF OP_VERIF ENDIF 1 *)
  structuredb [COp 0; COp 99; COp 101; COp 104; COp 81] = false /\
  r_verdict (lib_eval0 [COp 0; COp 99; COp 101; COp 104; COp 81]) = Valid /\
  fst (core_eval0 [COp 0; COp 99; COp 101; COp 104; COp 81]) = Invalid.
Proof. vm_compute. repeat split. Qed.

Example stray_else_endif_refuted :                 (* 1 ELSE / 1 ENDIF: ScriptError in the library, script failure in Core *)
  structuredb [COp 81; COp 103] = false /\ structuredb [COp 81; COp 104] = false /\
  r_verdict (lib_eval0 [COp 81; COp 103]) = Unimplemented /\ fst (core_eval0 [COp 81; COp 103]) = Invalid /\
  r_verdict (lib_eval0 [COp 81; COp 104]) = Unimplemented /\ fst (core_eval0 [COp 81; COp 104]) = Invalid.
Proof. vm_compute. repeat split. Qed.

(* the condition item itself needs no guard (if_condition_is_cast_to_bool): 80 (negative zero) selects the
   ELSE branch on both sides *)
Example if_condition_negative_zero :               (* <80> IF 0 ELSE 1 ENDIF *)
  lib_eval0 [CPush [x80]; COp 99; COp 0; COp 103; COp 81; COp 104] = mkRes Valid [] (Some [x01]) /\
  core_eval0 [CPush [x80]; COp 99; COp 0; COp 103; COp 81; COp 104] = (Valid, [[x01]]).
Proof. vm_compute. split; reflexivity. Qed.

(* ---- conditionals that are never closed (missing OP_ENDIF): open_program cmds :=
        cmds = pre ++ COp n :: u, pre structured, n = 99 / 100, u [unclosed] (structured code, at most one OP_ELSE
        at that level, possibly further conditionals that are not closed either; Proofs/EvalIfOpen.v) ---- *)

(* Stack.op_if's scan finds no OP_ENDIF (evaluate returns False) *)
Theorem lib_scan_finds_no_endif :
  forall u : list scmd, unclosed u ->
    forall (d : nat) (inf : bool) (ta fa : list scmd), split_if u d inf ta fa = None.
Proof. exact split_if_unclosed. Qed.

(* ... and Core ends with a non-empty condition stack or fails earlier: same verdict (Invalid) on both sides,
   or the IndexError case of agree_if_or_crash *)
Theorem agree_if_missing_endif :
  forall (h_ripemd160 h_sha1 h_sha256 : bytes -> bytes) (sigcheck : bytes -> bytes -> sigres) (e : env) (fl : flags),
    (forall x, good (h_ripemd160 x)) -> (forall x, good (h_sha1 x)) -> (forall x, good (h_sha256 x)) ->
    forall (cmds : list scmd) (fu : nat) (s : list bytes),
      (length cmds < fu)%nat -> open_program cmds -> Forall good s ->
      agree (lib_run h_ripemd160 h_sha1 h_sha256 sigcheck e fu cmds s)
            (core_finish (core_run h_ripemd160 h_sha1 h_sha256 sigcheck e fl cmds s [])) \/
      (r_verdict (lib_run h_ripemd160 h_sha1 h_sha256 sigcheck e fu cmds s) = CrashIndex /\
       fst (core_finish (core_run h_ripemd160 h_sha1 h_sha256 sigcheck e fl cmds s [])) = Invalid).
Proof. exact agree_open_gen. Qed.

Theorem missing_endif_never_valid :
  forall (h_ripemd160 h_sha1 h_sha256 : bytes -> bytes) (sigcheck : bytes -> bytes -> sigres) (e : env) (fl : flags),
    (forall x, good (h_ripemd160 x)) -> (forall x, good (h_sha1 x)) -> (forall x, good (h_sha256 x)) ->
    forall (cmds : list scmd) (fu : nat) (s : list bytes),
      (length cmds < fu)%nat -> open_program cmds -> Forall good s ->
      r_verdict (lib_run h_ripemd160 h_sha1 h_sha256 sigcheck e fu cmds s) <> Valid /\
      fst (core_finish (core_run h_ripemd160 h_sha1 h_sha256 sigcheck e fl cmds s [])) = Invalid.
Proof. exact open_never_valid. Qed.

Example missing_endif_nonvacuous :                 (* 1 IF  1 IF 1 ENDIF  ELSE 0 NOTIF 1      and      1 IF 1 *)
  open_program [COp 81; COp 99; COp 81; COp 99; COp 81; COp 104; COp 103; COp 0; COp 100; COp 81] /\
  r_verdict (lib_eval0 [COp 81; COp 99; COp 81; COp 99; COp 81; COp 104; COp 103; COp 0; COp 100; COp 81]) = Invalid /\
  fst (core_eval0 [COp 81; COp 99; COp 81; COp 99; COp 81; COp 104; COp 103; COp 0; COp 100; COp 81]) = Invalid /\
  open_program [COp 81; COp 99; COp 81] /\
  r_verdict (lib_eval0 [COp 81; COp 99; COp 81]) = Invalid /\ fst (core_eval0 [COp 81; COp 99; COp 81]) = Invalid.
Proof.
  split.
  { apply (open_program_intro [COp 81] 99
             ([COp 81; COp 99; COp 81; COp 104] ++ COp 103 :: [COp 0] ++ COp 100 :: [COp 81])); try reflexivity.
    apply un_else_if; try reflexivity; try (apply structuredb_sound; vm_compute; reflexivity).
    apply un_end. apply structuredb_sound. vm_compute. reflexivity. }
  split; [vm_compute; reflexivity|]. split; [vm_compute; reflexivity|]. split.
  { apply (open_program_intro [COp 81] 99 [COp 81]); try reflexivity.
    apply un_end. apply structuredb_sound. vm_compute. reflexivity. }
  split; vm_compute; reflexivity.
Qed.

(* ------------------------------------------------------------------------------------------------
   7. standard spends (scriptSig ++ scriptPubKey), arbitrary good signatures / keys / hashes / witness items
      P2PKH  <sig> <pk> DUP HASH160 <h> EQUALVERIFY CHECKSIG          P2PK  <sig> <pk> CHECKSIG
      HTLC   <wit...> IF SHA256 <h> EQUALVERIFY <pkA> ELSE <lock> CHECKLOCKTIMEVERIFY DROP <pkB> ENDIF CHECKSIG
   ------------------------------------------------------------------------------------------------ *)

Theorem standard_spends_agree :
  forall (h_ripemd160 h_sha1 h_sha256 : bytes -> bytes) (sigcheck : bytes -> bytes -> sigres) (e : env) (fl : flags),
    (forall x, good (h_ripemd160 x)) -> (forall x, good (h_sha1 x)) -> (forall x, good (h_sha256 x)) ->
    (forall sig pk h, goodb sig = true -> goodb pk = true -> goodb h = true ->
       agree (lib_eval h_ripemd160 h_sha1 h_sha256 sigcheck e (p2pkh_spend sig pk h))
             (core_eval h_ripemd160 h_sha1 h_sha256 sigcheck e fl (p2pkh_spend sig pk h))) /\
    (forall sig pk, goodb sig = true -> goodb pk = true ->
       agree (lib_eval h_ripemd160 h_sha1 h_sha256 sigcheck e (p2pk_spend sig pk))
             (core_eval h_ripemd160 h_sha1 h_sha256 sigcheck e fl (p2pk_spend sig pk))) /\
    (forall wit h pkA lock pkB,
       wit <> [] -> forallb goodb wit = true ->
       goodb h = true -> goodb pkA = true -> goodb lock = true -> goodb pkB = true ->
       agree (lib_eval h_ripemd160 h_sha1 h_sha256 sigcheck e (htlc_spend wit h pkA lock pkB))
             (core_eval h_ripemd160 h_sha1 h_sha256 sigcheck e fl (htlc_spend wit h pkA lock pkB))).
Proof. exact standard_spends_agree_all. Qed.

(* a sufficient shape for the [goodb] premises: more than 5 bytes with a non-zero first byte (DER signatures
   start with 30, public keys with 02 / 03 / 04) *)
Theorem long_item_with_nonzero_head_is_good :
  forall (b : byte) (r : list byte), bz b <> 0 -> (5 <= length r)%nat -> goodb (b :: r) = true.
Proof. exact nonzero_head_good. Qed.

(* non-vacuity: both paths of the contract are Valid on both sides (accepting signature oracle, hash oracle
   with output 010203040506, nLockTime 100): claim = <sig> <preimage> 1, refund = <sig> 0 with lock 100 *)
Example standard_spends_nonvacuous :
  lib_eval1 (htlc_spend [[x30; x01; x02; x03; x04; x05]; [x07; x07; x07; x07; x07; x07]; [x01]]
               [x01; x02; x03; x04; x05; x06] [x02; x01; x02; x03; x04; x05] [x64] [x03; x01; x02; x03; x04; x05])
    = mkRes Valid [] (Some [x01]) /\
  core_eval1 (htlc_spend [[x30; x01; x02; x03; x04; x05]; [x07; x07; x07; x07; x07; x07]; [x01]]
               [x01; x02; x03; x04; x05; x06] [x02; x01; x02; x03; x04; x05] [x64] [x03; x01; x02; x03; x04; x05])
    = (Valid, [[x01]]) /\
  lib_eval1 (htlc_spend [[x30; x01; x02; x03; x04; x05]; []]
               [x01; x02; x03; x04; x05; x06] [x02; x01; x02; x03; x04; x05] [x64] [x03; x01; x02; x03; x04; x05])
    = mkRes Valid [] (Some [x01]) /\
  core_eval1 (htlc_spend [[x30; x01; x02; x03; x04; x05]; []]
               [x01; x02; x03; x04; x05; x06] [x02; x01; x02; x03; x04; x05] [x64] [x03; x01; x02; x03; x04; x05])
    = (Valid, [[x01]]) /\
  forallb goodb [[x30; x01; x02; x03; x04; x05]; [x07; x07; x07; x07; x07; x07]; [x01]; [];
                 [x01; x02; x03; x04; x05; x06]; [x02; x01; x02; x03; x04; x05]; [x64];
                 [x03; x01; x02; x03; x04; x05]] = true /\
  lib_eval1 (p2pkh_spend [x30; x01; x02; x03; x04; x05] [x02; x01; x02; x03; x04; x05] [x01; x02; x03; x04; x05; x06])
    = mkRes Valid [] (Some [x01]) /\
  core_eval1 (p2pkh_spend [x30; x01; x02; x03; x04; x05] [x02; x01; x02; x03; x04; x05] [x01; x02; x03; x04; x05; x06])
    = (Valid, [[x01]]).
Proof. vm_compute. repeat split. Qed.

(* the witness must be there: with an empty witness the contract's OP_IF raises in the library *)
Example htlc_empty_witness_refuted :
  r_verdict (lib_eval1 (htlc_spend [] [x01; x02; x03; x04; x05; x06] [x02; x01; x02; x03; x04; x05] [x64]
                          [x03; x01; x02; x03; x04; x05])) = CrashIndex /\
  fst (core_eval1 (htlc_spend [] [x01; x02; x03; x04; x05; x06] [x02; x01; x02; x03; x04; x05] [x64]
                     [x03; x01; x02; x03; x04; x05])) = Invalid.
Proof. vm_compute. split; reflexivity. Qed.

(* ------------------------------------------------------------------------------------------------
   8. the ENVIRONMENT of an evaluation (nSequence, nLockTime, version): OP_CHECKSEQUENCEVERIFY /
      OP_CHECKLOCKTIMEVERIFY against BIP112 / BIP65 on EVERY stack (operands minimal or not, of any length,
      empty stack) and in EVERY environment (any values, present or absent), consensus flags (MINIMALDATA off).
      seq_disable x = bit 31, seq_type x = bit 22, seq_value x = x mod 2^16 (Proofs/EvalEnv.v)
   ------------------------------------------------------------------------------------------------ *)

Theorem csv_agrees_all_env :
  forall (h_ripemd160 h_sha1 h_sha256 : bytes -> bytes) (sigcheck : bytes -> bytes -> sigres) (fl : flags),
    f_minimaldata fl = false ->
    forall (e : env) (s : list bytes),
      op_agree (lib_op h_ripemd160 h_sha1 h_sha256 sigcheck e K_CSV s)
               (core_op h_ripemd160 h_sha1 h_sha256 sigcheck e fl K_CSV s).
Proof. exact EvalEnv.csv_agrees_all_env. Qed.

Theorem cltv_agrees_all_env :
  forall (h_ripemd160 h_sha1 h_sha256 : bytes -> bytes) (sigcheck : bytes -> bytes -> sigres) (fl : flags),
    f_minimaldata fl = false ->
    forall (e : env) (s : list bytes),
      op_agree (lib_op h_ripemd160 h_sha1 h_sha256 sigcheck e K_CLTV s)
               (core_op h_ripemd160 h_sha1 h_sha256 sigcheck e fl K_CLTV s).
Proof. exact EvalEnv.cltv_agrees_all_env. Qed.

(* the library's OP_CHECKSEQUENCEVERIFY in closed form, field by field as BIP112 states it: operand negative ->
   fail; operand bit 31 -> NOP; version < 2 -> fail; nSequence bit 31 -> fail; bit 22 of the two differ -> fail;
   otherwise low 16 bits of the operand <= low 16 bits of nSequence.  No other bit of either value is read. *)
Theorem lib_csv_is_bip112 :
  forall (h_ripemd160 h_sha1 h_sha256 : bytes -> bytes) (sigcheck : bytes -> bytes -> sigres) (e : env)
         (top : bytes) (r : stack) (sq ver : Z),
    e_sequence e = Some sq -> e_version e = Some ver -> (length top <= 5)%nat ->
    lib_op h_ripemd160 h_sha1 h_sha256 sigcheck e K_CSV (top :: r) =
    if bip112_ok (lib_decode_num top) sq ver then ROk (top :: r) else RFalse (top :: r).
Proof. exact EvalEnv.lib_csv_is_bip112. Qed.

Theorem lib_cltv_is_bip65 :
  forall (h_ripemd160 h_sha1 h_sha256 : bytes -> bytes) (sigcheck : bytes -> bytes -> sigres) (e : env)
         (top : bytes) (r : stack) (sq tl : Z),
    e_sequence e = Some sq -> e_locktime e = Some tl -> (length top <= 5)%nat ->
    lib_op h_ripemd160 h_sha1 h_sha256 sigcheck e K_CLTV (top :: r) =
    if bip65_ok (lib_decode_num top) tl sq then ROk (top :: r) else RFalse (top :: r).
Proof. exact EvalEnv.lib_cltv_is_bip65. Qed.

(* bits of nSequence outside DISABLE_FLAG | TYPE_FLAG | 0xffff (16-21, 23-30) never make a lock look satisfied:
   or-ing them into nSequence changes neither the library's answer nor Core's, whatever the stack *)
Theorem csv_ignores_stray_sequence_bits :
  forall (h_ripemd160 h_sha1 h_sha256 : bytes -> bytes) (sigcheck : bytes -> bytes -> sigres) (e : env)
         (s : stack) (sq stray : Z),
    stray_bits stray ->
    lib_op h_ripemd160 h_sha1 h_sha256 sigcheck (with_sequence e (Z.lor sq stray)) K_CSV s =
    lib_op h_ripemd160 h_sha1 h_sha256 sigcheck (with_sequence e sq) K_CSV s.
Proof. exact EvalEnv.csv_ignores_stray_sequence_bits. Qed.

Theorem core_csv_ignores_stray_sequence_bits :
  forall (h_ripemd160 h_sha1 h_sha256 : bytes -> bytes) (sigcheck : bytes -> bytes -> sigres) (fl : flags) (e : env)
         (s : stack) (sq stray : Z),
    f_minimaldata fl = false -> stray_bits stray ->
    core_op h_ripemd160 h_sha1 h_sha256 sigcheck (with_sequence e (Z.lor sq stray)) fl K_CSV s =
    core_op h_ripemd160 h_sha1 h_sha256 sigcheck (with_sequence e sq) fl K_CSV s.
Proof. exact EvalEnv.core_csv_ignores_stray_sequence_bits. Qed.

Theorem bip112_ignores_stray_operand_bits :
  forall n sq ver stray : Z, 0 <= n -> 0 <= stray -> stray_bits stray ->
    bip112_ok (Z.lor n stray) sq ver = bip112_ok n sq ver.
Proof. exact EvalEnv.bip112_ignores_stray_operand_bits. Qed.

(* Core reads the version as uint32_t; on the unsigned reading (what Transaction.version_int hands over) that cast
   is the identity, so the theorems above are about Core's own comparison *)
Theorem version_cast_is_identity_on_uint32 :
  forall e : env,
    match e_version e with Some v => 0 <= v < 4294967296 | None => True end -> env_u32_version e = e.
Proof. exact EvalEnv.env_u32_version_id. Qed.

(* non-vacuity and the seeded class: operand 10 against nSequence 0x00010005 (low 16 bits 5, a stray bit 16) is
   rejected by BIP112 like nSequence 5, 0x0001000a is accepted like 10; 0x00010000 and 0x7fbf0000 are stray *)
Example csv_stray_bit_witness :
  bip112_ok 10 65541 2 = false /\ bip112_ok 10 5 2 = false /\ bip112_ok 10 65546 2 = true /\
  stray_bits 65536 /\ stray_bits 2143223808 /\
  lib_op idh idh idh nosig (with_sequence env1 65541) K_CSV [[x0a]] = RFalse [[x0a]] /\
  core_op idh idh idh nosig (with_sequence env1 65541) consensus_flags K_CSV [[x0a]] = None /\
  lib_op idh idh idh nosig (with_sequence env1 65546) K_CSV [[x0a]] = ROk [[x0a]] /\
  (* a non-minimal operand (0a 00) and a 5-byte operand with the disable flag (00 00 00 80 00) *)
  lib_op idh idh idh nosig (with_sequence env1 65546) K_CSV [[x0a; x00]] = ROk [[x0a; x00]] /\
  core_op idh idh idh nosig (with_sequence env1 65546) consensus_flags K_CSV [[x0a; x00]] = Some [[x0a; x00]] /\
  lib_op idh idh idh nosig (with_sequence env1 0) K_CSV [[x00; x00; x00; x80; x00]] = ROk [[x00; x00; x00; x80; x00]].
Proof. vm_compute. repeat split. Qed.

(* a version handed over as a SIGNED 32-bit number is outside the domain of the theorems: the library compares
   the signed value (-2^31 < 2: lock not satisfied), Core's cast reads 2^31 (>= 2) *)
Example csv_signed_version_refuted :
  lib_op idh idh idh nosig (mkEnv None (Some 10) None (Some (-2147483648))) K_CSV [[x0a]] = RFalse [[x0a]] /\
  core_op idh idh idh nosig (env_u32_version (mkEnv None (Some 10) None (Some (-2147483648)))) consensus_flags K_CSV [[x0a]]
    = Some [[x0a]].
Proof. vm_compute. split; reflexivity. Qed.

(* ------------------------------------------------------------------------------------------------
   9. several evaluations in ONE process (Model/EvalSession.v): Script objects live on between calls, the
      signature check is a function of the message of each call.  lib_session folds over the object store
      (commands, message, env_data, stack left behind); resolve computes, from the steps alone, which
      (commands, message, env_data) every evaluate call denotes.
   ------------------------------------------------------------------------------------------------ *)

(* THE no-hidden-state obligation: a session is the MAP of the stateless evaluate over what its steps denote.
   Nothing an evaluation does (the stack it leaves, the signatures it checked, the branches it consumed) reaches a
   later evaluation, on the same object or on another one. *)
Theorem evaluation_session_is_map :
  forall (h_ripemd160 h_sha1 h_sha256 : bytes -> bytes) (sc : sigoracle) (xs : list sstep),
    lib_session h_ripemd160 h_sha1 h_sha256 sc [] xs =
    map (stateless_obs h_ripemd160 h_sha1 h_sha256 sc) (resolve [] xs).
Proof. exact EvalSession.session_is_map. Qed.

(* an evaluate call that names its message and env_data answers as a fresh evaluation of the commands its object
   was constructed with: the steps before it (pre) and after it (rest) do not matter *)
Theorem explicit_eval_ignores_history :
  forall (h_ripemd160 h_sha1 h_sha256 : bytes -> bytes) (sc : sigoracle)
         (pre rest : list sstep) (id : Z) (m : bytes) (e : env),
    nth (length pre) (lib_session h_ripemd160 h_sha1 h_sha256 sc [] (pre ++ SEval id (Some m) (Some e) :: rest)) ONew =
    match cmds_of id pre None with
    | Some c => ORes (lib_eval h_ripemd160 h_sha1 h_sha256 (sc (Some m)) e c)
    | None => OMissing
    end.
Proof. exact EvalSession.explicit_eval_ignores_history. Qed.

(* consensus, evaluation by evaluation: a script that consensus rejects UNDER THE MESSAGE OF THAT EVALUATION is
   not reported valid wherever in a session it is evaluated — a signature accepted earlier under another
   message does not help (structured programs, good hash outputs, any signature oracle) *)
Theorem session_never_valid_when_core_rejects :
  forall (h_ripemd160 h_sha1 h_sha256 : bytes -> bytes) (sc : sigoracle) (fl : flags),
    (forall x, good (h_ripemd160 x)) -> (forall x, good (h_sha1 x)) -> (forall x, good (h_sha256 x)) ->
    forall (xs : list sstep) (i : nat) (r : lres),
      nth_error (lib_session h_ripemd160 h_sha1 h_sha256 sc [] xs) i = Some (ORes r) -> r_verdict r = Valid ->
      exists c m e cv,
        nth_error (resolve [] xs) i = Some (REval c m e) /\
        nth_error (core_session h_ripemd160 h_sha1 h_sha256 sc fl xs) i = Some (Some cv) /\
        cv = core_eval h_ripemd160 h_sha1 h_sha256 (sc m) e fl c /\
        (structured c -> fst cv = Valid).
Proof. exact EvalSession.session_never_valid_structured. Qed.

Theorem session_agrees_with_core :
  forall (h_ripemd160 h_sha1 h_sha256 : bytes -> bytes) (sc : sigoracle) (fl : flags),
    (forall x, good (h_ripemd160 x)) -> (forall x, good (h_sha1 x)) -> (forall x, good (h_sha256 x)) ->
    forall (xs : list sstep) (i : nat) (r : lres),
      nth_error (lib_session h_ripemd160 h_sha1 h_sha256 sc [] xs) i = Some (ORes r) ->
      exists c m e,
        nth_error (resolve [] xs) i = Some (REval c m e) /\
        (structured c -> r_verdict r <> CrashIndex ->
         agree r (core_eval h_ripemd160 h_sha1 h_sha256 (sc m) e fl c)).
Proof. exact EvalSession.session_agrees_structured. Qed.

(* non-vacuity: a signature oracle that accepts under message 0a only.  One P2PK object: valid under 0a, the same
   signature replayed under 0b invalid, evaluate() without message keeps 0b (invalid), 0a again valid; a second
   object ( 7 8 1 ) built and evaluated twice in between leaves 7 8 both times *)
Example session_replay_witness :
  map (fun o => match o with ORes r => Some (r_verdict r, r_stack r) | _ => None end)
      (lib_session consth consth consth sc_demo [] demo_session) =
  [None; Some (Valid, []); Some (Invalid, []); None; Some (Invalid, []); Some (Valid, [[x08]; [x07]]);
   Some (Valid, [[x08]; [x07]]); Some (Valid, [])] /\
  map (option_map fst) (core_session consth consth consth sc_demo consensus_flags demo_session) =
  [None; Some Valid; Some Invalid; None; Some Invalid; Some Valid; Some Valid; Some Valid].
Proof. split; [exact demo_session_obs|exact demo_session_core]. Qed.

(* the source side of the same obligation (Gen/GenC19.v is regenerated from bitcoinlib/scripts.py and keys.py on
   every run): Script.evaluate, every Stack method, encode_num / decode_num and Signature.parse_bytes / verify use
   no module-level or class-level mutable state and carry no memoising decorator; the only attributes written are
   evaluate's message / env_data / stack (the three the session model carries) and, on the local Signature
   object, txid / public_key; evaluate reads nothing of self beyond these and self.commands *)
Theorem interpreter_touches_no_module_state :
  c19_module_state_refs = [] /\ c19_class_state = [] /\ c19_decorators = [].
Proof. exact footprint_no_module_state. Qed.

Theorem interpreter_attribute_writes_are_frozen : c19_attr_writes = frozen_attr_writes.
Proof. exact footprint_attr_writes. Qed.

Theorem interpreter_self_reads_are_frozen : c19_self_reads = frozen_self_reads.
Proof. exact footprint_self_reads. Qed.

Example frozen_footprint_is :
  frozen_attr_writes =
  [("Script.evaluate"%string, "self.env_data"%string); ("Script.evaluate"%string, "self.message"%string);
   ("Script.evaluate"%string, "self.stack"%string);
   ("Signature.verify"%string, "self.public_key"%string); ("Signature.verify"%string, "self.txid"%string)] /\
  frozen_self_reads =
  [("Script.evaluate"%string, "commands"%string); ("Script.evaluate"%string, "env_data"%string);
   ("Script.evaluate"%string, "message"%string); ("Script.evaluate"%string, "stack"%string)].
Proof. split; reflexivity. Qed.

(* --- parsed P2SH spends: Script.parse hands evaluate() the commands of the pushed redeem script followed by
       OP_HASH160 <h> OP_EQUAL, with env_data['redeemscript'] = the bytes the scriptSig pushed; the library's
       OP_CHECKMULTISIG leaves those bytes on the stack.  The commitment step is valid exactly when the output commits to
       the HASH160 of the bytes AS PUSHED (BIP16); a re-serialised copy with another encoding does not satisfy it. --- *)
Theorem p2sh_commitment_is_hash_of_pushed_bytes :
  forall h_ripemd160 h_sha1 h_sha256 sigcheck e (pushed h : bytes) (fuel : nat),
    r_verdict (lib_run h_ripemd160 h_sha1 h_sha256 sigcheck e (4 + fuel) (p2sh_tail h) [pushed]) = Valid
    <-> h = hash160 h_ripemd160 h_sha256 pushed.
Proof. exact p2sh_commits_to_pushed_bytes. Qed.
Theorem p2sh_reserialised_redeemscript_rejected :
  forall h_ripemd160 h_sha1 h_sha256 sigcheck e (pushed canon : bytes) (fuel : nat),
    hash160 h_ripemd160 h_sha256 canon <> hash160 h_ripemd160 h_sha256 pushed ->
    r_verdict (lib_run h_ripemd160 h_sha1 h_sha256 sigcheck e (4 + fuel)
                       (p2sh_tail (hash160 h_ripemd160 h_sha256 canon)) [pushed]) = Invalid.
Proof. exact p2sh_reserialised_copy_rejected. Qed.
(* non-vacuity: with an injective stand-in for the hash functions, the bytes as pushed satisfy their own commitment and
   the canonical copy (direct push 21 instead of OP_PUSHDATA1 4c 21) does not *)
Example p2sh_commitment_example :
  let idh := fun x : bytes => x in
  let e0 := mkEnv None None None None in
  r_verdict (lib_run idh idh idh (fun _ _ => SigInvalid) e0 4 (p2sh_tail [x51; x4c; x01; x02]) [[x51; x4c; x01; x02]]) = Valid /\
  r_verdict (lib_run idh idh idh (fun _ _ => SigInvalid) e0 4 (p2sh_tail [x51; x01; x02]) [[x51; x4c; x01; x02]]) = Invalid.
Proof. vm_compute. split; reflexivity. Qed.

(* recorded finding pushed_data_executed: Script.parse hands evaluate() the COMMANDS of a pushed item it cannot type
   (here the five bytes 51 51 51 51 51) instead of the item; against the output OP_DEPTH OP_5 OP_EQUAL the library
   evaluation is valid, consensus - one item on the stack - is not *)
Example pushed_data_executed_refuted :
  r_verdict (lib_eval1 [COp 81; COp 81; COp 81; COp 81; COp 81; COp 116; COp 85; COp 135]) = Valid /\
  fst (core_eval1 [CPush [x51; x51; x51; x51; x51]; COp 116; COp 85; COp 135]) = Invalid.
Proof. vm_compute. split; reflexivity. Qed.

Print Assumptions dispatch_is_core_opcode.
Print Assumptions dispatchable_all_modelled.
Print Assumptions dispatch_only_dispatchable.
Print Assumptions decode_is_core.
Print Assumptions truth_agrees_on_good.
Print Assumptions if_condition_is_cast_to_bool.
Print Assumptions op_nop_agrees.
Print Assumptions op_verify_agrees.
Print Assumptions op_return_agrees.
Print Assumptions op_2drop_agrees.
Print Assumptions op_2dup_agrees.
Print Assumptions op_3dup_agrees.
Print Assumptions op_2over_agrees.
Print Assumptions op_2rot_agrees.
Print Assumptions op_ifdup_agrees.
Print Assumptions op_depth_agrees.
Print Assumptions op_drop_agrees.
Print Assumptions op_dup_agrees.
Print Assumptions op_nip_agrees.
Print Assumptions op_over_agrees.
Print Assumptions op_rot_agrees.
Print Assumptions op_swap_agrees.
Print Assumptions op_size_agrees.
Print Assumptions op_equal_agrees.
Print Assumptions op_equalverify_agrees.
Print Assumptions op_1add_agrees.
Print Assumptions op_1sub_agrees.
Print Assumptions op_negate_agrees.
Print Assumptions op_abs_agrees.
Print Assumptions op_not_agrees.
Print Assumptions op_0notequal_agrees.
Print Assumptions op_add_agrees.
Print Assumptions op_booland_agrees.
Print Assumptions op_boolor_agrees.
Print Assumptions op_numequal_agrees.
Print Assumptions op_numnotequal_agrees.
Print Assumptions op_min_agrees.
Print Assumptions op_max_agrees.
Print Assumptions op_ripemd160_agrees.
Print Assumptions op_sha1_agrees.
Print Assumptions op_sha256_agrees.
Print Assumptions op_hash160_agrees.
Print Assumptions op_hash256_agrees.
Print Assumptions op_checksig_agrees.
Print Assumptions op_checksigverify_agrees.
Print Assumptions op_cltv_agrees.
Print Assumptions op_csv_agrees.
Print Assumptions S_ok_step_agrees.
Print Assumptions agree_straightline.
Print Assumptions agree_straightline_evaluate.
Print Assumptions never_valid_when_core_rejects_straight.
Print Assumptions structuredb_is_structured.
Print Assumptions straight_is_structured.
Print Assumptions structured_concat.
Print Assumptions lib_scan_finds_branches.
Print Assumptions lib_scan_finds_branch_noelse.
Print Assumptions core_conditional_is_branch_choice.
Print Assumptions core_unexecuted_branch_is_noop.
Print Assumptions agree_if_or_crash.
Print Assumptions agree_if.
Print Assumptions agree_if_evaluate.
Print Assumptions if_crash_only_where_core_fails.
Print Assumptions never_valid_when_core_rejects_structured.
Print Assumptions standard_spends_agree.
Print Assumptions long_item_with_nonzero_head_is_good.
Print Assumptions lib_scan_finds_no_endif.
Print Assumptions agree_if_missing_endif.
Print Assumptions missing_endif_never_valid.
Print Assumptions csv_agrees_all_env.
Print Assumptions cltv_agrees_all_env.
Print Assumptions lib_csv_is_bip112.
Print Assumptions lib_cltv_is_bip65.
Print Assumptions csv_ignores_stray_sequence_bits.
Print Assumptions core_csv_ignores_stray_sequence_bits.
Print Assumptions bip112_ignores_stray_operand_bits.
Print Assumptions version_cast_is_identity_on_uint32.
Print Assumptions evaluation_session_is_map.
Print Assumptions explicit_eval_ignores_history.
Print Assumptions session_never_valid_when_core_rejects.
Print Assumptions session_agrees_with_core.
Print Assumptions interpreter_touches_no_module_state.
Print Assumptions interpreter_attribute_writes_are_frozen.
Print Assumptions interpreter_self_reads_are_frozen.
Print Assumptions p2sh_commitment_is_hash_of_pushed_bytes.
Print Assumptions p2sh_reserialised_redeemscript_rejected.
