(* Properties/C10.v — multisig cosigner wallets agree on scripts; exactly m distinct signers suffice.
   Only statements closed by [exact lemma], non-vacuity examples, refutation witnesses for the classes
   excluded by a guard, and Print Assumptions. *)
From Coq Require Import ZArith List Bool Arith Sorted Permutation.
From Coq.Strings Require Import Byte.
From Verif Require Import Lib.Bytes Model.Wire Model.Multisig Proofs.MultisigSort Proofs.MultisigSign
  Proofs.MultisigFields Proofs.MultisigOutpoint.
Import ListNotations.
Open Scope Z_scope.

(* --- the order used by the two sorts is the lexicographic order of BIP67 --- *)
Theorem bytes_order_is_bip67 : forall a b, bytes_leb a b = true <-> lex_le a b.
Proof. exact bytes_leb_lex. Qed.

(* --- redeem script: independent of the order of the cosigner list, and the BIP11/BIP67 script --- *)
Theorem redeem_perm_invariant : forall keys keys' m,
  Permutation keys keys' -> lib_redeemscript keys' m true = lib_redeemscript keys m true.
Proof. exact redeem_perm_invariant_lemma. Qed.

Theorem redeem_is_spec : forall keys m, Forall is_pubkey keys ->
  lib_redeemscript keys m true = Some (spec_multisig_script m (ms_sort (fun k => k) keys)) /\
  Permutation keys (ms_sort (fun k => k) keys) /\ bip67_sorted (ms_sort (fun k => k) keys).
Proof. exact redeem_is_spec_lemma. Qed.

Theorem bip67_order_unique : forall keys l,
  Permutation keys l -> bip67_sorted l -> l = ms_sort (fun k => k) keys.
Proof. exact bip67_sorted_is_ms_sort. Qed.

(* whatever form of each cosigner key a wallet was given (co_master, co_private), in whatever order:
   the same derived child keys give the same redeem script ... *)
Theorem wallets_agree : forall (w1 w2 : list (cosigner * bytes)) m,
  Permutation (map snd w1) (map snd w2) ->
  lib_wallet_redeemscript w1 m true = lib_wallet_redeemscript w2 m true.
Proof. exact wallets_agree_lemma. Qed.

(* ... and the same address, for every pair of hash functions and all three wallet kinds *)
Theorem same_address_all_cosigners : forall (H160 H256 : bytes -> bytes) k (w1 w2 : list (cosigner * bytes)) m,
  Permutation (map snd w1) (map snd w2) ->
  lib_wallet_address_hash H160 H256 k w1 m true = lib_wallet_address_hash H160 H256 k w2 m true.
Proof. exact same_address_lemma. Qed.

Example redeem_2of3 :
  lib_redeemscript [[x03; x01]; [x02; xff]; [x02; x01; x00]] 2 true =
    Some [x52; x03; x02; x01; x00; x02; x02; xff; x02; x03; x01; x53; xae] /\
  lib_redeemscript [[x02; xff]; [x02; x01; x00]; [x03; x01]] 2 true =
    Some [x52; x03; x02; x01; x00; x02; x02; xff; x02; x03; x01; x53; xae].
Proof. split; vm_compute; reflexivity. Qed.

(* with sort_keys off the supplied order decides (by design): guard "sort_keys = true" is needed *)
Example redeem_unsorted_refuted :
  lib_redeemscript [[x03]; [x02]] 1 false <> lib_redeemscript [[x02]; [x03]] 1 false.
Proof. vm_compute. discriminate. Qed.

(* --- paths --- *)
Theorem path_agreement_48 : forall k coin account c1 c2 change idx, k <> Legacy ->
  lib_key_path k coin account c1 change idx = lib_key_path k coin account c2 change idx.
Proof. intros k coin account c1 c2 change idx H. destruct k; [contradiction | reflexivity | reflexivity]. Qed.

Theorem path_agreement_45 : forall coin account c1 c2 change idx,
  lib_key_path Legacy coin account c1 change idx = lib_key_path Legacy coin account c2 change idx <-> c1 = c2.
Proof. intros. split; [intros H; injection H; auto | intros ->; reflexivity]. Qed.

(* hypothesis under which every wallet assigns the same position to every cosigner: all wallets were given
   the same public byte strings (same depth for each cosigner) *)
Theorem cosigner_order_agreement : forall (w1 w2 : list cosigner),
  Permutation (map co_master w1) (map co_master w2) ->
  map co_master (lib_cosigner_order w1 true) = map co_master (lib_cosigner_order w2 true).
Proof. exact cosigner_order_agree_lemma. Qed.

(* without it: A is given (A master private, B account public), B is given (A account public, B master
   private) — both wallets assign cosigner_id 0 to THEMSELVES *)
Example cosigner_position_refuted :
  let wA := [ {| co_master := [x02; x10]; co_private := true; co_who := 0 |};
              {| co_master := [x03; x20]; co_private := false; co_who := 1 |} ] in
  let wB := [ {| co_master := [x03; x30]; co_private := false; co_who := 0 |};
              {| co_master := [x02; x40]; co_private := true; co_who := 1 |} ] in
  lib_cosigner_id wA true None = Some 0 /\ lib_cosigner_id wB true None = Some 0 /\
  lib_position wA true 0 = Some 0 /\ lib_position wB true 0 = Some 1.
Proof. repeat split; vm_compute; reflexivity. Qed.

(* --- exactly m distinct signers suffice: any signing order, any chain of object / dict hand-offs (dict while
       at most m signatures have been collected), one input --- *)
Theorem m_signers_suffice : forall keys m ops, NoDup keys -> (1 <= m)%nat ->
  ms_chain_ok keys m [] ops = true ->
  let st := ms_final m (ms_init [keys]) ops in
  map mi_sigs (st_ins st) = [ms_sigs_of keys (ms_signers [] ops)] /\
  st_verified st = Nat.leb m (length (ms_sigs_of keys (ms_signers [] ops))) /\
  snd (ms_step m st MSend) = ObPushed (Nat.leb m (length (ms_sigs_of keys (ms_signers [] ops)))).
Proof. exact m_signers_suffice_lemma. Qed.

Theorem signature_count_is_distinct_cosigners : forall keys S,
  length (ms_sigs_of keys S) = length (filter (fun k => ms_mem k S) keys).
Proof. exact sigs_of_count. Qed.

(* non-vacuity: 2-of-3, keys in script order [1;2;0]; 0 signs, dict to 2, 2 signs (again), object to 1 *)
Example m_signers_example :
  ms_chain_ok [1; 2; 0] 2 [] [MSign (Some 0); MSend; MHand HDict; MSign (Some 2); MSign (Some 2); MHand HObject; MSend] = true /\
  ms_run 2 (ms_init [[1; 2; 0]]) [MSign (Some 0); MSend; MHand HDict; MSign (Some 2); MSign (Some 2); MHand HObject; MSend] =
    [ObState false [[ms_mk 0]]; ObPushed false; ObState false [[ms_mk 0]];
     ObState true [[ms_mk 2; ms_mk 0]]; ObState true [[ms_mk 2; ms_mk 0]]; ObState true [[ms_mk 2; ms_mk 0]];
     ObPushed true].
Proof. split; vm_compute; reflexivity. Qed.

(* raw hand-off before the m-th signature: the first signature is lost, two signers do not suffice *)
Example m_signers_suffice_raw_refuted :
  ms_run 2 (ms_init [[0; 1; 2]]) [MSign (Some 0); MHand HRaw; MSign (Some 1); MSend] =
    [ObState false [[ms_mk 0]]; ObState false [[]]; ObState false [[ms_mk 1]]; ObPushed false].
Proof. vm_compute. reflexivity. Qed.

(* dict hand-off, two inputs: the second input's signature arrives without its key and is put in front *)
Example m_signers_suffice_dict_two_inputs_refuted :
  ms_run 2 (ms_init [[0; 1; 2]; [0; 1; 2]]) [MSign (Some 2); MHand HDict; MSign (Some 1); MSend] =
    [ObState false [[ms_mk 2]; [ms_mk 2]];
     ObState false [[ms_mk 2]; [ms_untag (ms_mk 2)]];
     ObState false [[ms_mk 1; ms_mk 2]; [ms_mk 2; ms_mk 1]];
     ObPushed false].
Proof. vm_compute. reflexivity. Qed.

(* dict hand-off with more than m signatures (2-of-5, three have signed): the fourth signer breaks it *)
Example m_signers_suffice_dict_oversigned_refuted :
  last (ms_run 2 (ms_init [[0; 1; 2; 3; 4]])
          [MSign (Some 2); MHand HObject; MSign (Some 3); MHand HObject; MSign (Some 4); MHand HDict; MSign (Some 1); MSend])
       ObRaise = ObPushed false.
Proof. vm_compute. reflexivity. Qed.

(* --- the spend that is handed around: the fields every signature commits to ---------------------------------
   version, locktime, every input's outpoint / sequence / amount / script code, the outputs *)

(* creation: replace_by_fee is signalled on every input (BIP125: sequence below 0xfffffffe) ... *)
Theorem create_signals_rbf : forall ev afs sp f, lib_create_fields ev afs sp = Some f -> sp_rbf sp = true ->
  Forall (fun i => ti_seq i = x_seq_rbf) (tf_ins f).
Proof. exact create_rbf_lemma. Qed.

(* ... and only when asked for *)
Theorem create_no_rbf_unasked : forall ev afs sp f, lib_create_fields ev afs sp = Some f -> sp_rbf sp = false ->
  Forall (fun i => x_seq_locktime <= ti_seq i) (tf_ins f).
Proof. exact create_not_rbf_lemma. Qed.

(* an explicit locktime is the transaction's locktime and no input is final, so it is enforced *)
Theorem create_locktime_enforced : forall ev afs sp f, lib_create_fields ev afs sp = Some f ->
  0 < sp_locktime sp < 4294967295 ->
  tf_locktime f = sp_locktime sp /\ Forall (fun i => ti_seq i < x_seq_final) (tf_ins f).
Proof. exact create_locktime_lemma. Qed.

(* inputs are the requested ones with the same sequence on all of them; version 1 *)
Theorem create_inputs : forall ev afs sp f, lib_create_fields ev afs sp = Some f ->
  tf_version f = 1 /\
  tf_locktime f = lib_tx_locktime afs (ev_blockcount ev) (sp_locktime sp) /\
  map ti_seq (tf_ins f) =
    map (fun _ => lib_default_sequence (sp_rbf sp) (lib_tx_locktime afs (ev_blockcount ev) (sp_locktime sp))) (sp_ins sp) /\
  map ti_rest (tf_ins f) = sp_ins sp.
Proof. exact create_ins_seq. Qed.

(* the requested outputs come first, unchanged; the fee is the requested one unless a remainder of at most the
   dust limit is left, which is added to it; a larger remainder is paid to number_of_change_outputs outputs *)
Theorem create_amounts : forall ev afs sp f, lib_create_fields ev afs sp = Some f -> (1 <= sp_nchange sp)%nat ->
  let tin := zsum (map ti_value (tf_ins f)) in
  let tout := zsum (map to_value (tf_outs f)) in
  firstn (length (sp_outs sp)) (map to_value (tf_outs f)) = sp_outs sp /\
  sp_fee sp <= tin - tout <= sp_fee sp + Z.max 0 (ev_dust ev) /\
  (ev_dust ev < tin - zsum (sp_outs sp) - sp_fee sp -> tin - tout = sp_fee sp /\
     length (tf_outs f) = (length (sp_outs sp) + sp_nchange sp)%nat).
Proof. exact create_balance_lemma. Qed.

Example create_example :
  lib_create_fields {| ev_blockcount := 1; ev_dust := 1000; ev_confirms := 10 |} true
    {| sp_rbf := true; sp_locktime := 0; sp_fee := 30000; sp_outs := [1000000; 2000000]; sp_nchange := 2;
       sp_ins := [(0, 100000000, 0); (3, 100000000, 1)]; sp_minconf := None |} =
  Some {| tf_version := 1; tf_locktime := 1;
          tf_ins := [ {| ti_prev := 0; ti_seq := 4294967293; ti_value := 100000000; ti_code := 0 |};
                      {| ti_prev := 3; ti_seq := 4294967293; ti_value := 100000000; ti_code := 1 |} ];
          tf_outs := [ {| to_dest := 0; to_value := 1000000 |}; {| to_dest := 1; to_value := 2000000 |};
                       {| to_dest := -1; to_value := 98485000 |}; {| to_dest := -2; to_value := 98485000 |} ] |}.
Proof. vm_compute. reflexivity. Qed.

(* hand-off by Transaction object, by as_dict() and by raw hex: the importing wallet, whatever its settings,
   rebuilds exactly these fields *)
Theorem handoff_preserves_committed_fields : forall h afs blockcount f,
  ms_channel_fields h afs blockcount f = f.
Proof. exact channel_preserves_lemma. Qed.

(* exactly m distinct signers suffice, for the spend AS CREATED: over any chain of object hand-offs and of dict
   hand-offs (while at most m signatures exist), whatever the settings of the wallets, the committed fields never
   change, the signatures are those of the cosigners that signed, and the transaction
   verifies / is pushed exactly when at least m of them did *)
Theorem m_signers_suffice_committed : forall bc f keys m ops, NoDup keys -> (1 <= m)%nat ->
  ms_chain_ok keys m [] (map cop_plain ops) = true -> cs_chain_ok bc f ops = true ->
  let cst := cs_final m bc (cs_init f [keys]) ops in
  let S := ms_signers [] (map cop_plain ops) in
  cs_fields cst = f /\
  map mi_sigs (st_ins (cs_st cst)) = [ms_sigs_of keys S] /\
  st_verified (cs_st cst) = Nat.leb m (length (ms_sigs_of keys S)) /\
  snd (cs_step m bc cst CSend) = ObPushed (Nat.leb m (length (ms_sigs_of keys S))).
Proof. exact committed_chain_lemma. Qed.

(* non-vacuity: a replace-by-fee spend, 2-of-3, object hand-offs between wallets of different settings; and an
   ordinary spend over a dict hand-off into a wallet with anti-fee-sniping on *)
Example m_signers_committed_example :
  cs_chain_ok 1 rbf_spend [CSign (Some 0); CHand HObject false; CSign (Some 2); CHand HObject true; CSend] = true /\
  cs_run 2 1 (cs_init rbf_spend [[1; 2; 0]]) [CSign (Some 0); CHand HObject false; CSign (Some 2); CHand HObject true; CSend] =
    [ (ObState false [[ms_mk 0]], rbf_spend, O); (ObState false [[ms_mk 0]], rbf_spend, O);
      (ObState true [[ms_mk 2; ms_mk 0]], rbf_spend, O); (ObState true [[ms_mk 2; ms_mk 0]], rbf_spend, O);
      (ObPushed true, rbf_spend, O) ] /\
  cs_chain_ok 1 default_spend [CSign (Some 0); CHand HDict true; CSign (Some 2); CSend] = true /\
  map fst (cs_run 2 1 (cs_init default_spend [[1; 2; 0]]) [CSign (Some 0); CHand HDict true; CSign (Some 2); CSend]) =
    [ (ObState false [[ms_mk 0]], default_spend); (ObState false [[ms_mk 0]], default_spend);
      (ObState true [[ms_mk 2; ms_mk 0]], default_spend); (ObPushed true, default_spend) ].
Proof. repeat split; vm_compute; reflexivity. Qed.

(* a replace-by-fee spend over a dict hand-off into a wallet with other settings, then on as raw hex: same spend *)
Example m_signers_committed_any_settings_example :
  map fst (cs_run 2 1 (cs_init rbf_spend [[0; 1; 2]]) [CSign (Some 0); CHand HDict true; CSign (Some 1); CHand HRaw false; CSend]) =
    [ (ObState false [[ms_mk 0]], rbf_spend); (ObState false [[ms_mk 0]], rbf_spend);
      (ObState true [[ms_mk 0; ms_mk 1]], rbf_spend); (ObState true [[ms_mk 0; ms_mk 1]], rbf_spend);
      (ObPushed true, rbf_spend) ].
Proof. vm_compute. reflexivity. Qed.

(* several inputs: the transaction verifies exactly when EVERY input does (not the first, not the last) ... *)
Theorem tx_verifies_iff_every_input : forall m ins,
  fst (ms_tx_verify m ins) = forallb (fun x => fst (ms_input_verify (mi_keys x) (mi_sigs x) m)) ins.
Proof. exact tx_verify_all_lemma. Qed.

(* ... and an input does exactly when at least m of the cosigners that signed IT own one of its keys *)
Theorem input_verifies_iff_m_signers : forall keys S m, NoDup keys -> (1 <= m)%nat ->
  fst (ms_input_verify keys (ms_sigs_of keys S) m) = Nat.leb m (length (filter (fun k => ms_mem k S) keys)).
Proof. exact input_verify_count. Qed.

(* two inputs on two addresses, a watch-only wallet, cosigners 0 and 1 sign with the child keys of the SECOND address
   only: the last input is complete, the first has no signature: not verified, not pushed; then they sign the first *)
Example partial_inputs_example :
  map fst (cs_run 2 1 (cs_init (tf_with_locktime 7 rbf_spend) [[0; 1; 2]; [2; 0; 1]])
             [CSignKey 0 [false; true]; CSignKey 1 [false; true]; CSend;
              CSignKey 1 [true; false]; CHand HObject true; CSignKey 0 [true; false]; CSend]) =
    let f := tf_with_locktime 7 rbf_spend in
    [ (ObState false [[]; [ms_mk 0]], f); (ObState false [[]; [ms_mk 0; ms_mk 1]], f); (ObPushed false, f);
      (ObState false [[ms_mk 1]; [ms_mk 0; ms_mk 1]], f); (ObState false [[ms_mk 1]; [ms_mk 0; ms_mk 1]], f);
      (ObState true [[ms_mk 0; ms_mk 1]; [ms_mk 0; ms_mk 1]], f); (ObPushed true, f) ].
Proof. vm_compute. reflexivity. Qed.

(* --- the concrete outpoint behind the abstract name ti_prev: the index an importing wallet reads back from an Input object
   (4 bytes, big endian) is the index that was put there, for every 32-bit index and not only for output 0 --- *)
Theorem handoff_keeps_output_index : forall txid n, 0 <= n < 2 ^ 32 ->
  lib_import_outpoint txid (input_index_field n) = wire_outpoint txid n.
Proof. exact import_keeps_outpoint. Qed.

(* distinct (funding txid, output index) pairs are distinct 36-byte outpoints in the signed digest: two outputs of one funding
   transaction, or the same index of two funding transactions, are never confused *)
Theorem outpoints_distinct : forall t1 n1 t2 n2, length t1 = length t2 -> 0 <= n1 < 2 ^ 32 -> 0 <= n2 < 2 ^ 32 ->
  wire_outpoint t1 n1 = wire_outpoint t2 n2 -> t1 = t2 /\ n1 = n2.
Proof. exact wire_outpoint_inj. Qed.

Example handoff_output_index_example :
  lib_import_outpoint [x00; xab]%byte (input_index_field 65536) = [xab; x00; x00; x00; x01; x00]%byte.
Proof. vm_compute. reflexivity. Qed.

Example handoff_other_byte_order_refuted : of_le (input_index_field 1) = 16777216 /\ of_le (input_index_field 1) <> 1.
Proof. exact import_other_byte_order_refuted. Qed.

Print Assumptions bytes_order_is_bip67.
Print Assumptions redeem_perm_invariant.
Print Assumptions redeem_is_spec.
Print Assumptions bip67_order_unique.
Print Assumptions wallets_agree.
Print Assumptions same_address_all_cosigners.
Print Assumptions path_agreement_48.
Print Assumptions path_agreement_45.
Print Assumptions cosigner_order_agreement.
Print Assumptions m_signers_suffice.
Print Assumptions signature_count_is_distinct_cosigners.
Print Assumptions create_signals_rbf.
Print Assumptions create_no_rbf_unasked.
Print Assumptions create_locktime_enforced.
Print Assumptions create_inputs.
Print Assumptions create_amounts.
Print Assumptions handoff_preserves_committed_fields.
Print Assumptions m_signers_suffice_committed.
Print Assumptions tx_verifies_iff_every_input.
Print Assumptions input_verifies_iff_m_signers.
Print Assumptions handoff_keeps_output_index.
Print Assumptions outpoints_distinct.
