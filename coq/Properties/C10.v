(* Properties/C10.v — multisig cosigner wallets agree on scripts; exactly m distinct signers suffice.
   Only statements closed by [exact lemma], non-vacuity examples, refutation witnesses for the classes
   excluded by a guard, and Print Assumptions. *)
From Coq Require Import ZArith List Bool Arith Sorted Permutation.
From Coq.Strings Require Import Byte.
From Verif Require Import Lib.Bytes Model.Wire Model.Multisig Proofs.MultisigSort Proofs.MultisigSign.
Import ListNotations.
Open Scope Z_scope.

(* --- the order used by the two sorts is the lexicographic order of BIP67 --- *)
Theorem bytes_order_is_bip67 : forall a b, bytes_leb a b = true <-> lex_le a b.
Proof. exact bytes_leb_lex. Qed.

(* --- redeem script: independent of the order of the cosigner list, and the BIP11/BIP67 script --- *)
Theorem redeem_perm_invariant : forall keys keys' m,
  Permutation keys keys' -> lib_redeemscript keys' m true = lib_redeemscript keys m true.
Proof. exact redeem_perm_invariant_lemma. Qed.

Theorem redeem_is_spec : forall keys m, Forall is_pubkey keys ->
  lib_redeemscript keys m true = Some (spec_multisig_script m (ms_sort (fun k => k) keys)) /\
  Permutation keys (ms_sort (fun k => k) keys) /\ bip67_sorted (ms_sort (fun k => k) keys).
Proof. exact redeem_is_spec_lemma. Qed.

Theorem bip67_order_unique : forall keys l,
  Permutation keys l -> bip67_sorted l -> l = ms_sort (fun k => k) keys.
Proof. exact bip67_sorted_is_ms_sort. Qed.

(* whatever form of each cosigner key a wallet was given (co_master, co_private), in whatever order:
   the same derived child keys give the same redeem script ... *)
Theorem wallets_agree : forall (w1 w2 : list (cosigner * bytes)) m,
  Permutation (map snd w1) (map snd w2) ->
  lib_wallet_redeemscript w1 m true = lib_wallet_redeemscript w2 m true.
Proof. exact wallets_agree_lemma. Qed.

(* ... and the same address, for every pair of hash functions and all three wallet kinds *)
Theorem same_address_all_cosigners : forall (H160 H256 : bytes -> bytes) k (w1 w2 : list (cosigner * bytes)) m,
  Permutation (map snd w1) (map snd w2) ->
  lib_wallet_address_hash H160 H256 k w1 m true = lib_wallet_address_hash H160 H256 k w2 m true.
Proof. exact same_address_lemma. Qed.

Example redeem_2of3 :
  lib_redeemscript [[x03; x01]; [x02; xff]; [x02; x01; x00]] 2 true =
    Some [x52; x03; x02; x01; x00; x02; x02; xff; x02; x03; x01; x53; xae] /\
  lib_redeemscript [[x02; xff]; [x02; x01; x00]; [x03; x01]] 2 true =
    Some [x52; x03; x02; x01; x00; x02; x02; xff; x02; x03; x01; x53; xae].
Proof. split; vm_compute; reflexivity. Qed.

(* with sort_keys off the supplied order decides (by design): guard "sort_keys = true" is needed *)
Example redeem_unsorted_refuted :
  lib_redeemscript [[x03]; [x02]] 1 false <> lib_redeemscript [[x02]; [x03]] 1 false.
Proof. vm_compute. discriminate. Qed.

(* --- paths --- *)
Theorem path_agreement_48 : forall k coin account c1 c2 change idx, k <> Legacy ->
  lib_key_path k coin account c1 change idx = lib_key_path k coin account c2 change idx.
Proof. intros k coin account c1 c2 change idx H. destruct k; [contradiction | reflexivity | reflexivity]. Qed.

Theorem path_agreement_45 : forall coin account c1 c2 change idx,
  lib_key_path Legacy coin account c1 change idx = lib_key_path Legacy coin account c2 change idx <-> c1 = c2.
Proof. intros. split; [intros H; injection H; auto | intros ->; reflexivity]. Qed.

(* hypothesis under which every wallet assigns the same position to every cosigner: all wallets were given
   the same public byte strings (same depth for each cosigner) *)
Theorem cosigner_order_agreement : forall (w1 w2 : list cosigner),
  Permutation (map co_master w1) (map co_master w2) ->
  map co_master (lib_cosigner_order w1 true) = map co_master (lib_cosigner_order w2 true).
Proof. exact cosigner_order_agree_lemma. Qed.

(* without it: A is given (A master private, B account public), B is given (A account public, B master
   private) — both wallets assign cosigner_id 0 to THEMSELVES *)
Example cosigner_position_refuted :
  let wA := [ {| co_master := [x02; x10]; co_private := true; co_who := 0 |};
              {| co_master := [x03; x20]; co_private := false; co_who := 1 |} ] in
  let wB := [ {| co_master := [x03; x30]; co_private := false; co_who := 0 |};
              {| co_master := [x02; x40]; co_private := true; co_who := 1 |} ] in
  lib_cosigner_id wA true None = Some 0 /\ lib_cosigner_id wB true None = Some 0 /\
  lib_position wA true 0 = Some 0 /\ lib_position wB true 0 = Some 1.
Proof. repeat split; vm_compute; reflexivity. Qed.

(* --- exactly m distinct signers suffice: any signing order, any chain of object / dict hand-offs (dict while
       at most m signatures have been collected), one input --- *)
Theorem m_signers_suffice : forall keys m ops, NoDup keys -> (1 <= m)%nat ->
  ms_chain_ok keys m [] ops = true ->
  let st := ms_final m (ms_init [keys]) ops in
  map mi_sigs (st_ins st) = [ms_sigs_of keys (ms_signers [] ops)] /\
  st_verified st = Nat.leb m (length (ms_sigs_of keys (ms_signers [] ops))) /\
  snd (ms_step m st MSend) = ObPushed (Nat.leb m (length (ms_sigs_of keys (ms_signers [] ops)))).
Proof. exact m_signers_suffice_lemma. Qed.

Theorem signature_count_is_distinct_cosigners : forall keys S,
  length (ms_sigs_of keys S) = length (filter (fun k => ms_mem k S) keys).
Proof. exact sigs_of_count. Qed.

(* non-vacuity: 2-of-3, keys in script order [1;2;0]; 0 signs, dict to 2, 2 signs (again), object to 1 *)
Example m_signers_example :
  ms_chain_ok [1; 2; 0] 2 [] [MSign (Some 0); MSend; MHand HDict; MSign (Some 2); MSign (Some 2); MHand HObject; MSend] = true /\
  ms_run 2 (ms_init [[1; 2; 0]]) [MSign (Some 0); MSend; MHand HDict; MSign (Some 2); MSign (Some 2); MHand HObject; MSend] =
    [ObState false [[ms_mk 0]]; ObPushed false; ObState false [[ms_mk 0]];
     ObState true [[ms_mk 2; ms_mk 0]]; ObState true [[ms_mk 2; ms_mk 0]]; ObState true [[ms_mk 2; ms_mk 0]];
     ObPushed true].
Proof. split; vm_compute; reflexivity. Qed.

(* raw hand-off before the m-th signature: the first signature is lost, two signers do not suffice *)
Example m_signers_suffice_raw_refuted :
  ms_run 2 (ms_init [[0; 1; 2]]) [MSign (Some 0); MHand HRaw; MSign (Some 1); MSend] =
    [ObState false [[ms_mk 0]]; ObState false [[]]; ObState false [[ms_mk 1]]; ObPushed false].
Proof. vm_compute. reflexivity. Qed.

(* dict hand-off, two inputs: the second input's signature arrives without its key and is put in front *)
Example m_signers_suffice_dict_two_inputs_refuted :
  ms_run 2 (ms_init [[0; 1; 2]; [0; 1; 2]]) [MSign (Some 2); MHand HDict; MSign (Some 1); MSend] =
    [ObState false [[ms_mk 2]; [ms_mk 2]];
     ObState false [[ms_mk 2]; [ms_untag (ms_mk 2)]];
     ObState false [[ms_mk 1; ms_mk 2]; [ms_mk 2; ms_mk 1]];
     ObPushed false].
Proof. vm_compute. reflexivity. Qed.

(* dict hand-off with more than m signatures (2-of-5, three have signed): the fourth signer breaks it *)
Example m_signers_suffice_dict_oversigned_refuted :
  last (ms_run 2 (ms_init [[0; 1; 2; 3; 4]])
          [MSign (Some 2); MHand HObject; MSign (Some 3); MHand HObject; MSign (Some 4); MHand HDict; MSign (Some 1); MSend])
       ObRaise = ObPushed false.
Proof. vm_compute. reflexivity. Qed.

Print Assumptions bytes_order_is_bip67.
Print Assumptions redeem_perm_invariant.
Print Assumptions redeem_is_spec.
Print Assumptions bip67_order_unique.
Print Assumptions wallets_agree.
Print Assumptions same_address_all_cosigners.
Print Assumptions path_agreement_48.
Print Assumptions path_agreement_45.
Print Assumptions cosigner_order_agreement.
Print Assumptions m_signers_suffice.
Print Assumptions signature_count_is_distinct_cosigners.
