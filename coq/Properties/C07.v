(* Properties/C07.v — wallet-created transactions conserve value and pay exactly what was requested.
   Only statements closed by [exact lemma], non-vacuity examples, refutation witnesses for the classes excluded
   by a guard or repaired by fixes/C07-*, and Print Assumptions.
   lib_tx_create / lib_send / lib_sweep / lib_bumpfee mirror the working tree with fixes/C07-1..3;
   orig_tx_create / orig_bumpfee keep the unrepaired statements (the witnesses below are the recorded findings). *)
From Coq Require Import ZArith List Bool.
From Coq.Strings Require Import Byte.
From Verif Require Import Lib.Bytes Gen.GenNetworks Model.CoinSelect Model.TxCreate Model.BumpFee
  Proofs.CoinSelect Proofs.TxCreateFloat Proofs.TxCreate Proofs.BumpFee.
Import ListNotations.
Open Scope Z_scope.

(* --- coin selection: all views, amounts, variances, limits --- *)
Theorem select_sufficient : forall view amount variance minc dust maxu l,
  lib_select_inputs view amount variance minc dust maxu = SelOk l -> l <> [] ->
  amount <= sum_values l /\
  (forall u, In u l -> In u view /\ u_spent u = false /\ minc <= u_conf u /\ dust <= u_value u) /\
  (NoDup (map u_id view) -> NoDup (map u_id l)).
Proof. exact select_sufficient_lemma. Qed.

Theorem select_within_available : forall view amount variance minc dust maxu l,
  0 <= dust -> lib_select_inputs view amount variance minc dust maxu = SelOk l ->
  sum_values l <= sum_values (candidates minc dust view).
Proof. exact select_le_available. Qed.

Theorem select_no_utxos_iff : forall view amount variance minc dust maxu,
  lib_select_inputs view amount variance minc dust maxu = SelNoUtxos <-> candidates minc dust view = [].
Proof. exact select_noutxos. Qed.

(* --- transaction_create: all networks/wallet kinds/views/requests/oracle values --- *)
Theorem create_conserves : forall rep nw w view rq o t,
  tx_create rep nw w view rq o = Ok t -> sum_values (t_inputs t) = sum_outs (t_outputs t) + t_fee t.
Proof. exact create_conserves_lemma. Qed.

Theorem create_no_negative_output : forall rep nw w view rq o t,
  tx_create rep nw w view rq o = Ok t -> forall x, In x (t_outputs t) -> 0 <= o_value x < two64.
Proof. exact create_no_negative_output_lemma. Qed.

Theorem create_recipients_exact : forall rep nw w view rq o t,
  tx_create rep nw w view rq o = Ok t ->
  exists amounts,
    t_outputs t = map recipient_out (rq_outputs rq) ++ change_outs 0 amounts /\
    (forall x, In x (change_outs 0 amounts) -> o_change x = true /\ exists j, o_dest x = ToChange j) /\
    NoDup (map o_dest (change_outs 0 amounts)).
Proof. exact create_recipients_exact_lemma. Qed.

Theorem create_inputs_ok : forall rep nw w view rq o t,
  tx_create rep nw w view rq o = Ok t ->
  match rq_inputs rq with
  | None =>
      (forall u, In u (t_inputs t) ->
         In u view /\ u_spent u = false /\ rq_min_conf rq <= u_conf u /\ nw_dust_amount nw <= u_value u) /\
      (NoDup (map u_id view) -> NoDup (map u_id (t_inputs t)))
  | Some ids => map u_id (t_inputs t) = ids /\ forall u, In u (t_inputs t) -> In u view
  end.
Proof. exact create_inputs_ok_lemma. Qed.

(* the value the code compares with the network limits is inside them (it is the provider's estimate or the
   rate on the ESTIMATED size; see create_fee_rate_in_limits_refuted) *)
Theorem create_fee_rate_checked : forall rep nw w view rq o t,
  tx_create rep nw w view rq o = Ok t -> nw_fee_min nw <= t_fpk t <= nw_fee_max nw.
Proof. exact create_fee_rate_checked_lemma. Qed.

Theorem create_fee_nonneg : forall nw w view rq o t,
  In nw all_networks -> wk_wf w -> 0 <= rq_nchange rq ->
  lib_tx_create nw w view rq o = Ok t -> 0 <= t_fee t.
Proof. exact create_fee_nonneg_net. Qed.

Theorem create_pays_requested_fee : forall nw w view rq o t,
  In nw all_networks -> wk_wf w -> 0 <= rq_nchange rq ->
  lib_tx_create nw w view rq o = Ok t ->
  sum_amounts (rq_outputs rq) + fee_floor rq <= sum_values (t_inputs t) /\ fee_floor rq <= t_fee t.
Proof. exact create_pays_requested_fee_net. Qed.

Theorem insufficient_fails : forall nw w view rq o,
  In nw all_networks -> wk_wf w -> 0 <= rq_nchange rq ->
  sum_values (available nw view rq) < sum_amounts (rq_outputs rq) + fee_floor rq ->
  exists e, lib_tx_create nw w view rq o = Err e.
Proof. exact insufficient_fails_net. Qed.

(* --- send / sweep --- *)
Theorem send_conserves : forall rep nw w view rq o1 o2 t,
  send_gen rep nw w view rq o1 o2 = Ok t ->
  sum_values (t_inputs t) = sum_outs (t_outputs t) + t_fee t /\
  (forall x, In x (t_outputs t) -> 0 <= o_value x < two64) /\
  (exists amounts, t_outputs t = map recipient_out (rq_outputs rq) ++ change_outs 0 amounts) /\
  nw_fee_min nw <= t_fpk t <= nw_fee_max nw.
Proof. exact send_conserves_lemma. Qed.

Theorem sweep_conserves : forall rep nw w view sq o1 o2 t,
  sweep_gen rep nw w view sq o1 o2 = Ok t ->
  sum_values (t_inputs t) = sum_outs (t_outputs t) + t_fee t /\
  (forall x, In x (t_outputs t) -> 0 <= o_value x < two64) /\
  (forall u, In u (t_inputs t) -> In u view).
Proof. exact sweep_conserves_lemma. Qed.

(* --- bumpfee (repaired loop) --- *)
Theorem bumpfee_no_negative_output : forall b fee extra mult b',
  outs_nonneg (b_outputs b) -> lib_bumpfee b fee extra mult = Ok b' -> outs_nonneg (b_outputs b').
Proof. exact bumpfee_no_negative_output_lemma. Qed.

Theorem bumpfee_never_fails_on_negative_value : forall b fee extra mult,
  outs_nonneg (b_outputs b) -> lib_bumpfee b fee extra mult <> Err ENegOutput.
Proof. exact bumpfee_never_negative_error. Qed.

Theorem bumpfee_conserves : forall b fee extra mult b',
  sum_values (b_inputs b) <> 0 -> lib_bumpfee b fee extra mult = Ok b' ->
  sum_values (b_inputs b') = sum_outs (b_outputs b') + b_fee b'.
Proof. exact bumpfee_conserves_lemma. Qed.

Theorem bumpfee_pays_extra : forall b fee extra mult b' nf ex,
  outs_nonneg (b_outputs b) -> sum_values (b_inputs b) <> 0 ->
  sum_values (b_inputs b) = sum_outs (b_outputs b) + b_fee b ->
  bump_amounts b fee extra mult = Ok (nf, ex) -> 0 <= ex ->
  lib_bumpfee b fee extra mult = Ok b' ->
  b_fee b + ex <= b_fee b' /\
  (forall x, In x (b_outputs b') -> o_change x = false -> In x (b_outputs b)).
Proof. exact bumpfee_pays_extra_lemma. Qed.

(* --- witnesses --- *)
Definition w_segwit : wkind := {| wk_wit := Segwit; wk_multisig := false; wk_nkeys := 1; wk_nreq := 1; wk_single := false |}.
Definition dest1 : bytes := x00 :: x14 :: repeat x11 20.
Definition no_oracle : oracle := {| or_fpk := 33333; or_fpk2 := 33333; or_r1 := 0; or_r2 := 0; or_weights := [] |}.
Definition one_btc : list utxo := [{| u_id := 0; u_value := 100000000; u_conf := 5; u_spent := false |}].
Definition rq17 (amount : Z) (f : fee_req) : request :=
  {| rq_outputs := [{| r_script := dest1; r_amount := amount; r_change := false |}]; rq_inputs := Some [0];
     rq_fee := f; rq_min_conf := 1; rq_max_utxos := None; rq_nchange := 1 |}.

(* non-vacuity: an ordinary automatic creation succeeds, with change *)
Example create_ok_example :
  tx_summary (lib_tx_create nw_bitcoinlib_test w_segwit one_btc
                {| rq_outputs := [{| r_script := dest1; r_amount := 50000; r_change := false |}]; rq_inputs := None;
                   rq_fee := FeeNone; rq_min_conf := 1; rq_max_utxos := None; rq_nchange := 1 |} no_oracle)
  = Some (4699, 99945301, 141, 33333, [0], [50000; 99945301]).
Proof. vm_compute. reflexivity. Qed.

(* finding 17 (fixes/C07-1): the unrepaired order of checks returns a transaction paying a fee of 10 000
   where 50 000 was requested and the input (100 000 000) does not cover 99 990 000 + 50 000; the repaired code refuses *)
Example insufficient_fails_refuted_orig :
  tx_summary (orig_tx_create nw_bitcoinlib_test w_segwit one_btc (rq17 99990000 (FeeInt 50000)) no_oracle)
  = Some (10000, 0, 141, 70921, [0], [99990000]).
Proof. vm_compute. reflexivity. Qed.

Example insufficient_fails_repaired_witness :
  lib_tx_create nw_bitcoinlib_test w_segwit one_btc (rq17 99990000 (FeeInt 50000)) no_oracle = Err EOutGtIn.
Proof. vm_compute. reflexivity. Qed.

(* finding (fixes/C07-2): explicit inputs, no fee given, outputs above inputs: a NEGATIVE fee (-500) was returned *)
Example create_fee_nonneg_refuted_orig :
  tx_summary (orig_tx_create nw_bitcoinlib_test w_segwit one_btc (rq17 100000500 FeeNone) no_oracle)
  = Some (-500, 0, 141, 33333, [0], [100000500]).
Proof. vm_compute. reflexivity. Qed.

Example create_fee_nonneg_repaired_witness :
  lib_tx_create nw_bitcoinlib_test w_segwit one_btc (rq17 100000500 FeeNone) no_oracle = Err EOutGtIn.
Proof. vm_compute. reflexivity. Qed.

(* known class fee_rate_checked_on_estimate: with explicit inputs and no fee the remainder is the fee and the value
   compared with the limits is the provider's estimate (33333): 0.9 BTC on 141 vbytes passes, although its rate
   638297872 per kB is far above fee_max = 1000000 *)
Example create_fee_rate_in_limits_refuted :
  tx_summary (lib_tx_create nw_bitcoinlib_test w_segwit one_btc (rq17 10000000 FeeNone) no_oracle)
  = Some (90000000, 0, 141, 33333, [0], [10000000]) /\
  rate_of 90000000 141 = 638297872 /\ nw_fee_max nw_bitcoinlib_test = 1000000.
Proof. vm_compute. repeat split; reflexivity. Qed.

(* known class explicit_inputs_unchecked: a duplicated explicit input is counted twice *)
Example create_inputs_distinct_refuted_explicit :
  tx_summary (lib_tx_create nw_bitcoinlib_test w_segwit one_btc
                {| rq_outputs := [{| r_script := dest1; r_amount := 150000000; r_change := false |}];
                   rq_inputs := Some [0; 0]; rq_fee := FeeInt 10000; rq_min_conf := 1; rq_max_utxos := None;
                   rq_nchange := 1 |} no_oracle)
  = Some (10000, 49990000, 209, 47846, [0; 0], [150000000; 49990000]).
Proof. vm_compute. reflexivity. Qed.

(* finding 18 (fixes/C07-3): change outputs [900; 250], extra fee 1000 *)
Definition b18 : btx :=
  {| b_inputs := [{| u_id := 0; u_value := 100000; u_conf := 5; u_spent := false |}];
     b_outputs := [{| o_dest := ToScript dest1; o_value := 98350; o_change := false |};
                   {| o_dest := ToChange 0; o_value := 900; o_change := true |};
                   {| o_dest := ToChange 1; o_value := 250; o_change := true |}];
     b_fee := 500; b_vsize := 172 |}.

Example bumpfee_no_negative_output_refuted_orig :
  orig_bumpfee b18 0 1000 (1, 1) = Err ENegOutput /\
  map o_value (snd (bump_loop false 1000 1000 (b_outputs b18))) = [98350; -750].
Proof. vm_compute. split; reflexivity. Qed.

Example bumpfee_repaired_witness :
  match lib_bumpfee b18 0 1000 (1, 1) with
  | Ok b' => map o_value (b_outputs b') = [98350; 150] /\ b_fee b' = 1500
  | Err _ => False
  end.
Proof. vm_compute. split; reflexivity. Qed.

Print Assumptions select_sufficient.
Print Assumptions select_within_available.
Print Assumptions select_no_utxos_iff.
Print Assumptions create_conserves.
Print Assumptions create_no_negative_output.
Print Assumptions create_recipients_exact.
Print Assumptions create_inputs_ok.
Print Assumptions create_fee_rate_checked.
Print Assumptions create_fee_nonneg.
Print Assumptions create_pays_requested_fee.
Print Assumptions insufficient_fails.
Print Assumptions send_conserves.
Print Assumptions sweep_conserves.
Print Assumptions bumpfee_no_negative_output.
Print Assumptions bumpfee_never_fails_on_negative_value.
Print Assumptions bumpfee_conserves.
Print Assumptions bumpfee_pays_extra.
