(* Properties/C07.v — wallet-created transactions conserve value and pay exactly what was requested.
   Only statements closed by [exact lemma], non-vacuity examples, refutation witnesses for the classes excluded
   by a guard or repaired by fixes/C07-*, and Print Assumptions.
   lib_tx_create / lib_send / lib_sweep / lib_bumpfee mirror the working tree with fixes/C07-1..3;
   orig_tx_create / orig_bumpfee keep the unrepaired statements (the witnesses below are the recorded findings). *)
From Coq Require Import ZArith List Bool.
From Coq.Strings Require Import Byte.
From Verif Require Import Lib.Bytes Gen.GenNetworks Model.CoinSelect Model.TxCreate Model.BumpFee Model.TxCreateHistory
  Proofs.CoinSelect Proofs.TxCreateFloat Proofs.TxCreate Proofs.BumpFee Proofs.TxCreateHistory.
Import ListNotations.
Open Scope Z_scope.

(* --- coin selection: all views, amounts, variances, limits --- *)
Theorem select_sufficient : forall view amount variance minc dust maxu l,
  lib_select_inputs view amount variance minc dust maxu = SelOk l -> l <> [] ->
  amount <= sum_values l /\
  (forall u, In u l -> In u view /\ u_spent u = false /\ minc <= u_conf u /\ dust <= u_value u) /\
  (NoDup (map u_id view) -> NoDup (map u_id l)).
Proof. exact select_sufficient_lemma. Qed.

Theorem select_within_available : forall view amount variance minc dust maxu l,
  0 <= dust -> lib_select_inputs view amount variance minc dust maxu = SelOk l ->
  sum_values l <= sum_values (candidates minc dust view).
Proof. exact select_le_available. Qed.

Theorem select_no_utxos_iff : forall view amount variance minc dust maxu,
  lib_select_inputs view amount variance minc dust maxu = SelNoUtxos <-> candidates minc dust view = [].
Proof. exact select_noutxos. Qed.

(* --- transaction_create: all networks/wallet kinds/views/requests/oracle values --- *)
Theorem create_conserves : forall rep nw w view rq o t,
  tx_create rep nw w view rq o = Ok t -> sum_values (t_inputs t) = sum_outs (t_outputs t) + t_fee t.
Proof. exact create_conserves_lemma. Qed.

Theorem create_no_negative_output : forall rep nw w view rq o t,
  tx_create rep nw w view rq o = Ok t -> forall x, In x (t_outputs t) -> 0 <= o_value x < two64.
Proof. exact create_no_negative_output_lemma. Qed.

Theorem create_recipients_exact : forall rep nw w view rq o t,
  tx_create rep nw w view rq o = Ok t ->
  exists amounts,
    t_outputs t = map recipient_out (rq_outputs rq) ++ change_outs 0 amounts /\
    (forall x, In x (change_outs 0 amounts) -> o_change x = true /\ exists j, o_dest x = ToChange j) /\
    NoDup (map o_dest (change_outs 0 amounts)).
Proof. exact create_recipients_exact_lemma. Qed.

Theorem create_inputs_ok : forall rep nw w view rq o t,
  tx_create rep nw w view rq o = Ok t ->
  match rq_inputs rq with
  | None =>
      (forall u, In u (t_inputs t) ->
         In u view /\ u_spent u = false /\ rq_min_conf rq <= u_conf u /\ nw_dust_amount nw <= u_value u) /\
      (NoDup (map u_id view) -> NoDup (map u_id (t_inputs t)))
  | Some ids => map u_id (t_inputs t) = ids /\ forall u, In u (t_inputs t) -> In u view
  end.
Proof. exact create_inputs_ok_lemma. Qed.

(* the value the code compares with the network limits is inside them (it is the provider's estimate or the
   rate on the ESTIMATED size; see create_fee_rate_in_limits_refuted) *)
Theorem create_fee_rate_checked : forall rep nw w view rq o t,
  tx_create rep nw w view rq o = Ok t -> nw_fee_min nw <= t_fpk t <= nw_fee_max nw.
Proof. exact create_fee_rate_checked_lemma. Qed.

Theorem create_fee_nonneg : forall nw w view rq o t,
  In nw all_networks -> wk_wf w -> 0 <= rq_nchange rq ->
  lib_tx_create nw w view rq o = Ok t -> 0 <= t_fee t.
Proof. exact create_fee_nonneg_net. Qed.

Theorem create_pays_requested_fee : forall nw w view rq o t,
  In nw all_networks -> wk_wf w -> 0 <= rq_nchange rq ->
  lib_tx_create nw w view rq o = Ok t ->
  sum_amounts (rq_outputs rq) + fee_floor rq <= sum_values (t_inputs t) /\ fee_floor rq <= t_fee t.
Proof. exact create_pays_requested_fee_net. Qed.

Theorem insufficient_fails : forall nw w view rq o,
  In nw all_networks -> wk_wf w -> 0 <= rq_nchange rq ->
  sum_values (available nw view rq) < sum_amounts (rq_outputs rq) + fee_floor rq ->
  exists e, lib_tx_create nw w view rq o = Err e.
Proof. exact insufficient_fails_net. Qed.

(* --- send / sweep --- *)
Theorem send_conserves : forall rep nw w view rq o1 o2 t,
  send_gen rep nw w view rq o1 o2 = Ok t ->
  sum_values (t_inputs t) = sum_outs (t_outputs t) + t_fee t /\
  (forall x, In x (t_outputs t) -> 0 <= o_value x < two64) /\
  (exists amounts, t_outputs t = map recipient_out (rq_outputs rq) ++ change_outs 0 amounts) /\
  nw_fee_min nw <= t_fpk t <= nw_fee_max nw.
Proof. exact send_conserves_lemma. Qed.

Theorem sweep_conserves : forall rep nw w view sq o1 o2 t,
  sweep_gen rep nw w view sq o1 o2 = Ok t ->
  sum_values (t_inputs t) = sum_outs (t_outputs t) + t_fee t /\
  (forall x, In x (t_outputs t) -> 0 <= o_value x < two64) /\
  (forall u, In u (t_inputs t) -> In u view).
Proof. exact sweep_conserves_lemma. Qed.

(* --- bumpfee (repaired loop) --- *)
Theorem bumpfee_no_negative_output : forall b fee extra mult b',
  outs_nonneg (b_outputs b) -> lib_bumpfee b fee extra mult = Ok b' -> outs_nonneg (b_outputs b').
Proof. exact bumpfee_no_negative_output_lemma. Qed.

Theorem bumpfee_never_fails_on_negative_value : forall b fee extra mult,
  outs_nonneg (b_outputs b) -> lib_bumpfee b fee extra mult <> Err ENegOutput.
Proof. exact bumpfee_never_negative_error. Qed.

Theorem bumpfee_conserves : forall b fee extra mult b',
  sum_values (b_inputs b) <> 0 -> lib_bumpfee b fee extra mult = Ok b' ->
  sum_values (b_inputs b') = sum_outs (b_outputs b') + b_fee b'.
Proof. exact bumpfee_conserves_lemma. Qed.

Theorem bumpfee_pays_extra : forall b fee extra mult b' nf ex,
  outs_nonneg (b_outputs b) -> sum_values (b_inputs b) <> 0 ->
  sum_values (b_inputs b) = sum_outs (b_outputs b) + b_fee b ->
  bump_amounts b fee extra mult = Ok (nf, ex) -> 0 <= ex ->
  lib_bumpfee b fee extra mult = Ok b' ->
  b_fee b + ex <= b_fee b' /\
  (forall x, In x (b_outputs b') -> o_change x = false -> In x (b_outputs b)).
Proof. exact bumpfee_pays_extra_lemma. Qed.

(* --- histories on one wallet (Model/TxCreateHistory.v): create / send / sweep with every argument, broadcast,
       utxos_update and utxo_add with ANY provider listing, re-opening, bumpfee; all operation sequences --- *)

(* every automatically selected or swept input of every transaction returned anywhere in a history is a row of the wallet
   at that moment, unspent, not referred to by any input of a stored (broadcast) transaction, confirmed as required,
   inside the requested account / keys; the inputs are pairwise distinct *)
Theorem history_inputs_unspent_distinct_confirmed : forall env nw w ops r x pushed minc acct keys,
  In r (h_run env nw w h_empty ops) -> auto_args (hr_op r) = Some (minc, acct, keys) -> hr_out r = OTx x pushed ->
  (forall u, In u (t_inputs (x_tx x)) ->
     In u (hs_view (hr_pre r)) /\ u_spent u = false /\ ~ In (u_id u) (consumed (hr_pre r)) /\ minc <= u_conf u /\
     in_scope (hs_attr (hr_pre r)) acct keys u = true) /\
  NoDup (map u_id (t_inputs (x_tx x))).
Proof. exact history_inputs_lemma. Qed.

(* before and after every operation of every history: distinct rows, and a row referred to by an input of a stored wallet
   transaction is spent (whatever the provider listed, whatever was added by hand, re-opened or bumped) *)
Theorem history_invariant : forall env nw w ops r,
  In r (h_run env nw w h_empty ops) -> hinv (hr_pre r) /\ hinv (hr_post r).
Proof. exact history_invariant_lemma. Qed.

(* "consumed" grows by exactly the inputs of the transactions that were pushed (and shrinks only by a fee bump that
   replaces a stored transaction) *)
Theorem history_consumed_is_pushed_inputs : forall env nw w ops r,
  In r (h_run env nw w h_empty ops) -> step_consumed_spec (hr_pre r) (hr_out r) (hr_post r).
Proof. exact history_consumed_lemma. Qed.

Theorem history_states_are_chained : forall env nw w ops st,
  match h_run env nw w st ops with [] => True | r :: _ => hr_pre r = st end /\
  (forall pre r1 r2 post, h_run env nw w st ops = pre ++ r1 :: r2 :: post -> hr_pre r2 = hr_post r1).
Proof. exact h_run_chain. Qed.

Theorem pushed_inputs_are_spent_afterwards : forall env nw w st op st' x,
  hinv st -> h_step env nw w st op = (st', OTx x true) ->
  forall u, In u (hs_view st') -> In (u_id u) (map u_id (t_inputs (x_tx x))) -> u_spent u = true.
Proof. exact pushed_inputs_spent. Qed.

(* conflicting stored transactions: while another stored transaction s' refers to output i, deleting transaction s
   (transaction_delete, WalletTransaction.delete, the deletion inside a fee bump) does not make i spendable again *)
Theorem delete_keeps_conflicting_spend_spent : forall st s s' i u,
  hinv st -> In (s', i) (hs_txins st) -> s' <> s -> In u (hs_view (h_delete st s)) -> u_id u = i -> u_spent u = true.
Proof. exact delete_keeps_conflict_spent. Qed.

Theorem delete_never_reopens_conflicting_spend : forall env nw w st s st' out s' i,
  hinv st -> h_step env nw w st (HDelete (Some s)) = (st', out) -> In (s', i) (hs_txins st) -> s' <> s ->
  ~ In i (map fst (spendable st')).
Proof. exact delete_step_lemma. Qed.

(* utxos_update / utxo_add: for every listing, account and rescan flag the stored inputs decide what is spent *)
Theorem utxos_update_keeps_consumed_spent : forall st acct listing rescan,
  hinv st ->
  hinv (fst (h_update st acct listing rescan)) /\
  hs_txins (fst (h_update st acct listing rescan)) = hs_txins st /\
  hs_next (fst (h_update st acct listing rescan)) = hs_next st /\
  hs_last (fst (h_update st acct listing rescan)) = hs_last st.
Proof. exact h_update_inv. Qed.

(* Wallet.send builds the transaction a second time with the SAME argument record: only the fee differs *)
Theorem send_recreation_keeps_arguments : forall bcount nw w st rq o1 o2 x,
  h_send bcount nw w st rq o1 o2 = Ok x ->
  exists f o, h_create bcount nw w st (hq_with_fee rq f) o = Ok x /\
              (f = hq_fee rq \/ (hq_fee rq = FeeNone /\ exists fe, f = FeeInt fe)).
Proof. exact send_recreation_lemma. Qed.

Theorem send_two_phase_is_send : forall bcount nw w st rq o1 o2,
  h_send bcount nw w st rq o1 o2 = wrap_tx bcount rq (lib_send nw w (scope st rq) (h_request rq) o1 o2).
Proof. exact h_send_is_send_gen. Qed.

Theorem send_result_respects_arguments : forall bcount nw w st rq o1 o2 x,
  h_send bcount nw w st rq o1 o2 = Ok x ->
  x_locktime x = eff_locktime bcount (hq_locktime rq) /\
  x_seqs x = seqs_of rq (x_locktime x) (x_tx x) /\
  (hq_inputs rq = None -> forall k, hq_max_utxos rq = Some k -> 0 < k -> Z.of_nat (length (t_inputs (x_tx x))) <= k) /\
  (exists amounts, t_outputs (x_tx x) = map recipient_out (hq_outputs rq) ++ change_outs 0 amounts) /\
  sum_values (t_inputs (x_tx x)) = sum_outs (t_outputs (x_tx x)) + t_fee (x_tx x).
Proof. exact send_arguments_lemma. Qed.

Theorem send_inputs_respect_arguments : forall bcount nw w st rq o1 o2 x,
  hinv st -> hq_inputs rq = None -> h_send bcount nw w st rq o1 o2 = Ok x ->
  inputs_admissible st (hq_min_conf rq) (hq_acct rq) (hq_keys rq) (x_tx x).
Proof. exact h_send_auto. Qed.

Theorem select_respects_max_utxos : forall view amount variance minc dust k l,
  lib_select_inputs view amount variance minc dust (Some k) = SelOk l -> 0 < k -> Z.of_nat (length l) <= k.
Proof. exact select_max_utxos. Qed.

Theorem sweep_inputs_unspent_confirmed : forall rep nw w view sq o1 o2 t,
  sweep_gen rep nw w view sq o1 o2 = Ok t -> NoDup (map u_id view) ->
  (forall u, In u (t_inputs t) -> In u view /\ u_spent u = false /\ sw_min_conf sq <= u_conf u) /\
  NoDup (map u_id (t_inputs t)).
Proof. exact sweep_inputs_lemma. Qed.

(* explicit inputs: whatever key_id / value / address the caller wrote into the tuples or Input objects, a reference to
   a row of this wallet is valued by that row (guard: every reference names a row; see the _refuted witness) *)
Theorem explicit_inputs_use_wallet_values : forall bcount nw w st rq o xs x,
  hq_inputs rq = Some xs -> known_xs (hs_view st) xs ->
  h_create bcount nw w st rq o = Ok x ->
  map u_id (t_inputs (x_tx x)) = map x_id xs /\
  (forall u, In u (t_inputs (x_tx x)) -> In u (hs_view st)) /\
  sum_values (t_inputs (x_tx x)) = sum_outs (t_outputs (x_tx x)) + t_fee (x_tx x).
Proof. exact explicit_values_lemma. Qed.

Theorem explicit_inputs_claims_ignored : forall bcount nw w st rq o xs,
  hq_inputs rq = Some xs -> known_xs (hs_view st) xs ->
  h_create bcount nw w st rq o = h_create bcount nw w st (strip_claims rq) o.
Proof. exact explicit_claims_ignored. Qed.

(* --- witnesses --- *)
Definition w_segwit : wkind := {| wk_wit := Segwit; wk_multisig := false; wk_nkeys := 1; wk_nreq := 1; wk_single := false |}.
Definition dest1 : bytes := x00 :: x14 :: repeat x11 20.
Definition no_oracle : oracle := {| or_fpk := 33333; or_fpk2 := 33333; or_r1 := 0; or_r2 := 0; or_weights := [] |}.
Definition one_btc : list utxo := [{| u_id := 0; u_value := 100000000; u_conf := 5; u_spent := false |}].
Definition rq17 (amount : Z) (f : fee_req) : request :=
  {| rq_outputs := [{| r_script := dest1; r_amount := amount; r_change := false |}]; rq_inputs := Some [0];
     rq_fee := f; rq_min_conf := 1; rq_max_utxos := None; rq_nchange := 1 |}.

(* non-vacuity: an ordinary automatic creation succeeds, with change *)
Example create_ok_example :
  tx_summary (lib_tx_create nw_bitcoinlib_test w_segwit one_btc
                {| rq_outputs := [{| r_script := dest1; r_amount := 50000; r_change := false |}]; rq_inputs := None;
                   rq_fee := FeeNone; rq_min_conf := 1; rq_max_utxos := None; rq_nchange := 1 |} no_oracle)
  = Some (4699, 99945301, 141, 33333, [0], [50000; 99945301]).
Proof. vm_compute. reflexivity. Qed.

(* finding 17 (fixes/C07-1): the unrepaired order of checks returns a transaction paying a fee of 10 000
   where 50 000 was requested and the input (100 000 000) does not cover 99 990 000 + 50 000; the repaired code refuses *)
Example insufficient_fails_refuted_orig :
  tx_summary (orig_tx_create nw_bitcoinlib_test w_segwit one_btc (rq17 99990000 (FeeInt 50000)) no_oracle)
  = Some (10000, 0, 141, 70921, [0], [99990000]).
Proof. vm_compute. reflexivity. Qed.

Example insufficient_fails_repaired_witness :
  lib_tx_create nw_bitcoinlib_test w_segwit one_btc (rq17 99990000 (FeeInt 50000)) no_oracle = Err EOutGtIn.
Proof. vm_compute. reflexivity. Qed.

(* finding (fixes/C07-2): explicit inputs, no fee given, outputs above inputs: a NEGATIVE fee (-500) was returned *)
Example create_fee_nonneg_refuted_orig :
  tx_summary (orig_tx_create nw_bitcoinlib_test w_segwit one_btc (rq17 100000500 FeeNone) no_oracle)
  = Some (-500, 0, 141, 33333, [0], [100000500]).
Proof. vm_compute. reflexivity. Qed.

Example create_fee_nonneg_repaired_witness :
  lib_tx_create nw_bitcoinlib_test w_segwit one_btc (rq17 100000500 FeeNone) no_oracle = Err EOutGtIn.
Proof. vm_compute. reflexivity. Qed.

(* known class fee_rate_checked_on_estimate: with explicit inputs and no fee the remainder is the fee and the value
   compared with the limits is the provider's estimate (33333): 0.9 BTC on 141 vbytes passes, although its rate
   638297872 per kB is far above fee_max = 1000000 *)
Example create_fee_rate_in_limits_refuted :
  tx_summary (lib_tx_create nw_bitcoinlib_test w_segwit one_btc (rq17 10000000 FeeNone) no_oracle)
  = Some (90000000, 0, 141, 33333, [0], [10000000]) /\
  rate_of 90000000 141 = 638297872 /\ nw_fee_max nw_bitcoinlib_test = 1000000.
Proof. vm_compute. repeat split; reflexivity. Qed.

(* known class explicit_inputs_unchecked: a duplicated explicit input is counted twice *)
Example create_inputs_distinct_refuted_explicit :
  tx_summary (lib_tx_create nw_bitcoinlib_test w_segwit one_btc
                {| rq_outputs := [{| r_script := dest1; r_amount := 150000000; r_change := false |}];
                   rq_inputs := Some [0; 0]; rq_fee := FeeInt 10000; rq_min_conf := 1; rq_max_utxos := None;
                   rq_nchange := 1 |} no_oracle)
  = Some (10000, 49990000, 209, 47846, [0; 0], [150000000; 49990000]).
Proof. vm_compute. reflexivity. Qed.

(* finding 18 (fixes/C07-3): change outputs [900; 250], extra fee 1000 *)
Definition b18 : btx :=
  {| b_inputs := [{| u_id := 0; u_value := 100000; u_conf := 5; u_spent := false |}];
     b_outputs := [{| o_dest := ToScript dest1; o_value := 98350; o_change := false |};
                   {| o_dest := ToChange 0; o_value := 900; o_change := true |};
                   {| o_dest := ToChange 1; o_value := 250; o_change := true |}];
     b_fee := 500; b_vsize := 172 |}.

Example bumpfee_no_negative_output_refuted_orig :
  orig_bumpfee b18 0 1000 (1, 1) = Err ENegOutput /\
  map o_value (snd (bump_loop false 1000 1000 (b_outputs b18))) = [98350; -750].
Proof. vm_compute. split; reflexivity. Qed.

Example bumpfee_repaired_witness :
  match lib_bumpfee b18 0 1000 (1, 1) with
  | Ok b' => map o_value (b_outputs b') = [98350; 150] /\ b_fee b' = 1500
  | Err _ => False
  end.
Proof. vm_compute. split; reflexivity. Qed.

(* --- histories: witnesses --- *)
Definition env0 : henv := {| he_bcount := 800000; he_mult := (1, 1); he_mult2 := (0, 1) |}.
Definition three : list litem :=
  [{| li_id := 0; li_value := 100000000; li_conf := 10; li_key := 0 |};
   {| li_id := 1; li_value := 100000000; li_conf := 10; li_key := 1 |};
   {| li_id := 2; li_value := 100000000; li_conf := 10; li_key := 0 |}].
Definition hrq (amount : Z) (ins : option (list xin)) (f : fee_req) (minc k : Z) (rbf : bool) : hreq :=
  {| hq_outputs := [{| r_script := dest1; r_amount := amount; r_change := false |}]; hq_inputs := ins; hq_fee := f;
     hq_min_conf := minc; hq_max_utxos := None; hq_nchange := k; hq_keys := []; hq_acct := 0; hq_locktime := 0;
     hq_rbf := rbf |}.
Definition hist_summary (l : list hrec) : list (option (list Z * Z) * list Z) :=
  map (fun r => (match hr_out r with OTx x _ => Some (map u_id (t_inputs (x_tx x)), t_fee (x_tx x)) | _ => None end,
                 map fst (spendable (hr_post r)))) l.

(* non-vacuity: a two-input transaction is broadcast; the provider keeps listing all three outputs (rescan), one is
   added again by hand, the wallet is re-opened: outputs 0 and 1 never come back, later transactions spend output 2 and
   then the change output 1006 *)
Example history_example :
  hist_summary (h_run env0 nw_bitcoinlib_test w_segwit h_empty
    [HUpdate 0 three true;
     HSend (hrq 150000000 None (FeeInt 10000) 1 1 false) no_oracle no_oracle true true;
     HUpdate 0 three true;
     HSend (hrq 60000000 None (FeeInt 10000) 1 1 false) no_oracle no_oracle true true;
     HUtxoAdd 0 {| li_id := 0; li_value := 100000000; li_conf := 12; li_key := 0 |};
     HReopen;
     HSend (hrq 30000000 None (FeeInt 10000) 0 1 false) no_oracle no_oracle false true])
  = [(None, [0; 1; 2]); (Some ([0; 1], 10000), [2; 1002]); (None, [2]); (Some ([2], 10000), [1006]);
     (None, [1006]); (None, [1006]); (Some ([1006], 10000), [1006])].
Proof. vm_compute. reflexivity. Qed.

(* non-vacuity, conflicting stored transactions: output 0 is spent by transaction 1000 and again (explicit input list, replace
   by fee) by transaction 1004; deleting the one stored FIRST leaves 0 spent (the payment of 2.5 BTC, which would need it,
   is refused); deleting the second one as well re-opens it; a transaction that is not stored any more is "not found" *)
Definition x0 : xin := {| x_id := 0; x_key := None; x_claim := None; x_addr := false; x_obj := false |}.
Example delete_conflicting_example :
  hist_summary (h_run env0 nw_bitcoinlib_test w_segwit h_empty
    [HUpdate 0 three true;
     HSend (hrq 50000000 (Some [x0]) (FeeInt 10000) 1 1 true) no_oracle no_oracle true true;
     HSend (hrq 60000000 (Some [x0]) (FeeInt 20000) 1 1 true) no_oracle no_oracle true true;
     HDelete (Some 1000);
     HSend (hrq 250000000 None (FeeInt 10000) 1 1 false) no_oracle no_oracle false true;
     HDelete (Some 1004);
     HDelete (Some 1004)])
  = [(None, [0; 1; 2]); (Some ([0], 10000), [1; 2; 1002]); (Some ([0], 20000), [1; 2; 1002; 1006]);
     (None, [1; 2; 1006]); (None, [1; 2; 1006]); (None, [0; 1; 2]); (None, [0; 1; 2])].
Proof. vm_compute. reflexivity. Qed.

Definition st_three : hstate := fst (h_step env0 nw_bitcoinlib_test w_segwit h_empty (HUpdate 0 three false)).
Definition xq (id : Z) (claim : option Z) (addr : bool) : xin :=
  {| x_id := id; x_key := Some 7; x_claim := claim; x_addr := addr; x_obj := false |}.
Definition created (r : result htx) : result wtx := match r with Ok x => Ok (x_tx x) | Err e => Err e end.

(* the caller claims 2 BTC / 0.5 BTC for output 0 (worth 1 BTC): the row decides *)
Example explicit_inputs_use_wallet_values_example :
  h_create 800000 nw_bitcoinlib_test w_segwit st_three (hrq 150000000 (Some [xq 0 (Some 200000000) true]) (FeeInt 10000) 1 1 false) no_oracle
    = Err EOutGtIn /\
  tx_summary (created (h_create 800000 nw_bitcoinlib_test w_segwit st_three
                         (hrq 40000000 (Some [xq 0 (Some 50000000) true]) (FeeInt 10000) 1 1 false) no_oracle))
    = Some (10000, 59990000, 141, 70921, [0], [40000000; 59990000]).
Proof. vm_compute. split; reflexivity. Qed.

(* known class explicit_input_not_in_wallet: an outpoint the wallet has no row for, named together with an address of
   the wallet and a value, is taken at the caller's value (offline use) *)
Example explicit_inputs_use_wallet_values_refuted :
  tx_summary (created (h_create 800000 nw_bitcoinlib_test w_segwit st_three
                         (hrq 40000000 (Some [xq 900 (Some 50000000) true]) (FeeInt 10000) 1 1 false) no_oracle))
    = Some (10000, 9990000, 141, 70921, [900], [40000000; 9990000]) /\
  has_id (hs_view st_three) 900 = false.
Proof. vm_compute. split; reflexivity. Qed.

(* send re-creation (fee = None, random number of change outputs): min_confirms = 6 holds for the rebuilt transaction,
   the 2-confirmation output 2 (worth 2 BTC, sufficient alone) is not touched *)
Definition mixed : list litem :=
  [{| li_id := 0; li_value := 60000000; li_conf := 10; li_key := 0 |};
   {| li_id := 1; li_value := 60000000; li_conf := 10; li_key := 1 |};
   {| li_id := 2; li_value := 200000000; li_conf := 2; li_key := 0 |}].
Definition st_mixed : hstate := fst (h_step env0 nw_bitcoinlib_test w_segwit h_empty (HUpdate 0 mixed false)).

Example send_recreation_example :
  (match h_create 800000 nw_bitcoinlib_test w_segwit st_mixed (hrq 100000000 None FeeNone 6 0 false) no_oracle with
   | Ok x => recreate_fee nw_bitcoinlib_test FeeNone (x_tx x) | Err _ => None end) = Some 6966 /\
  tx_summary (created (h_send 800000 nw_bitcoinlib_test w_segwit st_mixed (hrq 100000000 None FeeNone 6 0 false) no_oracle no_oracle))
    = Some (6966, 19993034, 209, 39134, [0; 1], [100000000; 19993034]).
Proof. vm_compute. split; reflexivity. Qed.

(* known class bumpfee_replacement_unverified: bumpfee(broadcast=True) deletes the stored transaction BEFORE sending the
   replacement; when the replacement does not verify (observed: multisig inputs of different keys) it is not sent and the
   outputs 0 and 1, consumed by the transaction that WAS broadcast, are spendable again *)
Definition pre_b : btx :=
  {| b_inputs := [{| u_id := 0; u_value := 100000000; u_conf := 10; u_spent := false |};
                  {| u_id := 1; u_value := 100000000; u_conf := 10; u_spent := false |}];
     b_outputs := [{| o_dest := ToScript dest1; o_value := 150000000; o_change := false |};
                   {| o_dest := ToChange 0; o_value := 49990000; o_change := true |}];
     b_fee := 10000; b_vsize := 209 |}.

Example bumpfee_replacement_unverified_refuted :
  hist_summary (h_run env0 nw_bitcoinlib_test w_segwit h_empty
    [HUpdate 0 three true; HSend (hrq 150000000 None (FeeInt 10000) 1 1 true) no_oracle no_oracle true true;
     HBump pre_b 0 2000 true false])
  = [(None, [0; 1; 2]); (Some ([0; 1], 10000), [2; 1002]); (None, [0; 1; 2])].
Proof. vm_compute. reflexivity. Qed.

Example bumpfee_replacement_sent_witness :
  hist_summary (h_run env0 nw_bitcoinlib_test w_segwit h_empty
    [HUpdate 0 three true; HSend (hrq 150000000 None (FeeInt 10000) 1 1 true) no_oracle no_oracle true true;
     HBump pre_b 0 2000 true true])
  = [(None, [0; 1; 2]); (Some ([0; 1], 10000), [2; 1002]); (None, [2; 1006])].
Proof. vm_compute. reflexivity. Qed.

Print Assumptions select_sufficient.
Print Assumptions select_within_available.
Print Assumptions select_no_utxos_iff.
Print Assumptions create_conserves.
Print Assumptions create_no_negative_output.
Print Assumptions create_recipients_exact.
Print Assumptions create_inputs_ok.
Print Assumptions create_fee_rate_checked.
Print Assumptions create_fee_nonneg.
Print Assumptions create_pays_requested_fee.
Print Assumptions insufficient_fails.
Print Assumptions send_conserves.
Print Assumptions sweep_conserves.
Print Assumptions bumpfee_no_negative_output.
Print Assumptions bumpfee_never_fails_on_negative_value.
Print Assumptions bumpfee_conserves.
Print Assumptions bumpfee_pays_extra.
Print Assumptions history_inputs_unspent_distinct_confirmed.
Print Assumptions history_invariant.
Print Assumptions history_consumed_is_pushed_inputs.
Print Assumptions history_states_are_chained.
Print Assumptions pushed_inputs_are_spent_afterwards.
Print Assumptions utxos_update_keeps_consumed_spent.
Print Assumptions send_recreation_keeps_arguments.
Print Assumptions send_two_phase_is_send.
Print Assumptions send_result_respects_arguments.
Print Assumptions send_inputs_respect_arguments.
Print Assumptions select_respects_max_utxos.
Print Assumptions sweep_inputs_unspent_confirmed.
Print Assumptions explicit_inputs_use_wallet_values.
Print Assumptions explicit_inputs_claims_ignored.
Print Assumptions delete_keeps_conflicting_spend_spent.
Print Assumptions delete_never_reopens_conflicting_spend.
