(* Properties/C04.v — private key -> public key -> address is exact; invalid keys are refused.
   Statements only; proofs are in Proofs/KeyPoint*.v and Proofs/AddrEnc.v.
   lib_* = bitcoinlib as repaired by fixes/C04-1..4 (Model/KeyPoint.v, Model/AddrEnc.v), spec_* = SEC 1 / BIPs.
   Primality of secp256k1_p is an explicit premise wherever it is used; it is not proved.
   The network table: Gen/GenNetworks.v is regenerated from /repo on every run; Model/SpecNetworks.v is the FROZEN
   specification copy (reference clients' chain parameters).  network_table_is_spec ties the two, and the *_frozen
   theorems state the address property against the frozen version bytes / human-readable parts. *)
From Coq Require Import ZArith List Bool Znumtheory.
From Coq.Strings Require Import Byte.
From Verif Require Import Lib.Bytes Crypto.Secp256k1 Gen.GenConsts Gen.GenKeyConsts Gen.GenNetworks
  Model.SpecNetworks Model.AddrEnc Model.KeyPoint Proofs.KeyPointFermat Proofs.KeyPoint Proofs.KeyPointWitness Proofs.AddrEnc
  Proofs.SpecNetworksGlue Proofs.AddrEncFrozen Proofs.KeyPointMarker.
Import ListNotations.
Open Scope Z_scope.

(* ---------------------------------------------------------------- decompression *)

Theorem sqrt_exp_ok :
  keys_mod_sqrt_k + 1 = (secp256k1_p + 1) / 4 /\ secp256k1_p mod 4 = 3 /\ 4 * (keys_mod_sqrt_k + 1) = secp256k1_p + 1 /\
  keys_mod_sqrt_k + 1 = secp_sqrt_exp.
Proof. exact sqrt_exp_ok_pf. Qed.

Theorem fermat_little_Z : forall p, prime p -> forall a, ~ (p | a) -> a ^ (p - 1) mod p = 1.
Proof. exact fermat_little. Qed.

Theorem decompress_compress :
  prime secp256k1_p ->
  forall x y, on_curve (Some (x, y)) = true -> lib_decompress_y (Z.odd y) x = y.
Proof. exact decompress_compress_pf. Qed.

Theorem compress_decompress : prime secp256k1_p -> forall x y c,
  on_curve (Some (x, y)) = true ->
  exists k, lib_key_import (KBytes (ser_point_compressed (Some (x, y)))) c true = ImpOk k /\
            lib_public_point k = (x, y) /\
            lib_public_compressed k = ser_point_compressed (Some (x, y)) /\
            lib_public_uncompressed k = ser_point_uncompressed (Some (x, y)).
Proof. exact compressed_accepted_pf. Qed.

Theorem decompress_rejects_offcurve : forall b c,
  length b = 33%nat -> (first_is b 2 = true \/ first_is b 3 = true) ->
  (forall y, on_curve (Some (of_be (skipn 1 b), y)) = false) ->
  lib_key_import (KBytes b) c true = ImpReject /\ lib_key_import (KHexStr b) c true = ImpReject.
Proof. exact decompress_rejects_offcurve_pf. Qed.

(* ---------------------------------------------------------------- import *)

Theorem import_range : forall inp c s k,
  lib_key_import inp c s = ImpOk k -> k_private k = true -> not_wide inp ->
  1 <= k_secret k < secp256k1_n.
Proof. exact import_range_pf. Qed.

Theorem import_range_wide : forall inp c s k,
  lib_key_import inp c s = ImpOk k -> k_private k = true -> k_secret k mod secp256k1_n <> 0.
Proof. exact import_range_wide_pf. Qed.

(* the byte 01 is a compression marker only as the 33rd byte: a 32-byte secret (plain binary import, and what the BIP38
   route hands to Key.__init__ together with the compression flag of the text) is taken whole whatever its last byte is *)
Theorem import_bytes32_exact : forall b c s k,
  length b = 32%nat -> lib_key_import (KBytes b) c s = ImpOk k ->
  k_private k = true /\ k_secret k = of_be b /\ k_compressed k = c.
Proof. exact import_bytes32_exact_pf. Qed.

(* ... and a 33-byte input that is not a public key is a private key only when it ends in 01, and then its first 32 bytes *)
Theorem import_bytes33_marker : forall b c s k,
  length b = 33%nat -> first_is b 2 || first_is b 3 || first_is b 4 = false ->
  lib_key_import (KBytes b) c s = ImpOk k ->
  last_is b 1 = true /\ k_private k = true /\ k_secret k = of_be (firstn 32 b) /\ k_compressed k = true.
Proof. exact import_bytes33_marker_pf. Qed.

Theorem import_public_on_curve : prime secp256k1_p -> forall inp c k,
  lib_key_import inp c true = ImpOk k -> k_private k = false ->
  on_curve (Some (lib_public_point k)) = true.
Proof. exact import_public_on_curve_pf. Qed.

Theorem private_public_forms : forall wide d c k x y,
  lib_mk_private true wide d c = ImpOk k -> secp_pub d = Some (x, y) -> on_curve (Some (x, y)) = true ->
  lib_public_compressed k = ser_point_compressed (secp_pub d) /\
  lib_public_uncompressed k = ser_point_uncompressed (secp_pub d) /\
  lib_public_point k = (x, y) /\
  parse_point (lib_public_uncompressed k) = secp_pub d.
Proof. exact private_public_forms_pf. Qed.

(* ---------------------------------------------------------------- addresses *)

Theorem address_is_standard : forall nw st e data addr,
  In nw all_networks ->
  data <> [] -> hexlike data = false ->
  hexlike (lib_final_hash nw (Some st) (Some e) 0 data []) = false ->
  st <> StP2tr ->
  spec_address nw st e data = Some addr ->
  lib_address nw (Some st) (Some e) 0 data [] = Some addr.
Proof. exact address_is_standard_pf. Qed.

Theorem public_key_bytes_not_hexlike : forall c r, key_prefix c = true -> hexlike (c :: r) = false.
Proof. exact key_bytes_not_hexlike. Qed.

Theorem address_default_script_type : forall nw wv data hashed,
  lib_address nw None (Some EncBase58) wv data hashed = lib_address nw (Some StP2pkh) (Some EncBase58) wv data hashed /\
  lib_address nw None (Some EncBech32) wv data hashed = lib_address nw (Some StP2wpkh) (Some EncBech32) wv data hashed.
Proof. exact address_default_script_type_pf. Qed.

Theorem address_p2tr_of_output_key : forall nw q wv,
  length q = 32%nat -> hexlike q = false -> (wv = 0 \/ wv = 1) ->
  lib_address nw (Some StP2tr) (Some EncBech32) wv [] q = spec_p2tr nw q.
Proof. exact address_p2tr_of_output_key_pf. Qed.

(* ---------------------------------------------------------------- the network table is the frozen specification *)

(* every row of networks.json (as regenerated on this run), projected to the fields the properties depend on, is the
   row of the frozen specification table at the same position: an edited / added / removed / reordered row breaks this *)
Theorem network_table_is_spec : map proj_network all_networks = spec_networks.
Proof. exact gen_networks_are_spec. Qed.

(* the (network, field) pairs in which the two tables differ: none (the failure message of this one names them) *)
Theorem network_table_diff_empty : table_diff (map proj_network all_networks) spec_networks = [].
Proof. exact gen_table_diff_empty. Qed.

(* address_is_standard against the frozen table: for the regenerated row nw and the frozen row sn of the same network *)
Theorem address_is_standard_frozen : forall nw sn st e data addr,
  In (nw, sn) (combine all_networks spec_networks) ->
  data <> [] -> hexlike data = false ->
  hexlike (lib_final_hash nw (Some st) (Some e) 0 data []) = false ->
  st <> StP2tr ->
  frozen_address sn st e data = Some addr ->
  lib_address nw (Some st) (Some e) 0 data [] = Some addr.
Proof. exact address_is_standard_frozen_pf. Qed.

(* ... and addressed by the network name, as Address(..., network=<name>) is *)
Theorem address_by_name_is_standard : forall nw st e data addr,
  In nw all_networks ->
  data <> [] -> hexlike data = false ->
  hexlike (lib_final_hash nw (Some st) (Some e) 0 data []) = false ->
  st <> StP2tr ->
  frozen_address_by_name (nw_name nw) st e data = Some (Some addr) ->
  lib_address nw (Some st) (Some e) 0 data [] = Some addr.
Proof. exact address_by_name_is_standard_pf. Qed.

Theorem address_p2tr_of_output_key_frozen : forall nw sn q wv,
  In (nw, sn) (combine all_networks spec_networks) ->
  length q = 32%nat -> hexlike q = false -> (wv = 0 \/ wv = 1) ->
  lib_address nw (Some StP2tr) (Some EncBech32) wv [] q = frozen_p2tr sn q.
Proof. exact address_p2tr_of_output_key_frozen_pf. Qed.

(* outside the documented deviating rows (regtest, dogecoin extended keys) the frozen table is the reference clients' table *)
Theorem frozen_table_is_reference_except_deviations :
  filter (fun n => negb (sn_is_deviating n)) spec_networks = filter (fun n => negb (sn_is_deviating n)) ref_networks /\
  table_diff spec_networks ref_networks = documented_deviations.
Proof. exact (conj spec_is_ref_except_deviations spec_ref_diff). Qed.

(* ---------------------------------------------------------------- non-vacuity *)

Example generator_on_curve : on_curve secp_G = true.
Proof. exact generator_on_curve_w. Qed.

Example decompress_generator : lib_decompress_y (Z.odd secp_Gy) secp_Gx = secp_Gy.
Proof. exact decompress_generator_w. Qed.

(* hypotheses satisfiable: the secret 257 = 00..0101 as 32 bytes is imported whole (not as 1 with a marker) *)
Example import_bytes32_last_byte_01 :
  exists k, lib_key_import (KBytes (repeat x00 30 ++ [x01; x01])) true true = ImpOk k /\ k_secret k = 257.
Proof. exact import_bytes32_last_byte_01_w. Qed.

Example table_has_eleven_networks : length all_networks = 11%nat.
Proof. reflexivity. Qed.

Example standard_p2pkh_defined : exists a, spec_address nw_bitcoin StP2pkh EncBase58 [x02; x00] = Some a.
Proof. eexists. reflexivity. Qed.

Example frozen_has_eleven_networks : length spec_networks = 11%nat /\ length (combine all_networks spec_networks) = 11%nat.
Proof. split; reflexivity. Qed.

(* Dogecoin Core: PUBKEY_ADDRESS 30 = 0x1e, SCRIPT_ADDRESS 22 = 0x16; the pair (regenerated row, frozen row) exists and
   P2SH-P2WPKH has a standard form there *)
Example frozen_dogecoin_p2sh :
  sn_prefix_address_p2sh sn_dogecoin = [x16] /\ sn_prefix_address sn_dogecoin = [x1e] /\
  In (nw_dogecoin, sn_dogecoin) (combine all_networks spec_networks) /\
  exists a, frozen_address sn_dogecoin StP2shP2wpkh EncBase58 G_compressed = Some a.
Proof. exact frozen_dogecoin_p2sh_w. Qed.

Example standard_p2sh_p2wsh_defined : exists a, spec_address nw_bitcoin StP2shP2wsh EncBase58 [x51] = Some a.
Proof. eexists. reflexivity. Qed.

(* ---------------------------------------------------------------- refutations *)

(* known: the regtest row carries Bitcoin MAINNET version bytes (00 / 05); Bitcoin Core's regtest chain uses 6f / c4,
   so the base58 addresses of network 'regtest' are not the addresses of that chain *)
Example regtest_version_bytes_refuted :
  sn_prefix_address sn_regtest = [x00] /\ sn_prefix_address ref_regtest = [x6f] /\
  sn_prefix_address_p2sh sn_regtest = [x05] /\ sn_prefix_address_p2sh ref_regtest = [xc4] /\
  exists a, frozen_address ref_regtest StP2pkh EncBase58 G_compressed = Some a /\
            lib_address nw_regtest (Some StP2pkh) (Some EncBase58) 0 G_compressed [] <> Some a.
Proof. exact regtest_not_core_w. Qed.


(* before fixes/C04-1: the all-zero key is accepted with secret 0 (public key "02 00..00") *)
Example import_range_unfixed_refuted :
  exists k, lib_key_import_unfixed (KHexStr (repeat x00 32)) true true = ImpOk k /\ k_private k = true /\ k_secret k = 0.
Proof. exact import_range_unfixed_w. Qed.

(* before fixes/C04-2: Key(0) is a random key *)
Example import_zero_unfixed_refuted : lib_key_import_unfixed (KInt 0) true true = ImpRandom.
Proof. reflexivity. Qed.

(* before fixes/C04-3: 02 || x = 5 is accepted although 5^3 + 7 is not a square; the repaired code refuses it *)
Example offcurve_unfixed_refuted :
  (exists k, lib_key_import_unfixed (KHexStr (x02 :: be_bytes 32 5)) true true = ImpOk k) /\
  lib_key_import (KHexStr (x02 :: be_bytes 32 5)) true true = ImpReject.
Proof. exact offcurve_unfixed_w. Qed.

(* before fixes/C04-4: address(compressed=True) of an uncompressed key hashed the 65-byte encoding *)
Example compressed_arg_unfixed_refuted :
  lib_key_address_args_gen false key_G_uncompressed (Some true) (Some StP2pkh) (Some EncBase58)
    = Some (Some StP2pkh, EncBase58, ser_point_uncompressed secp_G) /\
  lib_key_address_args_gen true key_G_uncompressed (Some true) (Some StP2pkh) (Some EncBase58)
    = Some (Some StP2pkh, EncBase58, ser_point_compressed secp_G).
Proof. exact compressed_arg_unfixed_w. Qed.

(* known (documented tolerance): strict=False keeps accepting a non-point *)
Example import_public_on_curve_nonstrict_refuted :
  exists k, lib_key_import (KHexStr (x02 :: be_bytes 32 5)) true false = ImpOk k.
Proof. exact nonstrict_w. Qed.

(* known: the 128 character hexadecimal form accepts secrets >= n (pinned by tests/test_keys.py) *)
Example import_range_wide_refuted :
  exists k, lib_key_import (KHexStr (repeat xff 64)) true true = ImpOk k /\ k_private k = true /\
            secp256k1_n <= k_secret k.
Proof. exact wide_w. Qed.

(* known: a hash that reads as hexadecimal text is unhexlified by to_bytes before it is encoded *)
Example address_hash_hexlike_refuted :
  lib_address nw_bitcoin (Some StP2pkh) (Some EncBase58) 0 [] (repeat x61 20)
  <> Some (spec_b58check (nw_prefix_address nw_bitcoin ++ repeat x61 20)).
Proof. exact hash_hexlike_w. Qed.

(* known: p2tr from a public key is bech32m(SHA256(key)), not the BIP341/BIP86 output key *)
Example address_p2tr_of_key_refuted :
  exists a, spec_address nw_bitcoin StP2tr EncBech32 G_compressed = Some a /\
            lib_address nw_bitcoin (Some StP2tr) (Some EncBech32) 0 G_compressed [] <> Some a.
Proof. exact p2tr_of_key_w. Qed.

Print Assumptions sqrt_exp_ok.
Print Assumptions fermat_little_Z.
Print Assumptions decompress_compress.
Print Assumptions compress_decompress.
Print Assumptions decompress_rejects_offcurve.
Print Assumptions import_range.
Print Assumptions import_range_wide.
Print Assumptions import_bytes32_exact.
Print Assumptions import_bytes33_marker.
Print Assumptions import_public_on_curve.
Print Assumptions private_public_forms.
Print Assumptions address_is_standard.
Print Assumptions public_key_bytes_not_hexlike.
Print Assumptions address_default_script_type.
Print Assumptions address_p2tr_of_output_key.
Print Assumptions network_table_is_spec.
Print Assumptions network_table_diff_empty.
Print Assumptions address_is_standard_frozen.
Print Assumptions address_by_name_is_standard.
Print Assumptions address_p2tr_of_output_key_frozen.
Print Assumptions frozen_table_is_reference_except_deviations.
