(* Properties/C01.v — signed digests equal the Bitcoin consensus sighash (legacy SignatureHash and BIP143).
   Model: Model/Sighash.v (lib_* mirrors bitcoinlib/transactions.py with fixes/C01-1 applied; spec_* is Bitcoin
   Core's SignatureHash and the BIP143 text).  H is the double hash, H160 is HASH160: the theorems hold for ANY
   two functions; the only premises on them are the output lengths where a statement needs them. *)
From Coq Require Import ZArith List Bool.
From Coq.Strings Require Import Byte.
From Verif Require Import Lib.Bytes Model.Wire Model.TxCodec Model.Sighash
  Proofs.Sighash Proofs.SighashEq Proofs.SighashCommit Proofs.SighashSession Gen.GenConsts Gen.GenFuncs Glue.WireGlue Crypto.Sha256 Crypto.Ripemd160 Crypto.HashLemmas.
Import ListNotations.
Open Scope Z_scope.

(* --- tie: the length/count encoders every preimage is built from (lib_cs_enc, lib_varstr) are the functions
       re-translated from bitcoinlib/encoding.py on this run --- *)
Theorem wire_source_is_model :
  (forall n, gen_int_to_varbyteint n = lib_cs_enc n) /\ (forall s, gen_varstr s = lib_varstr s).
Proof. exact (conj gen_int_to_varbyteint_eq gen_varstr_eq). Qed.

(* the script code the library commits to is the consensus script code, for every input kind, key list and m *)
Theorem script_code_ok : forall (H160 : bytes -> bytes) k keys m,
  wf_keys keys m -> lib_script_code H160 k keys m = Some (spec_script_code H160 k keys m).
Proof. exact script_code_ok. Qed.

(* Transaction.raw(sign_id, hash_type, 'legacy') (repaired, fixes/C01-2) is Core's legacy SignatureHash serialization
   for every hash type that is treated like SIGHASH_ALL; nothing is assumed about Input.index_n *)
Theorem legacy_preimage_ok : forall (H160 : bytes -> bytes), (forall b, length (H160 b) = 20%nat) ->
  forall t i ht x,
  wf_stx t -> nth_error (st_ins t) i = Some x -> si_kind x <> K_p2sh_p2wsh ->
  legacy_all_like ht = true -> 0 <= ht < 2 ^ 32 ->
  lib_legacy_preimage H160 t (Z.of_nat i) ht = spec_legacy_preimage H160 t i ht.
Proof. exact legacy_preimage_ok. Qed.

Theorem legacy_preimage_ok_ALL : forall (H160 : bytes -> bytes), (forall b, length (H160 b) = 20%nat) ->
  forall t i x,
  wf_stx t -> nth_error (st_ins t) i = Some x -> k_segwit (si_kind x) = false ->
  lib_legacy_preimage H160 t (Z.of_nat i) 1 = spec_legacy_preimage H160 t i 1.
Proof.
  intros H160 Hl t i x Hw Hx Hk.
  apply (legacy_preimage_ok H160 Hl t i 1 x Hw Hx); [intros E; rewrite E in Hk; discriminate Hk|reflexivity|].
  split; [discriminate|reflexivity].
Qed.

(* the code as it was before fixes/C01-2 (input found by its index_n attribute): the same statement needs the
   hypothesis index_n = list position; see index_not_position_refuted below *)
Theorem legacy_preimage_unrepaired_ok : forall (H160 : bytes -> bytes), (forall b, length (H160 b) = 20%nat) ->
  forall t i ht x,
  wf_stx t -> index_ok t -> nth_error (st_ins t) i = Some x -> si_kind x <> K_p2sh_p2wsh ->
  legacy_all_like ht = true -> 0 <= ht < 2 ^ 32 ->
  lib_legacy_preimage_at H160 false t (Z.of_nat i) ht = spec_legacy_preimage H160 t i ht.
Proof. exact legacy_preimage_unrepaired_ok. Qed.

(* Transaction.signature_segwit (repaired) is the BIP143 preimage for EVERY hash type: ALL, NONE, SINGLE, the three
   ANYONECANPAY combinations, SINGLE without a matching output, and every other 32-bit value *)
Theorem bip143_preimage_ok : forall (H H160 : bytes -> bytes), (forall b, length (H160 b) = 20%nat) ->
  forall t i ht x,
  wf_stx t -> st_segwit t = true -> nth_error (st_ins t) i = Some x -> 0 <= ht < 2 ^ 32 ->
  lib_bip143_preimage H H160 t i ht = spec_bip143_preimage H H160 t i ht.
Proof. exact bip143_preimage_ok. Qed.

Theorem bip143_preimage_ok_ALL : forall (H H160 : bytes -> bytes), (forall b, length (H160 b) = 20%nat) ->
  forall t i x,
  wf_stx t -> st_segwit t = true -> nth_error (st_ins t) i = Some x ->
  lib_bip143_preimage H H160 t i 1 = spec_bip143_preimage H H160 t i 1.
Proof.
  intros H H160 Hl t i x Hw Hs Hx. apply (bip143_preimage_ok H H160 Hl t i 1 x Hw Hs Hx).
  split; [discriminate|reflexivity].
Qed.

(* the digest Transaction.sign computes for the input at position i is the consensus digest: H of the legacy
   preimage for legacy inputs, H of the BIP143 preimage for native and P2SH-nested segwit inputs *)
Theorem digest_ok : forall (H H160 : bytes -> bytes), (forall b, length (H160 b) = 20%nat) ->
  forall t i ht x,
  wf_stx t -> nth_error (st_ins t) i = Some x ->
  (k_segwit (si_kind x) = true -> st_segwit t = true) ->
  hash_type_supported x ht ->
  lib_digest H H160 t i ht = spec_digest H H160 t i ht /\ spec_digest H H160 t i ht <> None.
Proof. exact digest_ok. Qed.

(* the same with the executable SHA256d / HASH160: no premise on the hashes is left *)
Theorem digest_ok_sha256 : forall t i ht x,
  wf_stx t -> nth_error (st_ins t) i = Some x ->
  (k_segwit (si_kind x) = true -> st_segwit t = true) ->
  hash_type_supported x ht ->
  lib_digest sha256d hash160 t i ht = spec_digest sha256d hash160 t i ht.
Proof. intros t i ht x Hw Hx Hs Hh. apply (digest_ok sha256d hash160 hash160_length t i ht x Hw Hx Hs Hh). Qed.

(* Transaction.verify hashes what Transaction.sign hashed (for the code before fixes/C01-2: when index_n = position) *)
Theorem verify_digest_is_sign_digest : forall (H H160 : bytes -> bytes) bypos t i ht,
  (bypos = false -> index_ok t) -> lib_verify_digest_at H H160 bypos t i ht = lib_digest_at H H160 bypos t i ht.
Proof. exact verify_digest_is_sign_digest. Qed.

(* BIP143 preimages are injective in what they commit to (no assumption on H beyond its output length);
   the conclusion stops at the equality of the three inner hashes *)
Theorem preimage_commits : forall (H H160 : bytes -> bytes),
  (forall b, length (H b) = 32%nat) -> (forall b, length (H160 b) = 20%nat) ->
  forall t t' i i' ht ht' x x' p,
  wf_stx t -> wf_stx t' ->
  nth_error (st_ins t) i = Some x -> nth_error (st_ins t') i' = Some x' ->
  0 <= ht < 2 ^ 32 -> 0 <= ht' < 2 ^ 32 ->
  spec_bip143_preimage H H160 t i ht = Some p -> spec_bip143_preimage H H160 t' i' ht' = Some p ->
  st_version t = st_version t' /\
  ti_prev (si_in x) = ti_prev (si_in x') /\ ti_vout (si_in x) = ti_vout (si_in x') /\
  si_code H160 x = si_code H160 x' /\
  si_value x = si_value x' /\
  ti_seq (si_in x) = ti_seq (si_in x') /\
  st_locktime t = st_locktime t' /\
  ht = ht' /\
  spec_hash_prevouts H t ht = spec_hash_prevouts H t' ht' /\
  spec_hash_sequence H t ht = spec_hash_sequence H t' ht' /\
  spec_hash_outputs H t i ht = spec_hash_outputs H t' i' ht'.
Proof. exact bip143_commits. Qed.

(* ... and one step further, constructively: all outpoints, sequences and outputs are equal, or the proof
   exhibits two different strings with the same H *)
Theorem preimage_commits_or_collision : forall (H H160 : bytes -> bytes),
  (forall b, length (H b) = 32%nat) -> (forall b, length (H160 b) = 20%nat) ->
  forall t t' i i' ht ht' x x' p,
  wf_stx t -> wf_stx t' ->
  nth_error (st_ins t) i = Some x -> nth_error (st_ins t') i' = Some x' ->
  0 <= ht < 2 ^ 32 -> 0 <= ht' < 2 ^ 32 -> legacy_all_like ht = true ->
  spec_bip143_preimage H H160 t i ht = Some p -> spec_bip143_preimage H H160 t' i' ht' = Some p ->
  (outpoints t = outpoints t' /\ sequences t = sequences t' /\ st_outs t = st_outs t') \/ collision H.
Proof. exact bip143_commits_all. Qed.

(* legacy preimages (hash types treated like ALL) determine every committed field outright *)
Theorem legacy_preimage_commits : forall (H160 : bytes -> bytes), (forall b, length (H160 b) = 20%nat) ->
  forall t t' i i' ht ht' x x' p,
  wf_stx t -> wf_stx t' ->
  nth_error (st_ins t) i = Some x -> nth_error (st_ins t') i' = Some x' ->
  0 <= ht < 2 ^ 32 -> 0 <= ht' < 2 ^ 32 -> legacy_all_like ht = true -> legacy_all_like ht' = true ->
  spec_legacy_preimage H160 t i ht = Some p -> spec_legacy_preimage H160 t' i' ht' = Some p ->
  st_version t = st_version t' /\ st_locktime t = st_locktime t' /\ ht = ht' /\
  outpoints t = outpoints t' /\ sequences t = sequences t' /\ st_outs t = st_outs t' /\
  i = i' /\ si_code H160 x = si_code H160 x'.
Proof. exact legacy_commits. Qed.

(* ---------- the life cycle of one Transaction object (Model/Sighash.v: tobj, mut, lib_apply, ob_run) ---------- *)

(* the preimage Transaction.signature returns — every sign_id, hash type and path — is a function of the committed
   fields only: version, locktime, outputs, segwit flag and per input outpoint, sequence, kind, amount, keys, m.
   scriptSig, witness and index_n (so: whether, how often and in which order the object was signed, verified or asked
   for digests) do not enter.  Correspondence obligation named by this theorem: NO HIDDEN STATE — the implementation
   must answer, at any moment, what this function gives on the fields raw() serialises at that moment *)
Theorem lib_digest_depends_only_on_fields : forall (H H160 : bytes -> bytes) t t',
  committed_eq t t' -> forall sid ht wt, lib_signature H H160 t sid ht wt = lib_signature H H160 t' sid ht wt.
Proof. exact signature_depends_only_on_fields. Qed.

(* the same for the digest sign() hashes and the digest verify() asks for, at every position *)
Theorem sign_verify_digest_depend_only_on_fields : forall (H H160 : bytes -> bytes) t t',
  committed_eq t t' -> forall p ht,
  lib_digest H H160 t p ht = lib_digest H H160 t' p ht /\
  lib_verify_digest H H160 t p ht = lib_verify_digest H H160 t' p ht.
Proof. exact digest_depends_only_on_fields. Qed.

(* equal records give equal preimages *)
Theorem equal_fields_equal_preimages : forall (H H160 : bytes -> bytes) (t t' : stx),
  t = t' -> forall sid ht wt, lib_signature H H160 t sid ht wt = lib_signature H H160 t' sid ht wt.
Proof. exact equal_fields_equal_preimages. Qed.

(* after ANY list of steps (observations, attribute assignments, add_input/add_output, set_locktime_*, sign_and_update,
   shuffle) the object answers with the preimage function applied to the fields raw() serialises now *)
Theorem session_no_hidden_state : forall (H H160 : bytes -> bytes) o ms sid ht wt,
  ob_signature H H160 (ob_run o ms) sid ht wt = lib_signature H H160 (ob_fields (ob_run o ms)) sid ht wt.
Proof. exact session_no_hidden_state. Qed.

(* session formulation: the preimage after the steps is the preimage of a freshly constructed / parsed transaction
   holding the final fields *)
Theorem session_digest_is_fresh_digest : forall (H H160 : bytes -> bytes) o ms sid ht wt,
  ob_signature H H160 (ob_run o ms) sid ht wt = ob_signature H H160 (ob_fresh (ob_fields (ob_run o ms))) sid ht wt.
Proof. exact session_digest_is_fresh_digest. Qed.

(* two histories ending in the same committed fields answer alike, whatever was signed on the way *)
Theorem sessions_with_equal_fields_agree : forall (H H160 : bytes -> bytes) o ms o' ms',
  committed_eq (ob_fields (ob_run o ms)) (ob_fields (ob_run o' ms')) ->
  forall sid ht wt, ob_signature H H160 (ob_run o ms) sid ht wt = ob_signature H H160 (ob_run o' ms') sid ht wt.
Proof. exact sessions_with_equal_fields_agree. Qed.

(* computing digests, signing, verifying and serialising leave no trace: a session without them ends in the same object *)
Theorem observations_transparent : forall ms o,
  ob_run o (filter (fun m => negb (is_observation m)) ms) = ob_run o ms.
Proof. exact observations_transparent. Qed.

(* the one duplicated field: every public operation keeps `version` (serialised, committed) and `version_int` equal;
   objects built by Transaction(...), by add_input/add_output and by parse start equal *)
Theorem version_copies_agree : forall ms o,
  forallb keeps_version_copies ms = true -> versions_agree o -> versions_agree (ob_run o ms).
Proof. exact version_copies_agree. Qed.

Theorem build_api_version_copies_agree : forall v lt sw rbf ins outs, versions_agree (ob_build_api v lt sw rbf ins outs).
Proof. exact build_api_agree. Qed.

Theorem digest_commits_to_version_int : forall (H H160 : bytes -> bytes) o,
  versions_agree o -> forall sid ht wt,
  ob_signature H H160 o sid ht wt =
  lib_signature H H160 (mk_stx (ob_version_int o) (ob_ins o) (ob_outs o) (ob_locktime o) (ob_segwit o)) sid ht wt.
Proof. exact digest_commits_to_version_int. Qed.

(* C01 for a live object: whatever happened to it, the digest sign() uses and the digest verify() asks for, for the
   input at position i, is the consensus digest of the transaction raw() serialises now *)
Theorem session_digest_ok : forall (H H160 : bytes -> bytes), (forall b, length (H160 b) = 20%nat) ->
  forall o ms i ht x,
  wf_stx (ob_fields (ob_run o ms)) -> nth_error (ob_ins (ob_run o ms)) i = Some x ->
  (k_segwit (si_kind x) = true -> ob_segwit (ob_run o ms) = true) ->
  hash_type_supported x ht ->
  ob_digest H H160 (ob_run o ms) i ht = spec_digest H H160 (ob_fields (ob_run o ms)) i ht /\
  ob_verify_digest H H160 (ob_run o ms) i ht = spec_digest H H160 (ob_fields (ob_run o ms)) i ht.
Proof. exact session_digest_ok. Qed.

(* (re-)signing a P2PK input (script_type 'signature') puts the NEW signature into the scriptSig raw() serialises
   (repaired, fixes/C01-3; the code before kept the scriptSig made for the previous digest: see
   p2pk_resign_unrepaired_refuted) *)
Theorem p2pk_resign_scriptsig_ok : forall old sig, lib_p2pk_scriptsig old sig = lib_varstr sig.
Proof. exact p2pk_resign_scriptsig_ok. Qed.

(* ---------- non-vacuity: the hypotheses are inhabited by a two-input mixed transaction ---------- *)

Example ex_tx_wf : wf_stx ex_tx /\ index_ok ex_tx.
Proof. exact ex_tx_wf_proof. Qed.

Example ex_tx_digests :
  opt_eqb (lib_digest sha256d hash160 ex_tx 0 131) (spec_digest sha256d hash160 ex_tx 0 131) = true /\
  opt_eqb (lib_digest sha256d hash160 ex_tx 1 1) (spec_digest sha256d hash160 ex_tx 1 1) = true /\
  lib_digest sha256d hash160 ex_tx 0 131 <> None /\ lib_digest sha256d hash160 ex_tx 1 1 <> None.
Proof. vm_compute. repeat split; discriminate. Qed.

(* ---------- witnesses for the classes the guards exclude ---------- *)

(* finding C01-1 (repaired): with the comparison as it was before the repair, SIGHASH_SINGLE commits to 32 zero
   bytes and SIGHASH_NONE to the hash of output i *)
Example bip143_unrepaired_refuted :
  lib_bip143_preimage_at sha256d hash160 false ex_tx 0 3 <> spec_bip143_preimage sha256d hash160 ex_tx 0 3 /\
  lib_bip143_preimage_at sha256d hash160 false ex_tx 0 2 <> spec_bip143_preimage sha256d hash160 ex_tx 0 2.
Proof. split; apply opt_eqb_false; vm_compute; reflexivity. Qed.

(* legacy path, hash types other than ALL-like: raw(sign_id) ignores the hash type *)
Example legacy_non_all_refuted :
  lib_legacy_preimage hash160 ex_tx 1 2 <> spec_legacy_preimage hash160 ex_tx 1 2 /\
  lib_legacy_preimage hash160 ex_tx 1 3 <> spec_legacy_preimage hash160 ex_tx 1 3 /\
  lib_legacy_preimage hash160 ex_tx 1 129 <> spec_legacy_preimage hash160 ex_tx 1 129.
Proof. repeat split; apply opt_eqb_false; vm_compute; reflexivity. Qed.

(* finding C01-2 (repaired): with the input found by its index_n attribute, a transaction whose index_n values
   differ from the positions is signed over a digest that is not the consensus digest, and verify() asks for yet
   another one; the repaired code gives the consensus digest whatever index_n holds *)
Example index_not_position_refuted :
  lib_digest_at sha256d hash160 false ex_tx_perm 1 1 <> spec_digest sha256d hash160 ex_tx_perm 1 1 /\
  lib_verify_digest_at sha256d hash160 false ex_tx_perm 1 1 <> lib_digest_at sha256d hash160 false ex_tx_perm 1 1 /\
  lib_digest sha256d hash160 ex_tx_perm 1 1 = spec_digest sha256d hash160 ex_tx_perm 1 1.
Proof.
  split; [apply opt_eqb_false; vm_compute; reflexivity|].
  split; [apply opt_eqb_false; vm_compute; reflexivity|apply opt_eqb_true; vm_compute; reflexivity].
Qed.

(* amount 0 is refused by the library although consensus defines the digest *)
Example zero_value_refused :
  lib_bip143_preimage sha256d hash160 ex_tx_zero 0 1 = None /\ spec_bip143_preimage sha256d hash160 ex_tx_zero 0 1 <> None.
Proof. split; [vm_compute; reflexivity|vm_compute; discriminate]. Qed.

(* an output script equal to the single byte 00 is written without its length byte (C06 single_zero_byte_item) *)
Example zero_byte_script_refuted :
  lib_bip143_preimage sha256d hash160 ex_tx_zscript 0 1 <> spec_bip143_preimage sha256d hash160 ex_tx_zscript 0 1.
Proof. apply opt_eqb_false; vm_compute; reflexivity. Qed.

(* the legacy serialization asked for a P2SH-P2WSH input (never done by sign/verify) has an empty script *)
Example legacy_path_nested_refuted :
  lib_legacy_preimage hash160 ex_tx_nested 1 1 <> spec_legacy_preimage hash160 ex_tx_nested 1 1.
Proof. apply opt_eqb_false; vm_compute; reflexivity. Qed.

(* class "witness type of an input inferred wrongly" (seeded change C01-u: a P2WPKH locking script passed with the keys is
   no longer parsed, the input stays 'legacy'): the witness type an input holds selects the digest algorithm, and for a
   native segwit input only the one of its kind (k_wtype) gives the consensus preimage — the legacy serialisation of the
   same object does not.  The harness reads the type the library holds per input (`inf`) and compares it with k_wtype. *)
Example wrong_witness_type_refuted :
  (exists x, nth_error (st_ins ex_tx) 0 = Some x /\ k_wtype (si_kind x) = WT_segwit) /\
  opt_eqb (lib_signature_at sha256d hash160 true ex_tx 0 1 WT_segwit) (spec_preimage sha256d hash160 ex_tx 0 1) = true /\
  lib_signature_at sha256d hash160 true ex_tx 0 1 WT_legacy <> spec_preimage sha256d hash160 ex_tx 0 1.
Proof.
  split; [eexists; split; [reflexivity|reflexivity]|].
  split; [vm_compute; reflexivity|apply opt_eqb_false; vm_compute; reflexivity].
Qed.

(* ---------- life cycle: a concrete object and session ---------- *)

(* built with the default version; signed, looked at, relative locktime on input 0, verified, absolute locktime, input
   1 opted into RBF, re-signed: the fields raw() then serialises (version 2 through set_locktime_relative_blocks) *)
Example ex_session_fields : ob_fields (ob_run ex_obj ex_session) = ex_final.
Proof. exact ex_session_fields_proof. Qed.

Example ex_session_wf :
  wf_stx (ob_fields (ob_run ex_obj ex_session)) /\
  forallb keeps_version_copies ex_session = true /\ versions_agree ex_obj /\
  exists x, nth_error (ob_ins (ob_run ex_obj ex_session)) 0 = Some x /\
            (k_segwit (si_kind x) = true -> ob_segwit (ob_run ex_obj ex_session) = true) /\
            hash_type_supported x 1.
Proof. exact ex_session_wf_proof. Qed.

Example ex_session_digests :
  opt_eqb (ob_digest sha256d hash160 (ob_run ex_obj ex_session) 0 1) (spec_digest sha256d hash160 ex_final 0 1) = true /\
  opt_eqb (ob_digest sha256d hash160 (ob_run ex_obj ex_session) 1 1) (spec_digest sha256d hash160 ex_final 1 1) = true /\
  ob_digest sha256d hash160 (ob_run ex_obj ex_session) 0 1 <> None.
Proof. vm_compute. repeat split; discriminate. Qed.

(* add_input's BIP68 rule: a default (version 1) transaction that receives a relative-locktime sequence is a
   version 2 transaction in BOTH copies; without such a sequence it stays version 1 *)
Example bip68_upgrade_on_add_input :
  ob_version ex_built = 2 /\ ob_version_int ex_built = 2 /\ ob_version ex_obj = 1 /\ ob_version_int ex_obj = 1.
Proof. vm_compute. repeat split. Qed.

(* class "remembered inner hash": what was right before an in-place change is wrong after it — hashSequence and the
   digest of input 0 before and after the session differ, so nothing may be carried over between calls *)
Example stale_inner_hash_refuted :
  spec_hash_sequence sha256d (ob_fields (ob_run ex_obj [M_sign; M_digest])) 1 <>
  spec_hash_sequence sha256d (ob_fields (ob_run ex_obj ex_session)) 1 /\
  ob_digest sha256d hash160 (ob_run ex_obj [M_sign; M_digest]) 0 1 <> ob_digest sha256d hash160 (ob_run ex_obj ex_session) 0 1.
Proof.
  split; [vm_compute; discriminate|apply opt_eqb_false; vm_compute; reflexivity].
Qed.

(* class "copies of one field diverge" (the guard keeps_version_copies): assigning version_int alone separates the
   copies, and a preimage committing to version_int is then not the consensus preimage of what raw() serialises;
   likewise a preimage that kept version 1 for the BIP68-upgraded transaction *)
Example version_int_alone_refuted :
  ~ versions_agree (ob_run ex_obj [M_version_int 2]) /\
  (let o := ob_run ex_obj [M_version_int 2] in
   lib_bip143_preimage sha256d hash160 (mk_stx (ob_version_int o) (ob_ins o) (ob_outs o) (ob_locktime o) (ob_segwit o)) 0 1
   <> spec_bip143_preimage sha256d hash160 (ob_fields o) 0 1) /\
  lib_bip143_preimage sha256d hash160 (mk_stx 1 (ob_ins ex_built) (ob_outs ex_built) (ob_locktime ex_built) true) 0 1
   <> spec_bip143_preimage sha256d hash160 (ob_fields ex_built) 0 1.
Proof.
  split; [vm_compute; discriminate|]. split; apply opt_eqb_false; vm_compute; reflexivity.
Qed.

(* finding C01-3: before the repair a second signature of a P2PK input never reaches raw(): the scriptSig written
   for the first digest stays (only an empty scriptSig is filled in) *)
Example p2pk_resign_unrepaired_refuted :
  lib_p2pk_scriptsig_at false [x47; x30; x44] [x48; x30; x45] <> lib_varstr [x48; x30; x45] /\
  lib_p2pk_scriptsig_at false [] [x48; x30; x45] = lib_varstr [x48; x30; x45].
Proof. split; [vm_compute; discriminate|reflexivity]. Qed.

Print Assumptions wire_source_is_model.
Print Assumptions script_code_ok.
Print Assumptions legacy_preimage_ok.
Print Assumptions legacy_preimage_ok_ALL.
Print Assumptions legacy_preimage_unrepaired_ok.
Print Assumptions bip143_preimage_ok.
Print Assumptions bip143_preimage_ok_ALL.
Print Assumptions digest_ok.
Print Assumptions digest_ok_sha256.
Print Assumptions verify_digest_is_sign_digest.
Print Assumptions preimage_commits.
Print Assumptions preimage_commits_or_collision.
Print Assumptions legacy_preimage_commits.
Print Assumptions lib_digest_depends_only_on_fields.
Print Assumptions sign_verify_digest_depend_only_on_fields.
Print Assumptions equal_fields_equal_preimages.
Print Assumptions session_no_hidden_state.
Print Assumptions session_digest_is_fresh_digest.
Print Assumptions sessions_with_equal_fields_agree.
Print Assumptions observations_transparent.
Print Assumptions version_copies_agree.
Print Assumptions build_api_version_copies_agree.
Print Assumptions digest_commits_to_version_int.
Print Assumptions session_digest_ok.
Print Assumptions p2pk_resign_scriptsig_ok.
