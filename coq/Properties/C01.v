(* Properties/C01.v — signed digests equal the Bitcoin consensus sighash (legacy SignatureHash and BIP143).
   Model: Model/Sighash.v (lib_* mirrors bitcoinlib/transactions.py with fixes/C01-1 applied; spec_* is Bitcoin
   Core's SignatureHash and the BIP143 text).  H is the double hash, H160 is HASH160: the theorems hold for ANY
   two functions; the only premises on them are the output lengths where a statement needs them. *)
From Coq Require Import ZArith List Bool.
From Coq.Strings Require Import Byte.
From Verif Require Import Lib.Bytes Model.Wire Model.TxCodec Model.Sighash
  Proofs.Sighash Proofs.SighashEq Proofs.SighashCommit Crypto.Sha256 Crypto.Ripemd160 Crypto.HashLemmas.
Import ListNotations.
Open Scope Z_scope.

(* the script code the library commits to is the consensus script code, for every input kind, key list and m *)
Theorem script_code_ok : forall (H160 : bytes -> bytes) k keys m,
  wf_keys keys m -> lib_script_code H160 k keys m = Some (spec_script_code H160 k keys m).
Proof. exact script_code_ok. Qed.

(* Transaction.raw(sign_id, hash_type, 'legacy') (repaired, fixes/C01-2) is Core's legacy SignatureHash serialization
   for every hash type that is treated like SIGHASH_ALL; nothing is assumed about Input.index_n *)
Theorem legacy_preimage_ok : forall (H160 : bytes -> bytes), (forall b, length (H160 b) = 20%nat) ->
  forall t i ht x,
  wf_stx t -> nth_error (st_ins t) i = Some x -> si_kind x <> K_p2sh_p2wsh ->
  legacy_all_like ht = true -> 0 <= ht < 2 ^ 32 ->
  lib_legacy_preimage H160 t (Z.of_nat i) ht = spec_legacy_preimage H160 t i ht.
Proof. exact legacy_preimage_ok. Qed.

Theorem legacy_preimage_ok_ALL : forall (H160 : bytes -> bytes), (forall b, length (H160 b) = 20%nat) ->
  forall t i x,
  wf_stx t -> nth_error (st_ins t) i = Some x -> k_segwit (si_kind x) = false ->
  lib_legacy_preimage H160 t (Z.of_nat i) 1 = spec_legacy_preimage H160 t i 1.
Proof.
  intros H160 Hl t i x Hw Hx Hk.
  apply (legacy_preimage_ok H160 Hl t i 1 x Hw Hx); [intros E; rewrite E in Hk; discriminate Hk|reflexivity|].
  split; [discriminate|reflexivity].
Qed.

(* the code as it was before fixes/C01-2 (input found by its index_n attribute): the same statement needs the
   hypothesis index_n = list position; see index_not_position_refuted below *)
Theorem legacy_preimage_unrepaired_ok : forall (H160 : bytes -> bytes), (forall b, length (H160 b) = 20%nat) ->
  forall t i ht x,
  wf_stx t -> index_ok t -> nth_error (st_ins t) i = Some x -> si_kind x <> K_p2sh_p2wsh ->
  legacy_all_like ht = true -> 0 <= ht < 2 ^ 32 ->
  lib_legacy_preimage_at H160 false t (Z.of_nat i) ht = spec_legacy_preimage H160 t i ht.
Proof. exact legacy_preimage_unrepaired_ok. Qed.

(* Transaction.signature_segwit (repaired) is the BIP143 preimage for EVERY hash type: ALL, NONE, SINGLE, the three
   ANYONECANPAY combinations, SINGLE without a matching output, and every other 32-bit value *)
Theorem bip143_preimage_ok : forall (H H160 : bytes -> bytes), (forall b, length (H160 b) = 20%nat) ->
  forall t i ht x,
  wf_stx t -> st_segwit t = true -> nth_error (st_ins t) i = Some x -> 0 <= ht < 2 ^ 32 ->
  lib_bip143_preimage H H160 t i ht = spec_bip143_preimage H H160 t i ht.
Proof. exact bip143_preimage_ok. Qed.

Theorem bip143_preimage_ok_ALL : forall (H H160 : bytes -> bytes), (forall b, length (H160 b) = 20%nat) ->
  forall t i x,
  wf_stx t -> st_segwit t = true -> nth_error (st_ins t) i = Some x ->
  lib_bip143_preimage H H160 t i 1 = spec_bip143_preimage H H160 t i 1.
Proof.
  intros H H160 Hl t i x Hw Hs Hx. apply (bip143_preimage_ok H H160 Hl t i 1 x Hw Hs Hx).
  split; [discriminate|reflexivity].
Qed.

(* the digest Transaction.sign computes for the input at position i is the consensus digest: H of the legacy
   preimage for legacy inputs, H of the BIP143 preimage for native and P2SH-nested segwit inputs *)
Theorem digest_ok : forall (H H160 : bytes -> bytes), (forall b, length (H160 b) = 20%nat) ->
  forall t i ht x,
  wf_stx t -> nth_error (st_ins t) i = Some x ->
  (k_segwit (si_kind x) = true -> st_segwit t = true) ->
  hash_type_supported x ht ->
  lib_digest H H160 t i ht = spec_digest H H160 t i ht /\ spec_digest H H160 t i ht <> None.
Proof. exact digest_ok. Qed.

(* the same with the executable SHA256d / HASH160: no premise on the hashes is left *)
Theorem digest_ok_sha256 : forall t i ht x,
  wf_stx t -> nth_error (st_ins t) i = Some x ->
  (k_segwit (si_kind x) = true -> st_segwit t = true) ->
  hash_type_supported x ht ->
  lib_digest sha256d hash160 t i ht = spec_digest sha256d hash160 t i ht.
Proof. intros t i ht x Hw Hx Hs Hh. apply (digest_ok sha256d hash160 hash160_length t i ht x Hw Hx Hs Hh). Qed.

(* Transaction.verify hashes what Transaction.sign hashed (for the code before fixes/C01-2: when index_n = position) *)
Theorem verify_digest_is_sign_digest : forall (H H160 : bytes -> bytes) bypos t i ht,
  (bypos = false -> index_ok t) -> lib_verify_digest_at H H160 bypos t i ht = lib_digest_at H H160 bypos t i ht.
Proof. exact verify_digest_is_sign_digest. Qed.

(* BIP143 preimages are injective in what they commit to (no assumption on H beyond its output length);
   the conclusion stops at the equality of the three inner hashes *)
Theorem preimage_commits : forall (H H160 : bytes -> bytes),
  (forall b, length (H b) = 32%nat) -> (forall b, length (H160 b) = 20%nat) ->
  forall t t' i i' ht ht' x x' p,
  wf_stx t -> wf_stx t' ->
  nth_error (st_ins t) i = Some x -> nth_error (st_ins t') i' = Some x' ->
  0 <= ht < 2 ^ 32 -> 0 <= ht' < 2 ^ 32 ->
  spec_bip143_preimage H H160 t i ht = Some p -> spec_bip143_preimage H H160 t' i' ht' = Some p ->
  st_version t = st_version t' /\
  ti_prev (si_in x) = ti_prev (si_in x') /\ ti_vout (si_in x) = ti_vout (si_in x') /\
  si_code H160 x = si_code H160 x' /\
  si_value x = si_value x' /\
  ti_seq (si_in x) = ti_seq (si_in x') /\
  st_locktime t = st_locktime t' /\
  ht = ht' /\
  spec_hash_prevouts H t ht = spec_hash_prevouts H t' ht' /\
  spec_hash_sequence H t ht = spec_hash_sequence H t' ht' /\
  spec_hash_outputs H t i ht = spec_hash_outputs H t' i' ht'.
Proof. exact bip143_commits. Qed.

(* ... and one step further, constructively: all outpoints, sequences and outputs are equal, or the proof
   exhibits two different strings with the same H *)
Theorem preimage_commits_or_collision : forall (H H160 : bytes -> bytes),
  (forall b, length (H b) = 32%nat) -> (forall b, length (H160 b) = 20%nat) ->
  forall t t' i i' ht ht' x x' p,
  wf_stx t -> wf_stx t' ->
  nth_error (st_ins t) i = Some x -> nth_error (st_ins t') i' = Some x' ->
  0 <= ht < 2 ^ 32 -> 0 <= ht' < 2 ^ 32 -> legacy_all_like ht = true ->
  spec_bip143_preimage H H160 t i ht = Some p -> spec_bip143_preimage H H160 t' i' ht' = Some p ->
  (outpoints t = outpoints t' /\ sequences t = sequences t' /\ st_outs t = st_outs t') \/ collision H.
Proof. exact bip143_commits_all. Qed.

(* legacy preimages (hash types treated like ALL) determine every committed field outright *)
Theorem legacy_preimage_commits : forall (H160 : bytes -> bytes), (forall b, length (H160 b) = 20%nat) ->
  forall t t' i i' ht ht' x x' p,
  wf_stx t -> wf_stx t' ->
  nth_error (st_ins t) i = Some x -> nth_error (st_ins t') i' = Some x' ->
  0 <= ht < 2 ^ 32 -> 0 <= ht' < 2 ^ 32 -> legacy_all_like ht = true -> legacy_all_like ht' = true ->
  spec_legacy_preimage H160 t i ht = Some p -> spec_legacy_preimage H160 t' i' ht' = Some p ->
  st_version t = st_version t' /\ st_locktime t = st_locktime t' /\ ht = ht' /\
  outpoints t = outpoints t' /\ sequences t = sequences t' /\ st_outs t = st_outs t' /\
  i = i' /\ si_code H160 x = si_code H160 x'.
Proof. exact legacy_commits. Qed.

(* ---------- non-vacuity: the hypotheses are inhabited by a two-input mixed transaction ---------- *)

Example ex_tx_wf : wf_stx ex_tx /\ index_ok ex_tx.
Proof. exact ex_tx_wf_proof. Qed.

Example ex_tx_digests :
  opt_eqb (lib_digest sha256d hash160 ex_tx 0 131) (spec_digest sha256d hash160 ex_tx 0 131) = true /\
  opt_eqb (lib_digest sha256d hash160 ex_tx 1 1) (spec_digest sha256d hash160 ex_tx 1 1) = true /\
  lib_digest sha256d hash160 ex_tx 0 131 <> None /\ lib_digest sha256d hash160 ex_tx 1 1 <> None.
Proof. vm_compute. repeat split; discriminate. Qed.

(* ---------- witnesses for the classes the guards exclude ---------- *)

(* finding C01-1 (repaired): with the comparison as it was before the repair, SIGHASH_SINGLE commits to 32 zero
   bytes and SIGHASH_NONE to the hash of output i *)
Example bip143_unrepaired_refuted :
  lib_bip143_preimage_at sha256d hash160 false ex_tx 0 3 <> spec_bip143_preimage sha256d hash160 ex_tx 0 3 /\
  lib_bip143_preimage_at sha256d hash160 false ex_tx 0 2 <> spec_bip143_preimage sha256d hash160 ex_tx 0 2.
Proof. split; apply opt_eqb_false; vm_compute; reflexivity. Qed.

(* legacy path, hash types other than ALL-like: raw(sign_id) ignores the hash type *)
Example legacy_non_all_refuted :
  lib_legacy_preimage hash160 ex_tx 1 2 <> spec_legacy_preimage hash160 ex_tx 1 2 /\
  lib_legacy_preimage hash160 ex_tx 1 3 <> spec_legacy_preimage hash160 ex_tx 1 3 /\
  lib_legacy_preimage hash160 ex_tx 1 129 <> spec_legacy_preimage hash160 ex_tx 1 129.
Proof. repeat split; apply opt_eqb_false; vm_compute; reflexivity. Qed.

(* finding C01-2 (repaired): with the input found by its index_n attribute, a transaction whose index_n values
   differ from the positions is signed over a digest that is not the consensus digest, and verify() asks for yet
   another one; the repaired code gives the consensus digest whatever index_n holds *)
Example index_not_position_refuted :
  lib_digest_at sha256d hash160 false ex_tx_perm 1 1 <> spec_digest sha256d hash160 ex_tx_perm 1 1 /\
  lib_verify_digest_at sha256d hash160 false ex_tx_perm 1 1 <> lib_digest_at sha256d hash160 false ex_tx_perm 1 1 /\
  lib_digest sha256d hash160 ex_tx_perm 1 1 = spec_digest sha256d hash160 ex_tx_perm 1 1.
Proof.
  split; [apply opt_eqb_false; vm_compute; reflexivity|].
  split; [apply opt_eqb_false; vm_compute; reflexivity|apply opt_eqb_true; vm_compute; reflexivity].
Qed.

(* amount 0 is refused by the library although consensus defines the digest *)
Example zero_value_refused :
  lib_bip143_preimage sha256d hash160 ex_tx_zero 0 1 = None /\ spec_bip143_preimage sha256d hash160 ex_tx_zero 0 1 <> None.
Proof. split; [vm_compute; reflexivity|vm_compute; discriminate]. Qed.

(* an output script equal to the single byte 00 is written without its length byte (C06 single_zero_byte_item) *)
Example zero_byte_script_refuted :
  lib_bip143_preimage sha256d hash160 ex_tx_zscript 0 1 <> spec_bip143_preimage sha256d hash160 ex_tx_zscript 0 1.
Proof. apply opt_eqb_false; vm_compute; reflexivity. Qed.

(* the legacy serialization asked for a P2SH-P2WSH input (never done by sign/verify) has an empty script *)
Example legacy_path_nested_refuted :
  lib_legacy_preimage hash160 ex_tx_nested 1 1 <> spec_legacy_preimage hash160 ex_tx_nested 1 1.
Proof. apply opt_eqb_false; vm_compute; reflexivity. Qed.

Print Assumptions script_code_ok.
Print Assumptions legacy_preimage_ok.
Print Assumptions legacy_preimage_ok_ALL.
Print Assumptions legacy_preimage_unrepaired_ok.
Print Assumptions bip143_preimage_ok.
Print Assumptions bip143_preimage_ok_ALL.
Print Assumptions digest_ok.
Print Assumptions digest_ok_sha256.
Print Assumptions verify_digest_is_sign_digest.
Print Assumptions preimage_commits.
Print Assumptions preimage_commits_or_collision.
Print Assumptions legacy_preimage_commits.
