(* Properties/C20.v — the service layer fails over between providers and never fabricates answers.
   Only statements closed by [exact lemma], non-vacuity examples, refutation witnesses for the classes excluded by a
   guard, and Print Assumptions. *)
From Coq Require Import ZArith List Bool Permutation Sorted.
From Verif Require Import Gen.GenService Gen.GenConsts Gen.GenNetworks Model.CacheModel Model.Service
  Proofs.ServiceExec Proofs.ServiceCache Proofs.ServiceWrappers Proofs.ServiceGlue Proofs.ServiceAddrCache.
Import ListNotations.
Open Scope Z_scope.

(* --- _provider_execute: all provider lists (any order), all outcome assignments, all settings --- *)

(* a returned value is the answer of the first provider (in the given order) that answers; .results is a prefix of
   the answers in order, every entry is what that provider returned, at most max_providers of them *)
Theorem result_is_a_provider_answer : forall st ps v res errs,
  lib_provider_execute st ps = (Value v, res, errs) ->
  (exists pre n post, ps = pre ++ (n, Ok v) :: post /\ no_ok pre) /\
  (exists k, res = firstn k (oks ps)) /\
  (forall n w, In (n, w) res -> In (n, Ok w) ps) /\
  (exists n rest, res = (n, v) :: rest) /\
  Z.of_nat (length res) <= Z.max (eff_maxp st) 0.
Proof. exact exec_result_is_first_answer. Qed.

(* exactly when a value / False / ServiceError comes out *)
Theorem fails_only_when_nobody_answers : forall st ps,
  (forall v, fst (fst (lib_provider_execute st ps)) = Value v <-> 0 < eff_maxp st /\ answers_first (st_maxe st) 0 ps v) /\
  (fst (fst (lib_provider_execute st ps)) = RetFalse <-> 0 < eff_maxp st /\ limit_first (st_maxe st) 0 ps) /\
  (fst (fst (lib_provider_execute st ps)) = ServiceErr <-> eff_maxp st <= 0 \/ nobody_answers (st_maxe st) 0 ps).
Proof. exact exec_trichotomy. Qed.

(* skipped providers change nothing; only answering providers reach .results, only raising / empty ones .errors *)
Theorem skips_are_skipped : forall st ps,
  lib_provider_execute st (filter (fun p => negb (is_skip (snd p))) ps) = lib_provider_execute st ps /\
  (forall r res errs, lib_provider_execute st ps = (r, res, errs) ->
     (forall n w, In (n, w) res -> In (n, Ok w) ps) /\
     (forall n t, In (n, t) errs ->
        exists o, In (n, o) ps /\ match t with EExc e => o = Raise e | EEmpty => o = Empty end)).
Proof. exact skips_combined. Qed.

(* providers are tried by descending (priority, tie-break) and none is lost or duplicated *)
Theorem order_is_a_permutation : forall l, Permutation (lib_order l) l.
Proof. exact lib_order_perm. Qed.
Theorem order_respects_priority : forall l, StronglySorted key_ge (lib_order l).
Proof. exact lib_order_sorted. Qed.

Example failover_example :
  lib_provider_execute {| st_minp := 1; st_maxp := 1; st_maxe := 4; st_net := nw_bitcoin |}
    [(0, Raise 7); (1, Skip); (2, Empty); (3, RaiseAttr); (4, Ok (VInt 42)); (5, Ok (VInt 43))]
  = (Value (VInt 42), [(4, VInt 42)], [(0, EExc 7); (2, EEmpty)]).
Proof. vm_compute; reflexivity. Qed.

Example two_providers_example :
  lib_provider_execute {| st_minp := 2; st_maxp := 1; st_maxe := 4; st_net := nw_bitcoin |}
    [(0, Ok (VInt 1)); (1, Raise 3); (2, Ok (VInt 2)); (3, Ok (VInt 3))]
  = (Value (VInt 1), [(0, VInt 1); (2, VInt 2)], [(1, EExc 3)]).
Proof. vm_compute; reflexivity. Qed.

(* recorded peculiarity: an empty answer is written to .errors but the limit is only tested on an exception;
   an AttributeError is not written but the limit is tested *)
Example empty_not_tested_against_limit :
  lib_provider_execute {| st_minp := 1; st_maxp := 1; st_maxe := 1; st_net := nw_bitcoin |} [(0, Empty); (1, Ok (VInt 5))]
  = (Value (VInt 5), [(1, VInt 5)], [(0, EEmpty)]) /\
  lib_provider_execute {| st_minp := 1; st_maxp := 1; st_maxe := 1; st_net := nw_bitcoin |} [(0, Empty); (1, RaiseAttr); (2, Ok (VInt 5))]
  = (RetFalse, [], [(0, EEmpty)]).
Proof. split; vm_compute; reflexivity. Qed.

Example order_example :
  map p_id (lib_order [{| p_id := 0; p_prio := 10; p_tb := 3 |}; {| p_id := 1; p_prio := 20; p_tb := 1 |};
                       {| p_id := 2; p_prio := 10; p_tb := 9 |}]) = [1; 2; 0].
Proof. vm_compute; reflexivity. Qed.

(* --- wrappers: where a normally returned value comes from --- *)

(* unless the error limit was reached before anybody answered, and provided the answers have the type the wrapper
   expects, every wrapper returns a provider's answer or a cached copy *)
Theorem wrappers_do_not_fabricate : forall st ps c s v c' s',
  ~ limit_reached st ps ->
  (passthrough st ps c s = (WRet v, c', s') -> provider_answer ps v) /\
  (forall txid, lib_getrawtransaction st ps txid c s = (WRet v, c', s') ->
     (exists t, cache_gettx c txid = Some t /\ v = VRaw (t_content t)) \/ provider_answer ps v) /\
  (forall txid, tx_answers txid ps -> lib_gettransaction st ps txid c s = (WRet v, c', s') ->
     (exists t, cache_gettx c txid = Some t /\ v = VTx t) \/ provider_answer ps v) /\
  (forall addr, lib_getutxos st ps addr c s = (WRet v, c', s') -> provider_answer ps v) /\
  (forall rf now bc_ps ps0 addr, never_synced c addr -> int_answers ps ->
     lib_getbalance_gen rf st now bc_ps ps ps0 addr c s = (WRet v, c', s') -> provider_answer ps v) /\
  (forall now blocks, fee_answers (st_net st) ps -> lib_estimatefee st now ps blocks c s = (WRet v, c', s') ->
     (exists f, cache_estimatefee c now blocks = Some f /\ v = VInt f) \/ provider_answer ps v) /\
  (forall txid, lib_isspent st ps txid c s = (WRet v, c', s') ->
     (exists t b, cache_gettx c txid = Some t /\ t_spent t = Some b /\ v = VBool b) \/
     (exists a, provider_answer ps a /\ v = VBool (truthy a))).
Proof. exact wrappers_guarded. Qed.

(* the complete list of origins, without any guard (the extra disjuncts are the recorded finding classes) *)
Theorem passthrough_origins : forall st ps c s v c' s',
  passthrough st ps c s = (WRet v, c', s') ->
  c' = c /\ (provider_answer ps v \/ (v = VBool false /\ limit_reached st ps)).
Proof. exact passthrough_origin. Qed.

Theorem passthrough_raises_iff : forall st ps c s,
  fst (fst (passthrough st ps c s)) = WServiceErr <-> eff_maxp st <= 0 \/ nobody_answers (st_maxe st) 0 ps.
Proof. exact passthrough_error_iff. Qed.

Theorem gettransaction_origins : forall st ps txid c s v c' s',
  lib_gettransaction st ps txid c s = (WRet v, c', s') ->
  (exists t, st_minp st <= 1 /\ cache_gettx c txid = Some t /\ v = VTx t /\ c' = c) \/
  (exists t, provider_answer ps (VTx t) /\ v = VTx (relabel t txid) /\
             c' = (if st_minp st <=? 1 then cache_store_tx c (relabel t txid) else c)) \/
  (provider_answer ps v /\ truthy v = false /\ c' = c) \/
  (v = VBool false /\ limit_reached st ps /\ c' = c).
Proof. exact gettransaction_origin. Qed.

Theorem getutxos_never_fabricates : forall st ps addr c s v c' s',
  lib_getutxos st ps addr c s = (WRet v, c', s') -> provider_answer ps v /\ exists vals, v = VUtxos vals.
Proof. exact getutxos_origin. Qed.

Theorem getbalance_origins : forall rf st now bc_ps ps ps0 addr c s v c' s',
  never_synced c addr ->
  lib_getbalance_gen rf st now bc_ps ps ps0 addr c s = (WRet v, c', s') ->
  (exists b, provider_answer ps b /\
     ((exists z, b = VInt z /\ v = VInt z /\ c' = cache_store_address c addr None (Some z) None) \/
      (forall z, b <> VInt z) /\ exists z, v = VInt z)) \/
  (rf = false /\ limit_reached st ps /\ v = VInt 0 /\ c' = cache_store_address c addr None (Some 0) None).
Proof. exact getbalance_origin. Qed.

(* with `if balance is False: raise` in getbalance the zero cannot be invented at the limit *)
Theorem getbalance_repaired : forall st now bc_ps ps ps0 addr c s v c' s',
  never_synced c addr ->
  lib_getbalance_gen true st now bc_ps ps ps0 addr c s = (WRet v, c', s') ->
  exists b, provider_answer ps b /\ ((exists z, b = VInt z /\ v = VInt z) \/ (forall z, b <> VInt z)).
Proof. exact getbalance_repaired_no_zero. Qed.

Theorem estimatefee_origins : forall st now ps blocks c s v c' s',
  lib_estimatefee st now ps blocks c s = (WRet v, c', s') ->
  (exists f, st_minp st <= 1 /\ cache_estimatefee c now blocks = Some f /\ v = VInt f /\ c' = c) \/
  (exists b f, provider_answer ps b /\ truthy b = true /\ as_num b = Some f /\
               v = VInt (clamp_fee (st_net st) f) /\ c' = cache_store_fee c now blocks (clamp_fee (st_net st) f)) \/
  (exists d, nw_fee_default (st_net st) = Some d /\ v = VInt (clamp_fee (st_net st) d) /\
             c' = cache_store_fee c now blocks (clamp_fee (st_net st) d) /\
             (limit_reached st ps \/ exists b, provider_answer ps b /\ truthy b = false)).
Proof. exact estimatefee_origin. Qed.

Theorem isspent_origins : forall st ps txid c s v c' s',
  lib_isspent st ps txid c s = (WRet v, c', s') ->
  c' = c /\
  ((exists t b, cache_gettx c txid = Some t /\ t_spent t = Some b /\ v = VBool b) \/
   (exists a, provider_answer ps a /\ v = VBool (truthy a)) \/
   (v = VBool false /\ limit_reached st ps)).
Proof. exact isspent_origin. Qed.

(* non-vacuity of the guard: a healthy call *)
Example wrappers_example :
  lib_getbalance_gen false (st1 4 nw_bitcoin) 1000000 [] [(0, Raise 1); (1, Ok (VInt 5))] [] 0 (empty_cache true) svc0
  = (WRet (VInt 5), cache_store_address (empty_cache true) 0 None (Some 5) None,
     set_exec svc0 [(1, VInt 5)] [(0, EExc 1)]) /\
  ~ limit_reached (st1 4 nw_bitcoin) [(0, Raise 1); (1, Ok (VInt 5))].
Proof.
  split; [vm_compute; reflexivity |].
  intros [_ H]. apply scan_false in H. vm_compute in H. discriminate.
Qed.

(* refutation witnesses: at the error limit the wrappers return values nobody answered *)
Example wrappers_do_not_fabricate_refuted_getbalance :
  lib_getbalance_gen false (st1 1 nw_bitcoin) 1000000 [] [(0, Raise 1); (1, Ok (VInt 5))] [] 0 (empty_cache true) svc0
  = (WRet (VInt 0), cache_store_address (empty_cache true) 0 None (Some 0) None, set_exec svc0 [] [(0, EExc 1)]) /\
  cache_getaddr (cache_store_address (empty_cache true) 0 None (Some 0) None) 0
  = Some {| a_balance := Some 0; a_last_block := None; a_n_txs := None; a_n_utxos := None |}.
Proof. split; vm_compute; reflexivity. Qed.

Example wrappers_do_not_fabricate_refuted_false :
  passthrough (st1 1 nw_bitcoin) [(0, Raise 1); (1, Ok (VDict 7))] (empty_cache true) svc0
  = (WRet (VBool false), empty_cache true, set_exec svc0 [] [(0, EExc 1)]) /\
  fst (fst (lib_gettransaction (st1 1 nw_bitcoin) [(0, Raise 1)] 0 (empty_cache true) svc0)) = WRet (VBool false) /\
  fst (fst (lib_isspent (st1 1 nw_bitcoin) [(0, Raise 1)] 0 (empty_cache true) svc0)) = WRet (VBool false).
Proof. repeat split; vm_compute; reflexivity. Qed.

Example wrappers_do_not_fabricate_refuted_estimatefee :
  fst (fst (lib_estimatefee (st1 1 nw_testnet) 1000000 [(0, Raise 1)] 5 (empty_cache true) svc0)) = WRet (VInt 10000) /\
  fst (fst (lib_estimatefee (st1 4 nw_testnet) 1000000 [(0, Ok (VInt 0))] 5 (empty_cache true) svc0)) = WRet (VInt 10000) /\
  fst (fst (lib_estimatefee (st1 4 nw_bitcoin) 1000000 [(0, Ok (VInt 7))] 5 (empty_cache true) svc0)) = WRet (VInt 1000) /\
  fst (fst (lib_estimatefee (st1 1 nw_bitcoin) 1000000 [(0, Raise 1)] 5 (empty_cache true) svc0)) = WServiceErr.
Proof. repeat split; vm_compute; reflexivity. Qed.

(* a provider that answers with another transaction: it is filed, returned and cached under the requested id *)
Example wrappers_do_not_fabricate_refuted_wrong_txid :
  lib_gettransaction (st1 4 nw_bitcoin) [(0, Ok (VTx tx_b))] 0 (empty_cache true) svc0
  = (WRet (VTx (relabel tx_b 0)), cache_store_tx (empty_cache true) (relabel tx_b 0),
     set_exec svc0 [(0, VTx (relabel tx_b 0))] []) /\
  cache_gettx (cache_store_tx (empty_cache true) (relabel tx_b 0)) 0 = Some (relabel tx_b 0) /\
  relabel tx_b 0 <> tx_a.
Proof. repeat split; try (vm_compute; reflexivity). intros H; inversion H. Qed.

(* --- the cache returns what was stored --- *)
(* single rows and variables; and the address index: a provider answer [hist] — transactions of the address with
   arbitrary block heights, several per block, unconfirmed ones among them — filed by the caching loop of
   Service.gettransactions into a cache that holds nothing of the address; for EVERY after_txid among the stored
   transactions and EVERY limit the cached answer is exactly the slice a provider holding the stored transactions gives
   for the same query *)
Theorem cache_returns_what_was_stored :
  ((forall c t, c_on c = true -> t_confirmed t = true ->
     cache_gettx (cache_store_tx c t) (t_txid t) = Some (match cache_gettx c (t_txid t) with Some t0 => t0 | None => t end)) /\
  (forall c t, cache_store_tx (cache_store_tx c t) t = cache_store_tx c t) /\
  (forall c t txid, txid <> t_txid t -> cache_gettx (cache_store_tx c t) txid = cache_gettx c txid) /\
  (forall c t txid t0, cache_gettx c txid = Some t0 -> cache_gettx (cache_store_tx c t) txid = Some t0) /\
  (forall c name v exp now, c_on c = true ->
     cache_var_get (cache_var_set c name v exp) now name = if now <? exp then Some v else None) /\
  (forall c name v exp, cache_var_set (cache_var_set c name v exp) name v exp = cache_var_set c name v exp) /\
  (forall c now now' name v, now <= now' -> cache_var_get c now' name = Some v -> cache_var_get c now name = Some v) /\
  (forall c a lb b nu, c_on c = true ->
     exists r, cache_getaddr (cache_store_address c a lb (Some b) nu) a = Some r /\ a_balance r = Some b)) /\
  (forall c a hist lb0 b rec after limit,
     xc_on c = true ->
     mine_of c a = [] ->
     NoDup (map row_id (xc_rows c)) ->
     Forall (fun t => touches a t = true) hist ->
     (forall t, In t (confirmed hist) -> atx_storable t = true) ->
     NoDup (map atx_id (confirmed hist)) ->
     (forall t, In t (confirmed hist) -> ~ In (atx_id t) (map row_id (xc_rows c))) ->
     StronglySorted (fun x y => atx_height x <= atx_height y) (confirmed hist) ->
     c_on b = true -> cache_getaddr b a = Some rec ->
     1 <= limit ->
     match after with
     | None => True
     | Some aid =>
       In aid (map atx_id (confirmed hist)) /\
       exists lb, a_last_block rec = Some lb /\ lb <> 0 /\ forall t, In t (confirmed hist) -> atx_height t <= lb
     end ->
     xc_gettransactions (with_base (fst (store_loop c hist 0 lb0)) b) a after limit = prov_txs (confirmed hist) a after limit).
Proof. exact cache_combined_full. Qed.

(* the same for any cache content: whenever the rows of the address lie in the cache in (block_height, index) order,
   Cache.gettransactions(address, after_txid, limit) is the provider's slice of the stored transactions *)
Theorem cached_transactions_are_the_stored_slice : forall c a rec after limit,
  xc_on c = true ->
  cache_getaddr (xc_base c) a = Some rec ->
  in_chain_order c a ->
  NoDup (map row_id (xc_rows c)) ->
  1 <= limit ->
  match after with
  | None => True
  | Some aid =>
    In aid (map row_id (mine_of c a)) /\
    exists lb, a_last_block rec = Some lb /\ lb <> 0 /\ forall r, In r (mine_of c a) -> atx_height (r_tx r) <= lb
  end ->
  xc_gettransactions c a after limit = prov_txs (map r_tx (mine_of c a)) a after limit.
Proof. exact ServiceAddrCache.cached_transactions_are_the_stored_slice. Qed.

Theorem cached_utxos_are_the_stored_outputs : forall c a,
  xc_on c = true ->
  let outs := filter (fun r => pays a (r_tx r)) (xc_rows c) in
  StronglySorted row_le outs -> Forall flag_known outs ->
  xc_getutxos c a None = map (fun r => utxo_of (r_tx r)) (filter unspent_row outs) /\
  (forall aid pre d post, outs = pre ++ d :: post -> row_id d = aid -> ~ In aid (map row_id post) ->
     xc_getutxos c a (Some aid) = map (fun r => utxo_of (r_tx r)) (filter unspent_row post)).
Proof. exact ServiceAddrCache.cached_utxos_are_the_stored_outputs. Qed.

(* an address whose cache entry is up to date is answered from the cache alone, whatever the providers do *)
Theorem gettransactions_served_from_cache : forall st now bc_ps q a after limit c s rec lb v,
  st_minp st <= 1 -> 1 <= limit ->
  cache_getaddr (xc_base c) a = Some rec -> a_last_block rec = Some lb -> lb <> 0 ->
  cache_blockcount (xc_base c) now = Some v -> v <> 0 -> v <= lb ->
  let r := lib_gettransactions st now bc_ps q a after limit c s in
  let l0 := xc_gettransactions c a after limit in
  (exists l, xr_ret r = WRet (VTxs l) /\ (l = l0 \/ l = update_spents a l0)) /\
  xr_cn r = Z.of_nat (length l0) /\ s_res (xr_svc r) = [] /\ s_errs (xr_svc r) = [].
Proof. exact gettransactions_up_to_date_from_cache. Qed.

(* every origin of a returned transaction list: cached slice ++ (nothing | the answer of a provider asked for what
   follows the last cached transaction); only the spent flags of a complete list are recomputed *)
Theorem gettransactions_origins : forall st now bc_ps q a after limit c s l,
  xr_ret (lib_gettransactions st now bc_ps q a after limit c s) = WRet (VTxs l) ->
  let l1 := if st_minp st <=? 1 then xc_gettransactions c a after limit else [] in
  let qafter := match opt_last l1 with Some t => Some (atx_id t) | None => after end in
  let limit1 := if is_nil l1 then limit else limit - Z.of_nat (length l1) in
  exists p, (p = [] \/ provider_answer (map (inst_txs a qafter limit1) q) (VTxs p)) /\
            (l = l1 ++ p \/ l = update_spents a (l1 ++ p)).
Proof. exact gettransactions_origin. Qed.

(* no partial answers: with every provider failing, an address that is not synchronised gets ServiceError (or the one
   full page the cache can fill by itself); getutxos never returns the cached outputs alone *)
Theorem gettransactions_never_partial : forall st now bc_ps q a after limit c s,
  never_synced (xc_base c) a -> all_fail q ->
  let r := lib_gettransactions st now bc_ps q a after limit c s in
  let l0 := xc_gettransactions c a after limit in
  xr_ret r = WServiceErr \/ (xr_ret r = WRet (VTxs l0) /\ Z.of_nat (length l0) = limit /\ l0 <> []).
Proof. exact gettransactions_no_partial_answer. Qed.

Theorem getutxos_never_partial : forall st q a after limit c s,
  all_fail q -> xr_ret (lib_getutxos_x st q a after limit c s) = WServiceErr.
Proof. exact getutxos_no_partial_answer. Qed.

Theorem getutxos_cached_origins : forall st q a after limit c s v,
  xr_ret (lib_getutxos_x st q a after limit c s) = WRet v ->
  let cached := if st_minp st <=? 1 then xc_getutxos c a after else [] in
  let after1 := match opt_last cached with Some u => Some (u_txid u) | None => after end in
  exists p, provider_answer (map (inst_utxos a after1 limit) q) (VUtxoL p) /\ v = VUtxoL (cached ++ p).
Proof. exact getutxos_x_origin. Qed.

(* non-vacuity: five transactions, three of them in one block, filed from one answer; after_txid in the middle of the
   block, a limit below the count, and a provider asked the same thing *)
Example address_index_example :
  let hist := [rx 0 700000; rx 1 700010; rx 2 700010; rx 3 700010; rx 4 700020; rx 5 0] in
  let c := fst (store_loop synced_cache hist 0 None) in
  map atx_id (xc_gettransactions c 0 None 20) = [0; 1; 2; 3; 4] /\
  map atx_id (xc_gettransactions c 0 (Some 1) 20) = [2; 3; 4] /\
  map atx_id (xc_gettransactions c 0 (Some 2) 1) = [3] /\
  xc_gettransactions c 0 (Some 1) 2 = prov_txs (confirmed hist) 0 (Some 1) 2 /\
  xr_ret (lib_getutxos_x (st1 1 nw_bitcoin) [(0, AOut (Raise 1)); (1, AView hist)] 0 None 20 c svc0) = WServiceErr /\
  xr_ret (lib_getutxos_x (st1 4 nw_bitcoin) [(0, AOut (Raise 1)); (1, AView hist)] 0 (Some 3) 20 c svc0)
    = WRet (VUtxoL [utxo_of (rx 4 700020); utxo_of (rx 5 0)]).
Proof. repeat split; vm_compute; reflexivity. Qed.

(* refutation witnesses for the guard (rows of the address in chain order): recorded findings.
   (1) the address is filed by two calls that split block 700010: `index` restarts at 0 in the second answer, the
       cached order is 0,2,1,3 and after_txid = 1 loses transaction 2;
   (2) a single transaction filed by gettransaction (no index) sorts in front of its block;
   (3) a transaction the cache refuses (no input value) is missing from every later cached answer, and the ones behind
       it are filed without index *)
Example cache_returns_what_was_stored_refuted_split_block :
  let c1 := fst (store_loop synced_cache [rx 0 700000; rx 1 700010] 0 None) in
  let c2 := fst (store_loop c1 [rx 2 700010; rx 3 700010] 0 None) in
  map atx_id (xc_gettransactions c2 0 None 20) = [0; 2; 1; 3] /\
  map atx_id (xc_gettransactions c2 0 (Some 1) 20) = [3] /\
  map atx_id (prov_txs [rx 0 700000; rx 1 700010; rx 2 700010; rx 3 700010] 0 (Some 1) 20) = [2; 3] /\
  ~ in_chain_order c2 0.
Proof.
  repeat split; try (vm_compute; reflexivity).
  intros H. apply sort_rows_sorted_id in H. vm_compute in H. discriminate H.
Qed.

Example cache_returns_what_was_stored_refuted_single_first :
  let c1 := snd (xc_store_tx synced_cache (rx 1 700010) (-1)) in
  let c2 := fst (store_loop c1 [rx 0 700010; rx 1 700010; rx 2 700010] 0 None) in
  map atx_id (xc_gettransactions c2 0 None 20) = [1; 0; 2].
Proof. vm_compute; reflexivity. Qed.

Example cache_returns_what_was_stored_refuted_refused_transaction :
  let hist := [rx 0 700000; rx_refused 1 700010; rx 2 700020] in
  let '(c1, lb) := store_loop synced_cache hist 0 (Some 800000) in
  let c2 := store_all c1 hist in
  lb = Some 700009 /\ map atx_id (xc_gettransactions c2 0 None 20) = [0; 2] /\
  map r_index (xc_rows c2) = [0; -1].
Proof. repeat split; vm_compute; reflexivity. Qed.

(* blocks: the rows of a block filed with their position in the block, pages in ascending order — the cached page is the
   page of the filed transactions, for every page number and page size *)
Theorem cached_block_page_is_the_filed_page : forall c h btxs page limit,
  xc_on c = true ->
  filter (fun r => atx_height (r_tx r) =? h) (xc_rows c) = number 0 btxs ->
  1 <= page -> 0 <= limit ->
  xc_getblocktransactions c h page limit = block_page btxs page limit.
Proof. exact ServiceAddrCache.cached_block_page_is_the_filed_page. Qed.

Theorem getblock_origins : forall st q h parse page limit c s v,
  xr_ret (lib_getblock st q h parse page limit c s) = WRet v ->
  (exists cnt, xc_getblock c h = Some cnt /\ v = VBlock h cnt (xc_getblocktransactions c h page limit) parse) \/
  provider_answer (map (inst_block h parse page limit) q) v \/
  (v = VBool false /\ (limit_reached st (map (inst_block h parse page limit) q) \/
                       exists a, provider_answer (map (inst_block h parse page limit) q) a /\ truthy a = false)).
Proof. exact getblock_origin. Qed.

Example block_page_example :
  let blk := [rx 0 700010; rx 1 700010; rx 2 700010; rx 3 700010] in
  let c1 := store_page synced_cache (block_page blk 1 2) 0 in
  let c2 := xc_store_block (store_page c1 (block_page blk 2 2) 2) 700010 4 in
  map atx_id (xc_getblocktransactions c2 700010 1 2) = [0; 1] /\
  map atx_id (xc_getblocktransactions c2 700010 2 2) = [2; 3] /\
  map atx_id (xc_getblocktransactions c2 700010 2 3) = [3] /\
  xr_ret (lib_getblock (st1 4 nw_bitcoin) [(0, AOut (Raise 1))] 700010 true 1 25 c2 svc0) = WRet (VBlock 700010 4 blk true).
Proof. repeat split; vm_compute; reflexivity. Qed.

(* refutation witnesses for the guard of cached_block_page_is_the_filed_page (recorded findings): pages filed in
   descending order come back in filing order when the query has no ORDER BY (with ORDER BY index they would not); a transaction filed before by an address query keeps the index it had in
   that answer and turns up on the wrong page (page 1 of size 2 then holds three transactions) *)
Example cached_block_page_refuted_unordered :
  let blk := [rx 0 700010; rx 1 700010; rx 2 700010; rx 3 700010] in
  let c1 := store_page synced_cache (block_page blk 2 2) 2 in
  let c2 := xc_store_block (store_page c1 (block_page blk 1 2) 0) 700010 4 in
  map atx_id (xc_getblocktransactions_gen [] c2 700010 1 25) = [2; 3; 0; 1] /\
  map atx_id (xc_getblocktransactions_gen [2] c2 700010 1 25) = [0; 1; 2; 3].
Proof. split; vm_compute; reflexivity. Qed.

Example cached_block_page_refuted_answer_index :
  let blk := [rx 0 700010; rx 1 700010; rx 2 700010; rx 3 700010] in
  let c1 := fst (store_loop synced_cache [rx 3 700010] 0 None) in
  let c2 := xc_store_block (store_page c1 blk 0) 700010 4 in
  map atx_id (xc_getblocktransactions c2 700010 1 2) = [3; 0; 1].
Proof. vm_compute; reflexivity. Qed.

(* the operators and ORDER BY columns of the cache read paths the model builds in (regenerated from services.py) *)
Theorem source_facts_cache_reads :
  svc_cgt_after_block_op = 5 /\ svc_cgt_last_block_op = 3 /\ svc_cgt_limit_op = 5 /\ svc_cgt_reset_op = 0 /\
  svc_cgt_append_before_reset = 1 /\ svc_cgt_order_after = [1; 2] /\ svc_cgt_order_all = [1; 2] /\
  svc_cgu_unspent_op = 6 /\ svc_cgu_unknown_op = 6 /\ svc_cgu_reset_op = 0 /\ svc_cgu_output_filter_op = 0 /\
  svc_cgu_order = [1; 2] /\
  svc_cbt_from_op = 5 /\ svc_cbt_to_op = 2 /\ svc_cbt_height_op = 0 /\
  svc_sgt_page_full_op = 0 /\ svc_sgt_uptodate_op = 5 /\ svc_sgt_incomplete_op = 0 /\ svc_sgt_provider_false_op = 6 /\
  svc_sgt_unconfirmed_op = 1 /\ svc_sgu_incomplete_op = 5 /\ svc_sgb_last_page_op = 4.
Proof. exact glue_cache_reads. Qed.

(* what a query fetched once is served from the cache afterwards whatever the providers do then *)
Theorem gettransaction_served_from_cache : forall st ps txid c s t c' s',
  lib_gettransaction st ps txid c s = (WRet (VTx t), c', s') ->
  st_minp st <= 1 -> c_on c = true -> t_confirmed t = true ->
  forall ps2 s2, lib_gettransaction st ps2 txid c' s2 = (WRet (VTx t), c', s2).
Proof. exact gettransaction_then_cached. Qed.

Theorem estimatefee_served_from_cache : forall st now ps blocks c s f c' s',
  lib_estimatefee st now ps blocks c s = (WRet (VInt f), c', s') ->
  st_minp st <= 1 -> c_on c = true -> f <> 0 ->
  forall now2 ps2 s2, now <= now2 < now + svc_fee_ttl ->
    cache_estimatefee c now blocks = None ->
    lib_estimatefee st now2 ps2 blocks c' s2 = (WRet (VInt f), c', s2).
Proof. exact estimatefee_then_cached. Qed.

Theorem cache_disabled_is_inert : forall c,
  c_on c = false ->
  (forall txid, cache_gettx c txid = None) /\ (forall a, cache_getaddr c a = None) /\
  (forall now n, cache_var_get c now n = None) /\ (forall t, cache_store_tx c t = c) /\
  (forall a lb b nu, cache_store_address c a lb b nu = c) /\ (forall n v e, cache_var_set c n v e = c).
Proof. exact disabled_cache. Qed.

Example cache_example :
  let c1 := cache_store_tx (empty_cache true) tx_a in
  cache_gettx c1 0 = Some tx_a /\ cache_gettx c1 1 = None /\
  cache_estimatefee (cache_store_fee c1 1000000 5 7000) 1000599 3 = Some 7000 /\
  cache_estimatefee (cache_store_fee c1 1000000 5 7000) 1000600 3 = None /\
  cache_estimatefee (cache_store_fee c1 1000000 5 7000) 1000000 6 = None.
Proof. repeat split; vm_compute; reflexivity. Qed.

(* source facts the model builds in (regenerated from services.py on every run) *)
Theorem source_facts :
  svc_limit_returns_false = true /\ svc_getutxos_raises_on_false = true /\
  svc_SERVICE_MAX_ERRORS = cfg_SERVICE_MAX_ERRORS /\ svc_blockcount_ttl = 60 /\ svc_fee_ttl = 600 /\
  svc_BLOCK_COUNT_CACHE_TIME = 3 /\ svc_fee_high_max_blocks = 1 /\ svc_fee_medium_max_blocks = 5.
Proof. exact (conj glue_limit_returns_false (conj glue_getutxos_raises glue_constants)). Qed.

Print Assumptions result_is_a_provider_answer.
Print Assumptions fails_only_when_nobody_answers.
Print Assumptions skips_are_skipped.
Print Assumptions order_is_a_permutation.
Print Assumptions order_respects_priority.
Print Assumptions wrappers_do_not_fabricate.
Print Assumptions passthrough_origins.
Print Assumptions passthrough_raises_iff.
Print Assumptions gettransaction_origins.
Print Assumptions getutxos_never_fabricates.
Print Assumptions getbalance_origins.
Print Assumptions getbalance_repaired.
Print Assumptions estimatefee_origins.
Print Assumptions isspent_origins.
Print Assumptions cache_returns_what_was_stored.
Print Assumptions gettransaction_served_from_cache.
Print Assumptions estimatefee_served_from_cache.
Print Assumptions cache_disabled_is_inert.
Print Assumptions source_facts.
Print Assumptions cached_transactions_are_the_stored_slice.
Print Assumptions cached_utxos_are_the_stored_outputs.
Print Assumptions gettransactions_served_from_cache.
Print Assumptions gettransactions_origins.
Print Assumptions gettransactions_never_partial.
Print Assumptions getutxos_never_partial.
Print Assumptions getutxos_cached_origins.
Print Assumptions source_facts_cache_reads.
Print Assumptions cached_block_page_is_the_filed_page.
Print Assumptions getblock_origins.
