(* Properties/C09.v — wallet keys follow BIP44/49/84/48/45 paths and restore deterministically.
   Only statements closed by [exact lemma], non-vacuity examples and Print Assumptions. *)
From Coq Require Import ZArith Bool String List.
From Verif Require Import Lib.Bytes Gen.GenNetworks Gen.GenWalletCfg Model.WalletKeys
  Proofs.WalletKeys Proofs.WalletKeysBook.
Import ListNotations.
Open Scope Z_scope.

(* --- every key structure of the regenerated table expands to the BIP path, for all accounts / chains / indices --- *)
Theorem path_is_documented : forall wt ms tpl purpose enc coin acct chg idx cos,
  lib_key_structure wt ms = Some (tpl, purpose, enc) ->
  purpose = spec_purpose wt ms /\
  lib_path_expand [] false tpl None
    {| pv_purpose := purpose; pv_coin := coin; pv_account := acct; pv_script := script_type_id wt;
       pv_cosigner := cos; pv_change := chg; pv_index := idx |}
  = Some (spec_path wt ms coin acct chg idx cos).
Proof. exact path_is_documented_lemma. Qed.

Theorem structure_table_total : forall wt ms,
  exists tpl purpose enc, lib_key_structure wt ms = Some (tpl, purpose, enc).
Proof. exact key_structure_total. Qed.

Theorem account_level_path_is_documented : forall wt tpl purpose enc coin acct chg idx cos,
  lib_key_structure wt false = Some (tpl, purpose, enc) ->
  lib_path_expand [] false tpl (Some (-2))
    {| pv_purpose := purpose; pv_coin := coin; pv_account := acct; pv_script := script_type_id wt;
       pv_cosigner := cos; pv_change := chg; pv_index := idx |}
  = Some (account_path wt coin acct).
Proof. exact path_account_documented. Qed.

Theorem account_wallet_path_is_documented : forall wt tpl purpose enc v,
  lib_key_structure wt false = Some (tpl, purpose, enc) ->
  lib_path_expand [] false ("M"%string :: skipn 4 tpl) None v = Some (spec_path_rel (pv_change v) (pv_index v)).
Proof. exact path_rel_documented. Qed.

(* --- distinct (structure, coin, account, change, index[, cosigner]) give distinct paths --- *)
Theorem paths_injective : forall wt ms tpl purpose enc wt' ms' tpl' purpose' enc'
                                 coin a c i cos coin' a' c' i' cos' p,
  lib_key_structure wt ms = Some (tpl, purpose, enc) ->
  lib_key_structure wt' ms' = Some (tpl', purpose', enc') ->
  lib_path_expand [] false tpl None
    {| pv_purpose := purpose; pv_coin := coin; pv_account := a; pv_script := script_type_id wt;
       pv_cosigner := cos; pv_change := c; pv_index := i |} = Some p ->
  lib_path_expand [] false tpl' None
    {| pv_purpose := purpose'; pv_coin := coin'; pv_account := a'; pv_script := script_type_id wt';
       pv_cosigner := cos'; pv_change := c'; pv_index := i' |} = Some p ->
  wt = wt' /\ ms = ms' /\ c = c' /\ i = i' /\
  ((ms = false \/ wt <> Legacy) -> coin = coin' /\ a = a') /\
  (ms = true -> wt = Legacy -> cos = cos').
Proof. exact lib_paths_injective. Qed.

(* --- the library's child derivation is BIP32 on every path with indices below 2^31 --- *)
Theorem lib_derivation_is_bip32 : forall p x,
  path_ok p -> x_priv x <> None -> derive_with lib_subkey x p = spec_derive x p.
Proof. exact lib_derive_private_is_spec. Qed.

Theorem lib_public_derivation_is_bip32 : forall p x,
  path_ok p -> x_priv x = None ->
  derive_with lib_subkey x p = spec_derive_pub x p.
Proof. exact lib_derive_public_is_spec. Qed.

(* --- in every reachable state every stored key is the derivation of the master along its stored path --- *)
Theorem key_material_is_derivation : forall net wt acct seed m w ops k,
  spec_master seed = Some m ->
  wallet_from_seed net wt acct seed = Some w ->
  In k (ws_keys (wallet_run w ops)) ->
  derive_with lib_subkey m (k_path k) = Some (k_x k).
Proof. exact wallet_keys_from_master. Qed.

(* --- no history (explicit paths and bulk creation included) ever stores two keys at one position --- *)
Theorem no_repeats : forall net wt acct seed w ops,
  wallet_from_seed net wt acct seed = Some w ->
  NoDup (map k_path (ws_keys (wallet_run w ops))).
Proof. exact wallet_no_repeats. Qed.

(* --- new_keys asks for exactly 1 + the highest stored index of its chain (0 on an empty chain) --- *)
Theorem new_keys_issue_next_index : forall X derive w a ch wt net n,
  let c := ws_cfg w in
  let net' := fst (acct_defaults X w net a) in
  let acct' := snd (acct_defaults X w net a) in
  let wt' := opt_default (w_wt c) wt in
  forall purpose,
  (negb (String.eqb net' (w_net c)) && negb (is_some (index_of "coin_type'" (w_tpl c))))%bool = false ->
  op_purpose c wt' = Some purpose ->
  lib_new_keys X derive w a ch wt net n =
  lib_keys_for_path X derive w [] false None (Some acct') (next_index X w purpose net' acct' wt' ch) ch
                    (Some wt') (Some net') n.
Proof. exact new_keys_uses_next_index. Qed.

(* --- restore: wallets made from the same seed agree on key material and address at every position,
       whatever their histories; reopening changes nothing --- *)
Theorem restore_deterministic : forall seed net1 wt1 acct1 w1 ops1 net2 wt2 acct2 w2 ops2 k1 k2,
  wallet_from_seed net1 wt1 acct1 seed = Some w1 ->
  wallet_from_seed net2 wt2 acct2 seed = Some w2 ->
  In k1 (ws_keys (wallet_run w1 ops1)) -> In k2 (ws_keys (wallet_run w2 ops2)) ->
  k_path k1 = k_path k2 -> k_net k1 = k_net k2 -> k_wt k1 = k_wt k2 ->
  key_address k1 = key_address k2 /\ key_wif k1 = key_wif k2.
Proof. exact restore_same_address. Qed.

Theorem reopen_changes_nothing : forall X derive w ops1 ops2,
  run X derive w (ops1 ++ OReopen :: ops2) = run X derive w (ops1 ++ ops2).
Proof. exact reopen_is_identity. Qed.

Theorem account_wallet_keys_derive_from_account_key : forall net wt acct seed private m coin a w ops k,
  spec_master seed = Some m -> coin_of net = Some coin ->
  spec_derive m (account_path wt coin acct) = Some a ->
  wallet_from_account_key net wt acct seed private = Some w ->
  In k (ws_keys (wallet_run w ops)) ->
  derive_with lib_subkey (if private then a else spec_neuter a) (k_path k) = Some (k_x k) /\
  NoDup (map k_path (ws_keys (wallet_run w ops))).
Proof. exact account_wallet_keys. Qed.

(* --- non-vacuity --- *)
Example documented_paths :
  spec_path Segwit false 0 2 1 5 0 = [(84, true); (0, true); (2, true); (1, false); (5, false)] /\
  spec_path Legacy true 0 0 1 5 3 = [(45, true); (3, false); (1, false); (5, false)] /\
  spec_path P2shSegwit true 2 1 0 9 0 = [(48, true); (2, true); (1, true); (1, true); (0, false); (9, false)] /\
  lib_key_structure P2shSegwit false = Some (KEY_PATH_P2WPKH, 49, "base58"%string).
Proof. repeat split; vm_compute; reflexivity. Qed.

(* a book over dummy key material: indices are issued densely by new_keys / get_keys, a gap appears only when a
   path is named explicitly, and the next new key continues after the highest index *)
Definition demo_wallet := lib_wallet_create unit (fun _ _ => Some tt) "bitcoin"%string Segwit 0 tt 0 true 0.
Definition demo_indices (ops : list op) : option (list Z) :=
  match demo_wallet with
  | Some w => let w' := run unit (fun _ _ => Some tt) w ops in
              Some (map k_index (filter (fun k => is_leaf unit (ws_cfg w') k
                                                 && match k_change k with Some 0 => true | _ => false end)
                                        (ws_keys w')))
  | None => None
  end.

Example implicit_history_is_dense :
  demo_indices [ONewKeys None 0 None None 3; OGetKeys None 0 None None 6; OReopen;
                ONewKeys None 0 None None 1] = Some [0; 1; 2; 3; 4; 5; 6].
Proof. vm_compute. reflexivity. Qed.

Example explicit_path_makes_a_gap_on_request :
  demo_indices [OKeysForPath [(0, false); (7, false)] false None 0 0 None None 1;
                ONewKeys None 0 None None 1] = Some [0; 7; 8].
Proof. vm_compute. reflexivity. Qed.

Print Assumptions path_is_documented.
Print Assumptions structure_table_total.
Print Assumptions account_level_path_is_documented.
Print Assumptions account_wallet_path_is_documented.
Print Assumptions paths_injective.
Print Assumptions lib_derivation_is_bip32.
Print Assumptions lib_public_derivation_is_bip32.
Print Assumptions key_material_is_derivation.
Print Assumptions no_repeats.
Print Assumptions new_keys_issue_next_index.
Print Assumptions restore_deterministic.
Print Assumptions reopen_changes_nothing.
Print Assumptions account_wallet_keys_derive_from_account_key.
