(* Properties/C09.v — wallet keys follow BIP44/49/84/48/45 paths and restore deterministically.
   Only statements closed by [exact lemma], non-vacuity examples and Print Assumptions. *)
From Coq Require Import ZArith Bool String List.
From Coq.Strings Require Import Byte.
From Verif Require Import Lib.Bytes Crypto.Hmac Gen.GenNetworks Gen.GenWalletCfg Model.WalletKeys
  Proofs.WalletKeys Proofs.WalletKeysBook Proofs.WalletKeysIssue Proofs.WalletKeysTables Proofs.WalletKeysReach
  Proofs.WalletKeysPaths.
Import ListNotations.
Open Scope Z_scope.

(* --- every key structure of the regenerated table expands to the BIP path, for all accounts / chains / indices --- *)
Theorem path_is_documented : forall wt ms tpl purpose enc coin acct chg idx cos,
  lib_key_structure wt ms = Some (tpl, purpose, enc) ->
  purpose = spec_purpose wt ms /\
  lib_path_expand [] false tpl None
    {| pv_purpose := purpose; pv_coin := coin; pv_account := acct; pv_script := script_type_id wt;
       pv_cosigner := cos; pv_change := chg; pv_index := idx |}
  = Some (spec_path wt ms coin acct chg idx cos).
Proof. exact path_is_documented_lemma. Qed.

Theorem structure_table_total : forall wt ms,
  exists tpl purpose enc, lib_key_structure wt ms = Some (tpl, purpose, enc).
Proof. exact key_structure_total. Qed.

Theorem account_level_path_is_documented : forall wt tpl purpose enc coin acct chg idx cos,
  lib_key_structure wt false = Some (tpl, purpose, enc) ->
  lib_path_expand [] false tpl (Some (-2))
    {| pv_purpose := purpose; pv_coin := coin; pv_account := acct; pv_script := script_type_id wt;
       pv_cosigner := cos; pv_change := chg; pv_index := idx |}
  = Some (account_path wt coin acct).
Proof. exact path_account_documented. Qed.

Theorem account_wallet_path_is_documented : forall wt tpl purpose enc v,
  lib_key_structure wt false = Some (tpl, purpose, enc) ->
  lib_path_expand [] false ("M"%string :: skipn 4 tpl) None v = Some (spec_path_rel (pv_change v) (pv_index v)).
Proof. exact path_rel_documented. Qed.

(* --- distinct (structure, coin, account, change, index[, cosigner]) give distinct paths --- *)
Theorem paths_injective : forall wt ms tpl purpose enc wt' ms' tpl' purpose' enc'
                                 coin a c i cos coin' a' c' i' cos' p,
  lib_key_structure wt ms = Some (tpl, purpose, enc) ->
  lib_key_structure wt' ms' = Some (tpl', purpose', enc') ->
  lib_path_expand [] false tpl None
    {| pv_purpose := purpose; pv_coin := coin; pv_account := a; pv_script := script_type_id wt;
       pv_cosigner := cos; pv_change := c; pv_index := i |} = Some p ->
  lib_path_expand [] false tpl' None
    {| pv_purpose := purpose'; pv_coin := coin'; pv_account := a'; pv_script := script_type_id wt';
       pv_cosigner := cos'; pv_change := c'; pv_index := i' |} = Some p ->
  wt = wt' /\ ms = ms' /\ c = c' /\ i = i' /\
  ((ms = false \/ wt <> Legacy) -> coin = coin' /\ a = a') /\
  (ms = true -> wt = Legacy -> cos = cos').
Proof. exact lib_paths_injective. Qed.

(* --- the library's child derivation is BIP32 on every path with indices below 2^31 --- *)
Theorem lib_derivation_is_bip32 : forall p x,
  path_ok p -> x_priv x <> None -> derive_with lib_subkey x p = spec_derive x p.
Proof. exact lib_derive_private_is_spec. Qed.

Theorem lib_public_derivation_is_bip32 : forall p x,
  path_ok p -> x_priv x = None ->
  derive_with lib_subkey x p = spec_derive_pub x p.
Proof. exact lib_derive_public_is_spec. Qed.

(* --- in every reachable state every stored key is the derivation of the master along its stored path --- *)
Theorem key_material_is_derivation : forall net wt acct seed m w ops k,
  spec_master seed = Some m ->
  wallet_from_seed net wt acct seed = Some w ->
  In k (ws_keys (wallet_run w ops)) ->
  derive_with lib_subkey m (k_path k) = Some (k_x k).
Proof. exact wallet_keys_from_master. Qed.

(* --- no history (explicit paths and bulk creation included) ever stores two keys at one position --- *)
Theorem no_repeats : forall net wt acct seed w ops,
  wallet_from_seed net wt acct seed = Some w ->
  NoDup (map k_path (ws_keys (wallet_run w ops))).
Proof. exact wallet_no_repeats. Qed.

(* --- new_keys asks for exactly 1 + the highest stored index of its chain (0 on an empty chain) --- *)
Theorem new_keys_issue_next_index : forall X derive w a ch wt net n,
  let c := ws_cfg w in
  let net' := fst (acct_defaults X w net a) in
  let acct' := snd (acct_defaults X w net a) in
  let wt' := opt_default (w_wt c) wt in
  forall purpose,
  (negb (String.eqb net' (w_net c)) && negb (is_some (index_of "coin_type'" (w_tpl c))))%bool = false ->
  op_purpose c wt' = Some purpose ->
  lib_new_keys X derive w a ch wt net n =
  lib_keys_for_path X derive w [] false None (Some acct') (next_index X w purpose net' acct' wt' ch) ch
                    (Some wt') (Some net') n.
Proof. exact new_keys_uses_next_index. Qed.

(* --- restore: wallets made from the same seed agree on key material and address at every position,
       whatever their histories; reopening changes nothing --- *)
Theorem restore_deterministic : forall seed net1 wt1 acct1 w1 ops1 net2 wt2 acct2 w2 ops2 k1 k2,
  wallet_from_seed net1 wt1 acct1 seed = Some w1 ->
  wallet_from_seed net2 wt2 acct2 seed = Some w2 ->
  In k1 (ws_keys (wallet_run w1 ops1)) -> In k2 (ws_keys (wallet_run w2 ops2)) ->
  k_path k1 = k_path k2 -> k_net k1 = k_net k2 -> k_wt k1 = k_wt k2 ->
  key_address k1 = key_address k2 /\ key_wif k1 = key_wif k2.
Proof. exact restore_same_address. Qed.

Theorem reopen_changes_nothing : forall X derive w ops1 ops2,
  run X derive w (ops1 ++ OReopen :: ops2) = run X derive w (ops1 ++ ops2).
Proof. exact reopen_is_identity. Qed.

Theorem account_wallet_keys_derive_from_account_key : forall net wt acct seed private m coin a w ops k,
  spec_master seed = Some m -> coin_of net = Some coin ->
  spec_derive m (account_path wt coin acct) = Some a ->
  wallet_from_account_key net wt acct seed private = Some w ->
  In k (ws_keys (wallet_run w ops)) ->
  derive_with lib_subkey (if private then a else spec_neuter a) (k_path k) = Some (k_x k) /\
  NoDup (map k_path (ws_keys (wallet_run w ops))).
Proof. exact account_wallet_keys. Qed.

(* --- index issuance: the index new_keys asks for is one above EVERY stored index of the chain (not the index of
       the most recently created row), so no stored key of the chain carries it; it is a function of the set of
       rows, whatever order they were created in --- *)
Theorem next_index_above_every_stored_index : forall X (w : wstate X) purpose net acct wt change k,
  In k (ws_keys w) -> chain_pred X (ws_cfg w) purpose net acct wt change k = true ->
  k_index k < next_index X w purpose net acct wt change.
Proof. exact next_index_above_chain. Qed.

Theorem next_index_is_fresh : forall X (w : wstate X) purpose net acct wt change k,
  In k (ws_keys w) -> chain_pred X (ws_cfg w) purpose net acct wt change k = true ->
  k_index k <> next_index X w purpose net acct wt change.
Proof. exact next_index_fresh. Qed.

Theorem next_index_is_highest_plus_one : forall X (w : wstate X) purpose net acct wt change,
  (next_index X w purpose net acct wt change = 0 /\
   forall k, In k (ws_keys w) -> chain_pred X (ws_cfg w) purpose net acct wt change k = false) \/
  (exists k, In k (ws_keys w) /\ chain_pred X (ws_cfg w) purpose net acct wt change k = true /\
             next_index X w purpose net acct wt change = k_index k + 1).
Proof. exact next_index_is_succ_of_highest. Qed.

Theorem next_index_ignores_creation_order : forall X (w w' : wstate X) purpose net acct wt change,
  ws_cfg w = ws_cfg w' -> Permutation.Permutation (ws_keys w) (ws_keys w') ->
  next_index X w purpose net acct wt change = next_index X w' purpose net acct wt change.
Proof. exact next_index_order_independent. Qed.

(* --- in every reachable state the address_index column is the child number of the last path element, and two
       rows under one parent never carry the same index --- *)
Theorem index_column_is_last_path_element : forall net wt acct seed w ops k,
  wallet_from_seed net wt acct seed = Some w ->
  In k (ws_keys (wallet_run w ops)) ->
  k_path k <> [] -> k_index k = fst (last (k_path k) (0, false)) mod H31.
Proof. exact wallet_index_matches_path. Qed.

Theorem no_two_siblings_share_an_index : forall net wt acct seed w ops k1 k2 p i1 i2 h,
  wallet_from_seed net wt acct seed = Some w ->
  In k1 (ws_keys (wallet_run w ops)) -> In k2 (ws_keys (wallet_run w ops)) ->
  k_path k1 = p ++ [(i1, h)] -> k_path k2 = p ++ [(i2, h)] ->
  0 <= i1 < H31 -> 0 <= i2 < H31 ->
  k_index k1 = k_index k2 -> k1 = k2.
Proof. exact wallet_sibling_indices_distinct. Qed.

(* --- Wallet.keys(...) and its wrappers list exactly the stored rows that pass every given filter, each once --- *)
Theorem listing_is_exactly_the_filter : forall X (w : wstate X) acct chg depth used wt net k,
  In k (lib_keys_query X w acct chg depth used wt net) <->
  In k (ws_keys w) /\ keys_query_pred X (ws_cfg w) acct chg depth used wt net k = true.
Proof. exact keys_query_exact. Qed.

Theorem listing_never_repeats : forall X (w : wstate X) acct chg depth used wt net,
  NoDup (map k_path (ws_keys w)) -> NoDup (map k_path (lib_keys_query X w acct chg depth used wt net)).
Proof. exact keys_query_no_repeats. Qed.

Theorem payment_and_change_listings_are_sound : forall X (w : wstate X) change acct used net k,
  In k (lib_keys_address_chain X w change acct used net) ->
  In k (ws_keys w) /\ k_change k = Some change /\ row_depth X (ws_cfg w) k = key_depth (ws_cfg w).
Proof. exact keys_address_chain_sound. Qed.

(* --- creation from a mnemonic sentence AND passphrase: the wallet of the BIP39 seed of both --- *)
Theorem mnemonic_wallet_is_wallet_of_bip39_seed : forall net wt acct sentence passphrase,
  wallet_from_mnemonic net wt acct sentence passphrase =
  wallet_from_seed net wt acct (pbkdf2_hmac_sha512 sentence (bip39_salt_prefix ++ passphrase) 2048 64).
Proof. exact mnemonic_wallet_is_seed_wallet. Qed.

Theorem mnemonic_wallet_keys_derive_from_bip39_master : forall net wt acct sentence passphrase m w ops k,
  spec_master (spec_bip39_seed sentence passphrase) = Some m ->
  wallet_from_mnemonic net wt acct sentence passphrase = Some w ->
  In k (ws_keys (wallet_run w ops)) ->
  derive_with lib_subkey m (k_path k) = Some (k_x k).
Proof. exact mnemonic_wallet_keys. Qed.

Theorem mnemonic_restore_reproduces_addresses :
  forall sentence passphrase net1 wt1 acct1 w1 ops1 net2 wt2 acct2 w2 ops2 k1 k2,
  wallet_from_mnemonic net1 wt1 acct1 sentence passphrase = Some w1 ->
  wallet_from_seed net2 wt2 acct2 (spec_bip39_seed sentence passphrase) = Some w2 ->
  In k1 (ws_keys (wallet_run w1 ops1)) -> In k2 (ws_keys (wallet_run w2 ops2)) ->
  k_path k1 = k_path k2 -> k_net k1 = k_net k2 -> k_wt k1 = k_wt k2 ->
  key_address k1 = key_address k2 /\ key_wif k1 = key_wif k2.
Proof. exact mnemonic_restore_same_address. Qed.

(* --- multisig wallets: while keys are created one at a time by new_key, the next index is one no stored key has
       (known class multisig_address_index: bulk creation and explicit paths store the call's address_index
       argument instead of the key's own index - refuted below) --- *)
Theorem multisig_single_new_key_is_fresh : forall rows,
  ms_cols_ok rows ->
  ~ In (ms_next_index rows) (map mr_pos rows) /\
  snd (ms_new_keys rows 1) = [ms_next_index rows] /\
  ms_cols_ok (fst (ms_new_keys rows 1)) /\
  In (ms_next_index rows) (map mr_pos (fst (ms_new_keys rows 1))).
Proof. exact ms_single_new_key_is_fresh. Qed.

(* --- the regenerated tables are the documented ones (frozen copy in Proofs/WalletKeysTables.v) --- *)
Theorem network_tables_are_the_documented_ones : map network_view all_networks = spec_network_rows.
Proof. exact network_tables_match_frozen. Qed.

Theorem coin_type_lookup_is_documented : forall name,
  coin_of name = option_map row_coin (find_row name spec_network_rows).
Proof. exact coin_of_is_frozen. Qed.

Theorem structure_table_is_the_documented_one : forall wt ms,
  exists v, In (wt, ms, v) spec_structures /\ lib_key_structure wt ms = Some v.
Proof. exact key_structure_is_frozen. Qed.


(* --- a wallet can hand out only what lies below the key material it holds (BIP32).  The book carries the depth and
       the privacy of the main key; a main key that is not a private master of depth 0 (an account-level key, private
       or public) lies above one purpose / coin type / account only.  A request for another witness type (another
       purpose branch) is refused at every entry point, in every state, and nothing is created --- *)
Theorem request_for_another_witness_type_refused : forall X derive (w : wstate X) upath full lo acct ai chg wt net n,
  w_root_master (ws_cfg w) = false -> req_wt X w wt <> w_wt (ws_cfg w) -> n <> O ->
  lib_keys_for_path X derive w upath full lo acct ai chg wt net n = (w, None).
Proof. exact kfp_refuses_foreign_witness_type. Qed.

Theorem new_key_for_another_witness_type_refused : forall X derive (w : wstate X) acct chg wt net n,
  w_root_master (ws_cfg w) = false -> req_wt X w wt <> w_wt (ws_cfg w) -> n <> O ->
  lib_new_keys X derive w acct chg wt net n = (w, None).
Proof. exact new_keys_refuses_foreign_witness_type. Qed.

Theorem get_key_creates_nothing_for_another_witness_type : forall X derive (w : wstate X) acct chg wt net n w' r,
  w_root_master (ws_cfg w) = false -> req_wt X w wt <> w_wt (ws_cfg w) ->
  lib_get_keys X derive w acct chg wt net n = (w', r) ->
  w' = w /\ forall ks k, r = Some ks -> In k ks -> In k (ws_keys w) /\ k_wt k = req_wt X w wt.
Proof. exact get_keys_creates_nothing_for_foreign_witness_type. Qed.

Theorem public_master_for_another_witness_type_refused : forall X derive (w : wstate X) acct wt net,
  w_root_master (ws_cfg w) = false -> req_wt X w wt <> w_wt (ws_cfg w) ->
  lib_public_master X derive w acct wt net = (w, None).
Proof. exact public_master_refuses_foreign_witness_type. Qed.

Theorem new_account_needs_the_private_master : forall X derive (w : wstate X) acct wt net,
  w_root_master (ws_cfg w) = false -> lib_new_account X derive w acct wt net = (w, None).
Proof. exact new_account_needs_private_master. Qed.

(* --- ... and, for a library with fixes/C09-5 (w_guard_reach; the unchanged library is refuted below: known class
       account_wallet_foreign_account_or_network), every request whose documented path does not lie below the
       account-level main key - another witness type, network or account - returns an error and leaves the book as it
       is, whatever path form, level offset, index or number of keys is asked for --- *)
Theorem request_outside_reach_refused : forall X derive (w : wstate X) upath full lo acct ai chg wt net n,
  w_guard_reach (ws_cfg w) = true -> account_level (ws_cfg w) -> n <> O ->
  ~ within_reach (ws_cfg w) (req_wt X w wt) (req_net X w net acct) (req_acct X w net acct) ->
  lib_keys_for_path X derive w upath full lo acct ai chg wt net n = (w, None).
Proof. exact request_outside_reach_refused_lemma. Qed.

(* --- every configuration Wallet.create makes (main key = master, depth 0; = account key, depth 3; private or
       public; any witness type, network, default account; either library), every reachable state, every request for
       address keys by witness type / network / account / change / index / number of keys: a key that is handed out
       lies at the documented path FOR THE REQUESTED witness type, coin type and account, at consecutive indices (bulk
       creation included); and a key an account-level wallet hands out was asked for with the wallet's own witness
       type (with fixes/C09-5: own network and account as well) --- *)
Theorem handed_out_key_is_at_documented_path_for_requested_type :
  forall X derive net wt acct root rd rp ri w0 g p ops acct' ai chg wt' net' coin n w' ks j k,
  0 <= rd -> lib_wallet_create X derive net wt acct root rd rp ri = Some w0 ->
  coin_of net' = Some coin ->
  lib_keys_for_path X derive (run X derive (set_lib_fixes X w0 g p) ops) [] false None (Some acct') ai chg (Some wt')
                    (Some net') n = (w', Some ks) ->
  nth_error ks j = Some k ->
  k_path k = (if rd =? 0 then spec_path wt' false coin acct' chg (ai + Z.of_nat j) 0
              else spec_path_rel chg (ai + Z.of_nat j)) /\
  (rd <> 0 -> wt' = wt /\ (g = true -> net' = net /\ acct' = acct)).
Proof. exact reachable_handed_out_documented. Qed.

Theorem new_keys_hand_out_documented_paths : forall X derive (w : wstate X) acct chg wt net n coin w' ks,
  PInv X (ws_keys w) -> wallet_shape (ws_cfg w) -> coin_of (req_net X w net acct) = Some coin ->
  lib_new_keys X derive w acct chg wt net n = (w', Some ks) ->
  exists purpose,
    op_purpose (ws_cfg w) (req_wt X w wt) = Some purpose /\
    forall j k, nth_error ks j = Some k ->
      k_path k = doc_path (ws_cfg w) (req_wt X w wt) coin (req_acct X w net acct) chg
                          (next_index X w purpose (req_net X w net acct) (req_acct X w net acct) (req_wt X w wt) chg
                           + Z.of_nat j).
Proof. exact new_keys_documented_paths. Qed.

(* --- in every reachable state ids are unique and the parent_id column of a row names the row one level above it on
       the same path (bulk creation finds the parent of the first key through it) --- *)
Theorem parent_column_names_the_row_above : forall X derive net wt acct root rd rp ri w g p ops,
  lib_wallet_create X derive net wt acct root rd rp ri = Some w ->
  PInv X (ws_keys (run X derive (set_lib_fixes X w g p) ops)).
Proof. exact reachable_PInv. Qed.

(* --- the two guards the book takes from the source text of wallets.py (Gen/GenWalletCfg.v) are the documented ones:
       another witness type only from a private main key of depth 0 (never on a non-multisig wallet otherwise), new
       accounts likewise; a test that loses a condition no longer equals the frozen copy --- *)
Theorem key_request_guards_are_the_documented_ones : forall has_main is_private depth0 wt_differs multisig,
  kfp_witness_guard has_main is_private depth0 wt_differs multisig =
    spec_kfp_witness_guard has_main is_private depth0 wt_differs multisig /\
  new_account_guard has_main is_private depth0 wt_differs multisig = spec_new_account_guard has_main is_private depth0.
Proof. exact (fun a b c d e => conj (kfp_witness_guard_frozen a b c d e) (new_account_guard_frozen a b c d e)). Qed.

(* --- non-vacuity --- *)
Example documented_paths :
  spec_path Segwit false 0 2 1 5 0 = [(84, true); (0, true); (2, true); (1, false); (5, false)] /\
  spec_path Legacy true 0 0 1 5 3 = [(45, true); (3, false); (1, false); (5, false)] /\
  spec_path P2shSegwit true 2 1 0 9 0 = [(48, true); (2, true); (1, true); (1, true); (0, false); (9, false)] /\
  lib_key_structure P2shSegwit false = Some (KEY_PATH_P2WPKH, 49, "base58"%string).
Proof. repeat split; vm_compute; reflexivity. Qed.

(* a book over dummy key material: indices are issued densely by new_keys / get_keys, a gap appears only when a
   path is named explicitly, and the next new key continues after the highest index *)
Definition demo_wallet := lib_wallet_create unit (fun _ _ => Some tt) "bitcoin"%string Segwit 0 tt 0 true 0.
Definition demo_indices (ops : list op) : option (list Z) :=
  match demo_wallet with
  | Some w => let w' := run unit (fun _ _ => Some tt) w ops in
              Some (map k_index (filter (fun k => is_leaf unit (ws_cfg w') k
                                                 && match k_change k with Some 0 => true | _ => false end)
                                        (ws_keys w')))
  | None => None
  end.

Example implicit_history_is_dense :
  demo_indices [ONewKeys None 0 None None 3; OGetKeys None 0 None None 6; OReopen;
                ONewKeys None 0 None None 1] = Some [0; 1; 2; 3; 4; 5; 6].
Proof. vm_compute. reflexivity. Qed.

Example explicit_path_makes_a_gap_on_request :
  demo_indices [OKeysForPath [(0, false); (7, false)] false None 0 0 None None 1;
                ONewKeys None 0 None None 1] = Some [0; 7; 8].
Proof. vm_compute. reflexivity. Qed.

(* indices requested out of order (7, then 3): new_key continues after the HIGHEST index, also after a reopen;
   the rows are shown in creation order *)
Example out_of_order_requests_then_new_keys :
  demo_indices [OKeysForPath [(0, false); (7, false)] false None 0 0 None None 1;
                OKeysForPath [(0, false); (3, false)] false None 0 0 None None 1;
                ONewKeys None 0 None None 1; ONewKeys None 0 None None 2; OReopen;
                ONewKeys None 0 None None 1; OGetKeys None 0 None None 2] = Some [0; 7; 3; 8; 9; 10; 11].
Proof. vm_compute. reflexivity. Qed.

(* a bulk range that overlaps existing keys creates only the missing ones; the next new key follows the highest *)
Example bulk_range_over_existing_keys :
  demo_indices [OKeysForPath [(0, false); (5, false)] false None 0 0 None None 1;
                OKeysForPath [] false None 0 3 None None 4;
                ONewKeys None 0 None None 1] = Some [0; 5; 3; 4; 6; 7].
Proof. vm_compute. reflexivity. Qed.

(* the listings of the demo wallet: payment keys, change keys, and the rows of one account at every depth >= 3 *)
Example listings_of_a_history :
  match demo_wallet with
  | Some w =>
      let w' := run unit (fun _ _ => Some tt) w [ONewKeys None 0 None None 2; ONewKeys None 1 None None 1] in
      (map k_index (lib_keys_address_chain unit w' 0 None None None),
       map k_index (lib_keys_address_chain unit w' 1 None None None),
       map (fun k => length (k_path k)) (lib_keys_query unit w' (Some 0) None None None None None))
  | None => ([], [], [])
  end = ([0; 1; 2], [0], [3; 4; 5; 5; 5; 4; 5]%nat).
Proof. vm_compute. reflexivity. Qed.

(* known class multisig_address_index: get_keys(number_of_keys = 3) on an empty multisig wallet hands out positions
   0, 1, 2, all stored with index 0; new_key then hands out position 1 again, and again *)
Example multisig_bulk_then_new_key_refuted :
  let rows := fst (ms_new_keys [] 3) in
  snd (ms_new_keys [] 3) = [0; 1; 2] /\ map mr_col rows = [0; 0; 0] /\
  snd (ms_new_keys rows 1) = [1] /\ snd (ms_new_keys (fst (ms_new_keys rows 1)) 1) = [1].
Proof. vm_compute. repeat split; reflexivity. Qed.

(* ... and key_for_path([0, 7]) then key_for_path([0, 3]): both stored with index 0, so new_key hands out position 1,
   2, then the existing 3 (a key handed out before) for ever *)
Example multisig_explicit_path_then_new_key_refuted :
  let r1 := fst (ms_key_for_explicit_path (fst (ms_key_for_explicit_path (fst (ms_new_keys [] 1)) 7)) 3) in
  let r2 := fst (ms_new_keys r1 1) in
  let r3 := fst (ms_new_keys r2 1) in
  snd (ms_new_keys r1 1) = [1] /\ snd (ms_new_keys r2 1) = [2] /\ snd (ms_new_keys r3 1) = [3] /\
  snd (ms_new_keys (fst (ms_new_keys r3 1)) 1) = [3].
Proof. vm_compute. repeat split; reflexivity. Qed.

Example multisig_one_at_a_time :
  snd (ms_new_keys (fst (ms_new_keys (fst (ms_new_keys [] 1)) 1)) 1) = [2].
Proof. vm_compute. reflexivity. Qed.

Example frozen_rows_present :
  find_row "litecoin_testnet" spec_network_rows =
    Some ("litecoin_testnet"%string, 1, [x6f], [x3a], [x74; x6c; x74; x63],
          [Some ([x04; x36; xf6; xe1], [x04; x36; xef; x7d]); Some ([x04; x36; xf6; xe1], [x04; x36; xef; x7d]);
           Some ([x04; x36; xf6; xe1], [x04; x36; xef; x7d])]) /\
  coin_of "dogecoin" = Some 3.
Proof. split; vm_compute; reflexivity. Qed.


(* an account-level wallet over dummy key material (main key: depth 3, private; segwit, bitcoin, account 0);
   [g] = the library has fixes/C09-5 *)
Definition demo_account_wallet (g : bool) :=
  option_map (fun w => set_lib_fixes unit w g false)
             (lib_wallet_create unit (fun _ _ => Some tt) "bitcoin"%string Segwit 0 tt 3 true 0).
Definition demo_answers (w0 : option (wstate unit)) (ops : list op) : list (option (list (list pelem * string * Z))) :=
  match w0 with
  | Some w => snd (fold_left (fun (st : wstate unit * list (option (list (list pelem * string * Z)))) o =>
                                let r := step unit (fun _ _ => Some tt) (fst st) o in
                                (fst r, snd st ++ [option_map (map (fun k => (k_path k, k_net k, k_account k))) (snd r)]))
                             ops (w, []))
  | None => []
  end.

(* requests for another witness type: refused at every entry point, by either library (seed class: the guard must
   look at the DEPTH of the main key, not only at its privacy - this wallet's main key is private) *)
Example account_wallet_refuses_other_witness_types :
  demo_answers (demo_account_wallet false)
    [ONewKeys None 0 (Some P2shSegwit) None 1; ONewKeys None 1 (Some Legacy) None 2; OGetKeys None 0 (Some Legacy) None 1;
     OKeysForPath [(0, false); (9, false)] false None 0 0 (Some P2shSegwit) None 1;
     OKeysForPath [] false None 1 4 (Some Legacy) None 3; OPublicMaster None (Some Legacy) None;
     ONewAccount None None None; ONewKeys None 0 None None 1]
  = [None; None; None; None; None; None; None; Some [([(0, false); (1, false)], "bitcoin"%string, 0)]] /\
  account_level (ws_cfg (match demo_account_wallet true with Some w => w | None => {| ws_cfg := {| w_net := ""%string; w_wt := Legacy; w_purpose := 0; w_tpl := []; w_root_depth := 0; w_root_private := true; w_account := 0; w_guard_reach := false; w_acct_from_path := false |}; ws_keys := [] |} end)).
Proof. split; [vm_compute; reflexivity | split; [discriminate | vm_compute; reflexivity]]. Qed.

(* known class account_wallet_foreign_account_or_network (unchanged library): new_key(account_id=5) hands out the
   wallet's own M/0/0 - a key that exists already - on every call; key_for_path([0, 9], network='litecoin') stores a
   litecoin key below the bitcoin account *)
Example account_wallet_foreign_account_refuted :
  demo_answers (demo_account_wallet false)
    [ONewKeys (Some 5) 0 None None 1; ONewKeys (Some 5) 0 None None 1;
     OKeysForPath [(0, false); (9, false)] false None 0 0 None (Some "litecoin"%string) 1]
  = [Some [([(0, false); (0, false)], "bitcoin"%string, 0)]; Some [([(0, false); (0, false)], "bitcoin"%string, 0)];
     Some [([(0, false); (9, false)], "litecoin"%string, 0)]].
Proof. vm_compute. reflexivity. Qed.

(* ... with fixes/C09-5 the same requests are refused, the wallet's own account is served *)
Example account_wallet_foreign_account_refused_when_fixed :
  demo_answers (demo_account_wallet true)
    [ONewKeys (Some 5) 0 None None 1; OGetKeys (Some 5) 0 None None 1;
     OKeysForPath [(0, false); (9, false)] false None 0 0 None (Some "litecoin"%string) 1;
     OKeysForPath [] false (Some 5) 0 3 None None 2; OPublicMaster (Some 5) None None;
     ONewKeys (Some 0) 0 None None 1]
  = [None; None; None; None; None; Some [([(0, false); (1, false)], "bitcoin"%string, 0)]].
Proof. vm_compute. reflexivity. Qed.

(* known class explicit_path_account_column (unchanged library): on a wallet whose default account is 2, the key at
   m/84'/0'/7'/0/0 named by a relative path is stored under account 2, and new_key(account_id=7) hands it out again;
   with fixes/C09-6 it is account 7's first key and new_key(account_id=7) continues with index 1 *)
Definition demo_master_wallet (p : bool) :=
  option_map (fun w => set_lib_fixes unit w false p)
             (lib_wallet_create unit (fun _ _ => Some tt) "bitcoin"%string Segwit 2 tt 0 true 0).
Example explicit_path_account_column_refuted :
  demo_answers (demo_master_wallet false)
    [OKeysForPath [(7, false); (0, false); (0, false)] false None 0 0 None None 1; ONewKeys (Some 7) 0 None None 1]
  = [Some [([(84, true); (0, true); (7, true); (0, false); (0, false)], "bitcoin"%string, 2)];
     Some [([(84, true); (0, true); (7, true); (0, false); (0, false)], "bitcoin"%string, 2)]] /\
  demo_answers (demo_master_wallet true)
    [OKeysForPath [(7, false); (0, false); (0, false)] false None 0 0 None None 1; ONewKeys (Some 7) 0 None None 1]
  = [Some [([(84, true); (0, true); (7, true); (0, false); (0, false)], "bitcoin"%string, 7)];
     Some [([(84, true); (0, true); (7, true); (0, false); (1, false)], "bitcoin"%string, 7)]].
Proof. split; vm_compute; reflexivity. Qed.

(* a master wallet answers a request for another witness type, network and account at THAT documented path, at
   consecutive indices *)
Example master_wallet_answers_at_the_requested_path :
  demo_answers (demo_master_wallet false)
    [ONewKeys (Some 4) 1 (Some P2shSegwit) (Some "litecoin"%string) 2; OAccount 2; OAccount 9]
  = [Some [(spec_path P2shSegwit false 2 4 1 0 0, "litecoin"%string, 4);
           (spec_path P2shSegwit false 2 4 1 1 0, "litecoin"%string, 4)];
     Some [([(84, true); (0, true); (2, true)], "bitcoin"%string, 2)]; None].
Proof. vm_compute. reflexivity. Qed.

(* --- fixed-width serialisation: the HMAC input of a hardened child is 0x00 || ser256(k) || ser32(i), 37 bytes for
   EVERY parent key, and the 32 key bytes read back as k: a private key that starts with zero bytes keeps them
   (BIP32 test vector 3; exercised on real wallets by the frozen corpus of harness/props/c09.py) --- *)
Theorem hardened_parent_key_is_serialised_on_32_bytes : forall k i,
  0 <= k < 2 ^ 256 ->
  length (x00 :: be_bytes 32 k ++ be_bytes 4 i) = 37%nat /\
  length (be_bytes 32 k) = 32%nat /\ of_be (be_bytes 32 k) = k.
Proof. exact hardened_data_fixed_width_lemma. Qed.

Theorem private_key_serialisation_is_injective : forall a b,
  0 <= a < 2 ^ 256 -> 0 <= b < 2 ^ 256 -> be_bytes 32 a = be_bytes 32 b -> a = b.
Proof. exact ser256_injective_lemma. Qed.

Example ser256_keeps_leading_zeros : be_bytes 32 0xdd = repeat x00 31 ++ [xdd].
Proof. vm_compute. reflexivity. Qed.

Print Assumptions path_is_documented.
Print Assumptions structure_table_total.
Print Assumptions account_level_path_is_documented.
Print Assumptions account_wallet_path_is_documented.
Print Assumptions paths_injective.
Print Assumptions lib_derivation_is_bip32.
Print Assumptions lib_public_derivation_is_bip32.
Print Assumptions key_material_is_derivation.
Print Assumptions no_repeats.
Print Assumptions new_keys_issue_next_index.
Print Assumptions restore_deterministic.
Print Assumptions reopen_changes_nothing.
Print Assumptions account_wallet_keys_derive_from_account_key.
Print Assumptions next_index_above_every_stored_index.
Print Assumptions next_index_is_fresh.
Print Assumptions next_index_is_highest_plus_one.
Print Assumptions next_index_ignores_creation_order.
Print Assumptions index_column_is_last_path_element.
Print Assumptions no_two_siblings_share_an_index.
Print Assumptions listing_is_exactly_the_filter.
Print Assumptions listing_never_repeats.
Print Assumptions payment_and_change_listings_are_sound.
Print Assumptions mnemonic_wallet_is_wallet_of_bip39_seed.
Print Assumptions mnemonic_wallet_keys_derive_from_bip39_master.
Print Assumptions mnemonic_restore_reproduces_addresses.
Print Assumptions network_tables_are_the_documented_ones.
Print Assumptions coin_type_lookup_is_documented.
Print Assumptions structure_table_is_the_documented_one.
Print Assumptions multisig_single_new_key_is_fresh.
Print Assumptions request_for_another_witness_type_refused.
Print Assumptions new_key_for_another_witness_type_refused.
Print Assumptions get_key_creates_nothing_for_another_witness_type.
Print Assumptions public_master_for_another_witness_type_refused.
Print Assumptions new_account_needs_the_private_master.
Print Assumptions request_outside_reach_refused.
Print Assumptions handed_out_key_is_at_documented_path_for_requested_type.
Print Assumptions new_keys_hand_out_documented_paths.
Print Assumptions parent_column_names_the_row_above.
Print Assumptions key_request_guards_are_the_documented_ones.
Print Assumptions hardened_parent_key_is_serialised_on_32_bytes.
Print Assumptions private_key_serialisation_is_injective.
