(* Properties/C17.v — amount conversion is exact to the smallest unit.
   Only statements closed by [exact lemma], non-vacuity examples, refutation witnesses for the classes
   excluded by a guard (one per denominator symbol with a recorded finding), and Print Assumptions. *)
From Coq Require Import ZArith Reals List Bool String.
From Coq Require Import Floats.PrimFloat Floats.SpecFloat Floats.FloatOps.
From Flocq Require Import Core.Core IEEE754.BinarySingleNaN.
From Verif Require Import Lib.Bytes Float.DecRound Float.B64 Model.Amount
  Proofs.AmountDecRound Proofs.AmountFloat Proofs.Amount Proofs.AmountString Proofs.AmountTheorems.
Import ListNotations.
Open Scope Z_scope.

(* --- the integer algorithms that model Python's float(), round() and %-formatting are exact (all inputs) --- *)
Theorem round_half_even_exact : forall p q, 0 < q -> rne_div p q = ZnearestE (IZR p / IZR q).
Proof. exact rne_div_correct. Qed.

Theorem py_round_exact : forall s m e,
  sf_to_Z_rne (S754_finite s m e) = Some (ZnearestE (SF2R radix2 (S754_finite s m e))).
Proof. exact sf_to_Z_rne_finite. Qed.

Theorem py_float_correctly_rounded : forall neg p q, 0 < p -> 0 < q ->
  let x := (IZR p / IZR q)%R in
  let z := ratio_to_sf neg p q in
  valid_binary 53 1024 z = true /\
  ((Rabs (RN x) < bpow radix2 1024)%R ->
   SF2R radix2 z = sgn neg (RN x) /\ is_finite_SF z = true /\ sign_SF z = neg).
Proof. exact ratio_to_sf_correct. Qed.

(* --- every amount 0 .. 21*10^14 written in main units with eight decimals converts exactly, on every network:
       round( float("<n/10^8>") * 1 / denominator ) = n  (two correctly rounded operations, then half-even) --- *)
Theorem btc_amount_exact : forall nw n, In nw nets -> 0 <= n <= 21 * 10 ^ 14 ->
  lib_value_sat {| v_value := (b64_of_dec false n (-8) * one)%float; v_den := one; v_net := nw |} = Ok n.
Proof. exact value_sat_btc. Qed.

(* --- "<n> sat": round( float("<n>") * denominator / denominator ) = n --- *)
Theorem sat_amount_exact : forall nw nw' n, In nw nets -> In nw' nets -> 0 <= n <= 21 * 10 ^ 14 ->
  lib_value_sat {| v_value := (b64_of_dec false n 0 * n_den nw')%float; v_den := n_den nw'; v_net := nw |} = Ok n.
Proof. exact value_sat_sat. Qed.

(* --- the same through the whole string path (str.split, currency / denominator matching, float(), rounding):
       value_to_satoshi("<n/10^8 printed with eight decimals> BTC") = n  and  value_to_satoshi("<n> sat") = n,
       for ALL n in 0 .. 21*10^14.  [fmt_fixed false n 8] is the text '%.8f' would print for n/10^8 exactly. --- *)
Theorem btc_string_exact : forall n, 0 <= n <= 21 * 10 ^ 14 ->
  lib_value_to_satoshi (fmt_fixed false n 8 ++ 32 :: [66; 84; 67]) None = Ok n.
Proof. exact btc_string. Qed.

Theorem sat_string_exact : forall n, 0 <= n <= 21 * 10 ^ 14 ->
  lib_value_to_satoshi (dec_digits n ++ 32 :: [115; 97; 116]) None = Ok n.
Proof. exact sat_string. Qed.

(* --- format then parse, default denominator: Value.from_satoshi(n).str() is "<n> sat" and parses back to n --- *)
Theorem format_parse_roundtrip : forall n nw, 0 <= n <= 21 * 10 ^ 14 ->
  find_by_name default_network_name = Some nw ->
  exists v s, lib_from_satoshi n DNone nw = Ok v /\ lib_str v DNone None = Ok s /\
              s = dec_digits n ++ 32 :: [115; 97; 116] /\ lib_value_to_satoshi s None = Ok n.
Proof. exact roundtrip_default. Qed.

(* not proved (DESIGN 8.4): the same for str_unit(), i.e. denominator 1 with eight decimals; covered by the
   rt_unit correspondence stream and the property oracle only *)
Definition format_parse_roundtrip_unit_statement : Prop :=
  forall n nw, 0 <= n <= 21 * 10 ^ 14 -> find_by_name default_network_name = Some nw ->
  exists v s, lib_from_satoshi n DNone nw = Ok v /\ lib_str v (DNum one) None = Ok s /\
              lib_value_to_satoshi s None = Ok n.

(* the printed numerals are read back by the float() grammar: all a, b, w *)
Theorem numeral_parse_exact : forall a b w, 0 <= a -> 0 <= b < 10 ^ Z.of_nat (S w) ->
  parse_decimal (dec_digits a ++ 46 :: digits_w (S w) b) = Some (false, a * 10 ^ Z.of_nat (S w) + b, - Z.of_nat (S w)).
Proof. exact parse_fixed. Qed.

(* --- what Transaction.add_output and raw() enforce --- *)
Theorem outputs_are_integers : forall v name o b,
  lib_add_output v name = Ok o -> lib_raw_value o = Ok b ->
  exists z, o = NInt z /\ 0 <= z < 2 ^ 64 /\ b = le_bytes 8 z.
Proof. exact add_output_raw. Qed.

Theorem add_output_holds_integer : forall v name o, lib_add_output v name = Ok o -> exists z, o = NInt z.
Proof. exact add_output_integer. Qed.

(* non-vacuity *)
Example amounts_nonvacuous :
  lib_value_to_satoshi (cps "20999999.99999999 BTC") None = Ok 2099999999999999 /\
  lib_value_to_satoshi (cps "2099999999999999 sat") None = Ok 2099999999999999 /\
  lib_value_to_satoshi (cps "0.00000001") None = Ok 1 /\
  fmt_fixed false 2099999999999999 8 ++ 32 :: [66; 84; 67] = cps "20999999.99999999 BTC" /\
  dec_digits 2099999999999999 ++ 32 :: [115; 97; 116] = cps "2099999999999999 sat" /\
  lib_add_output (NInt 5) (cps "bitcoin") = Ok (NInt 5) /\
  lib_add_output (NFlt (b64_of_dec false 15 (-1))) (cps "bitcoin") = Err /\
  lib_raw_value (NInt (-5)) = Err.
Proof. repeat split; vm_compute; reflexivity. Qed.

(* Output(value=1.5) is not checked; raw() then writes int(1.5) = 1  (class output_ctor_unchecked) *)
Example output_ctor_unchecked_refuted :
  lib_output_value (NFlt (b64_of_dec false 15 (-1))) (cps "bitcoin") = Ok (NFlt (b64_of_dec false 15 (-1))) /\
  lib_raw_value (NFlt (b64_of_dec false 15 (-1))) = Ok (le_bytes 8 1).
Proof. split; vm_compute; reflexivity. Qed.

(* --- other denominators: the extra float multiplication loses a unit (one class per symbol).
       First conjunct: the text is the exact decimal numeral of n units in that denominator;
       second: what the model (and, replayed, the implementation) returns: n - 1 or n + 1. --- *)
Example den_msat_refuted :
  fmt_fixed false 1940275575242557000 0 ++ cps " msatBTC" = cps "1940275575242557000 msatBTC" /\
  lib_value_to_satoshi (cps "1940275575242557000 msatBTC") None = Ok 1940275575242556.
Proof. split; vm_compute; reflexivity. Qed.

Example den_n_refuted :
  fmt_fixed false 19049167257834750 0 ++ cps " nBTC" = cps "19049167257834750 nBTC" /\
  lib_value_to_satoshi (cps "19049167257834750 nBTC") None = Ok 1904916725783476.
Proof. split; vm_compute; reflexivity. Qed.

Example den_fin_refuted :
  fmt_fixed false 1714388958800707 1 ++ cps " finBTC" = cps "171438895880070.7 finBTC" /\
  lib_value_to_satoshi (cps "171438895880070.7 finBTC") None = Ok 1714388958800706.
Proof. split; vm_compute; reflexivity. Qed.

Example den_u_refuted :
  fmt_fixed false 2099999999493631 2 ++ cps " \xb5BTC" = cps "20999999994936.31 \xb5BTC" /\
  lib_value_to_satoshi (cps "20999999994936.31 \xb5BTC") None = Ok 2099999999493630.
Proof. split; vm_compute; reflexivity. Qed.

Example den_d_refuted :
  fmt_fixed false 2031411868842199 7 ++ cps " dBTC" = cps "203141186.8842199 dBTC" /\
  lib_value_to_satoshi (cps "203141186.8842199 dBTC") None = Ok 2031411868842200.
Proof. split; vm_compute; reflexivity. Qed.

Example den_k_refuted :
  fmt_fixed false 1687839911544409 11 ++ cps " kBTC" = cps "16878.39911544409 kBTC" /\
  lib_value_to_satoshi (cps "16878.39911544409 kBTC") None = Ok 1687839911544408.
Proof. split; vm_compute; reflexivity. Qed.

Example den_M_refuted :
  fmt_fixed false 1916117818783861 14 ++ cps " MBTC" = cps "19.16117818783861 MBTC" /\
  lib_value_to_satoshi (cps "19.16117818783861 MBTC") None = Ok 1916117818783860.
Proof. split; vm_compute; reflexivity. Qed.

Example den_G_refuted :
  fmt_fixed false 1771708189301569 17 ++ cps " GBTC" = cps "0.01771708189301569 GBTC" /\
  lib_value_to_satoshi (cps "0.01771708189301569 GBTC") None = Ok 1771708189301568.
Proof. split; vm_compute; reflexivity. Qed.

Example den_T_refuted :
  fmt_fixed false 1969934265327787 20 ++ cps " TLTC" = cps "0.00001969934265327787 TLTC" /\
  lib_value_to_satoshi (cps "0.00001969934265327787 TLTC") None = Ok 1969934265327786.
Proof. split; vm_compute; reflexivity. Qed.

Example den_P_refuted :
  fmt_fixed false 1685371796209795 23 ++ cps " PBTC" = cps "0.00000001685371796209795 PBTC" /\
  lib_value_to_satoshi (cps "0.00000001685371796209795 PBTC") None = Ok 1685371796209794.
Proof. split; vm_compute; reflexivity. Qed.

Example den_E_refuted :
  fmt_fixed false 2093208222613937 26 ++ cps " EBTC" = cps "0.00000000002093208222613937 EBTC" /\
  lib_value_to_satoshi (cps "0.00000000002093208222613937 EBTC") None = Ok 2093208222613936.
Proof. split; vm_compute; reflexivity. Qed.

Example den_Z_refuted :
  fmt_fixed false 2090075606302949 29 ++ cps " ZBTC" = cps "0.00000000000002090075606302949 ZBTC" /\
  lib_value_to_satoshi (cps "0.00000000000002090075606302949 ZBTC") None = Ok 2090075606302948.
Proof. split; vm_compute; reflexivity. Qed.

Example den_Y_refuted :
  fmt_fixed false 2052587240060861 32 ++ cps " YBTC" = cps "0.00000000000000002052587240060861 YBTC" /\
  lib_value_to_satoshi (cps "0.00000000000000002052587240060861 YBTC") None = Ok 2052587240060860.
Proof. split; vm_compute; reflexivity. Qed.

Example den_m_refuted :
  fmt_fixed false 2023092840374333 5 ++ cps " mBTC" = cps "20230928403.74333 mBTC" /\
  lib_value_to_satoshi (cps "20230928403.74333 mBTC") None = Ok 2023092840374332.
Proof. split; vm_compute; reflexivity. Qed.

Example den_h_parse_refuted :
  fmt_fixed false 2081412615786479 10 ++ cps " hBTC" = cps "208141.2615786479 hBTC" /\
  lib_value_to_satoshi (cps "208141.2615786479 hBTC") None = Ok 2081412615786478.
Proof. split; vm_compute; reflexivity. Qed.

(* 'da' cannot be parsed at all ('d' matches first); 'h' and larger: the default decimals cannot hold one unit *)
Example den_da_refuted : lib_value_to_satoshi (cps "1 daBTC") None = Err.
Proof. vm_compute; reflexivity. Qed.

Example den_h_refuted :
  match find_by_name (cps "bitcoin") with
  | Some nw => match lib_from_satoshi 22 DNone nw with
               | Ok v => match lib_str v (DSym (cps "h")) None with
                         | Ok s => s = cps "0.00000000 hBTC" /\ lib_value_to_satoshi s None = Ok 0
                         | Err => False
                         end
               | Err => False
               end
  | None => False
  end.
Proof. vm_compute. split; reflexivity. Qed.

Print Assumptions round_half_even_exact.
Print Assumptions py_round_exact.
Print Assumptions py_float_correctly_rounded.
Print Assumptions btc_amount_exact.
Print Assumptions sat_amount_exact.
Print Assumptions btc_string_exact.
Print Assumptions sat_string_exact.
Print Assumptions format_parse_roundtrip.
Print Assumptions numeral_parse_exact.
Print Assumptions outputs_are_integers.
Print Assumptions add_output_holds_integer.
