(* Properties/C17.v — amount conversion is exact to the smallest unit.
   Only statements closed by [exact lemma], non-vacuity examples, refutation witnesses for the classes
   excluded by a guard (one per denominator symbol with a recorded finding), and Print Assumptions. *)
From Coq Require Import ZArith Reals List Bool String.
From Coq Require Import Floats.PrimFloat Floats.SpecFloat Floats.FloatOps.
From Flocq Require Import Core.Core IEEE754.BinarySingleNaN.
From Verif Require Import Lib.Bytes Float.DecRound Float.B64 Model.Amount
  Proofs.AmountDecRound Proofs.AmountFloat Proofs.Amount Proofs.AmountString Proofs.AmountTheorems.
From Verif Require Import Model.AmountSession Proofs.AmountSession.
From Verif Require Gen.GenNetworks Model.CoinSelect Model.TxCreate Model.BumpFee Proofs.BumpFee Model.AmountTx Proofs.AmountTx.
Import ListNotations.
Open Scope Z_scope.

(* --- the integer algorithms that model Python's float(), round() and %-formatting are exact (all inputs) --- *)
Theorem round_half_even_exact : forall p q, 0 < q -> rne_div p q = ZnearestE (IZR p / IZR q).
Proof. exact rne_div_correct. Qed.

Theorem py_round_exact : forall s m e,
  sf_to_Z_rne (S754_finite s m e) = Some (ZnearestE (SF2R radix2 (S754_finite s m e))).
Proof. exact sf_to_Z_rne_finite. Qed.

Theorem py_float_correctly_rounded : forall neg p q, 0 < p -> 0 < q ->
  let x := (IZR p / IZR q)%R in
  let z := ratio_to_sf neg p q in
  valid_binary 53 1024 z = true /\
  ((Rabs (RN x) < bpow radix2 1024)%R ->
   SF2R radix2 z = sgn neg (RN x) /\ is_finite_SF z = true /\ sign_SF z = neg).
Proof. exact ratio_to_sf_correct. Qed.

(* --- every amount 0 .. 21*10^14 written in main units with eight decimals converts exactly, on every network:
       round( float("<n/10^8>") * 1 / denominator ) = n  (two correctly rounded operations, then half-even) --- *)
Theorem btc_amount_exact : forall nw n, In nw nets -> 0 <= n <= 21 * 10 ^ 14 ->
  lib_value_sat {| v_value := (b64_of_dec false n (-8) * one)%float; v_den := one; v_net := nw |} = Ok n.
Proof. exact value_sat_btc. Qed.

(* --- "<n> sat": round( float("<n>") * denominator / denominator ) = n --- *)
Theorem sat_amount_exact : forall nw nw' n, In nw nets -> In nw' nets -> 0 <= n <= 21 * 10 ^ 14 ->
  lib_value_sat {| v_value := (b64_of_dec false n 0 * n_den nw')%float; v_den := n_den nw'; v_net := nw |} = Ok n.
Proof. exact value_sat_sat. Qed.

(* --- the same through the whole string path (str.split, currency / denominator matching, float(), rounding):
       value_to_satoshi("<n/10^8 printed with eight decimals> BTC") = n  and  value_to_satoshi("<n> sat") = n,
       for ALL n in 0 .. 21*10^14.  [fmt_fixed false n 8] is the text '%.8f' would print for n/10^8 exactly. --- *)
Theorem btc_string_exact : forall n, 0 <= n <= 21 * 10 ^ 14 ->
  lib_value_to_satoshi (fmt_fixed false n 8 ++ 32 :: [66; 84; 67]) None = Ok n.
Proof. exact btc_string. Qed.

Theorem sat_string_exact : forall n, 0 <= n <= 21 * 10 ^ 14 ->
  lib_value_to_satoshi (dec_digits n ++ 32 :: [115; 97; 116]) None = Ok n.
Proof. exact sat_string. Qed.

(* --- format then parse, default denominator: Value.from_satoshi(n).str() is "<n> sat" and parses back to n --- *)
Theorem format_parse_roundtrip : forall n nw, 0 <= n <= 21 * 10 ^ 14 ->
  find_by_name default_network_name = Some nw ->
  exists v s, lib_from_satoshi n DNone nw = Ok v /\ lib_str v DNone None = Ok s /\
              s = dec_digits n ++ 32 :: [115; 97; 116] /\ lib_value_to_satoshi s None = Ok n.
Proof. exact roundtrip_default. Qed.

(* not proved (DESIGN 8.4): the same for str_unit(), i.e. denominator 1 with eight decimals; covered by the
   rt_unit correspondence stream and the property oracle only *)
Definition format_parse_roundtrip_unit_statement : Prop :=
  forall n nw, 0 <= n <= 21 * 10 ^ 14 -> find_by_name default_network_name = Some nw ->
  exists v s, lib_from_satoshi n DNone nw = Ok v /\ lib_str v (DNum one) None = Ok s /\
              lib_value_to_satoshi s None = Ok n.

(* the printed numerals are read back by the float() grammar: all a, b, w *)
Theorem numeral_parse_exact : forall a b w, 0 <= a -> 0 <= b < 10 ^ Z.of_nat (S w) ->
  parse_decimal (dec_digits a ++ 46 :: digits_w (S w) b) = Some (false, a * 10 ^ Z.of_nat (S w) + b, - Z.of_nat (S w)).
Proof. exact parse_fixed. Qed.

(* --- what Transaction.add_output and raw() enforce --- *)
Theorem outputs_are_integers : forall v name o b,
  lib_add_output v name = Ok o -> lib_raw_value o = Ok b ->
  exists z, o = NInt z /\ 0 <= z < 2 ^ 64 /\ b = le_bytes 8 z.
Proof. exact add_output_raw. Qed.

Theorem add_output_holds_integer : forall v name o, lib_add_output v name = Ok o -> exists z, o = NInt z.
Proof. exact add_output_integer. Qed.

(* non-vacuity *)
Example amounts_nonvacuous :
  lib_value_to_satoshi (cps "20999999.99999999 BTC") None = Ok 2099999999999999 /\
  lib_value_to_satoshi (cps "2099999999999999 sat") None = Ok 2099999999999999 /\
  lib_value_to_satoshi (cps "0.00000001") None = Ok 1 /\
  fmt_fixed false 2099999999999999 8 ++ 32 :: [66; 84; 67] = cps "20999999.99999999 BTC" /\
  dec_digits 2099999999999999 ++ 32 :: [115; 97; 116] = cps "2099999999999999 sat" /\
  lib_add_output (NInt 5) (cps "bitcoin") = Ok (NInt 5) /\
  lib_add_output (NFlt (b64_of_dec false 15 (-1))) (cps "bitcoin") = Err /\
  lib_raw_value (NInt (-5)) = Err.
Proof. repeat split; vm_compute; reflexivity. Qed.

(* Output(value=1.5) is not checked; raw() then writes int(1.5) = 1  (class output_ctor_unchecked) *)
Example output_ctor_unchecked_refuted :
  lib_output_value (NFlt (b64_of_dec false 15 (-1))) (cps "bitcoin") = Ok (NFlt (b64_of_dec false 15 (-1))) /\
  lib_raw_value (NFlt (b64_of_dec false 15 (-1))) = Ok (le_bytes 8 1).
Proof. split; vm_compute; reflexivity. Qed.

(* --- other denominators: the extra float multiplication loses a unit (one class per symbol).
       First conjunct: the text is the exact decimal numeral of n units in that denominator;
       second: what the model (and, replayed, the implementation) returns: n - 1 or n + 1. --- *)
Example den_msat_refuted :
  fmt_fixed false 1940275575242557000 0 ++ cps " msatBTC" = cps "1940275575242557000 msatBTC" /\
  lib_value_to_satoshi (cps "1940275575242557000 msatBTC") None = Ok 1940275575242556.
Proof. split; vm_compute; reflexivity. Qed.

Example den_n_refuted :
  fmt_fixed false 19049167257834750 0 ++ cps " nBTC" = cps "19049167257834750 nBTC" /\
  lib_value_to_satoshi (cps "19049167257834750 nBTC") None = Ok 1904916725783476.
Proof. split; vm_compute; reflexivity. Qed.

Example den_fin_refuted :
  fmt_fixed false 1714388958800707 1 ++ cps " finBTC" = cps "171438895880070.7 finBTC" /\
  lib_value_to_satoshi (cps "171438895880070.7 finBTC") None = Ok 1714388958800706.
Proof. split; vm_compute; reflexivity. Qed.

Example den_u_refuted :
  fmt_fixed false 2099999999493631 2 ++ cps " \xb5BTC" = cps "20999999994936.31 \xb5BTC" /\
  lib_value_to_satoshi (cps "20999999994936.31 \xb5BTC") None = Ok 2099999999493630.
Proof. split; vm_compute; reflexivity. Qed.

Example den_d_refuted :
  fmt_fixed false 2031411868842199 7 ++ cps " dBTC" = cps "203141186.8842199 dBTC" /\
  lib_value_to_satoshi (cps "203141186.8842199 dBTC") None = Ok 2031411868842200.
Proof. split; vm_compute; reflexivity. Qed.

Example den_k_refuted :
  fmt_fixed false 1687839911544409 11 ++ cps " kBTC" = cps "16878.39911544409 kBTC" /\
  lib_value_to_satoshi (cps "16878.39911544409 kBTC") None = Ok 1687839911544408.
Proof. split; vm_compute; reflexivity. Qed.

Example den_M_refuted :
  fmt_fixed false 1916117818783861 14 ++ cps " MBTC" = cps "19.16117818783861 MBTC" /\
  lib_value_to_satoshi (cps "19.16117818783861 MBTC") None = Ok 1916117818783860.
Proof. split; vm_compute; reflexivity. Qed.

Example den_G_refuted :
  fmt_fixed false 1771708189301569 17 ++ cps " GBTC" = cps "0.01771708189301569 GBTC" /\
  lib_value_to_satoshi (cps "0.01771708189301569 GBTC") None = Ok 1771708189301568.
Proof. split; vm_compute; reflexivity. Qed.

Example den_T_refuted :
  fmt_fixed false 1969934265327787 20 ++ cps " TLTC" = cps "0.00001969934265327787 TLTC" /\
  lib_value_to_satoshi (cps "0.00001969934265327787 TLTC") None = Ok 1969934265327786.
Proof. split; vm_compute; reflexivity. Qed.

Example den_P_refuted :
  fmt_fixed false 1685371796209795 23 ++ cps " PBTC" = cps "0.00000001685371796209795 PBTC" /\
  lib_value_to_satoshi (cps "0.00000001685371796209795 PBTC") None = Ok 1685371796209794.
Proof. split; vm_compute; reflexivity. Qed.

Example den_E_refuted :
  fmt_fixed false 2093208222613937 26 ++ cps " EBTC" = cps "0.00000000002093208222613937 EBTC" /\
  lib_value_to_satoshi (cps "0.00000000002093208222613937 EBTC") None = Ok 2093208222613936.
Proof. split; vm_compute; reflexivity. Qed.

Example den_Z_refuted :
  fmt_fixed false 2090075606302949 29 ++ cps " ZBTC" = cps "0.00000000000002090075606302949 ZBTC" /\
  lib_value_to_satoshi (cps "0.00000000000002090075606302949 ZBTC") None = Ok 2090075606302948.
Proof. split; vm_compute; reflexivity. Qed.

Example den_Y_refuted :
  fmt_fixed false 2052587240060861 32 ++ cps " YBTC" = cps "0.00000000000000002052587240060861 YBTC" /\
  lib_value_to_satoshi (cps "0.00000000000000002052587240060861 YBTC") None = Ok 2052587240060860.
Proof. split; vm_compute; reflexivity. Qed.

Example den_m_refuted :
  fmt_fixed false 2023092840374333 5 ++ cps " mBTC" = cps "20230928403.74333 mBTC" /\
  lib_value_to_satoshi (cps "20230928403.74333 mBTC") None = Ok 2023092840374332.
Proof. split; vm_compute; reflexivity. Qed.

Example den_h_parse_refuted :
  fmt_fixed false 2081412615786479 10 ++ cps " hBTC" = cps "208141.2615786479 hBTC" /\
  lib_value_to_satoshi (cps "208141.2615786479 hBTC") None = Ok 2081412615786478.
Proof. split; vm_compute; reflexivity. Qed.

(* 'da' cannot be parsed at all ('d' matches first); 'h' and larger: the default decimals cannot hold one unit *)
Example den_da_refuted : lib_value_to_satoshi (cps "1 daBTC") None = Err.
Proof. vm_compute; reflexivity. Qed.

Example den_h_refuted :
  match find_by_name (cps "bitcoin") with
  | Some nw => match lib_from_satoshi 22 DNone nw with
               | Ok v => match lib_str v (DSym (cps "h")) None with
                         | Ok s => s = cps "0.00000000 hBTC" /\ lib_value_to_satoshi s None = Ok 0
                         | Err => False
                         end
               | Err => False
               end
  | None => False
  end.
Proof. vm_compute. split; reflexivity. Qed.

(* ================= sequences of conversions in one process (Model/AmountSession.v) ================= *)

(* the answer to a conversion does not depend on what was converted before or after it *)
Theorem conversion_session_stateless : forall (pre : list conv_req) r post d,
  nth (List.length pre) (lib_conv_session (pre ++ r :: post)) d = lib_conv r.
Proof. exact conv_session_independent. Qed.

(* in particular every amount of the supply converts exactly at ANY position of ANY session *)
Theorem btc_string_exact_in_session : forall (pre post : list conv_req) n d, 0 <= n <= 21 * 10 ^ 14 ->
  nth (List.length pre) (lib_conv_session (pre ++ CVts (fmt_fixed false n 8 ++ 32 :: [66; 84; 67]) None :: post)) d = AZ (Ok n).
Proof. exact conv_session_btc_exact. Qed.

Theorem sat_string_exact_in_session : forall (pre post : list conv_req) n d, 0 <= n <= 21 * 10 ^ 14 ->
  nth (List.length pre) (lib_conv_session (pre ++ CVts (dec_digits n ++ 32 :: [115; 97; 116]) None :: post)) d = AZ (Ok n).
Proof. exact conv_session_sat_exact. Qed.

(* observing a Value object (value_sat, str(), to_bytes()) any number of times leaves it as it is *)
Theorem value_observations_transparent : forall v (obs ops : list vop),
  forallb is_observation obs = true ->
  lib_vsession v (obs ++ ops) = map (vop_answer v) obs ++ lib_vsession v ops.
Proof. exact vsession_observations_transparent. Qed.

Theorem value_sat_stable : forall v (obs1 obs2 : list vop) d,
  forallb is_observation obs1 = true ->
  nth (List.length obs1) (lib_vsession v (obs1 ++ VSat :: obs2)) d = RSat (lib_value_sat v).
Proof. exact vsession_sat_stable. Qed.

(* 'mBTC' then 'MBTC' (and back) in one process; arithmetic on one object, observed in between *)
Example conversion_session_example :
  lib_conv_session [CVts (cps "1 mBTC") None; CVts (cps "1 MBTC") None; CVts (cps "1 mBTC") None; CRt 12345 (DSym (cps "c")) (cps "bitcoin")] =
  [AZ (Ok 100000); AZ (Ok 100000000000000); AZ (Ok 100000); ASZ (Ok (cps "0.012345 cBTC", Ok 12345))].
Proof. vm_compute. reflexivity. Qed.

Example value_session_example :
  match lib_value_default (cps "1.5 mBTC") with
  | Ok v => map (fun a => match a with RSat r => r | RVal (Ok w) => lib_value_sat w | _ => Err end)
                (lib_vsession v [VSat; VStr DNone None; VAdd (cps "100 sat"); VSat; VMul 3; VSat; VDiv 2; VSat]) =
            [Ok 150000; Err; Ok 150100; Ok 150100; Ok 450300; Ok 450300; Ok 225150; Ok 225150]
  | Err => False
  end.
Proof. vm_compute. reflexivity. Qed.

(* ================= add_output(<Value object>) ================= *)

(* the repaired code (fixes/C17-1) stores exactly value_sat of the object, of the transaction's own network *)
Theorem add_output_value_exact : forall v name o,
  lib_add_output_value true v name = Ok o ->
  exists z, o = NInt z /\ lib_value_sat v = Ok z /\ str_eqb (n_name (v_net v)) name = true.
Proof. exact add_output_value_repaired. Qed.

(* the code as it is takes the amount in MAIN units: add_output(Value('1 BTC')) holds 1 smallest unit, and
   Value('100 sat') is refused (class addoutput_value_units) *)
Example addoutput_value_units_refuted :
  match lib_value_default (cps "1 BTC"), lib_value_default (cps "100 sat") with
  | Ok v, Ok w => lib_value_sat v = Ok 100000000 /\ lib_add_output_value false v (cps "bitcoin") = Ok (NInt 1) /\
                  lib_add_output_value true v (cps "bitcoin") = Ok (NInt 100000000) /\
                  lib_value_sat w = Ok 100 /\ lib_add_output_value false w (cps "bitcoin") = Err /\
                  lib_add_output_value true w (cps "bitcoin") = Ok (NInt 100)
  | _, _ => False
  end.
Proof. vm_compute. repeat split; reflexivity. Qed.

(* ================= amounts of a Transaction object through amount-changing operations (Model/AmountTx.v) ================= *)
Import Gen.GenNetworks Model.CoinSelect Model.TxCreate Model.BumpFee Proofs.BumpFee Model.AmountTx Proofs.AmountTx.

(* bumpfee of the session model is the C07 function lib_bumpfee on the same attributes, so the C07 theorems
   (bumpfee_no_negative_output, bumpfee_conserves, bumpfee_pays_extra) apply to every bump of a session *)
Theorem session_bump_is_lib_bumpfee : forall nw name s fee extra vs mult vs' r s',
  x_step nw name s (XBump fee extra vs mult vs') = (XOk r, s') ->
  lib_bumpfee (to_btx s vs) fee extra mult = TxCreate.Ok (to_btx s' vs).
Proof. exact x_bump_is_lib_bumpfee. Qed.

(* after EVERY operation of a session of bumpfee (explicit fee / extra_fee) / update_totals / sign_and_update /
   estimate_size / calculate_fee on a balanced transaction: every output value is an integer in 0 .. 2^64 - 1, the fee is a
   non-negative integer, and inputs = outputs + fee *)
Theorem session_amounts_nonnegative : forall nw name ops s a,
  Forall xop_guarded ops -> x_wf s -> In a (x_run nw name s ops) ->
  (forall o, In o (x_outs (snd a)) -> 0 <= o_value o < 2 ^ 64) /\ 0 <= x_fee (snd a) /\
  sum_values (x_ins (snd a)) = sum_outs (x_outs (snd a)) + x_fee (snd a).
Proof. exact x_session_amounts. Qed.

(* a balanced transaction can always be re-signed: raw() never meets a negative output *)
Theorem balanced_transaction_serialises : forall s vs, x_wf s -> fst (x_sign s vs) = XOk None /\ x_wf (snd (x_sign s vs)).
Proof. exact x_sign_wf. Qed.

(* whatever the session did before (add_output included): when sign_and_update succeeds, what raw() wrote are
   integers in 0 .. 2^64 - 1 *)
Theorem signed_outputs_in_range : forall s vs r s', x_sign s vs = (XOk r, s') ->
  x_outs s' = x_outs s /\ forall o, In o (x_outs s') -> 0 <= o_value o < 2 ^ 64.
Proof. exact x_sign_ok_range. Qed.

(* the fee after a bump: at least what was asked for, at most twice the extra fee more than before (a change output
   that would be left with less than the amount taken from it is dropped into the fee); inputs and payments untouched *)
Theorem bumpfee_fee_bounds : forall nw name s fee extra vs mult vs' r s' nf ex,
  x_wf s -> 0 <= vs -> fee <> 0 \/ extra <> 0 ->
  bump_amounts (to_btx s vs) fee extra mult = TxCreate.Ok (nf, ex) ->
  x_step nw name s (XBump fee extra vs mult vs') = (XOk r, s') ->
  x_fee s + ex <= x_fee s' <= x_fee s + 2 * ex /\
  x_ins s' = x_ins s /\
  (forall x, In x (x_outs s') -> o_change x = false -> In x (x_outs s)).
Proof. exact x_bump_fee_bounds. Qed.

(* a first change output of more than twice the extra fee pays it alone and exactly *)
Theorem bumpfee_exact_from_large_change : forall ex pre o post,
  0 < ex -> Forall (fun x => o_change x = false) pre -> o_change o = true -> 2 * ex < o_value o ->
  bump_loop true ex ex (pre ++ o :: post) = (0, pre ++ with_value o (o_value o - ex) :: post).
Proof. exact bump_loop_first_change_covers. Qed.

(* add_output of a non-negative amount followed by sign_and_update: the fee absorbs exactly that amount *)
Theorem add_output_then_sign : forall s z chg vs r s',
  x_wf s -> 0 <= z -> x_sign (x_append s z chg) vs = (XOk r, s') ->
  x_fee s' = x_fee s - z /\ (forall o, In o (x_outs s') -> 0 <= o_value o < 2 ^ 64).
Proof. exact x_add_then_sign. Qed.

(* non-vacuity: the session of the recorded seed shape — change outputs 6000 and 9000, extra fee 10000 — in the model
   of the code as it is (repaired loop): 6000 is used up, the remaining 4000 come out of 9000 *)
Definition s_two_change : option xstate := x_init [200000] [(180000, false); (6000, true); (9000, true)].

Example session_nonvacuous :
  match s_two_change with
  | Some s0 =>
      map (fun a => (x_fee (snd a), map o_value (x_outs (snd a))))
          (x_run nw_bitcoinlib_test (cps "bitcoinlib_test") s0
                 [XSign 172; XBump 0 10000 172 (1, 1) 141; XUpdate 141; XCalc 12345 141; XSign 141]) =
      [(5000, [180000; 6000; 9000]); (15000, [180000; 5000]); (15000, [180000; 5000]); (15000, [180000; 5000]);
       (15000, [180000; 5000])]
  | None => False
  end.
Proof. vm_compute. reflexivity. Qed.

Example session_guard_satisfiable :
  match s_two_change with
  | Some s0 => 0 < sum_values (x_ins s0) < 2 ^ 64 /\ sum_values (x_ins s0) = sum_outs (x_outs s0) + x_fee s0 /\ 0 <= x_fee s0 /\
               forallb (fun o => 0 <=? o_value o) (x_outs s0) = true
  | None => False
  end.
Proof. vm_compute. repeat split; try reflexivity; discriminate. Qed.

(* the statement [outp.value -= extra_fee] (before fixes/C07-3; seeded again as C17-c) drives the second change output
   to -1000, raw() refuses the transaction; with change outputs 6000 and 50000 the fee paid is 21000 instead of 15000 *)
Example bumpfee_deducts_total_extra_refuted :
  bump_loop false 10000 10000 [{| o_dest := ToChange 0; o_value := 180000; o_change := false |};
                               {| o_dest := ToChange 1; o_value := 6000; o_change := true |};
                               {| o_dest := ToChange 2; o_value := 9000; o_change := true |}] =
    (0, [{| o_dest := ToChange 0; o_value := 180000; o_change := false |};
         {| o_dest := ToChange 2; o_value := -1000; o_change := true |}]) /\
  map o_value (snd (bump_loop false 10000 10000 [{| o_dest := ToChange 0; o_value := 139000; o_change := false |};
                               {| o_dest := ToChange 1; o_value := 6000; o_change := true |};
                               {| o_dest := ToChange 2; o_value := 50000; o_change := true |}])) = [139000; 40000] /\
  map o_value (snd (bump_loop true 10000 10000 [{| o_dest := ToChange 0; o_value := 139000; o_change := false |};
                               {| o_dest := ToChange 1; o_value := 6000; o_change := true |};
                               {| o_dest := ToChange 2; o_value := 50000; o_change := true |}])) = [139000; 46000].
Proof. vm_compute. repeat split; reflexivity. Qed.

(* add_output beyond the inputs, then sign_and_update: the Transaction object reports a NEGATIVE fee (class fee_negative) *)
Example fee_negative_refuted :
  match x_init [200000] [(100000, false)] with
  | Some s0 =>
      map (fun a => (fst a, x_fee (snd a)))
          (x_run nw_bitcoin (cps "bitcoin") s0 [XSign 110; XAdd (NInt 500000) false; XSign 141]) =
      [(XOk None, 100000); (XOk None, 100000); (XOk None, -400000)]
  | None => False
  end.
Proof. vm_compute. reflexivity. Qed.

Print Assumptions round_half_even_exact.
Print Assumptions py_round_exact.
Print Assumptions py_float_correctly_rounded.
Print Assumptions btc_amount_exact.
Print Assumptions sat_amount_exact.
Print Assumptions btc_string_exact.
Print Assumptions sat_string_exact.
Print Assumptions format_parse_roundtrip.
Print Assumptions numeral_parse_exact.
Print Assumptions outputs_are_integers.
Print Assumptions add_output_holds_integer.
Print Assumptions conversion_session_stateless.
Print Assumptions btc_string_exact_in_session.
Print Assumptions sat_string_exact_in_session.
Print Assumptions value_observations_transparent.
Print Assumptions value_sat_stable.
Print Assumptions add_output_value_exact.
Print Assumptions session_bump_is_lib_bumpfee.
Print Assumptions session_amounts_nonnegative.
Print Assumptions balanced_transaction_serialises.
Print Assumptions signed_outputs_in_range.
Print Assumptions bumpfee_fee_bounds.
Print Assumptions bumpfee_exact_from_large_change.
Print Assumptions add_output_then_sign.
