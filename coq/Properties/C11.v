(* Properties/C11.v — checksummed text encodings are canonical; corruption is rejected.
   Only statements closed by [exact lemma], non-vacuity examples, refutation witnesses for the classes the
   repaired code excludes (and for the one class still open), and Print Assumptions. *)
From Coq Require Import String.
From Coq Require Import ZArith List Bool Lia.
From Coq.Strings Require Import Byte.
From Verif Require Import Lib.Bytes Lib.BitRegroup Crypto.Sha256 Gen.GenConsts Gen.GenNetworks
  Model.Base58 Model.Bech32 Proofs.Base58 Proofs.Base58Check Proofs.Base58Fixed Proofs.Bech32
  Proofs.Bech32Convert Proofs.Bech32Roundtrip Proofs.Bech32Errors Proofs.Bech32Canonical.
Import ListNotations.
Open Scope Z_scope.

Definition str (s : String.string) : bytes := String.list_byte_of_string s.
Arguments str s%string.

(* ================= Base58: a bijection between byte strings and alphabet strings ================= *)
(* every byte string (any number of leading zero bytes, any length) decodes back from its encoding *)
Theorem b58_bijection_dec_enc : forall bs, spec_b58_dec (b58_enc bs) = Some bs.
Proof. exact b58_dec_enc. Qed.

(* every string the strict decoder accepts is the encoding of what it decodes to *)
Theorem b58_bijection_enc_dec : forall s bs, spec_b58_dec s = Some bs -> b58_enc bs = s.
Proof. exact b58_enc_dec. Qed.

(* ... and it accepts exactly the strings over the alphabet *)
Theorem b58_alphabet_total : forall s,
  Forall (fun c => b58_pos c <> None) s -> exists bs, spec_b58_dec s = Some bs.
Proof. exact spec_b58_dec_total. Qed.

Theorem b58_one_spelling_per_payload : forall s t bs,
  spec_b58_dec s = Some bs -> spec_b58_dec t = Some bs -> s = t.
Proof. exact spec_b58_dec_inj. Qed.

Theorem b58_enc_injective : forall a b, b58_enc a = b58_enc b -> a = b.
Proof. exact b58_enc_inj. Qed.

(* change_base(s, 58, 256, m) after fix C11-1 is the strict decoder followed by left padding to m bytes
   (None = an exception; the empty result raises) *)
Theorem change_base_is_strict : forall s m,
  lib_b58_dec false s m =
  match spec_b58_dec s with
  | None => None
  | Some b => match pad_left m b with [] => None | o => Some o end
  end.
Proof. exact lib_b58_dec_spec. Qed.

(* ================= Base58Check acceptance, for an arbitrary hash function H ================= *)
(* accepted => last four bytes of the decoded body = first four of H(rest); holds for the code before and
   after the repairs (any setting of the switches) *)
Theorem b58check_accept_sound : forall H fold canon s pkh,
  lib_addr_b58_gen H fold canon s = AOk pkh ->
  exists body, lib_b58_dec fold s 25 = Some body /\
    skipn (length body - 4) body = firstn 4 (H (firstn (length body - 4) body)).
Proof. exact addr_b58_accept_sound. Qed.

Theorem b58check_accept_sound_deserialize : forall H fold canon enc_b58 s i,
  lib_deser_b58_gen H fold canon enc_b58 s = BrOk i ->
  exists body, lib_b58_dec fold s 25 = Some body /\ ai_raw i = body /\
    skipn (length body - 4) body = firstn 4 (H (firstn (length body - 4) body)).
Proof. exact deser_b58_accept_sound. Qed.

(* addr_base58_to_pubkeyhash (repaired): an accepted string is THE Base58Check spelling of
   version ++ 20-byte hash, and the strict decoder reads exactly that 25-byte body from it *)
Theorem b58_lib_canonical : forall H s pkh,
  lib_addr_b58 H s = AOk pkh ->
  length pkh = 20%nat /\
  exists ver, s = b58check_enc H (ver :: pkh) /\
              spec_b58_dec s = Some ((ver :: pkh) ++ firstn 4 (H (ver :: pkh))).
Proof. exact addr_b58_canonical. Qed.

(* deserialize_address, base58 branch (repaired): canonical, 1 + 20 bytes, and a reported network really
   has that version byte in the regenerated table *)
Theorem b58_lib_canonical_deserialize : forall H enc_b58 s i,
  lib_deser_b58 H enc_b58 s = BrOk i ->
  ai_bech32 i = false /\ length (ai_prefix i) = 1%nat /\ length (ai_pkh i) = 20%nat /\
  s = b58check_enc H (ai_prefix i ++ ai_pkh i) /\
  ai_raw i = (ai_prefix i ++ ai_pkh i) ++ firstn 4 (H (ai_prefix i ++ ai_pkh i)) /\
  spec_b58_dec s = Some (ai_raw i) /\
  (forall nm, ai_network i = Some nm ->
     exists nw, In nw all_networks /\ nw_name nw = nm /\
                (nw_prefix_address nw = ai_prefix i \/ nw_prefix_address_p2sh nw = ai_prefix i)).
Proof. exact deser_b58_canonical. Qed.

(* the fixed-length guards of the key importers (HDKey.from_wif, HDKey(extended key string): 82 bytes; bip38_decrypt:
   43 bytes): an accepted string decodes to EXACTLY that many bytes, the last four are the checksum of ALL the others,
   and the string is THE Base58Check spelling of the payload (decode then re-encode is the identity); a string whose
   decoding has any other length - a valid payload with bytes appended, prepended or inserted, or one byte short - is
   refused whatever checksum it carries *)
Theorem fixed_length_accept_canonical : forall H total s p,
  (4 <= total)%nat -> lib_fixed_check H total s = Some p ->
  length p = (total - 4)%nat /\
  exists d, spec_b58_dec s = Some d /\ length d = total /\ d = p ++ firstn 4 (H p) /\ s = b58check_enc H p.
Proof. exact fixed_accepted_has_exact_length. Qed.

Theorem fixed_length_other_length_refused : forall H total s d,
  spec_b58_dec s = Some d -> length d <> total -> lib_fixed_check H total s = None.
Proof. exact fixed_other_length_refused. Qed.

(* non-vacuity with the executable SHA-256: BIP32 test vector 1 (xprv of the master key) passes the 82-byte guard, the
   same payload followed by one junk byte - with its own checksum left in place - does not *)
Definition xprv_tv1 : bytes :=
  str "xprv9s21ZrQH143K3QTDL4LXw2F7HEK3wJUD2nW2nRk4stbPy6cq3jPPqjiChkVvvNKmPGJxWUtg6LnF5kejMRNNU3TGtRBeJgk33yuGBxrMPHi".
Example fixed_length_witness :
  (exists p, lib_xkey_check sha256d xprv_tv1 = Some p /\ length p = 78%nat) /\
  (forall d, spec_b58_dec xprv_tv1 = Some d -> lib_xkey_check sha256d (b58_enc (d ++ [x07])) = None).
Proof.
  split.
  - eexists. split; vm_compute; reflexivity.
  - intros d Hd. apply (fixed_length_other_length_refused sha256d 82 _ (d ++ [x07])).
    + apply b58_bijection_dec_enc.
    + assert (L : length d = 82%nat).
      { revert Hd. vm_compute. intros E. injection E as E. rewrite <- E. reflexivity. }
      rewrite app_length, L. simpl. lia.
Qed.

(* non-vacuity, with the executable SHA-256: the documented example address is accepted *)
Definition addr_ok : bytes := str "1Khyc5eUddbhYZ8bEZi9wiN8TrmQ8uND4j".
Definition addr_ok_hash : bytes :=
  [xcd; x32; x27; x66; xc0; x2e; x7c; x37; xc3; xe3; xf9; xb8; x25; xcd; x41; xff; xbd; xcd; x17; xd7].
Example b58_accepts_valid :
  lib_addr_b58 sha256d addr_ok = AOk addr_ok_hash /\
  lib_addr_b58_enc sha256d [x00] addr_ok_hash = addr_ok /\
  exists i, lib_deser_b58 sha256d false addr_ok = BrOk i /\ ai_network i = Some "bitcoin"%string /\
            ai_script i = SkP2pkh /\ ai_pkh i = addr_ok_hash.
Proof. split; [vm_compute; reflexivity|]. split; [vm_compute; reflexivity|]. eexists. vm_compute. repeat split. Qed.

(* --- the three reproduced defect classes: witnesses on the model of the code BEFORE the repairs
       (fold = lower-casing retry on, canon = canonical-form/length check off), rejected after them --- *)
(* finding 5, b58_case_fold: 'i' written as 'I' *)
Example b58_case_fold_refuted :
  let s := str "1Khyc5eUddbhYZ8bEZI9wiN8TrmQ8uND4j" in
  s <> addr_ok /\
  lib_addr_b58_gen sha256d true false s = AOk addr_ok_hash /\
  lib_b58_dec true (str "I") 0 = lib_b58_dec true (str "i") 0 /\
  lib_addr_b58 sha256d s = AErr /\ lib_b58_dec false (str "I") 0 = None.
Proof. cbv zeta. split; [discriminate|]. repeat split; vm_compute; reflexivity. Qed.

(* finding 6, b58_short_padded: the leading '1' dropped, the decoder pads back to 25 bytes *)
Example b58_short_padded_refuted :
  let s := str "Khyc5eUddbhYZ8bEZi9wiN8TrmQ8uND4j" in
  lib_addr_b58_gen sha256d false false s = AOk addr_ok_hash /\
  (exists i, lib_deser_b58_gen sha256d false false false s = BrOk i /\ ai_pkh i = addr_ok_hash) /\
  lib_addr_b58 sha256d s = AErr /\ lib_deser_b58 sha256d false s = BrFallthrough.
Proof.
  cbv zeta. split; [vm_compute; reflexivity|]. split; [eexists; vm_compute; split; reflexivity|].
  split; vm_compute; reflexivity.
Qed.

(* finding 7, b58_overlong_payload: a correctly checksummed 1 + 21-byte body reported as P2PKH *)
Example b58_overlong_payload_refuted :
  let s := str "17sJVfvMWz5aMVTuwpRkaD97VcGzqH2pF78" in
  (exists i, lib_deser_b58_gen sha256d false false false s = BrOk i /\
             ai_script i = SkP2pkh /\ length (ai_pkh i) = 21%nat) /\
  lib_deser_b58 sha256d false s = BrFallthrough.
Proof. cbv zeta. split; [eexists; vm_compute; repeat split|vm_compute; reflexivity]. Qed.

(* still open (known finding unknown_prefix_accepted): deserialize_address returns a result with no network
   for a well-formed Base58Check string whose version byte no network uses; the theorem above therefore
   speaks about [ai_network i = Some nm] only *)
Example unknown_prefix_accepted_refuted :
  exists i, lib_deser_b58 sha256d false (str "QCwq6jnvdnFJ8SDVKL7DSqqwyxW9wQcxWZ") = BrOk i /\
            ai_network i = None /\ ai_script i = SkNone /\ ai_prefix i = [x39].
Proof. eexists. vm_compute. repeat split. Qed.

(* ================= Bech32 / Bech32m checksum ================= *)
(* GF(2)-linearity of the checksum step *)
Theorem polymod_step_linear : forall a b v w,
  polymod_step (Z.lxor a b) (Z.lxor v w) = Z.lxor (polymod_step a v) (polymod_step b w).
Proof. exact step_xor. Qed.

(* for every human-readable part, every sequence of 5-bit values and every 30-bit constant, the six values
   the encoder appends make the decoder's polymod equal to that constant *)
Theorem bech32_checksum_valid : forall hrp data const,
  Forall (fun v => 0 <= v < 32) data -> 0 <= const < 2 ^ 30 ->
  polymod (hrp_expand hrp ++ data ++ mk_checksum hrp data const) = const.
Proof. exact mk_checksum_verifies. Qed.

(* hence a string carrying the checksum of the other variant (or any other constant) fails the test *)
Theorem bech32_wrong_constant_detected : forall hrp data c1 c2,
  Forall (fun v => 0 <= v < 32) data -> 0 <= c1 < 2 ^ 30 -> c1 <> c2 ->
  polymod (hrp_expand hrp ++ data ++ mk_checksum hrp data c1) <> c2.
Proof. exact wrong_constant_detected. Qed.

Theorem bech32_constants : forall witver,
  0 <= bech32_const witver < 2 ^ 30 /\ (bech32_const witver = 1 <-> witver = 0).
Proof. exact bech32_const_spec. Qed.

(* the character set is a bijection on 0..31 (regenerated table) *)
Theorem bech32_charset_roundtrip : forall ds,
  Forall (fun d => 0 <= d < 32) ds -> b32_indices (map b32_char ds) = Some ds.
Proof. exact b32_indices_of_values. Qed.

(* non-vacuity and protocol vectors (BIP173 / BIP350), decoder and encoder of the model *)
Definition prog20 : bytes :=
  [x75; x1e; x76; xe8; x19; x91; x96; xd4; x54; x94; x1c; x45; xd1; xb3; xa3; x23; xf1; x43; x3b; xd6].
Example bech32_vectors :
  lib_bech32_dec (str "bc1qw508d6qejxtdg4y5r3zarvary0c5xw7kv8f3t4") = Some (0, prog20) /\
  lib_bech32_dec (str "BC1QW508D6QEJXTDG4Y5R3ZARVARY0C5XW7KV8F3T4") = Some (0, prog20) /\
  lib_bech32_enc prog20 (str "bc") 0 1 = Some (str "bc1qw508d6qejxtdg4y5r3zarvary0c5xw7kv8f3t4") /\
  lib_bech32_dec (str "bc1pw508d6qejxtdg4y5r3zarvary0c5xw7kw508d6qejxtdg4y5r3zarvary0c5xw7kt5nd6y")
    = Some (1, prog20 ++ prog20) /\
  lib_bech32_enc (prog20 ++ prog20) (str "bc") 1 1 =
    Some (str "bc1pw508d6qejxtdg4y5r3zarvary0c5xw7kw508d6qejxtdg4y5r3zarvary0c5xw7kt5nd6y") /\
  (* mixed case, Bech32 checksum on a v1 program, Bech32m checksum on a v0 program: refused *)
  lib_bech32_dec (str "bc1Qw508d6qejxtdg4y5r3zarvary0c5xw7kv8f3t4") = None /\
  lib_bech32_dec (str "bc1p0xlxvlhemja6c4dqv22uapctqupfhlxm9h8z3k2e72q4k9hcz7vqh2y7hd") = None /\
  lib_bech32_dec (str "bc1qw508d6qejxtdg4y5r3zarvary0c5xw7kemeawh") = None.
Proof. repeat split; vm_compute; reflexivity. Qed.

Example convertbits_vectors :
  convertbits [255; 1; 2] 8 5 true = CbOk [31; 28; 0; 16; 4] /\
  convertbits [31; 28; 0; 16; 4] 5 8 false = CbOk [255; 1; 2] /\
  convertbits [31; 28; 0; 16; 5] 5 8 false = CbErr /\          (* non-zero padding bit *)
  convertbits [31; 28; 0; 16; 4; 0] 5 8 false = CbErr /\       (* a whole superfluous group *)
  convertbits [32] 5 8 false = CbNone.
Proof. repeat split; vm_compute; reflexivity. Qed.

(* fix C11-7: an upper-case address is attributed to its network (before: no network) *)
Example bech32_uppercase_network :
  (exists i, lib_deser_bech32 true (str "BC1QW508D6QEJXTDG4Y5R3ZARVARY0C5XW7KV8F3T4") = DOk i /\
             ai_network i = Some "bitcoin"%string) /\
  (exists i, lib_deser_bech32 false (str "BC1QW508D6QEJXTDG4Y5R3ZARVARY0C5XW7KV8F3T4") = DOk i /\
             ai_network i = Some ""%string).
Proof. split; eexists; vm_compute; split; reflexivity. Qed.

(* ================= convertbits: regrouping of the bit stream ================= *)
(* every byte string (any length): 8 -> 5 with padding succeeds, gives ceil(8n/5) five-bit values, and
   5 -> 8 without padding returns the bytes *)
Theorem convertbits_roundtrip : forall bs, in_base 256 bs ->
  exists d5, convertbits bs 8 5 true = CbOk d5 /\ in_base 32 d5 /\
             length d5 = ((8 * length bs + 4) / 5)%nat /\
             convertbits d5 5 8 false = CbOk bs.
Proof. exact convertbits_8_5_8. Qed.

Theorem convertbits_roundtrip_of_result : forall bs d5, in_base 256 bs ->
  convertbits bs 8 5 true = CbOk d5 -> convertbits d5 5 8 false = CbOk bs.
Proof. exact convertbits_roundtrip_fn. Qed.

(* the other direction: whatever 5 -> 8 (pad = False) accepts is the padded regrouping of its result *)
Theorem convertbits_accepts_only_canonical : forall d5 bs, in_base 32 d5 ->
  convertbits d5 5 8 false = CbOk bs -> in_base 256 bs /\ convertbits bs 8 5 true = CbOk d5.
Proof. exact convertbits_5_8_5. Qed.

(* pad = False, any widths: with r = (frombits * len) mod tobits left-over bits and N the big-endian value
   of the symbols, the call raises when r >= frombits or the r low bits of N are not all zero ... *)
Theorem convertbits_rejects_bad_padding : forall fbn tbn data, (0 < fbn)%nat -> (0 < tbn)%nat ->
  in_base (2 ^ Z.of_nat fbn) data ->
  let r := ((fbn * length data) mod tbn)%nat in
  (fbn <= r)%nat \/ val (2 ^ Z.of_nat fbn) data mod 2 ^ Z.of_nat r <> 0 ->
  convertbits data (Z.of_nat fbn) (Z.of_nat tbn) false = CbErr.
Proof. exact convertbits_nopad_rejects. Qed.

(* ... and otherwise returns the tobits-wide digits of N / 2^r *)
Theorem convertbits_accepts_zero_padding : forall fbn tbn data, (0 < fbn)%nat -> (0 < tbn)%nat ->
  in_base (2 ^ Z.of_nat fbn) data ->
  let r := ((fbn * length data) mod tbn)%nat in
  (r < fbn)%nat -> val (2 ^ Z.of_nat fbn) data mod 2 ^ Z.of_nat r = 0 ->
  exists out, convertbits data (Z.of_nat fbn) (Z.of_nat tbn) false = CbOk out /\
              length out = ((fbn * length data) / tbn)%nat /\
              in_base (2 ^ Z.of_nat tbn) out /\
              val (2 ^ Z.of_nat tbn) out = val (2 ^ Z.of_nat fbn) data / 2 ^ Z.of_nat r.
Proof. exact convertbits_nopad_accepts. Qed.

(* a symbol outside 0 .. 2^frombits - 1: the Python None *)
Theorem convertbits_rejects_bad_symbol : forall data fb tb pad, 0 <= fb ->
  Exists (fun v => v < 0 \/ 2 ^ fb <= v) data -> convertbits data fb tb pad = CbNone.
Proof. exact convertbits_bad_symbol. Qed.

Example convertbits_roundtrip_example :
  in_base 256 (map bz prog20) /\
  convertbits (map bz prog20) 8 5 true =
    CbOk [14; 20; 15; 7; 13; 26; 0; 25; 18; 6; 11; 13; 8; 21; 4; 20; 3; 17; 2; 29; 3; 12; 29; 3; 4; 15; 24; 20; 6; 14; 30; 22] /\
  convertbits [14; 20; 15; 7; 13; 26; 0; 25; 18; 6; 11; 13; 8; 21; 4; 20; 3; 17; 2; 29; 3; 12; 29; 3; 4; 15; 24; 20; 6; 14; 30; 22] 5 8 false
    = CbOk (map bz prog20).
Proof. split; [apply map_bz_range|]. split; vm_compute; reflexivity. Qed.

(* hypotheses of the padding theorems on concrete values: [31;28;0;16;5] has 25 bits, r = 1, low bit 1;
   [31;28;0;16;4;0] has 30 bits, r = 6 >= 5; [31;28;0;16;4] has r = 1, low bit 0 *)
Example convertbits_padding_example :
  in_base (2 ^ Z.of_nat 5) [31; 28; 0; 16; 5] /\
  val (2 ^ Z.of_nat 5) [31; 28; 0; 16; 5] mod 2 ^ Z.of_nat ((5 * 5) mod 8) <> 0 /\
  (5 <= (5 * length [31; 28; 0; 16; 4; 0]) mod 8)%nat /\
  ((5 * 5) mod 8 < 5)%nat /\ val (2 ^ Z.of_nat 5) [31; 28; 0; 16; 4] mod 2 ^ Z.of_nat ((5 * 5) mod 8) = 0 /\
  Exists (fun v => v < 0 \/ 2 ^ 5 <= v) [32].
Proof.
  split; [repeat constructor; cbn; lia|]. split; [vm_compute; discriminate|]. split; [vm_compute; lia|].
  split; [vm_compute; lia|]. split; [vm_compute; reflexivity|]. constructor. right. cbn. lia.
Qed.

(* ================= Bech32 / Bech32m: decode (encode x) = x ================= *)
(* hrp_wf: non-empty, characters 33..126, no upper-case letter.  prog_len_ok: 2..40 bytes, 20 or 32 for
   version 0.  enc_input: what pubkeyhash_to_addr_bech32 must be handed for a program (the bare program when
   it is 20, 32 or 40 bytes long, else [version opcode, length] ++ program - known finding
   bech32_enc_header_ambiguity; lengths 18, 30, 38 cannot be expressed).  checksum_xor: 1 for version 0,
   anything for versions 1..16 (the function replaces it by BECH32M_CONST).  The 90-character limit of the
   decoder is a hypothesis on the produced string; its length is given by bech32_encoder_total. *)
Theorem bech32_roundtrip : forall hrp witver prog cx s,
  hrp_wf hrp -> 0 <= witver <= 16 -> prog_len_ok witver (length prog) ->
  ~ In (length prog) [18%nat; 30%nat; 38%nat] -> (witver = 0 -> cx = 1) ->
  lib_bech32_enc (enc_input witver prog) hrp witver cx = Some s -> (length s <= 90)%nat ->
  lib_bech32_dec s = Some (witver, prog).
Proof. exact lib_roundtrip. Qed.

(* the same for the BIP173 / BIP350 reference encoder (no length convention, all program lengths) *)
Theorem bech32_roundtrip_spec : forall hrp witver prog s,
  hrp_wf hrp -> 0 <= witver <= 16 -> prog_len_ok witver (length prog) ->
  spec_bech32_enc hrp witver prog = Some s -> (length s <= 90)%nat ->
  lib_bech32_dec s = Some (witver, prog).
Proof. exact spec_roundtrip. Qed.

(* on these inputs the library encoder IS the reference encoder, never fails, and its output length is known *)
Theorem bech32_encoder_is_spec : forall hrp witver prog cx,
  0 <= witver <= 16 -> (length prog <= 40)%nat -> ~ In (length prog) [18%nat; 30%nat; 38%nat] ->
  (witver = 0 -> cx = 1) ->
  lib_bech32_enc (enc_input witver prog) hrp witver cx = spec_bech32_enc hrp witver prog.
Proof. exact lib_enc_is_spec. Qed.

Theorem bech32_encoder_total : forall hrp witver prog cx,
  0 <= witver <= 16 -> (length prog <= 40)%nat -> ~ In (length prog) [18%nat; 30%nat; 38%nat] ->
  (witver = 0 -> cx = 1) ->
  exists s, lib_bech32_enc (enc_input witver prog) hrp witver cx = Some s /\
            length s = (length hrp + 8 + (8 * length prog + 4) / 5)%nat.
Proof. exact lib_enc_succeeds. Qed.

Definition bip173_addr : bytes := str "bc1qw508d6qejxtdg4y5r3zarvary0c5xw7kv8f3t4".
Example bech32_roundtrip_example :
  hrp_wf (str "bc") /\ prog_len_ok 0 (length prog20) /\ ~ In (length prog20) [18%nat; 30%nat; 38%nat] /\
  lib_bech32_enc (enc_input 0 prog20) (str "bc") 0 1 = Some bip173_addr /\ (length bip173_addr <= 90)%nat /\
  lib_bech32_dec bip173_addr = Some (0, prog20) /\
  (* a program whose length is not 20/32/40 goes in with its two header bytes (BIP350 vector, version 16) *)
  prog_len_ok 16 (length [x75; x1e]) /\ enc_input 16 [x75; x1e] = [x60; x02; x75; x1e] /\
  lib_bech32_enc (enc_input 16 [x75; x1e]) (str "bc") 16 cfg_BECH32M_CONST = Some (str "bc1sw50qgdz25j") /\
  lib_bech32_dec (str "bc1sw50qgdz25j") = Some (16, [x75; x1e]).
Proof.
  split; [exact hrp_bc_wf|]. split; [split; [cbn; lia|intros _; left; reflexivity]|].
  split; [cbn; intros [H|[H|[H|[]]]]; discriminate|].
  split; [vm_compute; reflexivity|]. split; [vm_compute; lia|]. split; [vm_compute; reflexivity|].
  split; [split; [cbn; lia|intros H; discriminate]|].
  repeat split; vm_compute; reflexivity.
Qed.

(* ================= Bech32 / Bech32m: accepted => canonical ================= *)
(* an accepted string has at most 90 characters, a version 0..16, a program of 2..40 bytes (20 or 32 for
   version 0), and its lower-cased form is exactly the reference encoding of (its own human-readable part,
   version, program): checksum, padding bits and characters are all determined *)
Theorem bech32_canonical : forall s v prog,
  lib_bech32_dec s = Some (v, prog) ->
  0 <= v <= 16 /\ prog_len_ok v (length prog) /\ (length s <= 90)%nat /\
  exists pos, rfind x31 (map lower_byte s) = Some pos /\ (1 <= pos)%nat /\
    spec_bech32_enc (firstn pos (map lower_byte s)) v prog = Some (map lower_byte s).
Proof. exact bech32_dec_canonical. Qed.

(* decoding followed by re-encoding with the library encoder returns the (lower-cased) string *)
Theorem bech32_reencode_identity : forall s v prog,
  lib_bech32_dec s = Some (v, prog) -> ~ In (length prog) [18%nat; 30%nat; 38%nat] ->
  exists pos, rfind x31 (map lower_byte s) = Some pos /\
    lib_bech32_enc (enc_input v prog) (firstn pos (map lower_byte s)) v (bech32_const v) = Some (map lower_byte s).
Proof. exact bech32_dec_canonical_lib. Qed.

Theorem bech32_one_spelling_per_payload : forall s1 s2 r pos,
  lib_bech32_dec s1 = Some r -> lib_bech32_dec s2 = Some r ->
  rfind x31 (map lower_byte s1) = Some pos -> rfind x31 (map lower_byte s2) = Some pos ->
  firstn pos (map lower_byte s1) = firstn pos (map lower_byte s2) ->
  map lower_byte s1 = map lower_byte s2.
Proof. exact bech32_one_spelling. Qed.

(* the six checksum values are a function of everything before them and the constant *)
Theorem bech32_checksum_unique : forall hrp data chk const,
  Forall (fun v => 0 <= v < 32) chk -> length chk = 6%nat ->
  polymod (hrp_expand hrp ++ data ++ chk) = const -> mk_checksum hrp data const = chk.
Proof. exact mk_checksum_unique. Qed.

Example bech32_canonical_example :
  let s := str "BC1QW508D6QEJXTDG4Y5R3ZARVARY0C5XW7KV8F3T4" in
  lib_bech32_dec s = Some (0, prog20) /\ ~ In (length prog20) [18%nat; 30%nat; 38%nat] /\
  rfind x31 (map lower_byte s) = Some 2%nat /\ map lower_byte s = bip173_addr /\
  spec_bech32_enc (firstn 2 (map lower_byte s)) 0 prog20 = Some bip173_addr /\
  lib_bech32_enc (enc_input 0 prog20) (firstn 2 (map lower_byte s)) 0 (bech32_const 0) = Some bip173_addr.
Proof.
  cbv zeta. split; [vm_compute; reflexivity|]. split; [cbn; intros [H|[H|[H|[]]]]; discriminate|].
  repeat split; vm_compute; reflexivity.
Qed.

(* ================= Bech32 / Bech32m: corruption is detected ================= *)
(* checksum level, ANY length: one substituted 5-bit value, or two adjacent different values swapped,
   change the polymod (so the word no longer verifies against the same constant) *)
Theorem bech32_single_error_changes_polymod : forall pre x x' post,
  0 <= x < 32 -> 0 <= x' < 32 -> x <> x' ->
  polymod (pre ++ x' :: post) <> polymod (pre ++ x :: post).
Proof. exact single_substitution_detected. Qed.

Theorem bech32_transposition_changes_polymod : forall pre x y post,
  0 <= x < 32 -> 0 <= y < 32 -> x <> y ->
  polymod (pre ++ y :: x :: post) <> polymod (pre ++ x :: y :: post).
Proof. exact adjacent_transposition_detected. Qed.

(* checksum level, fewer than 90 values after the error: the result verifies against NEITHER constant (a
   single error never turns a Bech32 word into a Bech32m word or back) *)
Theorem bech32_single_error_invalid : forall pre x x' post,
  0 <= x < 32 -> 0 <= x' < 32 -> x <> x' -> (length post < 90)%nat ->
  good_const (polymod (pre ++ x :: post)) -> ~ good_const (polymod (pre ++ x' :: post)).
Proof. exact single_substitution_invalid. Qed.

Theorem bech32_transposition_invalid : forall pre x y post,
  0 <= x < 32 -> 0 <= y < 32 -> x <> y -> (length post < 90)%nat ->
  good_const (polymod (pre ++ x :: y :: post)) -> ~ good_const (polymod (pre ++ y :: x :: post)).
Proof. exact adjacent_transposition_invalid. Qed.

(* string level: s = a ++ c :: b is accepted (hence at most 90 characters, see bech32_canonical), c lies after
   the last '1'; replacing c by any c' that differs from it after lower-casing and is not '1' is refused
   (c' inside or outside the character set, either case) *)
Theorem bech32_single_error_detected : forall a c c' b r,
  lib_bech32_dec (a ++ c :: b) = Some r ->
  (exists pos, rfind x31 (map lower_byte (a ++ c :: b)) = Some pos /\ (pos < length a)%nat) ->
  lower_byte c' <> lower_byte c -> lower_byte c' <> x31 ->
  lib_bech32_dec (a ++ c' :: b) = None.
Proof. exact substitution_rejected. Qed.

Theorem bech32_transposition_detected : forall a c1 c2 b r,
  lib_bech32_dec (a ++ c1 :: c2 :: b) = Some r ->
  (exists pos, rfind x31 (map lower_byte (a ++ c1 :: c2 :: b)) = Some pos /\ (pos < length a)%nat) ->
  lower_byte c1 <> lower_byte c2 ->
  lib_bech32_dec (a ++ c2 :: c1 :: b) = None.
Proof. exact transposition_rejected. Qed.

(* form errors *)
Theorem bech32_mixed_case_rejected : forall s c1 c2,
  In c1 s -> lower_byte c1 <> c1 -> In c2 s -> upper_byte c2 <> c2 -> lib_bech32_dec s = None.
Proof. exact mixed_case_rejected. Qed.

Theorem bech32_overlong_rejected : forall s, (90 < length s)%nat -> lib_bech32_dec s = None.
Proof. exact overlong_rejected. Qed.

Theorem bech32_foreign_character_rejected : forall s pos c,
  rfind x31 (map lower_byte s) = Some pos -> In c (skipn (S pos) (map lower_byte s)) -> b32_pos c = None ->
  lib_bech32_dec s = None.
Proof. exact foreign_character_rejected. Qed.

Example bech32_error_example :
  (* 'w' (5th character) replaced by 'x'; characters 5 and 6 ("w5") swapped *)
  let a := str "bc1q" in let b := str "508d6qejxtdg4y5r3zarvary0c5xw7kv8f3t4" in
  a ++ "w"%byte :: b = bip173_addr /\
  lib_bech32_dec (a ++ "w"%byte :: b) = Some (0, prog20) /\
  (exists pos, rfind x31 (map lower_byte (a ++ "w"%byte :: b)) = Some pos /\ (pos < length a)%nat) /\
  lower_byte "x" <> lower_byte "w" /\ lower_byte "x" <> x31 /\
  lib_bech32_dec (a ++ "x"%byte :: b) = None /\
  lower_byte "w" <> lower_byte "5" /\
  lib_bech32_dec (a ++ "5"%byte :: "w"%byte :: tl b) = None /\
  (* checksum level: the values of "qw" are 0, 14 *)
  b32_indices (str "qw") = Some [0; 14] /\
  good_const (polymod (hrp_expand (str "bc") ++ [0; 14; 20; 15; 7; 13; 26; 0; 25; 18; 6; 11; 13; 8; 21; 4; 20; 3; 17; 2;
     29; 3; 12; 29; 3; 4; 15; 24; 20; 6; 14; 30; 22; 12; 7; 9; 17; 11; 21])) /\
  (* form errors *)
  In "Q"%byte (str "bc1Qw5") /\ lower_byte "Q" <> "Q"%byte /\ In "b"%byte (str "bc1Qw5") /\ upper_byte "b" <> "b"%byte /\
  b32_pos "b" = None.
Proof.
  cbv zeta. split; [reflexivity|]. split; [vm_compute; reflexivity|].
  split; [exists 2%nat; split; [vm_compute; reflexivity|cbn; lia]|].
  split; [vm_compute; discriminate|]. split; [vm_compute; discriminate|]. split; [vm_compute; reflexivity|].
  split; [vm_compute; discriminate|]. split; [vm_compute; reflexivity|]. split; [vm_compute; reflexivity|].
  split; [left; vm_compute; reflexivity|].
  split; [cbn; tauto|]. split; [vm_compute; discriminate|]. split; [cbn; tauto|]. split; [vm_compute; discriminate|].
  reflexivity.
Qed.

Print Assumptions b58_bijection_dec_enc.
Print Assumptions b58_bijection_enc_dec.
Print Assumptions b58_alphabet_total.
Print Assumptions b58_one_spelling_per_payload.
Print Assumptions b58_enc_injective.
Print Assumptions change_base_is_strict.
Print Assumptions b58check_accept_sound.
Print Assumptions b58check_accept_sound_deserialize.
Print Assumptions b58_lib_canonical.
Print Assumptions b58_lib_canonical_deserialize.
Print Assumptions polymod_step_linear.
Print Assumptions bech32_checksum_valid.
Print Assumptions bech32_wrong_constant_detected.
Print Assumptions bech32_constants.
Print Assumptions bech32_charset_roundtrip.
Print Assumptions convertbits_roundtrip.
Print Assumptions convertbits_roundtrip_of_result.
Print Assumptions convertbits_accepts_only_canonical.
Print Assumptions convertbits_rejects_bad_padding.
Print Assumptions convertbits_accepts_zero_padding.
Print Assumptions convertbits_rejects_bad_symbol.
Print Assumptions bech32_roundtrip.
Print Assumptions bech32_roundtrip_spec.
Print Assumptions bech32_encoder_is_spec.
Print Assumptions bech32_encoder_total.
Print Assumptions bech32_canonical.
Print Assumptions bech32_reencode_identity.
Print Assumptions bech32_one_spelling_per_payload.
Print Assumptions bech32_checksum_unique.
Print Assumptions bech32_single_error_changes_polymod.
Print Assumptions bech32_transposition_changes_polymod.
Print Assumptions bech32_single_error_invalid.
Print Assumptions bech32_transposition_invalid.
Print Assumptions bech32_single_error_detected.
Print Assumptions bech32_transposition_detected.
Print Assumptions bech32_mixed_case_rejected.
Print Assumptions bech32_overlong_rejected.
Print Assumptions bech32_foreign_character_rejected.
Print Assumptions fixed_length_accept_canonical.
Print Assumptions fixed_length_other_length_refused.
