(* Properties/C11.v — checksummed text encodings are canonical; corruption is rejected.
   Only statements closed by [exact lemma], non-vacuity examples, refutation witnesses for the classes the
   repaired code excludes (and for the one class still open), and Print Assumptions. *)
From Coq Require Import String.
From Coq Require Import ZArith List Bool.
From Coq.Strings Require Import Byte.
From Verif Require Import Lib.Bytes Crypto.Sha256 Gen.GenConsts Gen.GenNetworks
  Model.Base58 Model.Bech32 Proofs.Base58 Proofs.Base58Check Proofs.Bech32.
Import ListNotations.
Open Scope Z_scope.

Definition str (s : String.string) : bytes := String.list_byte_of_string s.
Arguments str s%string.

(* ================= Base58: a bijection between byte strings and alphabet strings ================= *)
(* every byte string (any number of leading zero bytes, any length) decodes back from its encoding *)
Theorem b58_bijection_dec_enc : forall bs, spec_b58_dec (b58_enc bs) = Some bs.
Proof. exact b58_dec_enc. Qed.

(* every string the strict decoder accepts is the encoding of what it decodes to *)
Theorem b58_bijection_enc_dec : forall s bs, spec_b58_dec s = Some bs -> b58_enc bs = s.
Proof. exact b58_enc_dec. Qed.

(* ... and it accepts exactly the strings over the alphabet *)
Theorem b58_alphabet_total : forall s,
  Forall (fun c => b58_pos c <> None) s -> exists bs, spec_b58_dec s = Some bs.
Proof. exact spec_b58_dec_total. Qed.

Theorem b58_one_spelling_per_payload : forall s t bs,
  spec_b58_dec s = Some bs -> spec_b58_dec t = Some bs -> s = t.
Proof. exact spec_b58_dec_inj. Qed.

Theorem b58_enc_injective : forall a b, b58_enc a = b58_enc b -> a = b.
Proof. exact b58_enc_inj. Qed.

(* change_base(s, 58, 256, m) after fix C11-1 is the strict decoder followed by left padding to m bytes
   (None = an exception; the empty result raises) *)
Theorem change_base_is_strict : forall s m,
  lib_b58_dec false s m =
  match spec_b58_dec s with
  | None => None
  | Some b => match pad_left m b with [] => None | o => Some o end
  end.
Proof. exact lib_b58_dec_spec. Qed.

(* ================= Base58Check acceptance, for an arbitrary hash function H ================= *)
(* accepted => last four bytes of the decoded body = first four of H(rest); holds for the code before and
   after the repairs (any setting of the switches) *)
Theorem b58check_accept_sound : forall H fold canon s pkh,
  lib_addr_b58_gen H fold canon s = AOk pkh ->
  exists body, lib_b58_dec fold s 25 = Some body /\
    skipn (length body - 4) body = firstn 4 (H (firstn (length body - 4) body)).
Proof. exact addr_b58_accept_sound. Qed.

Theorem b58check_accept_sound_deserialize : forall H fold canon enc_b58 s i,
  lib_deser_b58_gen H fold canon enc_b58 s = BrOk i ->
  exists body, lib_b58_dec fold s 25 = Some body /\ ai_raw i = body /\
    skipn (length body - 4) body = firstn 4 (H (firstn (length body - 4) body)).
Proof. exact deser_b58_accept_sound. Qed.

(* addr_base58_to_pubkeyhash (repaired): an accepted string is THE Base58Check spelling of
   version ++ 20-byte hash, and the strict decoder reads exactly that 25-byte body from it *)
Theorem b58_lib_canonical : forall H s pkh,
  lib_addr_b58 H s = AOk pkh ->
  length pkh = 20%nat /\
  exists ver, s = b58check_enc H (ver :: pkh) /\
              spec_b58_dec s = Some ((ver :: pkh) ++ firstn 4 (H (ver :: pkh))).
Proof. exact addr_b58_canonical. Qed.

(* deserialize_address, base58 branch (repaired): canonical, 1 + 20 bytes, and a reported network really
   has that version byte in the regenerated table *)
Theorem b58_lib_canonical_deserialize : forall H enc_b58 s i,
  lib_deser_b58 H enc_b58 s = BrOk i ->
  ai_bech32 i = false /\ length (ai_prefix i) = 1%nat /\ length (ai_pkh i) = 20%nat /\
  s = b58check_enc H (ai_prefix i ++ ai_pkh i) /\
  ai_raw i = (ai_prefix i ++ ai_pkh i) ++ firstn 4 (H (ai_prefix i ++ ai_pkh i)) /\
  spec_b58_dec s = Some (ai_raw i) /\
  (forall nm, ai_network i = Some nm ->
     exists nw, In nw all_networks /\ nw_name nw = nm /\
                (nw_prefix_address nw = ai_prefix i \/ nw_prefix_address_p2sh nw = ai_prefix i)).
Proof. exact deser_b58_canonical. Qed.

(* non-vacuity, with the executable SHA-256: the documented example address is accepted *)
Definition addr_ok : bytes := str "1Khyc5eUddbhYZ8bEZi9wiN8TrmQ8uND4j".
Definition addr_ok_hash : bytes :=
  [xcd; x32; x27; x66; xc0; x2e; x7c; x37; xc3; xe3; xf9; xb8; x25; xcd; x41; xff; xbd; xcd; x17; xd7].
Example b58_accepts_valid :
  lib_addr_b58 sha256d addr_ok = AOk addr_ok_hash /\
  lib_addr_b58_enc sha256d [x00] addr_ok_hash = addr_ok /\
  exists i, lib_deser_b58 sha256d false addr_ok = BrOk i /\ ai_network i = Some "bitcoin"%string /\
            ai_script i = SkP2pkh /\ ai_pkh i = addr_ok_hash.
Proof. split; [vm_compute; reflexivity|]. split; [vm_compute; reflexivity|]. eexists. vm_compute. repeat split. Qed.

(* --- the three reproduced defect classes: witnesses on the model of the code BEFORE the repairs
       (fold = lower-casing retry on, canon = canonical-form/length check off), rejected after them --- *)
(* finding 5, b58_case_fold: 'i' written as 'I' *)
Example b58_case_fold_refuted :
  let s := str "1Khyc5eUddbhYZ8bEZI9wiN8TrmQ8uND4j" in
  s <> addr_ok /\
  lib_addr_b58_gen sha256d true false s = AOk addr_ok_hash /\
  lib_b58_dec true (str "I") 0 = lib_b58_dec true (str "i") 0 /\
  lib_addr_b58 sha256d s = AErr /\ lib_b58_dec false (str "I") 0 = None.
Proof. cbv zeta. split; [discriminate|]. repeat split; vm_compute; reflexivity. Qed.

(* finding 6, b58_short_padded: the leading '1' dropped, the decoder pads back to 25 bytes *)
Example b58_short_padded_refuted :
  let s := str "Khyc5eUddbhYZ8bEZi9wiN8TrmQ8uND4j" in
  lib_addr_b58_gen sha256d false false s = AOk addr_ok_hash /\
  (exists i, lib_deser_b58_gen sha256d false false false s = BrOk i /\ ai_pkh i = addr_ok_hash) /\
  lib_addr_b58 sha256d s = AErr /\ lib_deser_b58 sha256d false s = BrFallthrough.
Proof.
  cbv zeta. split; [vm_compute; reflexivity|]. split; [eexists; vm_compute; split; reflexivity|].
  split; vm_compute; reflexivity.
Qed.

(* finding 7, b58_overlong_payload: a correctly checksummed 1 + 21-byte body reported as P2PKH *)
Example b58_overlong_payload_refuted :
  let s := str "17sJVfvMWz5aMVTuwpRkaD97VcGzqH2pF78" in
  (exists i, lib_deser_b58_gen sha256d false false false s = BrOk i /\
             ai_script i = SkP2pkh /\ length (ai_pkh i) = 21%nat) /\
  lib_deser_b58 sha256d false s = BrFallthrough.
Proof. cbv zeta. split; [eexists; vm_compute; repeat split|vm_compute; reflexivity]. Qed.

(* still open (known finding unknown_prefix_accepted): deserialize_address returns a result with no network
   for a well-formed Base58Check string whose version byte no network uses; the theorem above therefore
   speaks about [ai_network i = Some nm] only *)
Example unknown_prefix_accepted_refuted :
  exists i, lib_deser_b58 sha256d false (str "QCwq6jnvdnFJ8SDVKL7DSqqwyxW9wQcxWZ") = BrOk i /\
            ai_network i = None /\ ai_script i = SkNone /\ ai_prefix i = [x39].
Proof. eexists. vm_compute. repeat split. Qed.

(* ================= Bech32 / Bech32m checksum ================= *)
(* GF(2)-linearity of the checksum step *)
Theorem polymod_step_linear : forall a b v w,
  polymod_step (Z.lxor a b) (Z.lxor v w) = Z.lxor (polymod_step a v) (polymod_step b w).
Proof. exact step_xor. Qed.

(* for every human-readable part, every sequence of 5-bit values and every 30-bit constant, the six values
   the encoder appends make the decoder's polymod equal to that constant *)
Theorem bech32_checksum_valid : forall hrp data const,
  Forall (fun v => 0 <= v < 32) data -> 0 <= const < 2 ^ 30 ->
  polymod (hrp_expand hrp ++ data ++ mk_checksum hrp data const) = const.
Proof. exact mk_checksum_verifies. Qed.

(* hence a string carrying the checksum of the other variant (or any other constant) fails the test *)
Theorem bech32_wrong_constant_detected : forall hrp data c1 c2,
  Forall (fun v => 0 <= v < 32) data -> 0 <= c1 < 2 ^ 30 -> c1 <> c2 ->
  polymod (hrp_expand hrp ++ data ++ mk_checksum hrp data c1) <> c2.
Proof. exact wrong_constant_detected. Qed.

Theorem bech32_constants : forall witver,
  0 <= bech32_const witver < 2 ^ 30 /\ (bech32_const witver = 1 <-> witver = 0).
Proof. exact bech32_const_spec. Qed.

(* the character set is a bijection on 0..31 (regenerated table) *)
Theorem bech32_charset_roundtrip : forall ds,
  Forall (fun d => 0 <= d < 32) ds -> b32_indices (map b32_char ds) = Some ds.
Proof. exact b32_indices_of_values. Qed.

(* non-vacuity and protocol vectors (BIP173 / BIP350), decoder and encoder of the model *)
Definition prog20 : bytes :=
  [x75; x1e; x76; xe8; x19; x91; x96; xd4; x54; x94; x1c; x45; xd1; xb3; xa3; x23; xf1; x43; x3b; xd6].
Example bech32_vectors :
  lib_bech32_dec (str "bc1qw508d6qejxtdg4y5r3zarvary0c5xw7kv8f3t4") = Some (0, prog20) /\
  lib_bech32_dec (str "BC1QW508D6QEJXTDG4Y5R3ZARVARY0C5XW7KV8F3T4") = Some (0, prog20) /\
  lib_bech32_enc prog20 (str "bc") 0 1 = Some (str "bc1qw508d6qejxtdg4y5r3zarvary0c5xw7kv8f3t4") /\
  lib_bech32_dec (str "bc1pw508d6qejxtdg4y5r3zarvary0c5xw7kw508d6qejxtdg4y5r3zarvary0c5xw7kt5nd6y")
    = Some (1, prog20 ++ prog20) /\
  lib_bech32_enc (prog20 ++ prog20) (str "bc") 1 1 =
    Some (str "bc1pw508d6qejxtdg4y5r3zarvary0c5xw7kw508d6qejxtdg4y5r3zarvary0c5xw7kt5nd6y") /\
  (* mixed case, Bech32 checksum on a v1 program, Bech32m checksum on a v0 program: refused *)
  lib_bech32_dec (str "bc1Qw508d6qejxtdg4y5r3zarvary0c5xw7kv8f3t4") = None /\
  lib_bech32_dec (str "bc1p0xlxvlhemja6c4dqv22uapctqupfhlxm9h8z3k2e72q4k9hcz7vqh2y7hd") = None /\
  lib_bech32_dec (str "bc1qw508d6qejxtdg4y5r3zarvary0c5xw7kemeawh") = None.
Proof. repeat split; vm_compute; reflexivity. Qed.

Example convertbits_vectors :
  convertbits [255; 1; 2] 8 5 true = CbOk [31; 28; 0; 16; 4] /\
  convertbits [31; 28; 0; 16; 4] 5 8 false = CbOk [255; 1; 2] /\
  convertbits [31; 28; 0; 16; 5] 5 8 false = CbErr /\          (* non-zero padding bit *)
  convertbits [31; 28; 0; 16; 4; 0] 5 8 false = CbErr /\       (* a whole superfluous group *)
  convertbits [32] 5 8 false = CbNone.
Proof. repeat split; vm_compute; reflexivity. Qed.

(* fix C11-7: an upper-case address is attributed to its network (before: no network) *)
Example bech32_uppercase_network :
  (exists i, lib_deser_bech32 true (str "BC1QW508D6QEJXTDG4Y5R3ZARVARY0C5XW7KV8F3T4") = DOk i /\
             ai_network i = Some "bitcoin"%string) /\
  (exists i, lib_deser_bech32 false (str "BC1QW508D6QEJXTDG4Y5R3ZARVARY0C5XW7KV8F3T4") = DOk i /\
             ai_network i = Some ""%string).
Proof. split; eexists; vm_compute; split; reflexivity. Qed.

Print Assumptions b58_bijection_dec_enc.
Print Assumptions b58_bijection_enc_dec.
Print Assumptions b58_alphabet_total.
Print Assumptions b58_one_spelling_per_payload.
Print Assumptions b58_enc_injective.
Print Assumptions change_base_is_strict.
Print Assumptions b58check_accept_sound.
Print Assumptions b58check_accept_sound_deserialize.
Print Assumptions b58_lib_canonical.
Print Assumptions b58_lib_canonical_deserialize.
Print Assumptions polymod_step_linear.
Print Assumptions bech32_checksum_valid.
Print Assumptions bech32_wrong_constant_detected.
Print Assumptions bech32_constants.
Print Assumptions bech32_charset_roundtrip.
