(* Properties/C05.v — address <-> locking script mapping is standard and mutually inverse; an address of
   another network is refused.
   Only statements closed by [exact lemma], non-vacuity examples, refutation witnesses of the classes
   excluded by a guard, and Print Assumptions.
   [fx : fixes] says which of the three repairs (fixes/C05-1..3) the code has and what happens to binary arguments
   on their way in ([fx_tb]: encoding.to_bytes as it is = [lib_to_bytes], or the identity); every theorem holds for
   every [fx], with the guard that names the failing class exactly when the repair is absent:
   [hex_guard fx d] = binary arguments are taken as they are, or to_bytes is as it is and the payload of [d] does not
   read as hexadecimal text (known class ascii_hex_payload, refuted below without the guard).
   [H160] is hash160 (any function: no theorem depends on what it returns). *)
From Coq Require Import ZArith List Bool String.
From Coq.Strings Require Import Byte.
From Verif Require Import Lib.Bytes Gen.GenNetworks Gen.GenConsts Model.Wire Model.AddrScript.
From Verif Require Import Proofs.AddrScriptSpec Proofs.AddrScriptTac Proofs.AddrScriptStr Proofs.AddrScriptObj
     Proofs.AddrScriptParse Proofs.AddrScriptInv Proofs.AddrScriptHd Proofs.AddrScriptHints Proofs.AddrScriptAll
     Proofs.AddrScriptDataType.
From Verif Require Import Gen.GenDataType.
From Verif Require Import Model.SpecNetworks Proofs.SpecNetworksGlue.
Import ListNotations.
Open Scope Z_scope.

(* ---------- the standard scripts and the BIP16/BIP141 classifier are inverse (all payloads, versions 0..16,
              all program lengths 2..40 BIP350 can address) ---------- *)
Theorem classify_lock : forall d, standard_wide d = true -> spec_classify (spec_lock_script d) = Some d.
Proof. exact AddrScriptSpec.classify_lock. Qed.

Theorem lock_classify : forall s d, spec_classify s = Some d -> standard_wide d = true /\ spec_lock_script d = s.
Proof. exact AddrScriptSpec.lock_classify. Qed.

Theorem property_domain_is_covered : forall d, standard d = true -> standard_wide d = true.
Proof. exact standard_is_wide. Qed.

Theorem lock_script_injective : forall d d',
  standard_wide d = true -> standard_wide d' = true -> spec_lock_script d = spec_lock_script d' -> d = d'.
Proof. exact spec_lock_injective. Qed.

(* ---------- an output built from an address carries exactly the standard script of that address:
              every network of the table, every 20/32-byte payload, witness versions 0..16 ---------- *)
(* address string: Output(value, address=s, network=net) / Transaction(network=net).add_output(value, s) *)
Theorem lib_lock_is_spec : forall H160 fx net d,
  In net all_networks -> standard d = true ->
  (fx_witver fx = true \/ cls_witver_str d = false) ->
  out_is (lib_out_addr_str H160 fx net (spec_address net d))
         (spec_lock_script d) (stype_name (d_stype d)) (nw_name net) OaGiven.
Proof. exact lock_is_spec_str. Qed.

(* public_hash= with script_type= (and witver= for p2tr) *)
Theorem lib_lock_is_spec_hash : forall H160 fx net d,
  In net all_networks -> standard d = true ->
  (fx_witver fx = true \/ cls_witver_obj d = false) -> hex_guard fx d ->
  out_is (lib_out_hash H160 fx net (d_payload d) (Some (stype_name (d_stype d))) (d_witver d) None)
         (spec_lock_script d) (stype_name (d_stype d)) (nw_name net) (OaIs (spec_address net d)).
Proof. exact lock_is_spec_hash_g. Qed.

(* Address(hashed_data=, script_type=, witver=, network=net) object: its address is the standard one, and the
   output built from it is locked to it *)
Theorem lib_lock_is_spec_address_object : forall H160 fx net d,
  In net all_networks -> standard d = true ->
  (fx_witver fx = true \/ cls_witver_obj d = false) -> hex_guard fx d ->
  match lib_address_new H160 fx (d_payload d) None (Some (stype_name (d_stype d))) None None (d_witver d) net with
  | Some ao =>
    ao_addr ao = spec_address net d /\
    out_is (lib_out_addr_obj H160 fx net ao)
           (spec_lock_script d) (stype_name (d_stype d)) (nw_name net) (OaIs (spec_address net d))
  | None => False
  end.
Proof. exact lock_is_spec_obj_g. Qed.

(* Address.parse(s, network=net) object: it denotes the address it was parsed from *)
Theorem lib_lock_is_spec_address_parse : forall H160 fx net d,
  In net all_networks -> standard d = true ->
  (fx_witver fx = true \/ cls_witver_parse d = false) -> hex_guard fx d ->
  match lib_address_parse H160 fx (spec_address net d) (Some (nw_name net)) with
  | Some ao =>
    ao_addr ao = spec_address net d /\
    out_is (lib_out_addr_obj H160 fx net ao)
           (spec_lock_script d) (stype_name (d_stype d)) (nw_name net) (OaIs (spec_address net d))
  | None => False
  end.
Proof. exact lock_is_spec_parse_g. Qed.

(* Address.parse(s) without a network (the object belongs to the first network that has the prefix) *)
Theorem lib_lock_is_spec_address_parse_any_network : forall H160 fx net d,
  In net all_networks -> standard d = true ->
  fx_witver fx = true -> fx_netobj fx = true -> hex_guard fx d ->
  match lib_address_parse H160 fx (spec_address net d) None with
  | Some ao =>
    ao_addr ao = spec_address net d /\
    out_is (lib_out_addr_obj H160 fx net ao)
           (spec_lock_script d) (stype_name (d_stype d)) (nw_name net) (OaIs (spec_address net d))
  | None => False
  end.
Proof. exact lock_is_spec_parse_nonet_g. Qed.

(* ---------- a standard locking script is reported with exactly the corresponding address and type
              (Output(lock_script=s, network=net).address / .script_type; the real parser with its
              heuristics included) ---------- *)
Theorem lib_inverse : forall H160 fx net d,
  In net all_networks -> standard d = true -> hex_guard fx d ->
  out_is (lib_out_script H160 fx net (spec_lock_script d))
         (spec_lock_script d) (stype_name (d_stype d)) (nw_name net) (OaIs (spec_address net d)).
Proof. exact lib_inverse_script_g. Qed.

(* the same through Transaction.parse of a raw transaction that pays to the script *)
Theorem lib_inverse_tx : forall H160 fx net d,
  In net all_networks -> standard d = true -> hex_guard fx d ->
  out_is (lib_out_tx H160 fx net (spec_lock_script d))
         (spec_lock_script d) (stype_name (d_stype d)) (nw_name net) (OaIs (spec_address net d)).
Proof. exact lib_inverse_tx_g. Qed.

(* an output carrying the standard script of [d], however it was created, comes back from Transaction.raw() /
   Transaction.parse() as the output of [d]; in particular address -> add_output -> raw -> parse reports the address *)
Theorem lib_reparse_is_destination : forall H160 fx net d r st nm a,
  In net all_networks -> standard d = true -> hex_guard fx d ->
  out_is r (spec_lock_script d) st nm a ->
  out_is (lib_reparse H160 fx net r)
         (spec_lock_script d) (stype_name (d_stype d)) (nw_name net) (OaIs (spec_address net d)).
Proof. exact lib_reparse_standard. Qed.

Theorem lib_address_tx_roundtrip : forall H160 fx net d,
  In net all_networks -> standard d = true ->
  (fx_witver fx = true \/ cls_witver_str d = false) -> hex_guard fx d ->
  out_is (lib_reparse H160 fx net (lib_out_addr_str H160 fx net (spec_address net d)))
         (spec_lock_script d) (stype_name (d_stype d)) (nw_name net) (OaIs (spec_address net d)).
Proof. exact lib_tx_roundtrip. Qed.

(* the two directions are inverse to each other *)
Theorem lib_directions_inverse : forall H160 fx net d,
  In net all_networks -> standard d = true ->
  (fx_witver fx = true \/ cls_witver_str d = false) -> hex_guard fx d ->
  lib_script_to_address H160 fx net (spec_lock_script d) = Some (spec_address net d, stype_name (d_stype d)) /\
  lib_output_script H160 fx net (spec_address net d) = Some (spec_lock_script d).
Proof. exact lib_roundtrip. Qed.

Theorem lib_script_identifies_destination : forall H160 fx net d d',
  In net all_networks -> standard d = true -> standard d' = true ->
  (fx_witver fx = true \/ (cls_witver_str d = false /\ cls_witver_str d' = false)) ->
  lib_output_script H160 fx net (spec_address net d) = lib_output_script H160 fx net (spec_address net d') ->
  d = d'.
Proof. exact lib_script_identifies. Qed.

(* ---------- key objects: HDKey(..., network=net, witness_type=w, multisig=ms) as the destination.  Its address is the
              standard address of the destination the key stands for (single-signature: P2PKH / P2WPKH / P2SH-P2WPKH of
              the key; multisig cosigner key: P2SH / P2WSH / P2SH-P2WSH), and the output built from the OBJECT is
              locked with exactly that destination's script and reports its type ---------- *)
Theorem lib_lock_is_spec_hdkey : forall H160 fx net w ms h160 s256 pub,
  (forall x, List.length (H160 x) = 20%nat) ->
  In net all_networks -> List.length h160 = 20%nat -> List.length s256 = 32%nat -> pub <> [] ->
  tb_leaves fx (hd_leaves H160 w h160 s256 pub) ->
  match lib_hd_address_obj H160 fx net w ms h160 s256 with
  | Some ao =>
    ao_addr ao = spec_address net (spec_hd_dest H160 w ms h160 s256) /\
    out_is (lib_out_hd H160 fx net ao pub w ms)
           (spec_lock_script (spec_hd_dest H160 w ms h160 s256))
           (stype_name (d_stype (spec_hd_dest H160 w ms h160 s256))) (nw_name net)
           (OaIs (spec_address net (spec_hd_dest H160 w ms h160 s256)))
  | None => False
  end.
Proof. exact lock_is_spec_hd_g. Qed.

(* ---------- an address string given TOGETHER WITH a public key (a hint): with the repair fixes/C05-4 the address
              decides the locking script whatever the key is, and an address of another network is refused ---------- *)
Theorem address_decides_next_to_public_key : forall H160 fx net d pub,
  In net all_networks -> standard d = true ->
  (fx_witver fx = true \/ cls_witver_str d = false) ->
  fx_addrpk fx = true -> tb_leaves fx [pub] ->
  out_is (lib_out_addr_pubkey H160 fx net (spec_address net d) pub)
         (spec_lock_script d) (stype_name (d_stype d)) (nw_name net) OaGiven.
Proof. exact lock_is_spec_addr_pubkey_g. Qed.

Theorem foreign_network_refused_next_to_public_key : forall H160 fx A B d pub,
  In A all_networks -> In B all_networks ->
  addr_on_network B (spec_address A d) = false ->
  fx_addrpk fx = true -> tb_leaves fx [pub] ->
  lib_out_addr_pubkey H160 fx B (spec_address A d) pub = RErr.
Proof. exact foreign_refused_addr_pubkey_g. Qed.

(* ---------- the parser's push classifier (signature / key / data / other), as modelled, is the one of the working tree
              on the regenerated grid of probes; 20- and 32-byte pushes are plain data whatever they contain ---------- *)
Theorem push_classifier_is_modelled : data_type_disagreements = [].
Proof. exact data_type_table_agrees. Qed.

Theorem hash_pushes_are_data : forall d, (blen d =? 20) || (blen d =? 32) = true -> get_data_type d = DData.
Proof. exact gdt_hash. Qed.

(* to_bytes as modelled leaves every byte string alone that does not read as hexadecimal text *)
Theorem to_bytes_only_touches_hex_text : forall x, hexlike x = false -> lib_to_bytes x = x.
Proof. exact to_bytes_id. Qed.

(* ---------- an address that carries none of the transaction network's prefixes is refused ---------- *)
Theorem foreign_network_refused : forall H160 fx A B d,
  In A all_networks -> In B all_networks ->
  addr_on_network B (spec_address A d) = false ->
  lib_out_addr_str H160 fx B (spec_address A d) = RErr.
Proof. exact foreign_refused_str. Qed.

(* Address / HDKey objects (any object whose address is such an address and whose network is not B) *)
Theorem foreign_network_object_refused : forall H160 fx o A B d,
  fx_netobj fx = true ->
  In A all_networks -> In B all_networks ->
  ao_addr o = spec_address A d ->
  String.eqb (nw_name (ao_net o)) (nw_name B) = false ->
  addr_on_network B (spec_address A d) = false ->
  lib_out_addr_obj H160 fx B o = RErr /\ (forall pub w ms, lib_out_hd H160 fx B o pub w ms = RErr).
Proof. exact foreign_object_refused. Qed.

(* ---------- finite side conditions over the tables regenerated from networks.json / SCRIPT_TYPES ---------- *)
Theorem base58_type_inference_unambiguous : p2pkh_p2sh_disjoint = true.
Proof. exact prefix_kinds_disjoint. Qed.

Theorem network_prefixes_wellformed : prefixes_wellformed = true /\ names_unique all_networks = true.
Proof. exact (conj prefixes_ok network_names_unique). Qed.

Theorem networks_sharing_all_prefixes :
  sharing_pairs = [("testnet", "testnet4"); ("testnet", "signet"); ("testnet4", "testnet"); ("testnet4", "signet");
                   ("signet", "testnet"); ("signet", "testnet4")]%string.
Proof. exact sharing_pairs_are. Qed.

Theorem standard_templates :
  map (fun st => option_map row_tpl (st_lookup st)) [s_p2pkh; s_p2sh; s_p2wpkh; s_p2wsh; s_p2tr] =
  [Some [inl 118; inl 169; inr s_data; inl 136; inl 172]; Some [inl 169; inr s_data; inl 135];
   Some [inl 0; inr s_data]; Some [inl 0; inr s_data]; Some [inr s_op_n; inr s_data]].
Proof. exact templates_are. Qed.


(* ---------- histories on one key object: whatever was looked at before on the SAME HDKey object (its address in another
              script type / encoding, its address object, a public copy, WIFs, hashes ...: any list of looks [ls]), the
              output built from the object is the output built from the fresh key — it is a function of the key's network,
              witness type, multisig flag and public key, and lib_lock_is_spec_hdkey says which one.  The harness replays
              such histories on the real object (hd requests with a history token) and asks the model without it.
              Guard [look_keeps_key]: no look is address_uncompressed() / address(compressed=False), which rewrites what the
              object hashes (known class hd_key_left_uncompressed, refuted below without the guard). ---------- *)
Theorem output_of_hd_key_history_free : forall H160 fx net k ls,
  Forall look_keeps_key ls ->
  hd_out H160 fx net (fold_left (hd_look H160 fx) ls k) = hd_out H160 fx net k.
Proof. exact hd_out_history_free. Qed.

(* ---------- non-vacuity ---------- *)
Example standard_inhabited :
  standard (mkdest P2pkh 0 ex20) = true /\ standard (mkdest P2wsh 0 ex32) = true /\
  standard (mkdest P2tr 16 ex20) = true /\ standard (mkdest P2tr 2 ex32) = true /\
  cls_witver_str (mkdest P2tr 1 ex32) = false /\ In nw_bitcoin all_networks.
Proof. repeat split; try (vm_compute; reflexivity). vm_compute. tauto. Qed.

Example hex_guard_inhabited :
  hex_guard fx_all (mkdest P2pkh 0 (repeat x61 20)) /\ hex_guard fx_now (mkdest P2pkh 0 ex20) /\
  hex_guard fx_now (mkdest P2tr 1 (x30 :: x1d :: repeat x02 30)) /\ hex_guard fx_orig (mkdest P2wsh 0 ex32) /\
  tb_leaves fx_now (hd_leaves no_hash WP2shSegwit ex20 ex32 (x02 :: ex32)) /\
  (forall x, List.length (no_hash x) = 20%nat).
Proof.
  split; [left; intros x; reflexivity|].
  repeat split; try (right; split; [reflexivity | vm_compute; reflexivity]).
Qed.

Example repaired_v2_script :
  lib_output_script no_hash fx_all nw_bitcoin (DBech [x62; x63] 2 ex32) = Some (x52 :: x20 :: ex32) /\
  lib_output_script no_hash fx_all nw_bitcoin (DBech [x62; x63] 16 ex20) = Some (x60 :: x14 :: ex20).
Proof. split; vm_compute; reflexivity. Qed.

Example foreign_hypotheses_inhabited :
  addr_on_network nw_bitcoin (spec_address nw_testnet (mkdest P2wpkh 0 ex20)) = false /\
  addr_on_network nw_litecoin (spec_address nw_bitcoin (mkdest P2pkh 0 ex20)) = false /\
  addr_on_network nw_signet (spec_address nw_testnet (mkdest P2sh 0 ex20)) = true.
Proof. repeat split; vm_compute; reflexivity. Qed.

(* ---------- the excluded classes are really excluded: the code before the repairs ---------- *)
(* witness version 2, 32 bytes: locked with OP_1 *)
Example witver_ge2_script_refuted :
  lib_output_script no_hash fx_orig nw_bitcoin (DBech [x62; x63] 2 ex32) = Some (x51 :: x20 :: ex32) /\
  spec_lock_script (mkdest P2tr 2 ex32) = x52 :: x20 :: ex32 /\ cls_witver_str (mkdest P2tr 2 ex32) = true.
Proof. repeat split; vm_compute; reflexivity. Qed.

(* witness version 16, 20 bytes: locked as version 0 P2WPKH *)
Example witver_v16_20_refuted :
  lib_output_script no_hash fx_orig nw_bitcoin (DBech [x62; x63] 16 ex20) = Some (x00 :: x14 :: ex20) /\
  spec_lock_script (mkdest P2tr 16 ex20) = x60 :: x14 :: ex20 /\ cls_witver_str (mkdest P2tr 16 ex20) = true.
Proof. repeat split; vm_compute; reflexivity. Qed.

(* Address.parse of a version 1 address yields an object whose address is the version 0 address *)
Example address_parse_witver_refuted :
  option_map ao_addr (lib_address_parse no_hash fx_orig (DBech [x62; x63] 1 ex32) None) = Some (DBech [x62; x63] 0 ex32).
Proof. vm_compute. reflexivity. Qed.

(* an Address object of testnet on a bitcoin transaction: accepted, network switched *)
Example foreign_network_address_object_refuted :
  match lib_address_parse no_hash fx_orig (DBech [x74; x62] 0 ex20) (Some "testnet"%string) with
  | Some o => match lib_out_addr_obj no_hash fx_orig nw_bitcoin o with
              | ROk r => o_net r = "testnet"%string /\ addr_on_network nw_bitcoin (ao_addr o) = false
              | _ => False
              end
  | None => False
  end.
Proof. vm_compute. split; reflexivity. Qed.

(* a p2sh-segwit Address object: native segwit script keyed by the redeem script hash instead of the P2SH script *)
Example p2sh_segwit_address_object_refuted :
  match lib_address_new no_hash fx_orig ex20 None (Some s_p2sh_p2wpkh) None None 0 nw_bitcoin with
  | Some o => ao_addr o = DB58 [x05] (repeat x99 20) /\
              (match lib_out_addr_obj no_hash fx_orig nw_bitcoin o with ROk r => Some (o_lock r) | _ => None end)
                = Some (x00 :: x14 :: repeat x99 20) /\
              (match lib_out_addr_obj no_hash fx_all nw_bitcoin o with ROk r => Some (o_lock r) | _ => None end)
                = Some (spec_lock_script (mkdest P2sh 0 (repeat x99 20)))
  | None => False
  end.
Proof. vm_compute. repeat split; reflexivity. Qed.


(* a payload that reads as hexadecimal text (here 20 times the letter 'a'): the standard P2PKH script is reported with
   the address of the 10 bytes aa..aa, Output(public_hash=) locks to those 10 bytes, the P2WPKH script gets no address
   at all; 20 blanks are reported with the address of hash160(b'') *)
Example ascii_hex_payload_refuted :
  cls_ascii_hex (mkdest P2pkh 0 (repeat x61 20)) = true /\
  (match lib_out_script no_hash fx_now nw_bitcoin (spec_lock_script (mkdest P2pkh 0 (repeat x61 20))) with
   | ROk o => Some (o_stype o, o_addr o) | _ => None end) = Some (s_p2pkh, OaIs (DB58 [x00] (repeat xaa 10))) /\
  (match lib_out_hash no_hash fx_now nw_bitcoin (repeat x61 20) (Some s_p2pkh) 0 None with
   | ROk o => Some (o_lock o) | _ => None end) = Some (x76 :: xa9 :: x0a :: repeat xaa 10 ++ [x88; xac]) /\
  (match lib_out_script no_hash fx_now nw_bitcoin (spec_lock_script (mkdest P2wpkh 0 (repeat x61 20))) with
   | ROk o => Some (o_stype o, o_addr o) | _ => None end) = Some (s_p2wpkh, OaErr) /\
  (match lib_out_script no_hash fx_now nw_bitcoin (spec_lock_script (mkdest P2pkh 0 (repeat x20 20))) with
   | ROk o => Some (o_addr o) | _ => None end) = Some (OaIs (DB58 [x00] (no_hash []))) /\
  (match lib_out_script no_hash fx_all nw_bitcoin (spec_lock_script (mkdest P2pkh 0 (repeat x61 20))) with
   | ROk o => Some (o_addr o) | _ => None end) = Some (OaIs (spec_address nw_bitcoin (mkdest P2pkh 0 (repeat x61 20)))).
Proof. vm_compute. repeat split; reflexivity. Qed.

(* the code as it is: a P2PKH address next to a public key is locked with the P2WPKH script of the key (the address is
   reported unchanged), and a testnet address next to a public key is accepted on a bitcoin transaction *)
Example address_with_public_key_refuted :
  (match lib_out_addr_pubkey no_hash fx_now nw_bitcoin (DB58 [x00] ex20) (x02 :: ex32) with
   | ROk o => Some (o_lock o, o_stype o, o_addr o) | _ => None end)
    = Some (x00 :: x14 :: repeat x99 20, s_p2wpkh, OaGiven) /\
  spec_lock_script (mkdest P2pkh 0 ex20) = x76 :: xa9 :: x14 :: ex20 ++ [x88; xac] /\
  refused (lib_out_addr_pubkey no_hash fx_now nw_bitcoin (DBech [x74; x62] 0 ex20) (x02 :: ex32)) = false /\
  refused (lib_out_addr_pubkey no_hash fx_all nw_bitcoin (DBech [x74; x62] 0 ex20) (x02 :: ex32)) = true /\
  (match lib_out_addr_pubkey no_hash fx_all nw_bitcoin (DB58 [x00] ex20) (x02 :: ex32) with
   | ROk o => Some (o_lock o, o_stype o) | _ => None end) = Some (x76 :: xa9 :: x14 :: ex20 ++ [x88; xac], s_p2pkh).
Proof. vm_compute. repeat split; reflexivity. Qed.

(* a multisig HD key: legacy -> P2SH of the key hash, segwit -> P2WSH of sha256(key) *)
Example hdkey_multisig_destinations :
  (match lib_hd_address_obj no_hash fx_now nw_bitcoin WLegacy true ex20 ex32 with
   | Some ao => match lib_out_hd no_hash fx_now nw_bitcoin ao (x02 :: ex32) WLegacy true with
                | ROk o => Some (o_lock o, o_stype o, o_addr o) | _ => None end
   | None => None end) = Some (xa9 :: x14 :: ex20 ++ [x87], s_p2sh, OaIs (DB58 [x05] ex20)) /\
  (match lib_hd_address_obj no_hash fx_now nw_bitcoin WSegwit true ex20 ex32 with
   | Some ao => match lib_out_hd no_hash fx_now nw_bitcoin ao (x02 :: ex32) WSegwit true with
                | ROk o => Some (o_lock o, o_stype o, o_addr o) | _ => None end
   | None => None end) = Some (x00 :: x20 :: ex32, s_p2wsh, OaIs (DBech [x62; x63] 0 ex32)).
Proof. vm_compute. split; reflexivity. Qed.


(* histories: the reading of Output that trusts the key's cached address object agrees with the real one on a fresh key and
   is refuted after one look at the segwit key's P2SH-embedded address (lock a914<hash160(0014<h>)>87 instead of 0014<h>):
   the statement of output_of_hd_key_history_free is about something that can fail *)
Example hd_cached_reading_refuted :
  let k := {| ks_net := nw_bitcoin; ks_w := WSegwit; ks_ms := false; ks_h160 := ex20; ks_s256 := ex32;
              ks_pub := x02 :: ex32; ks_cache := None |} in
  let k' := hd_look no_hash fx_now k (LAddress (Some s_p2sh_p2wpkh) (Some EB58)) in
  hd_out_cached no_hash fx_now nw_bitcoin k = hd_out no_hash fx_now nw_bitcoin k /\
  hd_out no_hash fx_now nw_bitcoin k' = hd_out no_hash fx_now nw_bitcoin k /\
  hd_out no_hash fx_now nw_bitcoin k <> None /\
  hd_out_cached no_hash fx_now nw_bitcoin k' <> hd_out no_hash fx_now nw_bitcoin k'.
Proof. vm_compute. repeat split; try reflexivity; intros H; discriminate H. Qed.

(* known class hd_key_left_uncompressed: one look at the uncompressed address, and the output built from the same object is
   locked to the hash of the 65-byte encoding (here repeat 08 20) instead of the key's own hash (ex20) *)
Example hd_key_left_uncompressed_refuted :
  let k := {| ks_net := nw_bitcoin; ks_w := WLegacy; ks_ms := false; ks_h160 := ex20; ks_s256 := ex32;
              ks_pub := x02 :: ex32; ks_cache := None |} in
  let ls := [LAddress None None; LUncompressed (repeat x08 20) (repeat x08 32)] in
  ~ Forall look_keeps_key ls /\
  Forall look_keeps_key [LAddress None None; LAddrObj; LPublic; LQuiet] /\
  (match hd_out no_hash fx_now nw_bitcoin (fold_left (hd_look no_hash fx_now) ls k) with
   | Some (ROk o) => Some (o_lock o) | _ => None end) = Some (x76 :: xa9 :: x14 :: repeat x08 20 ++ [x88; xac]) /\
  (match hd_out no_hash fx_now nw_bitcoin k with
   | Some (ROk o) => Some (o_lock o) | _ => None end) = Some (x76 :: xa9 :: x14 :: ex20 ++ [x88; xac]).
Proof.
  split; [intros H; inversion H as [|? ? _ H2]; inversion H2 as [|? ? H3 _]; exact H3|].
  split; [repeat constructor|].
  vm_compute. split; reflexivity.
Qed.

(* --- tie of the address prefix tables: every row of networks.json as regenerated on this run, projected to the fields
       the properties depend on, equals the frozen specification table (reference-client chain parameters with the
       library's documented deviations); an edited, added, removed or reordered row breaks this --- *)
Theorem network_table_is_spec : map proj_network all_networks = spec_networks.
Proof. exact gen_networks_are_spec. Qed.

Theorem network_table_diff_empty : table_diff (map proj_network all_networks) spec_networks = [].
Proof. exact gen_table_diff_empty. Qed.

Print Assumptions network_table_is_spec.
Print Assumptions network_table_diff_empty.
Print Assumptions classify_lock.
Print Assumptions lock_classify.
Print Assumptions property_domain_is_covered.
Print Assumptions lock_script_injective.
Print Assumptions lib_lock_is_spec.
Print Assumptions lib_lock_is_spec_hash.
Print Assumptions lib_lock_is_spec_address_object.
Print Assumptions lib_lock_is_spec_address_parse.
Print Assumptions lib_lock_is_spec_address_parse_any_network.
Print Assumptions lib_inverse.
Print Assumptions lib_inverse_tx.
Print Assumptions lib_reparse_is_destination.
Print Assumptions lib_address_tx_roundtrip.
Print Assumptions lib_lock_is_spec_hdkey.
Print Assumptions output_of_hd_key_history_free.
Print Assumptions address_decides_next_to_public_key.
Print Assumptions foreign_network_refused_next_to_public_key.
Print Assumptions push_classifier_is_modelled.
Print Assumptions hash_pushes_are_data.
Print Assumptions to_bytes_only_touches_hex_text.
Print Assumptions lib_directions_inverse.
Print Assumptions lib_script_identifies_destination.
Print Assumptions foreign_network_refused.
Print Assumptions foreign_network_object_refused.
Print Assumptions base58_type_inference_unambiguous.
Print Assumptions network_prefixes_wellformed.
Print Assumptions networks_sharing_all_prefixes.
Print Assumptions standard_templates.
