(* Properties/C02.v — transaction verification is sound and complete for standard inputs.
   Every theorem quantifies over an ARBITRARY signature relation sv (the ECDSA layer is C13).
   Only statements closed by [exact lemma], non-vacuity / refutation examples, and Print Assumptions. *)
From Coq Require Import List Bool Arith ZArith.
From Coq.Strings Require Import Byte.
From Verif Require Import Lib.Bytes Model.Wire Model.TxCodec Model.Sighash Proofs.Sighash Proofs.SighashEq
  Proofs.SighashCommit Crypto.Sha256 Crypto.Ripemd160 Crypto.HashLemmas.
From Verif Require Import Model.VerifyInput Model.SignPlace Model.SignSeq Proofs.VerifyInput Proofs.SignPlace
  Proofs.SignPlaceSeq Proofs.SignPlaceTx Proofs.TamperDigest Proofs.TamperDigestWitness Proofs.SignPlaceHashType
  Gen.GenC02 Proofs.VerifyThreshold Proofs.VerifyObject.
Import ListNotations.

(* --- soundness: True  =>  m signatures valid for m distinct key positions, order preserved
       (what OP_CHECKMULTISIG accepts); no side condition on sv is needed after fix C02-2 --- *)
Theorem verify_sound : forall (sigT keyT : Type) (sv : sigT -> keyT -> bool) keys sigs m,
  lib_verify_input sv false keys sigs m = true ->
  exists pairs, matching sv pairs keys sigs /\ length pairs = m.
Proof. exact @verify_sound_thm. Qed.

Theorem verify_sound_positions : forall (sigT keyT : Type) (sv : sigT -> keyT -> bool) keys sigs m,
  lib_verify_input sv false keys sigs m = true ->
  exists ks, subseq ks keys /\ length ks = m /\ Forall (fun k => key_signed sv sigs k = true) ks.
Proof. exact @verify_sound_positions_thm. Qed.

(* fewer than m listed keys have a valid signature  =>  False *)
Theorem verify_insufficient : forall (sigT keyT : Type) (sv : sigT -> keyT -> bool) keys sigs m,
  length (filter (key_signed sv sigs) keys) < m -> lib_verify_input sv false keys sigs m = false.
Proof. exact @verify_insufficient_keys_thm. Qed.

(* fewer than m signatures are valid for some listed key (foreign signers, corrupted signatures, signatures
   over another digest)  =>  False *)
Theorem verify_insufficient_sigs : forall (sigT keyT : Type) (sv : sigT -> keyT -> bool) keys sigs m,
  length (filter (sig_useful sv keys) sigs) < m -> lib_verify_input sv false keys sigs m = false.
Proof. exact @verify_insufficient_sigs_thm. Qed.

(* --- completeness: valid signatures of a set of key positions, listed in key order, at least m of them --- *)
Theorem verify_complete : forall (sigT keyT : Type) (sv : sigT -> keyT -> bool) keys sigs m,
  signed_in_order sv keys sigs -> 1 <= m <= length sigs -> lib_verify_input sv false keys sigs m = true.
Proof. exact @verify_complete_thm. Qed.

(* --- exact characterisation: the first m signatures, in order, for distinct key positions --- *)
Theorem verify_exact : forall (sigT keyT : Type) (sv : sigT -> keyT -> bool) keys sigs m,
  1 <= m ->
  (lib_verify_input sv false keys sigs m = true <->
   m <= length sigs /\ signed_in_order sv keys (firstn m sigs)).
Proof. exact @verify_exact_thm. Qed.

(* --- Transaction.verify: True exactly when every input's digest is computable and the input verifies --- *)
Theorem tx_verify_all_inputs : forall (sigT keyT : Type) (svi : nat -> sigT -> keyT -> bool) ins,
  lib_tx_verify svi ins = true <->
  forall j x, nth_error ins j = Some x ->
    vi_hash_ok x = true /\ lib_verify_input (svi j) (vi_coinbase x) (vi_keys x) (vi_sigs x) (vi_m x) = true.
Proof. exact @tx_verify_iff_thm. Qed.

(* --- the loop before fix C02-2 ("try previous signature") --- *)
Theorem unfixed_accepts_more : forall (sigT keyT : Type) (sv : sigT -> keyT -> bool) keys prev sigs need,
  lib_verify_loop sv keys sigs need = true -> unfixed_verify_loop sv keys prev sigs need = true.
Proof. exact @fixed_implies_unfixed. Qed.

Theorem unfixed_agrees_when_unique : forall (sigT keyT : Type) (sv : sigT -> keyT -> bool) keys sigs need,
  (forall s, In s sigs -> forall pre k post, keys = pre ++ k :: post -> sv s k = true ->
                          forall k', In k' post -> sv s k' = false) ->
  unfixed_verify_loop sv keys None sigs need = lib_verify_loop sv keys sigs need.
Proof. exact @unfixed_is_fixed_start. Qed.

(* witness of finding dup_point_keys (soundness part, repaired by C02-2): keys 0 and 1 are the compressed and
   the uncompressed encoding of one point, signature 0 is by that point, signature 1 by a foreign key; 2-of-2.
   The old loop accepted with ONE useful signature; the repaired loop rejects. *)
Example verify_sound_refuted_before_fix :
  let sv := fun (s k : nat) => Nat.eqb s 0 in
  unfixed_verify_loop sv [0; 1] None [0; 1] 2 = true /\
  length (filter (sig_useful sv [0; 1]) [0; 1]) = 1 /\
  lib_verify_input sv false [0; 1] [0; 1] 2 = false.
Proof. vm_compute. repeat split. Qed.

(* non-vacuity: 2-of-3 signed by keys 0 and 2 verifies; by key 2 alone, or in the wrong order, it does not;
   a coinbase input verifies; a transaction without inputs verifies *)
Example verify_examples :
  let sv := fun (s k : nat) => Nat.eqb s k in
  lib_verify_input sv false [0; 1; 2] [0; 2] 2 = true /\
  lib_verify_input sv false [0; 1; 2] [2] 2 = false /\
  lib_verify_input sv false [0; 1; 2] [2; 0] 2 = false /\
  lib_verify_input sv false [0; 1; 2] [7; 0; 2] 2 = false /\
  lib_verify_input sv true [] [] 1 = true /\
  lib_tx_verify (fun _ => sv) [] = true.
Proof. vm_compute. repeat split. Qed.

(* --- the machine run by the correspondence driver decides exactly as the functions above --- *)
Theorem run_decides_as_model : forall (B : Type) (sv : B -> Z -> bool) keys sigs m,
  fst (lib_verify_input_run sv keys sigs m) = lib_verify_input sv false keys (map (@body B) sigs) m.
Proof. exact @verify_input_run_fst. Qed.

Theorem tx_run_decides_as_model : forall (B : Type) (svi : nat -> B -> Z -> bool) ins,
  fst (lib_tx_verify_run svi ins) = lib_tx_verify svi (map (@view B) ins).
Proof. exact @tx_run_is_tx_verify. Qed.

(* --- signing: the first sign() call on an unsigned input (any signers, any order, repeated, foreign ones
       skipped) leaves signatures in key order, so enough of them verify --- *)
Theorem sign_fresh_in_order : forall (B : Type) (sv : B -> Z -> bool) (mk : Z -> B),
  (forall k, sv (mk k) k = true) ->
  forall pubs replace fail signers l,
    lib_sign_input mk pubs [] replace fail signers = SignDone l ->
    signed_in_order sv pubs (map (@body B) l).
Proof. exact @Proofs.SignPlace.sign_fresh_in_order. Qed.

Theorem sign_fresh_then_verify : forall (B : Type) (sv : B -> Z -> bool) (mk : Z -> B),
  (forall k, sv (mk k) k = true) ->
  forall pubs replace fail signers l m,
    lib_sign_input mk pubs [] replace fail signers = SignDone l ->
    1 <= m <= length l ->
    fst (lib_verify_input_run sv pubs l m) = true.
Proof. exact @Proofs.SignPlace.sign_fresh_then_verify. Qed.

(* sign_then_verify_statement (Model/SignPlace.v) holds on a concrete history: 2-of-3, calls [2], [0;2], [7] *)
Example sign_then_verify_instance :
  fst (lib_verify_input_run (c_sv 0) [0; 2; 4]%Z (lib_sign_calls (c_mk 0) [0; 2; 4]%Z [] [[4]; [0; 4]; [14]]%Z) 2)
  = Nat.leb 2 (length (signed_keys [0; 2; 4]%Z [[4]; [0; 4]; [14]]%Z)).
Proof. vm_compute. reflexivity. Qed.

(* --- known finding dup_point_keys (completeness part): key ids 0 / 1 = compressed / uncompressed encoding of
       one point, 2-of-2.  The uncompressed key signs, verify() (False, one signature) re-tags the signature with
       the first listed key it is valid for, and the compressed key's sign() is then skipped as "already signed":
       the input never verifies, although without the intermediate verify() it does. --- *)
Example dup_point_keys_refuted :
  run_scenario [((false, [0; 1]%Z), 2)]
               [OSign None false true [1%Z]; OVerify; OSign None false true [0%Z]; OVerify]
  = [ObsSign 0; ObsVerify false [Some false] [[[true; true]]];
     ObsSign 0; ObsVerify false [Some false] [[[true; true]]]] /\
  run_scenario [((false, [0; 1]%Z), 2)]
               [OSign None false true [1%Z]; OSign None false true [0%Z]; OVerify]
  = [ObsSign 0; ObsSign 0; ObsVerify true [Some true] [[[true; true]; [true; true]]]].
Proof. vm_compute. split; reflexivity. Qed.

(* --- known finding resign_keeps_stale: 2-of-3 signed by keys 1 and 2; a committed field changes (digest 0 -> 1);
       re-signing with replace_signatures=True by the same two keys puts the stale signature of key 1 into the free
       slot of key 0: three signatures, two of them valid, verification False, also after raw()/parse --- *)
Example resign_keeps_stale_refuted :
  run_scenario [((false, [0; 2; 4]%Z), 2)]
               [OSign (Some 0) false true [2; 4]%Z; OVerify; OEpochs [1%Z]; OSign (Some 0) true true [2; 4]%Z;
                OVerify; ORound]
  = [ObsSign 0; ObsVerify true [Some true] [[[false; true; false]; [false; false; true]]]; ObsNone; ObsSign 0;
     ObsVerify false [Some false] [[[false; false; false]; [false; true; false]; [false; false; true]]];
     ObsVerify false [Some false] [[[false; false; false]; [false; true; false]]]].
Proof. vm_compute. reflexivity. Qed.

(* ====================================================================================================
   sign_then_verify for ARBITRARY histories of Transaction.sign / Input.verify calls on one input
   (Model/SignSeq.v: lib_icalls folds the extracted lib_sign_input / lib_verify_input_run over the calls;
   spec_icalls collects the keys named in the calls that did not raise; signed_listed = the listed ones).
   Calls may name any subsets of signers in any order, repeated signers, foreign keys (skipped, or the call raises
   with fail_on_unknown_key and changes nothing), with and without replace_signatures.
   Guards = exactly the two recorded classes:
     resign_free_all   excludes resign_keeps_stale (a replace_signatures call that names an already-signed listed
                       key while a key slot stays free);
     dup_point_free    excludes dup_point_keys (needed only when a verification happens between sign() calls).
   ==================================================================================================== *)

(* the statement recorded in Model/SignPlace.v (calls without replace_signatures; its second premise on sv is not
   even needed) *)
Theorem sign_then_verify : sign_then_verify_statement.
Proof. exact sign_then_verify_thm. Qed.

(* the signature list after the history is EXACTLY the own signatures of the listed keys that signed, in key order *)
Theorem sign_history_exact : forall (B : Type) (sv : B -> Z -> bool) (mk : Z -> B),
  (forall k, sv (mk k) k = true) ->
  forall pubs, NoDup pubs -> forall cs acc,
    resign_free_all pubs acc cs = true ->
    only_signs cs = true \/ dup_point_free sv mk pubs ->
    lib_icalls sv mk pubs (map (own_sig mk) (signed_listed pubs acc)) cs
    = map (own_sig mk) (signed_listed pubs (spec_icalls pubs acc cs)).
Proof. exact @icalls_exact. Qed.

(* ... and the verdict for EVERY threshold m (m = 0 included: an input without signatures never verifies) *)
Theorem sign_history_then_verify : forall (B : Type) (sv : B -> Z -> bool) (mk : Z -> B),
  (forall k, sv (mk k) k = true) ->
  forall pubs cs m, NoDup pubs ->
    resign_free_all pubs [] cs = true ->
    only_signs cs = true \/ dup_point_free sv mk pubs ->
    fst (lib_verify_input_run sv pubs (lib_icalls sv mk pubs [] cs) m)
    = Nat.leb m (length (signed_listed pubs (spec_icalls pubs [] cs)))
      && Nat.leb 1 (length (signed_listed pubs (spec_icalls pubs [] cs))).
Proof. exact @sign_seq_then_verify_thm. Qed.

Theorem sign_history_then_verify_m : forall (B : Type) (sv : B -> Z -> bool) (mk : Z -> B),
  (forall k, sv (mk k) k = true) ->
  forall pubs cs m, NoDup pubs -> 1 <= m ->
    resign_free_all pubs [] cs = true ->
    only_signs cs = true \/ dup_point_free sv mk pubs ->
    fst (lib_verify_input_run sv pubs (lib_icalls sv mk pubs [] cs) m)
    = Nat.leb m (length (signed_listed pubs (spec_icalls pubs [] cs))).
Proof. exact @sign_seq_then_verify_m_thm. Qed.

(* non-vacuity: 2-of-3 over keys 0, 2, 4 (three different points).  Calls: keys 4 and the foreign key 14 (skipped);
   a verification (False, re-tags); keys 4 (repeated signer, skipped) and 0; replace_signatures by key 2 (not yet
   signed: admitted by the guard, completes the list); the foreign key 14 with fail_on_unknown_key (raises).
   All premises hold; the input verifies for m = 2 and m = 3, not for m = 4 *)
Example sign_history_instance :
  let pubs := [0; 2; 4]%Z in
  let cs3 := [CSign false false [4; 14]%Z; CVerify 2; CSign false true [4; 0]%Z] in
  let cs := cs3 ++ [CSign true true [2]%Z; CSign false true [14]%Z] in
  (forall k, c_sv 0 (c_mk 0 k) k = true) /\ NoDup pubs /\ dup_point_free (c_sv 0) (c_mk 0) pubs /\
  resign_free_all pubs [] cs = true /\
  signed_listed pubs (spec_icalls pubs [] cs3) = [0; 4]%Z /\
  fst (lib_verify_input_run (c_sv 0) pubs (lib_icalls (c_sv 0) (c_mk 0) pubs [] cs3) 2) = true /\
  fst (lib_verify_input_run (c_sv 0) pubs (lib_icalls (c_sv 0) (c_mk 0) pubs [] cs3) 3) = false /\
  signed_listed pubs (spec_icalls pubs [] cs) = [0; 2; 4]%Z /\
  fst (lib_verify_input_run (c_sv 0) pubs (lib_icalls (c_sv 0) (c_mk 0) pubs [] cs) 3) = true /\
  fst (lib_verify_input_run (c_sv 0) pubs (lib_icalls (c_sv 0) (c_mk 0) pubs [] cs) 4) = false.
Proof.
  split; [intros k; unfold c_sv, c_sv_at, c_mk; rewrite Z.eqb_refl; reflexivity|].
  split; [repeat constructor; simpl; intuition discriminate|].
  split.
  - intros k k' Hk Hk' E. simpl in Hk, Hk'.
    destruct Hk as [<-|[<-|[<-|[]]]]; destruct Hk' as [<-|[<-|[<-|[]]]]; try reflexivity; vm_compute in E; discriminate.
  - vm_compute. repeat split.
Qed.

(* the guard resign_free_all is needed even when NO committed field changed (second half of the recorded class
   resign_keeps_stale): complete 2-of-3 by keys 2, 4, then sign(keys 2, 4, replace_signatures=True): the old
   signature of key 2 lands in the slot of key 0, [sig2, sig2, sig4] does not verify although two keys signed *)
Example resign_same_digest_refuted :
  let pubs := [0; 2; 4]%Z in
  let cs := [CSign false true [2; 4]%Z; CSign true true [2; 4]%Z] in
  resign_free_all pubs [] cs = false /\
  length (signed_listed pubs (spec_icalls pubs [] cs)) = 2 /\
  map (@body cbody) (lib_icalls (c_sv 0) (c_mk 0) pubs [] cs) = [c_mk 0 2; c_mk 0 2; c_mk 0 4]%Z /\
  fst (lib_verify_input_run (c_sv 0) pubs (lib_icalls (c_sv 0) (c_mk 0) pubs [] cs) 2) = false.
Proof. vm_compute. repeat split. Qed.

(* the guard dup_point_free is needed as soon as a verification happens between the calls (recorded class
   dup_point_keys in the vocabulary of this theorem): keys 0 / 1 are two encodings of one point *)
Example dup_point_history_refuted :
  let pubs := [0; 1]%Z in
  let cs := [CSign false true [1]%Z; CVerify 2; CSign false true [0]%Z] in
  c_sv 0 (c_mk 0 1) 0 = true /\ resign_free_all pubs [] cs = true /\
  length (signed_listed pubs (spec_icalls pubs [] cs)) = 2 /\
  fst (lib_verify_input_run (c_sv 0) pubs (lib_icalls (c_sv 0) (c_mk 0) pubs [] cs) 2) = false /\
  fst (lib_verify_input_run (c_sv 0) pubs
         (lib_icalls (c_sv 0) (c_mk 0) pubs [] [CSign false true [1]%Z; CSign false true [0]%Z]) 2) = true.
Proof. vm_compute. repeat split. Qed.

(* --- the same for whole transactions (Model/SignSeq.v: lib_tcalls folds lib_sign_tx / lib_tx_verify_run, the
       functions the correspondence driver runs; sign() over all inputs stops at the first input for which it raises;
       verify() stops at the first failing input).  tx_signed_by: every input carries exactly the own signatures of
       its listed keys named so far, in key order; tx_verdict: every digest computable and every input signed by at
       least m (and at least one) of its listed keys --- *)
Theorem tx_history_exact : forall (B : Type) (svi : nat -> B -> Z -> bool) (mki : nat -> Z -> B),
  (forall i k, svi i (mki i k) k = true) ->
  forall sh, Forall (fun s => NoDup (si_keys s)) sh -> forall cs accs ins,
    tx_signed_by mki 0 sh accs ins ->
    tx_resign_free_all (map (@si_keys B) sh) accs cs = true ->
    tx_only_signs cs = true \/ tx_dup_point_free svi mki 0 sh ->
    tx_signed_by mki 0 sh (spec_tcalls (map (@si_keys B) sh) accs cs) (lib_tcalls svi mki ins cs).
Proof. exact @tcalls_inv. Qed.

Theorem tx_history_then_verify : forall (B : Type) (svi : nat -> B -> Z -> bool) (mki : nat -> Z -> B),
  (forall i k, svi i (mki i k) k = true) ->
  forall sh cs,
    Forall (fun s => NoDup (si_keys s)) sh -> Forall (fun s => si_sigs s = []) sh ->
    tx_resign_free_all (map (@si_keys B) sh) (map (fun _ => []) sh) cs = true ->
    tx_only_signs cs = true \/ tx_dup_point_free svi mki 0 sh ->
    fst (lib_tx_verify_run svi (lib_tcalls svi mki sh cs))
    = tx_verdict sh (spec_tcalls (map (@si_keys B) sh) (map (fun _ => []) sh) cs).
Proof. exact @tx_history_then_verify_thm. Qed.

(* the driver machine's OSign / OVerify steps are these calls, under the digests (epochs) of its state *)
Theorem machine_sign_is_tcall : forall fixed st target r f signers,
  cs_ins (fst (run_op fixed st (OSign target r f signers)))
  = lib_tcall (c_svi (cs_epochs st) (cs_ins st)) (fun i => c_mk (epoch_at (cs_epochs st) i))
              (cs_ins st) (TSign target r f signers).
Proof. exact run_op_sign_is_tcall. Qed.

(* (c_svi: the relation of input i under ITS digest for ITS Input.hash_type) *)
Theorem machine_verify_is_tcall : forall fixed st,
  cs_ins (fst (run_op fixed st OVerify))
  = lib_tcall (c_svi (cs_epochs st) (cs_ins st)) (fun i => c_mk (epoch_at (cs_epochs st) i))
              (cs_ins st) TVerify /\
  (exists v m, snd (run_op fixed st OVerify)
     = ObsVerify (fst (lib_tx_verify_run (c_svi (cs_epochs st) (cs_ins st)) (cs_ins st))) v m).
Proof. exact run_op_verify_is_tcall. Qed.

(* non-vacuity: input 0 = 2-of-3 over keys 0, 2, 4; input 1 = single key 6.  sign(keys 4, 6) over all inputs;
   verify (False); sign(key 0) on input 0; sign(key 2, fail_on_unknown_key) over all inputs: signs input 0, raises at
   input 1.  All premises hold; the transaction verifies; with the threshold of input 0 raised to 4 it does not *)
Example tx_history_instance :
  let svi := fun _ : nat => c_sv 0 in
  let mki := fun _ : nat => c_mk 0 in
  let sh := [init_input false [0; 2; 4]%Z 2; init_input true [6]%Z 1] in
  let sh4 := [init_input false [0; 2; 4]%Z 4; init_input true [6]%Z 1] in
  let cs := [TSign None false false [4; 6]%Z; TVerify; TSign (Some 0) false true [0]%Z; TSign None false true [2]%Z] in
  (forall i k, svi i (mki i k) k = true) /\
  Forall (fun s => NoDup (si_keys s)) sh /\ Forall (fun s => si_sigs s = []) sh /\
  tx_dup_point_free svi mki 0 sh /\
  tx_resign_free_all (map (@si_keys cbody) sh) (map (fun _ => []) sh) cs = true /\
  spec_tcalls (map (@si_keys cbody) sh) (map (fun _ => []) sh) cs = [[2; 0; 4; 6]; [4; 6]]%Z /\
  fst (lib_tx_verify_run svi (lib_tcalls svi mki sh [TSign None false false [4; 6]%Z])) = false /\
  fst (lib_tx_verify_run svi (lib_tcalls svi mki sh cs)) = true /\
  fst (lib_tx_verify_run svi (lib_tcalls svi mki sh4 cs)) = false.
Proof.
  split; [intros i k; unfold c_sv, c_sv_at, c_mk; rewrite Z.eqb_refl; reflexivity|].
  split; [repeat constructor; simpl; intuition discriminate|].
  split; [repeat constructor|].
  split.
  - simpl. split; [|split; [|exact I]].
    + intros k k' Hk Hk' E. simpl in Hk, Hk'.
      destruct Hk as [<-|[<-|[<-|[]]]]; destruct Hk' as [<-|[<-|[<-|[]]]]; try reflexivity; vm_compute in E; discriminate.
    + intros k k' Hk Hk' E. simpl in Hk, Hk'. destruct Hk as [<-|[]]; destruct Hk' as [<-|[]]. reflexivity.
  - vm_compute. repeat split.
Qed.

(* ====================================================================================================
   the hash type a signature carries (Proofs/SignPlaceHashType.v).  Transaction.verify asks for the digest of
   Input.hash_type; the parse path sets it from the hash-type byte of the input's first signature (every input
   kind after fix C02-5).  Signature relation svd indexed by the digest, arbitrary.
   ==================================================================================================== *)
Theorem verify_uses_signature_hash_type : forall (B D : Type) (svd : D -> B -> Z -> bool) (digest : Z -> D) (htb : B -> Z)
  txsw (x : @sinput B) s ss,
  let x' := lib_roundtrip_input htb true txsw x in
  si_sigs x' = s :: ss ->
  si_ht x' = htb (body s) /\
  fst (lib_verify_input_run (svd (digest (si_ht x'))) (si_keys x') (si_sigs x') (si_m x'))
  = lib_verify_input (svd (digest (htb (body s)))) false (si_keys x) (map (@body B) (s :: ss)) (si_m x).
Proof. exact @verify_uses_signature_hash_type_thm. Qed.

(* a first signature valid only under another digest d0 (made for SIGHASH_ALL, say, while its byte says otherwise):
   the parsed input does not verify — premise bound_to as in stale_signatures_fail *)
Theorem signature_for_other_hash_type_fails : forall (B D : Type) (svd : D -> B -> Z -> bool) (digest : Z -> D)
  (htb : B -> Z) txsw (x : @sinput B) s ss d0,
  let x' := lib_roundtrip_input htb true txsw x in
  si_sigs x' = s :: ss -> 1 <= si_m x ->
  digest (htb (body s)) <> d0 -> bound_to svd d0 (si_keys x) (body s) ->
  fst (lib_verify_input_run (svd (digest (si_ht x'))) (si_keys x') (si_sigs x') (si_m x')) = false.
Proof. exact @signature_for_other_hash_type_fails_thm. Qed.

(* the parse path as it was before fix C02-5 *)
Theorem unrepaired_segwit_ignores_hash_type : forall (B : Type) (htb : B -> Z) txsw (x : @sinput B),
  si_segwit x = true -> si_ht (lib_roundtrip_input htb false txsw x) = 1%Z.
Proof. exact @unrepaired_segwit_ignores_hash_type_thm. Qed.

(* the digests of one BIP143 input for two different hash types differ (C01 preimage model), or H collides: the
   premise "digest (htb (body s)) <> d0" above is what the library's digests satisfy *)
Theorem hash_type_changes_digest : forall (H H160 : bytes -> bytes),
  (forall b, length (H b) = 32%nat) -> (forall b, length (H160 b) = 20%nat) ->
  forall t i ht ht' x d d',
  wf_stx t -> nth_error (st_ins t) i = Some x ->
  k_segwit (si_kind x) = true -> st_segwit t = true ->
  (0 <= ht < 2 ^ 32)%Z -> (0 <= ht' < 2 ^ 32)%Z -> ht <> ht' ->
  lib_digest H H160 t i ht = Some d -> lib_digest H H160 t i ht' = Some d' ->
  d <> d' \/ collision H.
Proof. exact hash_type_changes_digest_thm. Qed.

(* finding witness_signature_hash_type_ignored (repaired, C02-5): a signed P2WPKH input whose serialized signature's
   hash-type byte is changed 01 -> 03.  Before the repair the parsed transaction verifies although the signature is
   valid for no listed key under the digest for the byte it carries; the repaired parse path rejects it.  And the
   completeness half: a third-party signature made for SIGHASH_SINGLE verifies only after the repair *)
Example witness_hash_type_ignored_prefix_refuted :
  run_scenario_at false [((true, [0]%Z), 1)] [OSign None false true [0%Z]; ORoundHt [(0, 0, 3%Z)]]
  = [ObsSign 0; ObsVerify true [Some true] [[[false]]]] /\
  run_scenario_at true [((true, [0]%Z), 1)] [OSign None false true [0%Z]; ORoundHt [(0, 0, 3%Z)]]
  = [ObsSign 0; ObsVerify false [Some false] [[[false]]]] /\
  run_scenario_at false [((true, [0]%Z), 1)] [OPlace 0 3%Z [0%Z]; ORound]
  = [ObsNone; ObsVerify false [Some false] [[[true]]]] /\
  run_scenario_at true [((true, [0]%Z), 1)] [OPlace 0 3%Z [0%Z]; ORound]
  = [ObsNone; ObsVerify true [Some true] [[[true]]]].
Proof. vm_compute. repeat split. Qed.

(* --- known finding input_level_hash_type: ONE hash type per input (the first signature's after parse, the last
       non-zero one after Input(signatures=...)) although consensus checks every signature under the digest for the
       byte it carries.  2-of-3 P2WSH signed by keys 0 and 4: the byte of the SECOND serialized signature changed to
       03 — the parsed transaction verifies with one valid signature; on the constructor path the same with the
       FIRST signature's byte, and with a single signature whose byte is 00 --- *)
Example input_level_hash_type_refuted :
  run_scenario [((true, [0; 2; 4]%Z), 2)] [OSign None false true [0; 4]%Z; ORoundHt [(0, 1, 3%Z)]; OCtor [(0, 0, 3%Z)]]
  = [ObsSign 0; ObsVerify true [Some true] [[[true; false; false]; [false; false; false]]];
     ObsVerify true [Some true] [[[false; false; false]; [false; false; true]]]] /\
  run_scenario [((true, [0]%Z), 1)] [OSign None false true [0%Z]; OCtor [(0, 0, 0%Z)]]
  = [ObsSign 0; ObsVerify true [Some true] [[[false]]]].
Proof. vm_compute. split; reflexivity. Qed.

(* ====================================================================================================
   tamper_changes_digest (Proofs/TamperDigest.v, on C01's preimage model)
   ==================================================================================================== *)

(* a change of anything input i's digest commits to — version, locktime, an outpoint, a sequence, an output amount
   or script, the input's own script code, for BIP143 inputs the amount being spent — changes the consensus
   preimage of input i, or the proof exhibits a collision of H (nothing is assumed about H but its output length) *)
Theorem tamper_changes_preimage : forall (H H160 : bytes -> bytes),
  (forall b, length (H b) = 32%nat) -> (forall b, length (H160 b) = 20%nat) ->
  forall t t' i ht x x' p p',
  wf_stx t -> wf_stx t' ->
  nth_error (st_ins t) i = Some x -> nth_error (st_ins t') i = Some x' ->
  k_segwit (si_kind x) = k_segwit (si_kind x') ->
  (0 <= ht < 2 ^ 32)%Z -> legacy_all_like ht = true ->
  committed_differs H160 t t' x x' ->
  spec_preimage H H160 t i ht = Some p -> spec_preimage H H160 t' i ht = Some p' ->
  p <> p' \/ collision H.
Proof. exact tamper_changes_preimage_thm. Qed.

(* ... and so does the digest Transaction.sign / Transaction.verify compute for input i *)
Theorem tamper_changes_digest : forall (H H160 : bytes -> bytes),
  (forall b, length (H b) = 32%nat) -> (forall b, length (H160 b) = 20%nat) ->
  forall t t' i ht x x' d d',
  wf_stx t -> wf_stx t' ->
  nth_error (st_ins t) i = Some x -> nth_error (st_ins t') i = Some x' ->
  k_segwit (si_kind x) = k_segwit (si_kind x') ->
  (k_segwit (si_kind x) = true -> st_segwit t = true /\ st_segwit t' = true) ->
  (0 <= ht < 2 ^ 32)%Z -> legacy_all_like ht = true ->
  committed_differs H160 t t' x x' ->
  lib_digest H H160 t i ht = Some d -> lib_digest H H160 t' i ht = Some d' ->
  d <> d' \/ collision H.
Proof. exact tamper_changes_digest_thm. Qed.

(* signature relation indexed by the digest.  Premise (unforgeability, NOT proved here): the signatures marked
   [stale] were made for digest d and are valid for no listed key under any other digest.  Then under d' <> d the
   input verifies only if at least m signatures that are not of this kind are present *)
Theorem stale_signatures_fail : forall (D sigT keyT : Type) (sv : D -> sigT -> keyT -> bool)
  d d' keys sigs m (stale : sigT -> bool),
  d' <> d ->
  (forall s, In s sigs -> stale s = true -> bound_to sv d keys s) ->
  length (filter (fun s => negb (stale s)) sigs) < m ->
  lib_verify_input (sv d') false keys sigs m = false.
Proof. exact @stale_signatures_fail_thm. Qed.

Theorem tx_input_fails : forall (sigT keyT : Type) (svi : nat -> sigT -> keyT -> bool) ins i v,
  nth_error ins i = Some v -> vi_coinbase v = false ->
  lib_verify_input (svi i) false (vi_keys v) (vi_sigs v) (vi_m v) = false ->
  lib_tx_verify svi ins = false.
Proof. exact @tx_input_fails_thm. Qed.

(* both parts: after a change of a committed field the input carrying fewer than m signatures other than those
   made for the old digest does not verify (or H collides) *)
Theorem tamper_detected : forall (H H160 : bytes -> bytes),
  (forall b, length (H b) = 32%nat) -> (forall b, length (H160 b) = 20%nat) ->
  forall (sigT keyT : Type) (sv : bytes -> sigT -> keyT -> bool)
  t t' i ht x x' d d' keys sigs m (stale : sigT -> bool),
  wf_stx t -> wf_stx t' ->
  nth_error (st_ins t) i = Some x -> nth_error (st_ins t') i = Some x' ->
  k_segwit (si_kind x) = k_segwit (si_kind x') ->
  (k_segwit (si_kind x) = true -> st_segwit t = true /\ st_segwit t' = true) ->
  (0 <= ht < 2 ^ 32)%Z -> legacy_all_like ht = true ->
  committed_differs H160 t t' x x' ->
  lib_digest H H160 t i ht = Some d -> lib_digest H H160 t' i ht = Some d' ->
  (forall s, In s sigs -> stale s = true -> bound_to sv d keys s) ->
  length (filter (fun s => negb (stale s)) sigs) < m ->
  lib_verify_input (sv d') false keys sigs m = false \/ collision H.
Proof. exact tamper_detected_thm. Qed.

(* ... and Transaction.verify of the tampered transaction, which checks input i under the new digest d', is False *)
Theorem tamper_detected_tx : forall (H H160 : bytes -> bytes),
  (forall b, length (H b) = 32%nat) -> (forall b, length (H160 b) = 20%nat) ->
  forall (sigT keyT : Type) (sv : bytes -> sigT -> keyT -> bool)
  t t' i ht x x' d d' (svi : nat -> sigT -> keyT -> bool) ins v (stale : sigT -> bool),
  wf_stx t -> wf_stx t' ->
  nth_error (st_ins t) i = Some x -> nth_error (st_ins t') i = Some x' ->
  k_segwit (si_kind x) = k_segwit (si_kind x') ->
  (k_segwit (si_kind x) = true -> st_segwit t = true /\ st_segwit t' = true) ->
  (0 <= ht < 2 ^ 32)%Z -> legacy_all_like ht = true ->
  committed_differs H160 t t' x x' ->
  lib_digest H H160 t i ht = Some d -> lib_digest H H160 t' i ht = Some d' ->
  nth_error ins i = Some v -> vi_coinbase v = false -> svi i = sv d' ->
  (forall s, In s (vi_sigs v) -> stale s = true -> bound_to sv d (vi_keys v) s) ->
  length (filter (fun s => negb (stale s)) (vi_sigs v)) < vi_m v ->
  lib_tx_verify svi ins = false \/ collision H.
Proof. exact tamper_detected_tx_thm. Qed.

(* non-vacuity with the executable SHA256d / HASH160 on C01's example transaction (input 0 native P2WPKH, input 1
   2-of-3 P2SH multisig): locktime + 1, first output amount + 1, amount spent by input 0 + 1.  Each change is in the
   domain, is a committed difference for input 0 and changes its digest; the last one is NOT committed by the legacy
   input 1, whose digest stays the same (the BIP143-only clause of committed_differs is sharp) *)
Example tamper_instance :
  let x0 := ex_in0 0 5000000000 in
  wf_stx ex_tx /\ wf_stx ex_tx_lock /\ wf_stx ex_tx_amount /\ wf_stx ex_tx_value /\
  committed_differs hash160 ex_tx ex_tx_lock x0 x0 /\
  committed_differs hash160 ex_tx ex_tx_amount x0 x0 /\
  committed_differs hash160 ex_tx ex_tx_value x0 (ex_in0 0 5000000001) /\
  lib_digest sha256d hash160 ex_tx 0 1 <> None /\
  opt_eqb (lib_digest sha256d hash160 ex_tx 0 1) (lib_digest sha256d hash160 ex_tx_lock 0 1) = false /\
  opt_eqb (lib_digest sha256d hash160 ex_tx 0 1) (lib_digest sha256d hash160 ex_tx_amount 0 1) = false /\
  opt_eqb (lib_digest sha256d hash160 ex_tx 0 1) (lib_digest sha256d hash160 ex_tx_value 0 1) = false /\
  opt_eqb (lib_digest sha256d hash160 ex_tx 1 1) (lib_digest sha256d hash160 ex_tx_lock 1 1) = false /\
  opt_eqb (lib_digest sha256d hash160 ex_tx 1 1) (lib_digest sha256d hash160 ex_tx_value 1 1) = true.
Proof. exact tamper_instance_proof. Qed.

(* the premise of stale_signatures_fail is satisfiable and the conclusion is not trivial: in the concrete relation
   of the correspondence (a signature carries the digest id it was made for) two signatures made for digest 0 and
   one fresh signature do not verify a 2-of-3 under digest 1; two fresh ones (and a stale one behind them) do *)
Example stale_signatures_instance :
  let sv := fun (e : Z) (b : cbody) (k : Z) => c_sv e b k in
  let keys := [0; 2; 4]%Z in
  let stale := fun b : cbody => let '(_, e, _, _, _) := b in Z.eqb e 0 in
  (forall s, stale s = true -> bound_to sv 0%Z keys s) /\
  lib_verify_input (sv 1%Z) false keys [c_mk 0 0; c_mk 0 2; c_mk 1 4]%Z 2 = false /\
  lib_verify_input (sv 1%Z) false keys [c_mk 1 0; c_mk 1 2; c_mk 0 4]%Z 2 = true /\
  lib_verify_input (sv 0%Z) false keys [c_mk 0 0; c_mk 0 2; c_mk 1 4]%Z 2 = true.
Proof.
  split.
  - intros [[[[p e] v] hm] hc] Hs e' k Hne _. simpl in Hs. apply Z.eqb_eq in Hs. subst e.
    unfold c_sv, c_sv_at. destruct (Z.eqb 0 e') eqn:E; [apply Z.eqb_eq in E; congruence|].
    rewrite andb_false_r. reflexivity.
  - vm_compute. repeat split.
Qed.

(* ====================================================================================================
   the threshold on the PARSE path (Proofs/VerifyThreshold.v).  Input.update_scripts reads sigs_required from the
   first bytes of the redeem / witness script; its statements are translated from the working tree on every run
   (Gen/GenC02.v gen_threshold) and the machine runs that translation (lib_script_threshold).
   ==================================================================================================== *)

(* the translation is one of the two readings written out in Model/SignPlace.v: the code as it is (n_tag - 80) or the
   code after the proposed repair C02-7 (a pushed number is read as such).  A range test that leaves out an opcode
   (seeded change C02-r: 80 < n_tag < 96 excludes OP_16) is neither *)
Theorem tree_threshold_reader_known :
  gen_threshold_translated = true /\
  ((forall b0 b1 len cur, gen_threshold b0 b1 len cur = lib_thr_v0 b0 b1 len cur) \/
   (forall b0 b1 len cur, gen_threshold b0 b1 len cur = lib_thr_v1 b0 b1 len cur)).
Proof. exact (conj tree_threshold_translated_thm tree_threshold_reader_known_thm). Qed.

(* every multisig script m-of-n with the threshold encoded as an opcode (1 <= m <= 16; any keys, any n, whatever
   sigs_required was before): the parsed threshold is m *)
Theorem parsed_threshold_is_script_threshold : forall m keys cur,
  (1 <= m <= 16)%Z -> lib_script_threshold (spec_ms_script m keys) cur = m.
Proof. exact parsed_threshold_is_script_threshold_thm. Qed.

(* ... whatever follows the first item *)
Theorem parsed_threshold_reads_first_item : forall m rest cur,
  (1 <= m <= 16)%Z -> lib_script_threshold (spec_num_item m ++ rest) cur = m.
Proof. exact parsed_threshold_op_thm. Qed.

(* thresholds above 16 have no opcode: consensus pushes the number (01 m).  The repaired reading gives m for every
   1 <= m <= 127; the reading of the code as it is gives -79, and Input.verify's loop `while sigs_verified < -79`
   accepts any non-empty signature list (finding threshold_above_16_pushed) *)
Theorem parsed_threshold_repaired : forall m keys cur,
  (1 <= m <= 127)%Z -> script_threshold lib_thr_v1 (spec_ms_script m keys) cur = m.
Proof. exact parsed_threshold_repaired_thm. Qed.

Theorem parsed_threshold_unrepaired_above_16 : forall m keys cur,
  (17 <= m)%Z -> script_threshold lib_thr_v0 (spec_ms_script m keys) cur = (-79)%Z.
Proof. exact parsed_threshold_unrepaired_above_16_thm. Qed.

Example threshold_above_16_pushed_refuted :
  let ks := map thr_key_bytes (thr_keys 20) in
  script_threshold lib_thr_v0 (spec_ms_script 17 ks) 1 = (-79)%Z /\
  lib_verify_input thr_sv false (thr_keys 20) [(-1)%Z] (Z.to_nat (-79)) = true /\
  script_threshold lib_thr_v1 (spec_ms_script 17 ks) 1 = 17%Z /\
  lib_verify_input thr_sv false (thr_keys 20) [(-1)%Z] (Z.to_nat 17) = false.
Proof. vm_compute. repeat split. Qed.

(* the library's own serializer writes number + 80 as one byte whatever the number: the consensus encoding up to 16 ... *)
Theorem lib_ms_script_is_spec : forall m keys,
  (m <= 16)%Z -> length keys <= 16 -> lib_ms_script m keys = spec_ms_script m keys.
Proof. exact lib_ms_script_is_spec_thm. Qed.

(* ... above 16 the bytes 0x61.. (OP_NOP, OP_VER, OP_IF, OP_NOTIF) — not a number for anybody else (not generated by
   the correspondence: such an output cannot be spent under consensus rules) *)
Example lib_ms_script_above_16_refuted :
  lib_num_item 17 = [zb 97] /\ spec_num_item 17 = [zb 1; zb 17] /\ lib_num_item 20 = [zb 100] /\
  lib_ms_script 17 [] <> spec_ms_script 17 [].
Proof. split; [reflexivity|]. split; [reflexivity|]. split; [reflexivity|]. vm_compute. discriminate. Qed.

(* the machine of the correspondence (request thr): both parse paths learn m ... *)
Theorem parsed_threshold_machine : forall witness m n,
  (1 <= m <= 16)%Z -> lib_parsed_threshold witness m n = m.
Proof. exact lib_parsed_threshold_thm. Qed.

(* ... so a parsed input whose serialized signature list (any selection, order, repetition, foreign or corrupted
   signatures) holds fewer than m signatures valid for some listed key does not verify, and m signatures in key order do *)
Theorem parsed_input_needs_m_signatures : forall witness m n sel,
  (1 <= m <= 16)%Z ->
  length (filter (sig_useful thr_sv (thr_keys n)) sel) < Z.to_nat m ->
  snd (fst (lib_thr_run witness m n sel)) = false.
Proof. exact parsed_input_needs_m_signatures_thm. Qed.

Theorem parsed_input_complete : forall witness m n sel,
  (1 <= m <= 16)%Z -> signed_in_order thr_sv (thr_keys n) sel -> Z.to_nat m <= length sel ->
  snd (fst (lib_thr_run witness m n sel)) = true.
Proof. exact parsed_input_complete_thm. Qed.

(* non-vacuity at the boundary the seeded change moved: 16-of-16 parsed from the witness; all 16 signatures verify,
   15 of them (one stripped) do not, one signature does not; 15-of-16 with 15 does *)
Example parsed_threshold_instance :
  let all := thr_keys 16 in
  lib_thr_run true 16 16 all = (16%Z, true, map (fun s => map (thr_sv s) all) all) /\
  snd (fst (lib_thr_run true 16 16 (removelast all))) = false /\
  snd (fst (lib_thr_run true 16 16 [0%Z])) = false /\
  snd (fst (lib_thr_run true 15 16 (removelast all))) = true /\
  snd (fst (lib_thr_run false 15 15 (thr_keys 15))) = true /\
  snd (fst (lib_thr_run false 15 15 (thr_keys 14))) = false.
Proof. vm_compute. repeat split. Qed.

(* ====================================================================================================
   one attribute written by hand (Proofs/VerifyObject.v): verify() of the object against the bytes it would broadcast
   ==================================================================================================== *)

(* the digest functions take every committed field from the attribute raw() serializes (the amount: Input.value) *)
Theorem digest_reads_serialised_copy : forall f, lib_digest_source f = lib_raw_source f.
Proof. exact digest_source_is_raw_source_thm. Qed.

(* tie to the working tree: the BIP143 digest reads no attribute raw() does not read; every field's source attribute
   is read by both; version_int / output_n_int are read by none of raw, signature_segwit, signature, signature_hash,
   Transaction.verify, Input.verify; verification reads nothing but signatures, keys, threshold, hash type and kind *)
Theorem tree_digest_reads_serialised_attributes :
  subset_s gen_attrs_signature_segwit_reads gen_attrs_raw_reads = true /\
  (forall f, mem_s (attr_name (lib_raw_source f)) gen_attrs_raw_reads = true /\
             mem_s (attr_name (lib_digest_source f)) gen_attrs_signature_segwit_reads = true).
Proof. exact (conj tree_digest_reads_within_raw_thm tree_sources_are_read_thm). Qed.

Theorem tree_shadow_copies_unread :
  forallb (fun a => negb (mem_s a (gen_attrs_raw_reads ++ gen_attrs_signature_segwit_reads ++ gen_attrs_signature_reads
                                   ++ gen_attrs_signature_hash_reads ++ gen_attrs_verify_reads
                                   ++ gen_attrs_input_verify_reads)))
          shadow_names = true.
Proof. exact tree_shadow_copies_unread_thm. Qed.

Theorem tree_verify_reads_frozen :
  subset_s gen_attrs_verify_reads frozen_verify_reads = true /\
  subset_s gen_attrs_input_verify_reads frozen_input_verify_reads = true /\
  subset_s gen_attrs_signature_reads frozen_signature_reads = true /\
  subset_s gen_attrs_signature_hash_reads [] = true /\
  subset_s gen_attrs_signature_segwit_writes frozen_segwit_writes = true /\
  subset_s gen_attrs_raw_writes frozen_raw_writes = true /\
  subset_s gen_attrs_verify_writes frozen_verify_writes = true /\
  subset_s gen_attrs_input_verify_writes frozen_input_verify_writes = true.
Proof. exact tree_verify_reads_frozen_thm. Qed.

(* hence: a write of any attribute other than verification context changes the library's digest of input i exactly
   when it changes the consensus digest of the bytes raw() returns ... *)
Theorem write_seen_iff_serialised : forall kinds nout ins a es es',
  is_ctx_attr a = false ->
  lib_write_epochs lib_digest_source kinds nout ins a es es' = raw_write_epochs nout ins a es es'.
Proof. exact write_epochs_agree_thm. Qed.

(* ... and the second copies and all other attributes change neither *)
Theorem shadow_write_unseen : forall kinds nout ins a es es',
  shadow_attr a = true ->
  lib_write_epochs lib_digest_source kinds nout ins a es es' = es /\ raw_write_epochs nout ins a es es' = es.
Proof. exact shadow_write_unseen_thm. Qed.

(* Input.verify on the object's signature list is CHECKMULTISIG on what the object serializes of it *)
Theorem input_verdict_is_serialised_verdict : forall (B : Type) (sv : B -> Z -> bool) keys (sigs : list (sg B)) m,
  1 <= m ->
  fst (lib_verify_input_run sv keys sigs m)
  = spec_input_broadcast sv keys (map (@body B) (lib_roundtrip_sigs m sigs)) m.
Proof. exact @input_verdict_is_serialised_verdict_thm. Qed.

(* the machine: on a state signed through Transaction.sign, for every single write that is not verification context,
   verify() of the object is the consensus verdict on its bytes *)
Theorem probe_object_is_broadcast : forall st a nout es' kinds b v r,
  is_ctx_attr a = false ->
  Forall plain_input (cs_ins st) ->
  run_probe lib_digest_source st a nout es' kinds = ObsBoth b v r ->
  b = r.
Proof. exact probe_object_is_broadcast_thm. Qed.

(* non-vacuity, the recorded class object_bytes_out_of_sync (witness list / signature list written by hand), and the
   seeded change C02-p in the vocabulary of this model: a digest that takes the version from version_int *)
Example object_bytes_out_of_sync_refuted :
  let st := {| cs_ins := fst (lib_sign_tx (fun _ => c_mk 0) None [init_input true [0%Z] 1] false true [0%Z]);
               cs_epochs := [0%Z] |} in
  Forall plain_input (cs_ins st) /\
  run_probe lib_digest_source st AVersion 2 [7%Z] [3%Z] = ObsBoth false [Some false] false /\
  run_probe lib_digest_source st AVersionInt 2 [7%Z] [3%Z] = ObsBoth true [Some true] true /\
  run_probe lib_digest_source st (AInValue 0) 2 [7%Z] [3%Z] = ObsBoth false [Some false] false /\
  run_probe lib_digest_source st AOther 2 [7%Z] [3%Z] = ObsBoth true [Some true] true /\
  run_probe lib_digest_source st (AWitnesses 0) 2 [7%Z] [3%Z] = ObsBoth true [Some true] false /\
  run_probe lib_digest_source st (ASignatures 0 []) 2 [7%Z] [3%Z] = ObsBoth false [Some false] true /\
  run_probe alt_digest_source_version_int st AVersion 2 [7%Z] [3%Z] = ObsBoth true [Some true] false /\
  run_probe alt_digest_source_version_int st AVersionInt 2 [7%Z] [3%Z] = ObsBoth false [Some false] true.
Proof.
  split; [|exact probe_examples].
  vm_compute. repeat constructor.
Qed.


(* ====================================================================================================
   Library operations that re-sign (request mut of the driver: the extracted machine driven by set_locktime_*,
   sign_and_update, bumpfee, add_output + sign(replace_signatures), shuffle, merge_transaction) and signature
   argument forms (request sigf: OSign; OCtor []).  Closed instances of the machine; the general statement
   (for all inputs holding the private keys of their first m keys: OEpochs; OSign (Some i) true true (first m keys)
   for every i; OVerify = true) is NOT proved here: tx_history_then_verify speaks about histories under one digest, a
   digest change between sign() calls is outside it (see the guard resign_free_all / class resign_keeps_stale).
   ==================================================================================================== *)
(* a library operation that changes committed fields and re-signs: every input holds the private keys of its first m
   listed keys; the digest of every input changes (OEpochs) and Transaction.sign(replace_signatures=True) runs on every
   input (sign_and_update, set_locktime_blocks / _time, bumpfee, merge_transaction): the object verifies, the bytes it
   broadcasts verify, the parsed bytes verify - twice in a row *)
Example resign_all_after_field_change_verifies :
  let verdicts := fun l => map (fun o => match o with ObsVerify b _ _ => Some b | ObsBoth b _ r => Some (andb b r) | _ => None end) l in
  verdicts (run_scenario [((true, [0]%Z), 1); ((false, [2; 4; 6]%Z), 2)]
     [OSign (Some 0) false true [0%Z]; OSign (Some 1) false true [2; 4]%Z; OVerify;
      OEpochs [1; 1]%Z; OSign (Some 0) true true [0%Z]; OSign (Some 1) true true [2; 4]%Z;
      OVerify; OProbe AOther 2 [1; 1]%Z [3; 2]%Z; ORound;
      OEpochs [2; 2]%Z; OSign (Some 0) true true [0%Z]; OSign (Some 1) true true [2; 4]%Z;
      OVerify; OProbe AOther 2 [2; 2]%Z [3; 2]%Z; ORound])
  = [None; None; Some true; None; None; None; Some true; Some true; Some true;
     None; None; None; Some true; Some true; Some true].
Proof. vm_compute. reflexivity. Qed.

(* seeded change C02-y in the vocabulary of this model: the field changes, nothing re-signs *)
Example field_change_without_resign_refuted :
  let verdicts := fun l => map (fun o => match o with ObsVerify b _ _ => Some b | _ => None end) l in
  verdicts (run_scenario [((true, [0]%Z), 1)]
     [OSign (Some 0) false true [0%Z]; OVerify; OEpochs [1%Z]; OVerify; ORound])
  = [None; Some true; None; Some false; Some false].
Proof. vm_compute. reflexivity. Qed.

(* proposed known class relative_locktime_resigns_one_input: set_locktime_relative_* changes the digest of EVERY input
   and re-signs the one it names *)
Example relative_locktime_resigns_one_input_refuted :
  let verdicts := fun l => map (fun o => match o with ObsVerify b _ _ => Some b | _ => None end) l in
  verdicts (run_scenario [((true, [0]%Z), 1); ((false, [2]%Z), 1)]
     [OSign (Some 0) false true [0%Z]; OSign (Some 1) false true [2%Z]; OVerify;
      OEpochs [1; 1]%Z; OSign (Some 0) true true [0%Z]; OVerify; ORound;
      OSign (Some 1) true true [2%Z]; OVerify])
  = [None; None; Some true; None; None; Some false; Some false; None; Some true].
Proof. vm_compute. reflexivity. Qed.


Print Assumptions verify_sound.
Print Assumptions verify_sound_positions.
Print Assumptions verify_insufficient.
Print Assumptions verify_insufficient_sigs.
Print Assumptions verify_complete.
Print Assumptions verify_exact.
Print Assumptions tx_verify_all_inputs.
Print Assumptions unfixed_accepts_more.
Print Assumptions unfixed_agrees_when_unique.
Print Assumptions run_decides_as_model.
Print Assumptions tx_run_decides_as_model.
Print Assumptions sign_fresh_in_order.
Print Assumptions sign_fresh_then_verify.
Print Assumptions sign_then_verify.
Print Assumptions sign_history_exact.
Print Assumptions sign_history_then_verify.
Print Assumptions sign_history_then_verify_m.
Print Assumptions tamper_changes_preimage.
Print Assumptions tamper_changes_digest.
Print Assumptions stale_signatures_fail.
Print Assumptions tx_input_fails.
Print Assumptions tamper_detected.
Print Assumptions tamper_detected_tx.
Print Assumptions tx_history_exact.
Print Assumptions tx_history_then_verify.
Print Assumptions machine_sign_is_tcall.
Print Assumptions machine_verify_is_tcall.
Print Assumptions verify_uses_signature_hash_type.
Print Assumptions signature_for_other_hash_type_fails.
Print Assumptions unrepaired_segwit_ignores_hash_type.
Print Assumptions hash_type_changes_digest.
Print Assumptions tree_threshold_reader_known.
Print Assumptions parsed_threshold_is_script_threshold.
Print Assumptions parsed_threshold_reads_first_item.
Print Assumptions parsed_threshold_repaired.
Print Assumptions parsed_threshold_unrepaired_above_16.
Print Assumptions lib_ms_script_is_spec.
Print Assumptions parsed_threshold_machine.
Print Assumptions parsed_input_needs_m_signatures.
Print Assumptions parsed_input_complete.
Print Assumptions digest_reads_serialised_copy.
Print Assumptions tree_digest_reads_serialised_attributes.
Print Assumptions tree_shadow_copies_unread.
Print Assumptions tree_verify_reads_frozen.
Print Assumptions write_seen_iff_serialised.
Print Assumptions shadow_write_unseen.
Print Assumptions input_verdict_is_serialised_verdict.
Print Assumptions probe_object_is_broadcast.
