(* Properties/C02.v — transaction verification is sound and complete for standard inputs.
   Every theorem quantifies over an ARBITRARY signature relation sv (the ECDSA layer is C13).
   Only statements closed by [exact lemma], non-vacuity / refutation examples, and Print Assumptions. *)
From Coq Require Import List Bool Arith ZArith.
From Verif Require Import Model.VerifyInput Model.SignPlace Proofs.VerifyInput Proofs.SignPlace.
Import ListNotations.

(* --- soundness: True  =>  m signatures valid for m distinct key positions, order preserved
       (what OP_CHECKMULTISIG accepts); no side condition on sv is needed after fix C02-2 --- *)
Theorem verify_sound : forall (sigT keyT : Type) (sv : sigT -> keyT -> bool) keys sigs m,
  lib_verify_input sv false keys sigs m = true ->
  exists pairs, matching sv pairs keys sigs /\ length pairs = m.
Proof. exact @verify_sound_thm. Qed.

Theorem verify_sound_positions : forall (sigT keyT : Type) (sv : sigT -> keyT -> bool) keys sigs m,
  lib_verify_input sv false keys sigs m = true ->
  exists ks, subseq ks keys /\ length ks = m /\ Forall (fun k => key_signed sv sigs k = true) ks.
Proof. exact @verify_sound_positions_thm. Qed.

(* fewer than m listed keys have a valid signature  =>  False *)
Theorem verify_insufficient : forall (sigT keyT : Type) (sv : sigT -> keyT -> bool) keys sigs m,
  length (filter (key_signed sv sigs) keys) < m -> lib_verify_input sv false keys sigs m = false.
Proof. exact @verify_insufficient_keys_thm. Qed.

(* fewer than m signatures are valid for some listed key (foreign signers, corrupted signatures, signatures
   over another digest)  =>  False *)
Theorem verify_insufficient_sigs : forall (sigT keyT : Type) (sv : sigT -> keyT -> bool) keys sigs m,
  length (filter (sig_useful sv keys) sigs) < m -> lib_verify_input sv false keys sigs m = false.
Proof. exact @verify_insufficient_sigs_thm. Qed.

(* --- completeness: valid signatures of a set of key positions, listed in key order, at least m of them --- *)
Theorem verify_complete : forall (sigT keyT : Type) (sv : sigT -> keyT -> bool) keys sigs m,
  signed_in_order sv keys sigs -> 1 <= m <= length sigs -> lib_verify_input sv false keys sigs m = true.
Proof. exact @verify_complete_thm. Qed.

(* --- exact characterisation: the first m signatures, in order, for distinct key positions --- *)
Theorem verify_exact : forall (sigT keyT : Type) (sv : sigT -> keyT -> bool) keys sigs m,
  1 <= m ->
  (lib_verify_input sv false keys sigs m = true <->
   m <= length sigs /\ signed_in_order sv keys (firstn m sigs)).
Proof. exact @verify_exact_thm. Qed.

(* --- Transaction.verify: True exactly when every input's digest is computable and the input verifies --- *)
Theorem tx_verify_all_inputs : forall (sigT keyT : Type) (svi : nat -> sigT -> keyT -> bool) ins,
  lib_tx_verify svi ins = true <->
  forall j x, nth_error ins j = Some x ->
    vi_hash_ok x = true /\ lib_verify_input (svi j) (vi_coinbase x) (vi_keys x) (vi_sigs x) (vi_m x) = true.
Proof. exact @tx_verify_iff_thm. Qed.

(* --- the loop before fix C02-2 ("try previous signature") --- *)
Theorem unfixed_accepts_more : forall (sigT keyT : Type) (sv : sigT -> keyT -> bool) keys prev sigs need,
  lib_verify_loop sv keys sigs need = true -> unfixed_verify_loop sv keys prev sigs need = true.
Proof. exact @fixed_implies_unfixed. Qed.

Theorem unfixed_agrees_when_unique : forall (sigT keyT : Type) (sv : sigT -> keyT -> bool) keys sigs need,
  (forall s, In s sigs -> forall pre k post, keys = pre ++ k :: post -> sv s k = true ->
                          forall k', In k' post -> sv s k' = false) ->
  unfixed_verify_loop sv keys None sigs need = lib_verify_loop sv keys sigs need.
Proof. exact @unfixed_is_fixed_start. Qed.

(* witness of finding dup_point_keys (soundness part, repaired by C02-2): keys 0 and 1 are the compressed and
   the uncompressed encoding of one point, signature 0 is by that point, signature 1 by a foreign key; 2-of-2.
   The old loop accepted with ONE useful signature; the repaired loop rejects. *)
Example verify_sound_refuted_before_fix :
  let sv := fun (s k : nat) => Nat.eqb s 0 in
  unfixed_verify_loop sv [0; 1] None [0; 1] 2 = true /\
  length (filter (sig_useful sv [0; 1]) [0; 1]) = 1 /\
  lib_verify_input sv false [0; 1] [0; 1] 2 = false.
Proof. vm_compute. repeat split. Qed.

(* non-vacuity: 2-of-3 signed by keys 0 and 2 verifies; by key 2 alone, or in the wrong order, it does not;
   a coinbase input verifies; a transaction without inputs verifies *)
Example verify_examples :
  let sv := fun (s k : nat) => Nat.eqb s k in
  lib_verify_input sv false [0; 1; 2] [0; 2] 2 = true /\
  lib_verify_input sv false [0; 1; 2] [2] 2 = false /\
  lib_verify_input sv false [0; 1; 2] [2; 0] 2 = false /\
  lib_verify_input sv false [0; 1; 2] [7; 0; 2] 2 = false /\
  lib_verify_input sv true [] [] 1 = true /\
  lib_tx_verify (fun _ => sv) [] = true.
Proof. vm_compute. repeat split. Qed.

(* --- the machine run by the correspondence driver decides exactly as the functions above --- *)
Theorem run_decides_as_model : forall (B : Type) (sv : B -> Z -> bool) keys sigs m,
  fst (lib_verify_input_run sv keys sigs m) = lib_verify_input sv false keys (map (@body B) sigs) m.
Proof. exact @verify_input_run_fst. Qed.

Theorem tx_run_decides_as_model : forall (B : Type) (svi : nat -> B -> Z -> bool) ins,
  fst (lib_tx_verify_run svi ins) = lib_tx_verify svi (map (@view B) ins).
Proof. exact @tx_run_is_tx_verify. Qed.

(* --- signing: the first sign() call on an unsigned input (any signers, any order, repeated, foreign ones
       skipped) leaves signatures in key order, so enough of them verify --- *)
Theorem sign_fresh_in_order : forall (B : Type) (sv : B -> Z -> bool) (mk : Z -> B),
  (forall k, sv (mk k) k = true) ->
  forall pubs replace fail signers l,
    lib_sign_input mk pubs [] replace fail signers = SignDone l ->
    signed_in_order sv pubs (map (@body B) l).
Proof. exact @Proofs.SignPlace.sign_fresh_in_order. Qed.

Theorem sign_fresh_then_verify : forall (B : Type) (sv : B -> Z -> bool) (mk : Z -> B),
  (forall k, sv (mk k) k = true) ->
  forall pubs replace fail signers l m,
    lib_sign_input mk pubs [] replace fail signers = SignDone l ->
    1 <= m <= length l ->
    fst (lib_verify_input_run sv pubs l m) = true.
Proof. exact @Proofs.SignPlace.sign_fresh_then_verify. Qed.

(* sign_then_verify_statement (Model/SignPlace.v) holds on a concrete history: 2-of-3, calls [2], [0;2], [7] *)
Example sign_then_verify_instance :
  fst (lib_verify_input_run (c_sv 0) [0; 2; 4]%Z (lib_sign_calls (c_mk 0) [0; 2; 4]%Z [] [[4]; [0; 4]; [14]]%Z) 2)
  = Nat.leb 2 (length (signed_keys [0; 2; 4]%Z [[4]; [0; 4]; [14]]%Z)).
Proof. vm_compute. reflexivity. Qed.

(* --- known finding dup_point_keys (completeness part): key ids 0 / 1 = compressed / uncompressed encoding of
       one point, 2-of-2.  The uncompressed key signs, verify() (False, one signature) re-tags the signature with
       the first listed key it is valid for, and the compressed key's sign() is then skipped as "already signed":
       the input never verifies, although without the intermediate verify() it does. --- *)
Example dup_point_keys_refuted :
  run_scenario [((false, [0; 1]%Z), 2)]
               [OSign None false true [1%Z]; OVerify; OSign None false true [0%Z]; OVerify]
  = [ObsSign 0; ObsVerify false [Some false] [[[true; true]]];
     ObsSign 0; ObsVerify false [Some false] [[[true; true]]]] /\
  run_scenario [((false, [0; 1]%Z), 2)]
               [OSign None false true [1%Z]; OSign None false true [0%Z]; OVerify]
  = [ObsSign 0; ObsSign 0; ObsVerify true [Some true] [[[true; true]; [true; true]]]].
Proof. vm_compute. split; reflexivity. Qed.

(* --- known finding resign_keeps_stale: 2-of-3 signed by keys 1 and 2; a committed field changes (digest 0 -> 1);
       re-signing with replace_signatures=True by the same two keys puts the stale signature of key 1 into the free
       slot of key 0: three signatures, two of them valid, verification False, also after raw()/parse --- *)
Example resign_keeps_stale_refuted :
  run_scenario [((false, [0; 2; 4]%Z), 2)]
               [OSign (Some 0) false true [2; 4]%Z; OVerify; OEpochs [1%Z]; OSign (Some 0) true true [2; 4]%Z;
                OVerify; ORound]
  = [ObsSign 0; ObsVerify true [Some true] [[[false; true; false]; [false; false; true]]]; ObsNone; ObsSign 0;
     ObsVerify false [Some false] [[[false; false; false]; [false; true; false]; [false; false; true]]];
     ObsVerify false [Some false] [[[false; false; false]; [false; true; false]]]].
Proof. vm_compute. reflexivity. Qed.

Print Assumptions verify_sound.
Print Assumptions verify_sound_positions.
Print Assumptions verify_insufficient.
Print Assumptions verify_insufficient_sigs.
Print Assumptions verify_complete.
Print Assumptions verify_exact.
Print Assumptions tx_verify_all_inputs.
Print Assumptions unfixed_accepts_more.
Print Assumptions unfixed_agrees_when_unique.
Print Assumptions run_decides_as_model.
Print Assumptions tx_run_decides_as_model.
Print Assumptions sign_fresh_in_order.
Print Assumptions sign_fresh_then_verify.
