(* Properties/C06.v — transaction and block serialization round-trips byte-for-byte; ids are exact.
   Only statements closed by [exact lemma], non-vacuity examples, refutation witnesses for every class
   excluded by a guard, and Print Assumptions. *)
From Coq Require Import ZArith List Bool Lia.
From Coq.Strings Require Import Byte.
From Verif Require Import Lib.Bytes Model.Wire Crypto.Sha256 Model.TxCodec Model.BlockCodec
  Proofs.TxCodecSpec Proofs.TxCodecLib Proofs.BlockCodec Gen.GenFuncs Glue.WireGlue.
Import ListNotations.
Open Scope Z_scope.

(* --- tie: the length/count encoders the transaction codec model is built from (lib_cs_enc, lib_cs_dec, lib_varstr)
       are the functions re-translated from bitcoinlib/encoding.py on this run --- *)
Theorem wire_source_is_model :
  (forall n, gen_int_to_varbyteint n = lib_cs_enc n) /\
  (forall b, gen_varbyteint_to_int b = Some (fst (lib_cs_dec b), Z.of_nat (snd (lib_cs_dec b)))) /\
  (forall s, gen_varstr s = lib_varstr s).
Proof. exact (conj gen_int_to_varbyteint_eq (conj gen_varbyteint_to_int_eq gen_varstr_eq)). Qed.

(* --- the protocol codec: any counts, sizes, witness stacks --- *)
Theorem spec_tx_codec : forall t rest, wf_tx t -> spec_parse (spec_ser t ++ rest) = Some (t, rest).
Proof. exact spec_tx_codec_proof. Qed.

Theorem spec_ser_prefix_free : forall t1 t2 r1 r2,
  wf_tx t1 -> wf_tx t2 -> spec_ser t1 ++ r1 = spec_ser t2 ++ r2 -> t1 = t2 /\ r1 = r2.
Proof. exact spec_ser_inj. Qed.

(* --- the library: parse, serialize again, fields, id --- *)
Theorem lib_roundtrip : forall t, wf_tx t -> quirk_free t ->
  exists t', lib_parse (spec_ser t) = Some t' /\ lib_raw t' = Some (spec_ser t) /\
             view t' = repr t /\ l_txid t' = spec_txid t.
Proof. exact lib_roundtrip_proof. Qed.

Theorem lib_txid_exact : forall t, wf_tx t -> quirk_free t ->
  exists t', lib_parse (spec_ser t) = Some t' /\ l_txid t' = rev (sha256d (spec_ser (strip_witness t))).
Proof. exact lib_txid_exact_proof. Qed.

(* --- the library: a transaction assembled through the API writes the protocol bytes,
       which the protocol parser reads back to the same fields --- *)
Theorem lib_raw_is_spec : forall t, wf_tx t -> quirk_free_api t -> lib_raw (api_build t) = Some (spec_ser t).
Proof. exact lib_raw_is_spec_proof. Qed.

Theorem api_bytes_read_back : forall t r, wf_tx t -> quirk_free_api t ->
  lib_raw (api_build t) = Some r -> spec_parse r = Some (t, []).
Proof. exact api_bytes_read_back_proof. Qed.

(* --- blocks (protocol level), header, target --- *)
Theorem spec_block_codec : forall b rest,
  wf_header (b_hdr b) -> len_ok (b_txs b) -> Forall wf_tx (b_txs b) ->
  spec_block_parse (spec_block_ser b ++ rest) = Some (b, rest).
Proof. exact spec_block_codec_proof. Qed.

Theorem header_codec : forall h rest, wf_header h -> parse_header (ser_header h ++ rest) = Some (h, rest).
Proof. exact parse_header_ser. Qed.

Theorem target_exact : forall bits,
  0 <= bits < 2 ^ 32 -> 3 <= bits / 2 ^ 24 -> bits mod 2 ^ 24 < 2 ^ 23 ->
  lib_target (be_bytes 4 bits) = Some (spec_target bits).
Proof. exact target_exact_proof. Qed.

(* --- non-vacuity: concrete transactions meeting every hypothesis --- *)
Definition p11 : bytes := repeat x11 32.
Definition pkh : bytes := [x76; xa9; x14] ++ repeat x22 20 ++ [x88; xac].
Definition t_legacy : tx := mk_tx 1 [mk_txin p11 0 [x51] 4294967295 []] [mk_txout 5000 pkh] 0 false.
Definition t_segwit : tx :=
  mk_tx 2 [mk_txin p11 1 [] 4294967293 [[]; repeat x07 64; [x51]]; mk_txin p11 2 [x00] 0 []]
        [mk_txout 1 pkh; mk_txout 0 []] 500000 true.

Example t_legacy_in_domain : wf_tx t_legacy /\ quirk_free t_legacy /\ quirk_free_api t_legacy.
Proof.
  split; [|split].
  - unfold wf_tx, t_legacy. cbn [tx_version tx_ins tx_outs tx_locktime tx_segwit].
    repeat split; try (cbn; lia); try discriminate; try reflexivity.
    + repeat constructor; cbn; lia.
    + repeat constructor; cbn; lia.
  - repeat split; try discriminate; repeat constructor.
  - repeat split; repeat constructor.
Qed.

Example t_segwit_in_domain : wf_tx t_segwit /\ quirk_free t_segwit.
Proof.
  split.
  - unfold wf_tx, t_segwit. cbn [tx_version tx_ins tx_outs tx_locktime tx_segwit].
    repeat split; try (cbn; lia); try discriminate; try reflexivity.
    + repeat constructor; cbn; lia.
    + repeat constructor; cbn; lia.
  - repeat split; try discriminate; repeat constructor.
Qed.

Example t_segwit_bytes :
  exists t' r, lib_parse_body (spec_ser t_segwit) = Some (t', r) /\ lib_raw t' = Some (spec_ser t_segwit) /\
               length (spec_ser t_segwit) = 208%nat.
Proof. eexists. eexists. split; [vm_compute; reflexivity|]. split; vm_compute; reflexivity. Qed.

(* --- every clause of the guards is needed: witnesses of the excluded classes --- *)
(* stated on lib_parse_body (lib_parse without the id, which raw() does not use), so that the witnesses
   are checked by computation without evaluating SHA-256 inside Coq *)
Definition rt_fails (t : tx) : Prop :=
  exists t' r, lib_parse_body (spec_ser t) = Some (t', r) /\ lib_raw t' <> Some (spec_ser t).

(* known finding single_zero_byte_item: an output script 00 is written as an empty script *)
Example zero_byte_out_script_refuted :
  rt_fails (mk_tx 1 [mk_txin p11 0 [] 4294967295 []] [mk_txout 5 [x00]] 0 false).
Proof. eexists. eexists. split; [vm_compute; reflexivity|]. vm_compute. discriminate. Qed.

(* known finding single_zero_byte_item: a witness item 00 is written as an empty item *)
Example zero_byte_witness_item_refuted :
  rt_fails (mk_tx 1 [mk_txin p11 0 [] 4294967295 [[x51]; [x00]]] [mk_txout 5 pkh] 0 true).
Proof. eexists. eexists. split; [vm_compute; reflexivity|]. vm_compute. discriminate. Qed.

(* known finding ascii_hex_bytes: a script that reads as hexadecimal text ("ab") is unhexlified *)
Example hexlike_script_refuted :
  rt_fails (mk_tx 1 [mk_txin p11 0 [] 4294967295 []] [mk_txout 5 [x61; x62]] 0 false) /\
  rt_fails (mk_tx 1 [mk_txin p11 0 [x20] 4294967295 []] [mk_txout 5 pkh] 0 false).
Proof. split; (eexists; eexists; split; [vm_compute; reflexivity|]; vm_compute; discriminate). Qed.

(* known finding ascii_hex_bytes: a previous-output hash whose 32 bytes are all ASCII digits *)
Example hexlike_prev_refuted :
  rt_fails (mk_tx 1 [mk_txin (repeat x30 32) 0 [] 4294967295 []] [mk_txout 5 pkh] 0 false).
Proof. eexists. eexists. split; [vm_compute; reflexivity|]. vm_compute. discriminate. Qed.

(* known finding scriptsig_and_witness: the stack of an input with an unrecognised scriptSig is dropped *)
Example scriptsig_and_witness_refuted :
  rt_fails (mk_tx 1 [mk_txin p11 0 [x51] 4294967295 [[x52]]] [mk_txout 5 pkh] 0 true).
Proof. eexists. eexists. split; [vm_compute; reflexivity|]. vm_compute. discriminate. Qed.

(* a transaction without outputs is refused by the library *)
Example no_outputs_refuted :
  lib_parse_body (spec_ser (mk_tx 1 [mk_txin p11 0 [] 4294967295 []] [] 0 false)) = None.
Proof. vm_compute. reflexivity. Qed.

(* API: version 0 is replaced by 1; version 1 becomes 2 with a relative-locktime sequence *)
Example api_version_refuted :
  lib_raw (api_build (mk_tx 0 [mk_txin p11 0 [] 4294967295 []] [mk_txout 5 pkh] 0 false))
    = Some (spec_ser (mk_tx 1 [mk_txin p11 0 [] 4294967295 []] [mk_txout 5 pkh] 0 false)) /\
  lib_raw (api_build (mk_tx 1 [mk_txin p11 0 [] 5 []] [mk_txout 5 pkh] 0 false))
    = Some (spec_ser (mk_tx 2 [mk_txin p11 0 [] 5 []] [mk_txout 5 pkh] 0 false)).
Proof. split; vm_compute; reflexivity. Qed.

(* API: a witness item 00 is written as an empty item *)
Example api_zero_byte_item_refuted :
  exists r t', lib_raw (api_build (mk_tx 1 [mk_txin p11 0 [] 4294967295 [[x00]]] [mk_txout 5 pkh] 0 true)) = Some r /\
    spec_parse r = Some (t', []) /\ tx_ins t' = [mk_txin p11 0 [] 4294967295 [[]]].
Proof. eexists. eexists. split; [vm_compute; reflexivity|]. split; vm_compute; reflexivity. Qed.

(* outside wf_tx (segwit flag = some witness present): the library writes marker/flag for a transaction
   whose witness_type is segwit although no input has a witness; the protocol parser refuses those bytes
   (known finding segwit_flag_without_witness) *)
Example segwit_flag_without_witness_refuted :
  exists r, lib_raw (api_build (mk_tx 1 [mk_txin p11 0 [] 4294967295 []] [mk_txout 5 pkh] 0 true)) = Some r /\
            spec_parse r = None.
Proof. eexists. split; [vm_compute; reflexivity|]. vm_compute. reflexivity. Qed.

(* target: exponent below 3 is a Python float in the library; the sign bit is taken as mantissa *)
Example target_small_exponent_refuted :
  lib_target (be_bytes 4 33587200) = None /\ spec_target 33587200 = 128.
Proof. split; vm_compute; reflexivity. Qed.

Example target_sign_bit_refuted :
  lib_target (be_bytes 4 75497472) = Some 2147483648 /\ spec_target 75497472 = 0.
Proof. split; vm_compute; reflexivity. Qed.

Example target_genesis : lib_target (be_bytes 4 486604799) = Some (65535 * 2 ^ 208).
Proof. vm_compute. reflexivity. Qed.

Print Assumptions wire_source_is_model.
Print Assumptions spec_tx_codec.
Print Assumptions spec_ser_prefix_free.
Print Assumptions lib_roundtrip.
Print Assumptions lib_txid_exact.
Print Assumptions lib_raw_is_spec.
Print Assumptions api_bytes_read_back.
Print Assumptions spec_block_codec.
Print Assumptions header_codec.
Print Assumptions target_exact.
