(* Properties/C06.v — transaction and block serialization round-trips byte-for-byte; ids are exact.
   Only statements closed by [exact lemma], non-vacuity examples, refutation witnesses for every class
   excluded by a guard, and Print Assumptions. *)
From Coq Require Import ZArith List Bool Lia.
From Coq.Strings Require Import Byte.
From Verif Require Import Lib.Bytes Model.Wire Crypto.Sha256 Model.TxCodec Model.BlockCodec Model.TxStrict
  Proofs.TxCodecSpec Proofs.TxCodecLib Proofs.BlockCodec Proofs.BlockSession Proofs.TxCodecStrict
  Gen.GenFuncs Glue.WireGlue.
Import ListNotations.
Open Scope Z_scope.

(* --- tie: the length/count encoders the transaction codec model is built from (lib_cs_enc, lib_cs_dec, lib_varstr)
       are the functions re-translated from bitcoinlib/encoding.py on this run --- *)
Theorem wire_source_is_model :
  (forall n, gen_int_to_varbyteint n = lib_cs_enc n) /\
  (forall b, gen_varbyteint_to_int b = Some (fst (lib_cs_dec b), Z.of_nat (snd (lib_cs_dec b)))) /\
  (forall s, gen_varstr s = lib_varstr s).
Proof. exact (conj gen_int_to_varbyteint_eq (conj gen_varbyteint_to_int_eq gen_varstr_eq)). Qed.

(* --- the protocol codec: any counts, sizes, witness stacks --- *)
Theorem spec_tx_codec : forall t rest, wf_tx t -> spec_parse (spec_ser t ++ rest) = Some (t, rest).
Proof. exact spec_tx_codec_proof. Qed.

Theorem spec_ser_prefix_free : forall t1 t2 r1 r2,
  wf_tx t1 -> wf_tx t2 -> spec_ser t1 ++ r1 = spec_ser t2 ++ r2 -> t1 = t2 /\ r1 = r2.
Proof. exact spec_ser_inj. Qed.

(* --- the library: parse, serialize again, fields, id --- *)
Theorem lib_roundtrip : forall t, wf_tx t -> quirk_free t ->
  exists t', lib_parse (spec_ser t) = Some t' /\ lib_raw t' = Some (spec_ser t) /\
             view t' = repr t /\ l_txid t' = spec_txid t.
Proof. exact lib_roundtrip_proof. Qed.

Theorem lib_txid_exact : forall t, wf_tx t -> quirk_free t ->
  exists t', lib_parse (spec_ser t) = Some t' /\ l_txid t' = rev (sha256d (spec_ser (strip_witness t))).
Proof. exact lib_txid_exact_proof. Qed.

(* --- the library: a transaction assembled through the API writes the protocol bytes,
       which the protocol parser reads back to the same fields --- *)
Theorem lib_raw_is_spec : forall t, wf_tx t -> quirk_free_api t -> lib_raw (api_build t) = Some (spec_ser t).
Proof. exact lib_raw_is_spec_proof. Qed.

Theorem api_bytes_read_back : forall t r, wf_tx t -> quirk_free_api t ->
  lib_raw (api_build t) = Some r -> spec_parse r = Some (t, []).
Proof. exact api_bytes_read_back_proof. Qed.

(* --- blocks (protocol level), header, target --- *)
Theorem spec_block_codec : forall b rest,
  wf_header (b_hdr b) -> len_ok (b_txs b) -> Forall wf_tx (b_txs b) ->
  spec_block_parse (spec_block_ser b ++ rest) = Some (b, rest).
Proof. exact spec_block_codec_proof. Qed.

Theorem header_codec : forall h rest, wf_header h -> parse_header (ser_header h ++ rest) = Some (h, rest).
Proof. exact parse_header_ser. Qed.

Theorem target_exact : forall bits,
  0 <= bits < 2 ^ 32 -> 3 <= bits / 2 ^ 24 -> bits mod 2 ^ 24 < 2 ^ 23 ->
  lib_target (be_bytes 4 bits) = Some (spec_target bits).
Proof. exact target_exact_proof. Qed.

Theorem target_signed_exact : forall bits,
  0 <= bits < 2 ^ 32 -> 3 <= bits / 2 ^ 24 -> bits mod 2 ^ 24 < 2 ^ 23 ->
  lib_target (be_bytes 4 bits) = Some (spec_target_signed bits).
Proof. exact target_signed_exact_proof. Qed.

(* --- sequences of reader calls on ONE Block object (Block.parse / parse_bytes / parse_bytesio with
       parse_transactions and limit, then any order and repetition of parse_transactions(k), parse_transaction(),
       parse_transactions_dict(), parse_transaction_dict(), serialize()): the object is a cursor over the block's own
       list of transactions.  [spec_brun] is that cursor, defined on the protocol-level block without any bytes;
       [embed] is how the object holds the cursor's state (stream position = the serialization of the transactions
       not yet consumed) --- *)
Theorem block_reader_session_exact : forall b ptx limit ops,
  block_ok b ->
  lib_bsession (spec_block_ser b) ptx limit ops =
  Some (embed b (spec_open b ptx limit), lift_run b (spec_brun b (spec_open b ptx limit) ops)).
Proof. exact block_reader_session_exact_proof. Qed.

(* without parse_transaction_dict: no call fails, and after every call Block.transactions is exactly the first
   [ss_pos] transactions of the block, each once, in order *)
Theorem block_reader_delivers_prefix : forall b ptx limit ops,
  dict_one_free ops ->
  Forall (fun r => exists s out, r = Some (s, out) /\ prefix_state b s)
         (spec_brun b (spec_open b ptx limit) ops).
Proof. exact block_reader_delivers_prefix_proof. Qed.

(* ... serialize() then gives the input bytes once every transaction was delivered, ValueError before *)
Theorem block_reader_serialize_complete : forall b s,
  prefix_state b s ->
  spec_bstep b s BSer =
  Some (s, OSer (if (ss_pos s =? length (b_txs b))%nat && negb (length (b_txs b) =? 0)%nat
                 then Some (spec_block_ser b) else None)).
Proof. exact serialize_prefix_proof. Qed.

(* ... and parse_transactions_dict() lists id and bytes of the transactions not yet delivered, without consuming *)
Theorem dict_reader_lists_rest : forall b s,
  prefix_state b s -> (ss_pos s < length (b_txs b))%nat ->
  spec_bstep b s BDictAll = Some (s, ODicts (map dict_of (skipn (ss_pos s) (b_txs b)))).
Proof. exact dict_reader_lists_rest_proof. Qed.

(* with parse_transaction_dict (which consumes one transaction without adding an object): Block.transactions is a
   selection, in block order and each at most once, of the transactions consumed so far *)
Theorem block_reader_selection : forall b ptx limit ops,
  Forall (fun r => match r with Some (s', _) => selection_state b s' | None => True end)
         (spec_brun b (spec_open b ptx limit) ops).
Proof. exact block_reader_selection_proof. Qed.

(* the single-call reader of the older theorems is the opening call of a session *)
Theorem block_parse_is_open : forall l,
  lib_block_open l true 0 = match lib_block_parse l with Some lb => Some (mk_bstate lb []) | None => None end.
Proof. exact block_parse_is_open_proof. Qed.

(* --- the script layer's refusals (Model/TxStrict.v): pushed data that imitates keys and signatures --- *)
(* strict mode: a scriptSig / witness item with complete pushes whose signature-shaped items decode is accepted;
   nothing is asked of key-shaped items (Key(data, strict=False)) *)
Theorem strict_unlock_accepts : forall s cs,
  level0_cmds s = Some cs -> sigs_decodable cs = true -> sl_unlock_refuses true s = false.
Proof. exact strict_unlock_accepts_proof. Qed.

Theorem strict_lock_accepts : forall s cs,
  level0_cmds s = Some cs -> sigs_decodable cs = true ->
  sl_lock_refuses true s = negb (lock_counts_ok lib_sig_ok s).
Proof. exact strict_lock_accepts_proof. Qed.

Theorem strict_clean_accepted : forall t, strict_clean t -> sl_refuses true t = false.
Proof. exact strict_clean_accepted_proof. Qed.

(* strict=False: only the count check of a bare-multisig output script refuses *)
Theorem lenient_refusal : forall t,
  sl_refuses false t = existsb (fun o => negb (lock_counts_ok sig_any (to_script o))) (tx_outs t).
Proof. exact lenient_refusal_proof. Qed.

(* the byte-level round trip carried through the script layer, either mode *)
Theorem lib_roundtrip_script_layer : forall strict t,
  wf_tx t -> quirk_free t -> sl_refuses strict t = false ->
  exists t', lib_parse_sl strict (spec_ser t) = Some t' /\ lib_raw t' = Some (spec_ser t) /\ l_txid t' = spec_txid t.
Proof. exact lib_roundtrip_script_layer_proof. Qed.

(* --- non-vacuity: concrete transactions meeting every hypothesis --- *)
Definition p11 : bytes := repeat x11 32.
Definition pkh : bytes := [x76; xa9; x14] ++ repeat x22 20 ++ [x88; xac].
Definition t_legacy : tx := mk_tx 1 [mk_txin p11 0 [x51] 4294967295 []] [mk_txout 5000 pkh] 0 false.
Definition t_segwit : tx :=
  mk_tx 2 [mk_txin p11 1 [] 4294967293 [[]; repeat x07 64; [x51]]; mk_txin p11 2 [x00] 0 []]
        [mk_txout 1 pkh; mk_txout 0 []] 500000 true.

Example t_legacy_in_domain : wf_tx t_legacy /\ quirk_free t_legacy /\ quirk_free_api t_legacy.
Proof.
  split; [|split].
  - unfold wf_tx, t_legacy. cbn [tx_version tx_ins tx_outs tx_locktime tx_segwit].
    repeat split; try (cbn; lia); try discriminate; try reflexivity.
    + repeat constructor; cbn; lia.
    + repeat constructor; cbn; lia.
  - repeat split; try discriminate; repeat constructor.
  - repeat split; repeat constructor.
Qed.

Example t_segwit_in_domain : wf_tx t_segwit /\ quirk_free t_segwit.
Proof.
  split.
  - unfold wf_tx, t_segwit. cbn [tx_version tx_ins tx_outs tx_locktime tx_segwit].
    repeat split; try (cbn; lia); try discriminate; try reflexivity.
    + repeat constructor; cbn; lia.
    + repeat constructor; cbn; lia.
  - repeat split; try discriminate; repeat constructor.
Qed.

Example t_segwit_bytes :
  exists t' r, lib_parse_body (spec_ser t_segwit) = Some (t', r) /\ lib_raw t' = Some (spec_ser t_segwit) /\
               length (spec_ser t_segwit) = 208%nat.
Proof. eexists. eexists. split; [vm_compute; reflexivity|]. split; vm_compute; reflexivity. Qed.

(* a segwit coinbase whose witness reserved value reads as a truncated push (0x20 followed by 31 bytes): BIP141 leaves
   the value free, the transaction is in the domain of lib_roundtrip, and the witness is written back *)
Definition t_coinbase_rv : tx :=
  mk_tx 2 [mk_txin (repeat x00 32) 4294967295 [x03; xa0; x86; x01] 4294967295 [x20 :: repeat x01 31]]
        [mk_txout 625000000 pkh] 0 true.

Example t_coinbase_rv_in_domain : wf_tx t_coinbase_rv /\ quirk_free t_coinbase_rv.
Proof.
  split.
  - unfold wf_tx, t_coinbase_rv. cbn [tx_version tx_ins tx_outs tx_locktime tx_segwit].
    repeat split; try (cbn; lia); try discriminate; try reflexivity.
    + repeat constructor; cbn; lia.
    + repeat constructor; cbn; lia.
  - repeat split; try discriminate; repeat constructor.
Qed.

Example t_coinbase_rv_bytes :
  exists t' r, lib_parse_body (spec_ser t_coinbase_rv) = Some (t', r) /\ lib_raw t' = Some (spec_ser t_coinbase_rv) /\
               length (spec_ser t_coinbase_rv) = 125%nat.
Proof. eexists. eexists. split; [vm_compute; reflexivity|]. split; vm_compute; reflexivity. Qed.

(* --- every clause of the guards is needed: witnesses of the excluded classes --- *)
(* stated on lib_parse_body (lib_parse without the id, which raw() does not use), so that the witnesses
   are checked by computation without evaluating SHA-256 inside Coq *)
Definition rt_fails (t : tx) : Prop :=
  exists t' r, lib_parse_body (spec_ser t) = Some (t', r) /\ lib_raw t' <> Some (spec_ser t).

(* known finding single_zero_byte_item: an output script 00 is written as an empty script *)
Example zero_byte_out_script_refuted :
  rt_fails (mk_tx 1 [mk_txin p11 0 [] 4294967295 []] [mk_txout 5 [x00]] 0 false).
Proof. eexists. eexists. split; [vm_compute; reflexivity|]. vm_compute. discriminate. Qed.

(* known finding single_zero_byte_item: a witness item 00 is written as an empty item *)
Example zero_byte_witness_item_refuted :
  rt_fails (mk_tx 1 [mk_txin p11 0 [] 4294967295 [[x51]; [x00]]] [mk_txout 5 pkh] 0 true).
Proof. eexists. eexists. split; [vm_compute; reflexivity|]. vm_compute. discriminate. Qed.

(* known finding ascii_hex_bytes: a script that reads as hexadecimal text ("ab") is unhexlified *)
Example hexlike_script_refuted :
  rt_fails (mk_tx 1 [mk_txin p11 0 [] 4294967295 []] [mk_txout 5 [x61; x62]] 0 false) /\
  rt_fails (mk_tx 1 [mk_txin p11 0 [x20] 4294967295 []] [mk_txout 5 pkh] 0 false).
Proof. split; (eexists; eexists; split; [vm_compute; reflexivity|]; vm_compute; discriminate). Qed.

(* known finding ascii_hex_bytes: a previous-output hash whose 32 bytes are all ASCII digits *)
Example hexlike_prev_refuted :
  rt_fails (mk_tx 1 [mk_txin (repeat x30 32) 0 [] 4294967295 []] [mk_txout 5 pkh] 0 false).
Proof. eexists. eexists. split; [vm_compute; reflexivity|]. vm_compute. discriminate. Qed.

(* known finding scriptsig_and_witness: the stack of an input with an unrecognised scriptSig is dropped *)
Example scriptsig_and_witness_refuted :
  rt_fails (mk_tx 1 [mk_txin p11 0 [x51] 4294967295 [[x52]]] [mk_txout 5 pkh] 0 true).
Proof. eexists. eexists. split; [vm_compute; reflexivity|]. vm_compute. discriminate. Qed.

(* a transaction without outputs is refused by the library *)
Example no_outputs_refuted :
  lib_parse_body (spec_ser (mk_tx 1 [mk_txin p11 0 [] 4294967295 []] [] 0 false)) = None.
Proof. vm_compute. reflexivity. Qed.

(* API: version 0 is replaced by 1; version 1 becomes 2 with a relative-locktime sequence *)
Example api_version_refuted :
  lib_raw (api_build (mk_tx 0 [mk_txin p11 0 [] 4294967295 []] [mk_txout 5 pkh] 0 false))
    = Some (spec_ser (mk_tx 1 [mk_txin p11 0 [] 4294967295 []] [mk_txout 5 pkh] 0 false)) /\
  lib_raw (api_build (mk_tx 1 [mk_txin p11 0 [] 5 []] [mk_txout 5 pkh] 0 false))
    = Some (spec_ser (mk_tx 2 [mk_txin p11 0 [] 5 []] [mk_txout 5 pkh] 0 false)).
Proof. split; vm_compute; reflexivity. Qed.

(* API: a witness item 00 is written as an empty item *)
Example api_zero_byte_item_refuted :
  exists r t', lib_raw (api_build (mk_tx 1 [mk_txin p11 0 [] 4294967295 [[x00]]] [mk_txout 5 pkh] 0 true)) = Some r /\
    spec_parse r = Some (t', []) /\ tx_ins t' = [mk_txin p11 0 [] 4294967295 [[]]].
Proof. eexists. eexists. split; [vm_compute; reflexivity|]. split; vm_compute; reflexivity. Qed.

(* outside wf_tx (segwit flag = some witness present): the library writes marker/flag for a transaction
   whose witness_type is segwit although no input has a witness; the protocol parser refuses those bytes
   (known finding segwit_flag_without_witness) *)
Example segwit_flag_without_witness_refuted :
  exists r, lib_raw (api_build (mk_tx 1 [mk_txin p11 0 [] 4294967295 []] [mk_txout 5 pkh] 0 true)) = Some r /\
            spec_parse r = None.
Proof. eexists. split; [vm_compute; reflexivity|]. vm_compute. reflexivity. Qed.

(* target: exponent below 3 is a Python float in the library; the sign bit is taken as mantissa *)
Example target_small_exponent_refuted :
  lib_target (be_bytes 4 33587200) = None /\ spec_target 33587200 = 128.
Proof. split; vm_compute; reflexivity. Qed.

Example target_sign_bit_refuted :
  lib_target (be_bytes 4 75497472) = Some 2147483648 /\ spec_target 75497472 = 0.
Proof. split; vm_compute; reflexivity. Qed.

(* target: sign bit on a non-zero mantissa: SetCompact's number is negative, the library answers the 24-bit
   coefficient as a positive target (known finding target_outside_domain) *)
Example target_negative_refuted :
  lib_target (be_bytes 4 478216191) = Some (8454143 * 2 ^ 200) /\ spec_target_signed 478216191 = - (65535 * 2 ^ 200).
Proof. split; vm_compute; reflexivity. Qed.

(* --- sessions: a concrete block meeting block_ok, and one session evaluated on its bytes --- *)
Definition blk2 : block :=
  mk_block (mk_header 2 (repeat x01 32) (repeat x02 32) 1400000000 486604799 12345) [t_legacy; t_segwit; t_legacy].

Example blk2_ok : block_ok blk2 /\ dict_one_free [BDictAll; BTxs 1; BDictAll; BTxs 0; BSer].
Proof.
  destruct t_legacy_in_domain as (Wl & Ql & _). destruct t_segwit_in_domain as (Ws & Qs).
  split.
  - split; [|split; [|split; [|split]]].
    + unfold wf_header, blk2. cbn [b_hdr h_version h_prev h_merkle h_time h_bits h_nonce].
      repeat split; try reflexivity; lia.
    + repeat split; vm_compute; reflexivity.
    + unfold len_ok. cbn. lia.
    + unfold blk2. cbn [b_txs]. repeat (apply Forall_cons; [assumption|]). apply Forall_nil.
    + unfold blk2. cbn [b_txs]. repeat (apply Forall_cons; [assumption|]). apply Forall_nil.
  - repeat (apply Forall_cons; [exact I|]). apply Forall_nil.
Qed.

(* limit 1, dictionary reader, one more object, dictionary reader, the rest, serialize: the sequence a reader that
   rewinds instead of restoring the position gets wrong (evaluated on the cursor; the library side is equal to it by
   block_reader_session_exact) *)
Example blk2_session :
  exists s1 s2 s3,
    spec_brun blk2 (spec_open blk2 true 1) [BDictAll; BTxs 1; BDictAll; BTxs 0; BSer] =
    [Some (s1, ODicts [dict_of t_segwit; dict_of t_legacy]); Some (s2, OOk);
     Some (s2, ODicts [dict_of t_legacy]); Some (s3, OOk); Some (s3, OSer (Some (spec_block_ser blk2)))] /\
    ss_objs s1 = [t_legacy] /\ ss_objs s2 = [t_legacy; t_segwit] /\ ss_objs s3 = b_txs blk2.
Proof. do 3 eexists. split; [reflexivity|]. repeat split. Qed.

(* parse_transaction_dict consumes a transaction without adding an object: the block can no longer be serialized *)
Example dict_one_skips_refuted :
  exists s, spec_brun blk2 (spec_open blk2 false 0) [BDictOne; BTxs 2; BSer] =
            [Some (mk_sstate 1 [], ODict (Some (dict_of t_legacy))); Some (s, OOk); Some (s, OSer None)] /\
            ss_objs s = [t_segwit; t_legacy] /\ ss_pos s = 3%nat.
Proof. eexists. split; [reflexivity|]. split; reflexivity. Qed.

(* a read past the last transaction is outside the model *)
Example read_past_end_refuted :
  spec_brun blk2 (spec_open blk2 false 0) [BDictOne; BTxs 0] = [Some (mk_sstate 1 [], ODict (Some (dict_of t_legacy))); None].
Proof. reflexivity. Qed.

(* --- shaped push data --- *)
Definition sig71 : bytes :=
  [x30; x44; x02; x20] ++ repeat x11 32 ++ [x02; x20] ++ repeat x22 32 ++ [x01].
Definition key_off_curve : bytes := x02 :: repeat x00 31 ++ [x05].       (* x = 5: 132 is not a square mod p *)
Definition junk30 : bytes := x30 :: repeat x07 70.

(* P2PKH scriptSig <sig> <02 00..05>, P2WPKH witness [sig, same key], bare 1-of-2 multisig output with that key:
   every hypothesis of strict_clean_accepted holds, the key is not a curve point *)
Definition t_offcurve : tx :=
  mk_tx 2 [mk_txin p11 0 ([x47] ++ sig71 ++ [x21] ++ key_off_curve) 4294967295 [];
           mk_txin p11 1 [] 4294967293 [sig71; key_off_curve]]
        [mk_txout 7800 ([x51; x21] ++ [x02] ++ repeat x11 32 ++ [x21] ++ key_off_curve ++ [x52; xae]); mk_txout 1 pkh]
        0 true.

Example off_curve_key_accepted :
  sl_refuses true t_offcurve = false /\ sl_refuses false t_offcurve = false /\ lib_sig_ok sig71 = true.
Proof. split; [|split]; vm_compute; reflexivity. Qed.

(* known finding strict_refuses_signature_shaped: 71 bytes starting 0x30 behind OP_RETURN; strict refuses, strict=False
   does not; the transaction is well-formed and outside every byte-level class *)
Definition t_junk30 : tx :=
  mk_tx 1 [mk_txin p11 0 [] 4294967295 []] [mk_txout 0 ([x6a; x47] ++ junk30); mk_txout 5000 pkh] 0 false.

Example strict_refuses_signature_shaped_refuted :
  sl_refuses true t_junk30 = true /\ sl_refuses false t_junk30 = false /\ wf_tx t_junk30 /\ quirk_free t_junk30.
Proof.
  split; [vm_compute; reflexivity|]. split; [vm_compute; reflexivity|]. split.
  - unfold wf_tx, t_junk30. cbn [tx_version tx_ins tx_outs tx_locktime tx_segwit].
    repeat split; try (cbn; lia); try discriminate; try reflexivity.
    + repeat constructor; cbn; lia.
    + repeat constructor; cbn; lia.
  - repeat split; try discriminate; repeat constructor.
Qed.

(* known finding multisig_count_mismatch: OP_1 <key> OP_2 OP_CHECKMULTISIG as an output script is refused in both modes *)
Definition t_ms_mismatch : tx :=
  mk_tx 1 [mk_txin p11 0 [] 4294967295 []]
        [mk_txout 1000 ([x51; x21] ++ [x02] ++ repeat x11 32 ++ [x52; xae])] 0 false.

Example multisig_count_mismatch_refuted :
  sl_refuses false t_ms_mismatch = true /\ sl_refuses true t_ms_mismatch = true /\
  exists t' r, lib_parse_body (spec_ser t_ms_mismatch) = Some (t', r) /\ lib_raw t' = Some (spec_ser t_ms_mismatch).
Proof.
  split; [vm_compute; reflexivity|]. split; [vm_compute; reflexivity|].
  eexists. eexists. split; [vm_compute; reflexivity|]. vm_compute. reflexivity.
Qed.

Example target_genesis : lib_target (be_bytes 4 486604799) = Some (65535 * 2 ^ 208).
Proof. vm_compute. reflexivity. Qed.

Print Assumptions wire_source_is_model.
Print Assumptions spec_tx_codec.
Print Assumptions spec_ser_prefix_free.
Print Assumptions lib_roundtrip.
Print Assumptions lib_txid_exact.
Print Assumptions lib_raw_is_spec.
Print Assumptions api_bytes_read_back.
Print Assumptions spec_block_codec.
Print Assumptions header_codec.
Print Assumptions target_exact.
Print Assumptions target_signed_exact.
Print Assumptions block_reader_session_exact.
Print Assumptions block_reader_delivers_prefix.
Print Assumptions block_reader_serialize_complete.
Print Assumptions dict_reader_lists_rest.
Print Assumptions block_reader_selection.
Print Assumptions block_parse_is_open.
Print Assumptions strict_unlock_accepts.
Print Assumptions strict_lock_accepts.
Print Assumptions strict_clean_accepted.
Print Assumptions lenient_refusal.
Print Assumptions lib_roundtrip_script_layer.
