(* Properties/TieBlocks.v (C06 part of the second translated set) — the source-to-model tie of the second translated set.
   Each conjunct says: the definition that translator/gen_funcs2.py regenerated from /repo's CURRENT source on
   this run (coq/Gen/GenFuncs2.v; semantics of the Python primitives in Lib/Py.v and Lib/Py2.v) IS the
   hand-written model function the property theorems are stated about, for all inputs.
   None on the generated side = the Python code raises (or, for Block.target, computes a float). *)
From Coq Require Import ZArith List Bool.
From Coq.Strings Require Import Byte.
From Verif Require Import Lib.Bytes Lib.Py Lib.Py2 Gen.GenFuncs2.
From Verif Require Import Model.KeyPoint Model.BlockCodec Model.Base58 Model.Bech32.
From Verif Require Import Glue.KeyGlue Glue.BlockGlue Glue.Base58Glue Glue.Bech32EncGlue Glue.Bech32DecGlue.
Import ListNotations.
Open Scope Z_scope.

(* C06: blocks.Block.target (the argument is self.bits) *)
Theorem source_is_model_blocks :
  forall bits, gen_Block_target bits = lib_target bits.
Proof. exact gen_Block_target_eq. Qed.

Example tie_target_genesis : gen_Block_target [x1d; x00; xff; xff] = Some (65535 * 2 ^ 208).
Proof. vm_compute. reflexivity. Qed.
Example tie_target_float : gen_Block_target [x02; x00; xff; xff] = None.
Proof. vm_compute. reflexivity. Qed.

Print Assumptions source_is_model_blocks.
