(* Properties/TieEncoding.v (C11 part of the second translated set) — the source-to-model tie of the second translated set.
   Each conjunct says: the definition that translator/gen_funcs2.py regenerated from /repo's CURRENT source on
   this run (coq/Gen/GenFuncs2.v; semantics of the Python primitives in Lib/Py.v and Lib/Py2.v) IS the
   hand-written model function the property theorems are stated about, for all inputs.
   None on the generated side = the Python code raises (or, for Block.target, computes a float). *)
From Coq Require Import ZArith List Bool.
From Coq.Strings Require Import Byte.
From Verif Require Import Lib.Bytes Lib.Py Lib.Py2 Gen.GenFuncs2.
From Verif Require Import Model.KeyPoint Model.BlockCodec Model.Base58 Model.Bech32.
From Verif Require Import Glue.KeyGlue Glue.BlockGlue Glue.Base58Glue Glue.Bech32EncGlue Glue.Bech32DecGlue.
Import ListNotations.
Open Scope Z_scope.

(* C11: encoding.base58encode; statements 2..n-1 of encoding.pubkeyhash_to_addr_bech32 (everything except the
   argument normalisation and the final string assembly); encoding.addr_bech32_to_pubkeyhash from the HRP
   expansion up to (not including) `prefix = b''` — model_dec_core is, by lib_bech32_dec_decomposition, exactly
   what lib_bech32_dec does with the decoded symbols; the last two statements of encoding.addr_bech32_checksum.
   For the two decoder ranges the types of `hrp` (str) and `data` (list of ints) at the first statement of the
   range are declared in translator/gen_funcs2.py, not derived. *)
Theorem source_is_model_encoding :
  (forall bs, gen_base58encode bs = Some (map bz (b58_enc bs))) /\
  (forall pkh hrp wv sep cx,
     lib_bech32_enc pkh hrp wv cx =
     match gen_bech32_enc_core (map bz pkh) (map bz hrp) wv sep cx with
     | Some (data, cks) =>
         if hd 0 data <? 0 then None
         else Some (hrp ++ [x31] ++ map b32_char data ++ map b32_char cks)
     | None => None
     end) /\
  (forall hrp data,
     gen_bech32_dec_core (map bz hrp) data =
     match model_dec_core hrp data with
     | Some (_, prog) => Some (firstn (length data - 6) data, prog)
     | None => None
     end) /\
  (forall hrp data, gen_bech32_checksum_core (map bz hrp) data = Some (polymod (hrp_expand hrp ++ data))).
Proof.
  exact (conj gen_base58encode_eq (conj gen_bech32_enc_core_eq (conj gen_bech32_dec_core_eq gen_bech32_checksum_core_eq))).
Qed.

(* how the decoder range sits inside the model's decoder, and the checksum range inside lib_bech32_checksum *)
Theorem lib_bech32_dec_decomposition : forall s,
  lib_bech32_dec s =
  if negb (forallb printable s) || negb (case_ok s) then None
  else
    let b := map lower_byte s in
    match rfind x31 b with
    | None => None
    | Some pos =>
        if (pos <? 1)%nat || (length b <? pos + 7)%nat || (90 <? length b)%nat then None
        else match b32_indices (skipn (S pos) b) with
             | None => None
             | Some data => model_dec_core (firstn pos b) data
             end
    end.
Proof. exact lib_bech32_dec_unfold. Qed.

Theorem model_dec_core_version : forall hrp data wv prog,
  model_dec_core hrp data = Some (wv, prog) -> wv = nth 0 (firstn (length data - 6) data) 0.
Proof. exact Bech32DecGlue.model_dec_core_version. Qed.

Theorem lib_bech32_checksum_decomposition : forall s,
  lib_bech32_checksum s =
  let b := map lower_byte s in
  match rfind x31 b with
  | None => None
  | Some pos =>
      match b32_indices (skipn (S pos) b) with
      | None => None
      | Some data => gen_bech32_checksum_core (map bz (firstn pos b)) data
      end
  end.
Proof. exact lib_bech32_checksum_unfold. Qed.

Example tie_base58_hello : gen_base58encode [x00; x00; x68; x69] = Some [49; 49; 56; 119; 114].   (* '118wr' *)
Proof. vm_compute. reflexivity. Qed.
Example tie_bech32_core_short : gen_bech32_enc_core [81] [98; 99] 0 [49] 1 = None.                   (* IndexError *)
Proof. vm_compute. reflexivity. Qed.
(* bc1qw508d6qejxtdg4y5r3zarvary0c5xw7kv8f3t4 (BIP173): hrp "bc", 39 symbols -> version 0, 20-byte program *)
Example tie_bech32_dec_bip173 :
  match gen_bech32_dec_core [98; 99]
          [0; 14; 20; 15; 7; 13; 26; 0; 25; 18; 6; 11; 13; 8; 21; 4; 20; 3; 17; 2; 29; 3; 12; 29; 3; 4; 15; 24; 20; 6; 14; 30; 22;
           12; 7; 9; 17; 11; 21] with
  | Some (data, prog) => (length data =? 33)%nat && (length prog =? 20)%nat
  | None => false
  end = true.
Proof. vm_compute. reflexivity. Qed.

Print Assumptions source_is_model_encoding.
Print Assumptions lib_bech32_dec_decomposition.
Print Assumptions model_dec_core_version.
Print Assumptions lib_bech32_checksum_decomposition.
