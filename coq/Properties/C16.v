(* Properties/C16.v — public views and default exports never contain private key material.
   Only statements closed by [exact lemma], their non-vacuity examples, refutation witnesses for the
   defective variants, and Print Assumptions. *)
From Coq Require Import List String Bool ZArith.
From Verif Require Import Model.PublicView Gen.GenFields Proofs.PublicViewCore Proofs.PublicView Proofs.PublicViewWallet
  Proofs.PublicViewArgs Model.PublicViewPaths Proofs.PublicViewPaths Glue.FieldsGlue.
Import ListNotations.
Open Scope string_scope.

(* --- Key / HDKey: the object returned by public() after ANY history, and after ANY later history on it
       (deep copy, pickle round trip, exports, cached properties, child / public-master derivation) --- *)
Theorem public_view_clean : forall hd kd h1 h2 a,
  is_private key_class a = true -> blank (kf (public_view hd kd h1 h2) a) = true.
Proof. exact public_view_clean_thm. Qed.

Theorem public_view_no_secret : forall hd kd h1 h2 a, kf (public_view hd kd h1 h2) a <> VSec.
Proof. exact public_view_no_secret_thm. Qed.

(* the hand-written classification is sound on every reachable state: a secret can only sit in one of the
   five attributes classified CPrivate *)
Theorem classification_sound : forall hd kd h a,
  kf (run h (init hd kd)) a = VSec -> In a key_private_fields.
Proof. exact classification_sound_thm. Qed.

(* as_dict() / as_json() / repr / str of ANY key (private ones included) after ANY history *)
Theorem default_exports_clean : forall hd kd h o lab v,
  default_export o = true -> In (lab, v) (exports o (run h (init hd kd))) -> v <> VSec.
Proof. exact default_exports_clean_thm. Qed.

(* on a public view EVERY export is clean: info(), as_dict(include_private=True), wif_private(), encrypt() ... *)
Theorem public_view_exports_clean : forall hd kd h1 h2 o lab v,
  In (lab, v) (exports o (public_view hd kd h1 h2)) -> v <> VSec.
Proof. exact public_view_exports_clean_thm. Qed.

(* --- WalletKey --- *)
Theorem walletkey_public_view_clean : forall w h1 h2 a,
  (is_private wk_class a = true -> blank (kf (wk_public_view w h1 h2) a) = true) /\
  (is_handle wk_class a = false -> kf (wk_public_view w h1 h2) a <> VSec).
Proof. exact walletkey_public_view_clean_thm. Qed.

Theorem walletkey_default_exports_clean : forall w h o lab v,
  wdefault_export o = true -> In (lab, v) (wexports o (wrun h (wk_init w))) -> v <> VSec.
Proof. exact walletkey_default_exports_clean_thm. Qed.

(* --- Wallet: every configuration (main key a private master key, a PRIVATE or public account-level key, a single
       key; plain or as cosigner wallets of a multisig wallet), every history on the wallet and its cached key
       objects (key() parses, private exports, reopening ...): each WalletKey handed out by public_master() with
       default arguments is a stripped copy, and stays clean under every later history on it --- *)
Theorem wallet_public_view_clean : forall cfg h v h2 a,
  In v (wallet_public_master (wal_run h (wal_init cfg)) false) ->
  (is_private wk_class a = true -> blank (kf (wrun h2 v) a) = true) /\
  (is_handle wk_class a = false -> kf (wrun h2 v) a <> VSec).
Proof. exact wallet_public_view_clean_thm. Qed.

(* the same for the views taken as operations of the history: public_master() of the wallet or of one cosigner
   wallet, main_key.public() *)
Theorem wallet_returns_clean : forall cfg h o v h2 a,
  returns_a_view (lop_of o) = true ->
  In v (wal_returns o (wal_run h (wal_init cfg))) ->
  (is_private wk_class a = true -> blank (kf (wrun h2 v) a) = true) /\
  (is_handle wk_class a = false -> kf (wrun h2 v) a <> VSec).
Proof. exact wallet_returns_clean_thm. Qed.

(* wif() / wif(is_private=False), as_dict() / as_json(), info(), repr, public_master().key() of every wallet *)
Theorem wallet_default_exports_clean : forall cfg h o lab v,
  wal_default_export (lop_of o) = true ->
  In (lab, v) (wal_exports o (wal_run h (wal_init cfg))) -> v <> VSec.
Proof. exact wallet_default_exports_clean_thm. Qed.

(* --- view entry points called with ARBITRARY arguments ---------------------------------------------------------
   histories may contain HDKey.public_master(args) / public_master_multisig(args) / wif_public(args) / wif(args) with any
   argument values; a view is taken by public() or by public_master / public_master_multisig with arguments that do not
   ask for private output (as_private / include_private / is_private absent or definitely false) *)
Theorem xpublic_view_clean : forall hd kd h1 o h2 x,
  xview o = true -> snd (xstep o (xrun h1 (init hd kd))) = true ->
  is_private key_class x = true -> blank (kf (xpublic_view hd kd h1 o h2) x) = true.
Proof. exact xpublic_view_clean_thm. Qed.

Theorem xpublic_view_no_secret : forall hd kd h1 o h2 x,
  xview o = true -> snd (xstep o (xrun h1 (init hd kd))) = true ->
  kf (xpublic_view hd kd h1 o h2) x <> VSec.
Proof. exact xpublic_view_no_secret_thm. Qed.

(* HDKey.public_master for ALL values of account_id, purpose, multisig, witness_type (and as_private false / None / 0 /
   absent): every result the regenerated return paths allow, and everything a later history makes of it *)
Theorem public_master_args_clean : forall hd kd h a r h2 x,
  no_private_request a = true ->
  In r (hd_public_master a (xrun h (init hd kd))) -> kf (xrun h2 (fst r)) x <> VSec.
Proof. exact public_master_args_clean_thm. Qed.

(* HDKey.public_master_multisig for ALL argument values: its arguments reach public_master through the regenerated
   keyword -> argument mapping of the forwarding call *)
Theorem public_master_multisig_clean : forall hd kd h a r h2 x,
  no_private_request a = true ->
  In r (hd_public_master_multisig a (xrun h (init hd kd))) -> kf (xrun h2 (fst r)) x <> VSec.
Proof. exact public_master_multisig_clean_thm. Qed.

(* HDKey.wif_public(prefix, witness_type, multisig) of any key, ALL argument values *)
Theorem wif_public_args_clean : forall hd kd h a lab v,
  In (lab, v) (xexports (XWifPublic a) (xrun h (init hd kd))) -> v <> VSec.
Proof. exact wif_public_args_clean_thm. Qed.

(* HDKey.wif(is_private, child_index, prefix, witness_type, multisig) of any key when is_private is absent or false *)
Theorem hd_wif_args_clean : forall hd kd h a lab v,
  no_private_request a = true -> In (lab, v) (xexports (XHdWif a) (xrun h (init hd kd))) -> v <> VSec.
Proof. exact hd_wif_args_clean_thm. Qed.

Theorem xpublic_view_exports_clean : forall hd kd h1 o h2 o2 lab v,
  xview o = true -> snd (xstep o (xrun h1 (init hd kd))) = true ->
  In (lab, v) (xexports o2 (xpublic_view hd kd h1 o h2)) -> v <> VSec.
Proof. exact xpublic_view_exports_clean_thm. Qed.

Theorem xdefault_exports_clean : forall hd kd h o lab v,
  default_export o = true -> In (lab, v) (exports o (xrun h (init hd kd))) -> v <> VSec.
Proof. exact xdefault_exports_clean_thm. Qed.

(* Wallet.public_master(account_id, name, as_private, witness_type, network) for ALL argument values *)
Theorem wallet_public_master_args_clean : forall cfg h a v h2 x,
  no_private_request a = true ->
  In v (wallet_public_master_args (wal_run h (wal_init cfg)) a) ->
  (is_private wk_class x = true -> blank (kf (wrun h2 v) x) = true) /\
  (is_handle wk_class x = false -> kf (wrun h2 v) x <> VSec).
Proof. exact wallet_public_master_args_clean_thm. Qed.

(* --- database and wallet-level exports --- *)
Theorem private_columns_encrypted : forall c, In c private_write_columns -> In c dbkey_encrypted_columns.
Proof. exact private_columns_encrypted_thm. Qed.

Theorem private_cell_is_ciphertext : forall c v,
  In c private_write_columns -> truthy v = true -> stored true c v = Cipher.
Proof. exact private_cell_is_ciphertext_thm. Qed.

Theorem row_dicts_drop_private_columns : forall c cols,
  In c private_write_columns -> ~ In c (row_dict_columns false cols).
Proof. exact row_dicts_drop_private_columns_thm. Qed.

(* --- Glue: the model's tables ARE the regenerated ones --- *)
Theorem fields_glue :
  same_set GenFields.key_attrs PublicView.key_fields = true /\
  same_set (GenFields.key_attrs ++ GenFields.hdkey_attrs) PublicView.hd_fields = true /\
  same_set GenFields.walletkey_attrs PublicView.wk_fields = true.
Proof. exact (conj key_attrs_glue (conj hdkey_attrs_glue walletkey_attrs_glue)). Qed.

Theorem every_attribute_classified :
  forallb (fun a => match assoc key_class a with Some _ => true | None => false end)
          (GenFields.key_attrs ++ GenFields.hdkey_attrs) = true /\
  forallb (fun a => match assoc wk_class a with Some _ => true | None => false end) GenFields.walletkey_attrs = true.
Proof. exact (conj key_attrs_classified walletkey_attrs_classified). Qed.

Theorem public_methods_glue :
  (GenFields.key_public_copy = PublicView.key_public_copy /\ GenFields.key_public_assigns = PublicView.key_public_assigns) /\
  (GenFields.hdkey_public_copy = PublicView.hdkey_public_copy /\
   GenFields.hdkey_public_assigns = PublicView.hdkey_public_assigns) /\
  (mem GenFields.walletkey_public_copy PublicView.walletkey_public_copies = true /\
   GenFields.walletkey_public_assigns = PublicView.walletkey_public_assigns).
Proof. exact (conj key_public_glue (conj hdkey_public_glue walletkey_public_glue)). Qed.

Theorem exports_glue :
  GenFields.key_as_dict = PublicView.key_as_dict /\ GenFields.hdkey_as_dict = PublicView.hdkey_as_dict /\
  GenFields.walletkey_as_dict = PublicView.walletkey_as_dict.
Proof. exact as_dict_glue. Qed.

Theorem repr_args_glue :
  GenFields.key_repr_args = PublicView.key_repr_args /\ GenFields.key_str_args = PublicView.key_str_args /\
  GenFields.hdkey_repr_args = PublicView.hdkey_repr_args /\ GenFields.hdkey_str_args = [] /\
  GenFields.walletkey_repr_args = PublicView.walletkey_repr_args /\ GenFields.walletkey_str_args = [] /\
  GenFields.wallet_repr_args = PublicView.wallet_repr_args /\ GenFields.wallet_str_args = PublicView.wallet_str_args /\
  GenFields.dbkey_repr_args = PublicView.dbkey_repr_args.
Proof. exact repr_glue. Qed.

Theorem database_glue :
  GenFields.dbkey_writes = map fst PublicView.dbkey_writes /\
  map snd (filter (fun cc => String.eqb (fst cc) "DbKey") GenFields.db_encrypted_columns) = PublicView.dbkey_encrypted_columns /\
  GenFields.wallet_keys_private_fields = PublicView.wallet_keys_private_fields /\
  map snd GenFields.encrypted_bind_plain_conditions =
    [PublicView.encrypted_bind_plain_condition; PublicView.encrypted_bind_plain_condition].
Proof.
  exact (conj dbkey_writes_glue (conj (proj1 dbkey_encrypted_glue) (conj (proj2 wallet_as_dict_glue) bind_condition_glue))).
Qed.

(* (strengthened: also the keyword -> argument mapping of every forwarding call inside a view entry point, with
   positional arguments resolved to the callee's parameter names, and the bodies of the helpers that only forward) *)
Theorem wallet_methods_glue :
  (GenFields.wallet_public_master_paths = PublicView.wallet_public_master_paths /\
   GenFields.wallet_wif_paths = PublicView.wallet_wif_paths) /\
  (GenFields.hdkey_public_master_paths = PublicView.hdkey_public_master_paths /\
   GenFields.walletkey_key_paths = PublicView.walletkey_key_paths /\
   GenFields.as_json_paths = PublicView.as_json_paths) /\
  GenFields.export_signatures = PublicView.export_signatures /\
  (GenFields.call_forwards = PublicView.call_forwards /\
   GenFields.hdkey_public_master_multisig_paths = PublicView.hdkey_public_master_multisig_paths /\
   GenFields.hdkey_wif_public_paths = PublicView.hdkey_wif_public_paths /\
   GenFields.hdkey_wif_paths = PublicView.hdkey_wif_paths) /\
  (find_forward GenFields.call_forwards "HDKey.public_master_multisig" "self.public_master" = Some (snd (snd fw_pmm)) /\
   find_forward GenFields.call_forwards "HDKey.wif_public" "self.wif" = Some (snd (snd fw_wif_public))).
Proof.
  exact (conj wallet_paths_glue (conj method_bodies_glue (conj export_signatures_glue
           (conj call_forwards_glue interpreted_forwards_glue)))).
Qed.

(* every function whose NAME presents its result as public is an entry point the model knows (or is listed as not
   being a view of a private key); the parameter lists of all entry points are the frozen ones; every parameter name
   is reviewed (asks for private output / plain); no entry point asks for private output by default *)
Theorem view_entry_points_glue :
  (GenFields.public_named_defs = PublicView.public_named_defs /\
   forallb (fun q => mem q (map fst PublicView.entry_params) || mem q PublicView.public_named_other)
           GenFields.public_named_defs = true) /\
  (GenFields.entry_params = PublicView.entry_params /\ GenFields.entry_properties = PublicView.entry_properties) /\
  forallb (fun mp => forallb (fun pd => mem (fst pd) asks_private_params || mem (fst pd) reviewed_plain_params) (snd mp))
          GenFields.entry_params = true /\
  forallb (fun mp => forallb (fun pd => negb (mem (fst pd) asks_private_params) || is_tf (a_truth (default_val (snd pd))))
                             (snd mp)) GenFields.entry_params = true.
Proof.
  exact (conj public_named_defs_glue (conj entry_params_glue (conj private_param_names_reviewed defaults_do_not_ask_private))).
Qed.

(* --- non-vacuity: the histories the theorems talk about really move secrets around --- *)
Example wif_fills_the_cache_and_public_clears_it :
  let k := run [OWif] (init false (KPriv true)) in
  kf k "_wif" = VSec /\ kf k "secret" = VSec /\
  kf (fst (step OPublic k)) "_wif" = VNone /\ kf (fst (step OPublic k)) "secret" = VNone /\
  kf (fst (step OPublic k)) "public_hex" = VPub.
Proof. vm_compute. repeat split. Qed.

Example hdkey_info_fills_the_cache_and_public_clears_it :
  let k := run [OInfo; OAddress] (init true (KPriv true)) in
  kf k "_wif" = VSec /\ kf (fst (step OPublic k)) "_wif" = VNone /\ kf (fst (step OPublic k)) "key_hex" = VPub.
Proof. vm_compute. repeat split. Qed.

Example private_export_carries_the_secret :
  In ("secret", VSec) (exports (OAsDict true) (init false (KPriv true))) /\
  In ("wif", VSec) (exports OWif (init true (KPriv false))) /\
  In ("xkey", VSec) (exports (OHdWif true) (init true (KPriv true))) /\
  exports (OAsDict true) (public_view false (KPriv true) [OWif] []) = [].
Proof. vm_compute. repeat split; tauto. Qed.

Example walletkey_private_state_and_public :
  let k := wk_init (WkPrivate true) in
  kf k "wif" = VSec /\ kf k "key_private" = VSec /\
  kf (fst (wstep WPublic k)) "wif" = VPub /\ kf (fst (wstep WPublic k)) "key_private" = VNone /\
  kf (fst (wstep WPublic k)) "_hdkey_object" = VPub /\
  In ("wif", VSec) (wexports (WAsDict true) k).
Proof. vm_compute. repeat split; tauto. Qed.

(* a wallet created from a PRIVATE account-level key: its main key IS the key public_master() starts from;
   as_private=True hands it out as it is, the default strips a copy and leaves the cached main key alone *)
Example account_level_private_wallet :
  let w := wal_run [WTop LMainKey; WTop (LWif true)] (wal_init (CSimple WcAcctPriv)) in
  map (fun v => (kf v "key_private", kf v "wif", kf v "_hdkey_object")) (wallet_public_master w true) = [(VSec, VSec, VSec)] /\
  map (fun v => (kf v "key_private", kf v "wif", kf v "_hdkey_object")) (wallet_public_master w false) = [(VNone, VPub, VPub)] /\
  map (fun k => kf k "key_private") (wal_mains (wal_step (WTop (LPm false)) w)) = [VSec] /\
  In ("wif", VSec) (wal_exports (WTop (LWif true)) w) /\ wal_exports (WTop (LWif false)) w = [("wif", VPub)].
Proof. vm_compute. repeat split; tauto. Qed.

Example multisig_wallet_with_private_account_key :
  let w := wal_run [WCos 0 LMainKey; WTop LReopen; WTop LSrcKey] (wal_init (CMulti [WcAcctPriv; WcAcctPub; WcSinglePriv])) in
  map (fun v => kf v "key_private") (wallet_public_master w true) = [VSec; VNone; VSec] /\
  map (fun v => (kf v "key_private", kf v "wif")) (wallet_public_master w false) = [(VNone, VPub); (VNone, VPub); (VNone, VPub)] /\
  In ("wif", VSec) (wal_exports (WTop (LWif true)) w) /\
  In ("private", VSec) (wal_exports (WCos 0 (LAsDict true)) w).
Proof. vm_compute. repeat split; tauto. Qed.

Example plaintext_without_key : stored false "private" VSec = Plain VSec /\ stored true "public" VPub = Plain VPub.
Proof. vm_compute. split; reflexivity. Qed.

(* --- refutation witnesses for the source as it was BEFORE the fixes (fixes/C16-1, C16-2) and for the
       recorded known finding --- *)
(* public() without the two cache-clearing lines: [Wif; Public] keeps the private WIF *)
Example public_without_cache_clearing_refuted :
  let unfixed := [ ("is_private", ("", "False")); ("private_byte", ("", "None")); ("private_hex", ("", "None"));
                   ("secret", ("", "None")) ] in
  kf (fst (exec (prog_of_assigns unfixed) (run [OWif] (init false (KPriv true))))) "_wif" = VSec.
Proof. vm_compute. reflexivity. Qed.

(* repr(WalletKey) interpolating self.wif directly *)
Example walletkey_repr_of_self_wif_refuted :
  In ("self.wif", VSec) (map (fun le => (fst le, eval (snd le) (wk_init (WkPrivate false)))) (args_exprs ["self.wif"])).
Proof. vm_compute. tauto. Qed.

(* known finding dbkey_repr_private_wif: DbKey.__repr__ interpolates self.wif of the ORM row *)
Example dbkey_repr_refuted :
  In ("self.wif", VSec) (map (fun le => (fst le, eval (snd le) (wk_init (WkPrivate false)))) (args_exprs dbkey_repr_args)).
Proof. vm_compute. tauto. Qed.

(* Wallet.public_master() with a fast path that returns self.main_key when the main key already sits at the
   account depth (a test and a body the model does not know, read fail-closed): the "public" master key of a
   wallet created from a private account-level key is the private WalletKey *)
Example public_master_fast_path_refuted :
  let tbl := [ ([(g_single, true)], pm_body_main);
               ([(g_single, false); (g_nocos, true);
                 ("self.main_key and 0 < self.main_key.depth == self.depth_public_master", true)], ["return self.main_key"]);
               ([(g_single, false); (g_nocos, true);
                 ("self.main_key and 0 < self.main_key.depth == self.depth_public_master", false)], pm_body_path);
               ([(g_single, false); (g_nocos, false)], pm_body_cos) ] in
  exists v, In v (pm_results tbl (wal_init (CSimple WcAcctPriv)) false) /\ kf v "key_private" = VSec /\ kf v "wif" = VSec.
Proof. eexists. split; [left; reflexivity | vm_compute; split; reflexivity]. Qed.

(* Wallet.wif() returning the main key's wif without looking at is_private *)
Example wallet_wif_of_main_key_refuted :
  In ("wif", VSec) (wif_exports wallet_public_master_paths [([(g_plain, true)], wif_body_main)]
                                (wal_init (CSimple WcMaster)) false).
Proof. vm_compute. tauto. Qed.

(* --- arguments: non-vacuity and the refutation witnesses of mis-forwarded keywords --- *)
(* the as_private argument really decides: True hands out the private account key, segwit / account 1 do not *)
Example public_master_arguments_decide :
  map (fun r => kf (fst r) "secret") (hd_public_master [("as_private", ABool true)] (init true (KPriv true))) = [VSec] /\
  map (fun r => kf (fst r) "secret")
      (hd_public_master [("witness_type", AStr "segwit"); ("account_id", AInt 1%Z); ("multisig", ABool true); ("purpose", AInt 48%Z)]
                        (init true (KPriv true))) = [VNone] /\
  map (fun r => kf (fst r) "secret")
      (hd_public_master_multisig [("witness_type", AStr "p2sh-segwit"); ("account_id", AInt 7%Z)] (init true (KPriv true))) = [VNone] /\
  map (fun r => kf (fst r) "secret")
      (hd_public_master_multisig [("as_private", AInt 1%Z)] (init true (KPriv true))) = [VSec] /\
  no_private_request [("witness_type", AStr "segwit"); ("as_private", ANone)] = true /\
  no_private_request [("as_private", AStr "segwit")] = false /\ no_private_request [("is_private", ATop)] = false.
Proof. vm_compute. repeat split. Qed.

(* the hypotheses of the view theorems are satisfiable: the call returns, and it is a view *)
Example public_master_multisig_view_is_taken :
  let o := XPmm [("witness_type", AStr "segwit"); ("account_id", AInt 1%Z); ("as_private", ANone)] in
  let k := xrun [XOp OWif; XOp (OHdWif true); XHdWif [("is_private", ABool true)]] (init true (KPriv true)) in
  xview o = true /\ snd (xstep o k) = true /\ kf k "_wif" = VSec /\ kf (fst (xstep o k)) "_wif" = VNone /\
  snd (xstep o (fst (xstep o k))) = false.
Proof. vm_compute. repeat split. Qed.

Example hd_wif_arguments_decide :
  In ("xkey", VSec) (xexports (XHdWif [("is_private", ABool true)]) (init true (KPriv true))) /\
  xexports (XHdWif [("witness_type", AStr "segwit"); ("multisig", ABool true)]) (init true (KPriv true)) = [("xkey", VPub)] /\
  xexports (XWifPublic [("witness_type", AStr "segwit"); ("multisig", ABool true)]) (init true (KPriv true)) = [("xkey", VPub)].
Proof. vm_compute. repeat split; tauto. Qed.

(* public_master_multisig handing witness_type to the as_private parameter of public_master (a keyword copy slip):
   whenever a witness type is given, the "public" cosigner account key is the private one; without it nothing shows *)
Example public_master_multisig_misforward_refuted :
  let fw := [ ("HDKey.public_master_multisig",
               ("self.public_master", [("account_id", "account_id"); ("purpose", "purpose"); ("multisig", "True");
                                       ("witness_type", "witness_type"); ("as_private", "witness_type")])) ] in
  let call a := hpmm_results entry_params fw hdkey_public_master_multisig_paths hdkey_public_master_paths
                             (call_env entry_params "HDKey.public_master_multisig" a) (init true (KPriv true)) in
  no_private_request [("witness_type", AStr "segwit")] = true /\
  map (fun r => (kf (fst r) "secret", kf (fst r) "private_byte")) (call [("witness_type", AStr "segwit")]) = [(VSec, VSec)] /\
  map (fun r => kf (fst r) "secret") (call [("witness_type", AStr "legacy"); ("account_id", AInt 1%Z)]) = [VSec] /\
  map (fun r => kf (fst r) "secret") (call []) = [VNone] /\
  map (fun r => kf (fst r) "secret") (call [("witness_type", ANone)]) = [VNone].
Proof. vm_compute. repeat split. Qed.

(* a forwarding call the table does not contain, or an argument expression the model cannot read, is a request for
   the private key (fail closed) *)
Example public_master_multisig_unknown_forward_refuted :
  let a := [("witness_type", AStr "segwit")] in
  map (fun r => kf (fst r) "secret")
      (hpmm_results entry_params [] hdkey_public_master_multisig_paths hdkey_public_master_paths
                    (call_env entry_params "HDKey.public_master_multisig" a) (init true (KPriv true))) = [VSec; VNone] /\
  map (fun r => kf (fst r) "secret")
      (hpmm_results entry_params [ ("HDKey.public_master_multisig",
                                    ("self.public_master", [("as_private", "bool(witness_type)")])) ]
                    hdkey_public_master_multisig_paths hdkey_public_master_paths
                    (call_env entry_params "HDKey.public_master_multisig" a) (init true (KPriv true))) = [VSec; VNone].
Proof. vm_compute. repeat split. Qed.

(* wif_public forwarding one of its own arguments as is_private *)
Example wif_public_misforward_refuted :
  let fw := [ ("HDKey.wif_public",
               ("self.wif", [("is_private", "multisig"); ("prefix", "prefix"); ("witness_type", "witness_type"); ("multisig", "multisig")])) ] in
  In ("xkey", VSec)
     (map (fun le => (fst le, eval (snd le) (init true (KPriv true))))
          (wif_public_exprs entry_params fw hdkey_wif_public_paths [("multisig", ABool true)] (init true (KPriv true)))).
Proof. vm_compute. tauto. Qed.

(* Wallet.public_master(as_private=...) with arguments: only the truth value of as_private matters *)
Example wallet_public_master_arguments_decide :
  let w := wal_init (CSimple WcMaster) in
  map (fun v => kf v "key_private") (wallet_public_master_args w [("as_private", ABool true); ("account_id", AInt 1%Z)]) = [VSec] /\
  map (fun v => kf v "key_private")
      (wallet_public_master_args w [("account_id", AInt 1%Z); ("witness_type", AStr "legacy"); ("network", AStr "litecoin")]) = [VNone].
Proof. vm_compute. split; reflexivity. Qed.

(* --- public views requested by a PATH: HDKey.subkey_for_path with a path that starts with 'M' (any number of levels,
       also none: the bare 'M'), and every path asked of a key without private part, return an object without
       private part.  [sfp] is the reading of the frozen body (Model/PublicViewPaths.v). --- *)
Theorem public_path_view_clean : forall priv levels, sfp priv StartPublic levels = false.
Proof. exact sfp_public_path_clean. Qed.
Theorem public_key_paths_clean : forall s levels, sfp false s levels = false.
Proof. exact sfp_public_key_clean. Qed.
Example private_path_is_private : forall levels, sfp true StartPrivate levels = true /\ sfp true StartRelative levels = true.
Proof. exact sfp_private_path_private. Qed.
(* the variant that returns early when there is nothing to derive (bare 'M' hands out the key object itself) is refuted *)
Example bare_public_path_early_return_refuted :
  let sfp_early priv s levels := if Nat.eqb levels 0 then priv else sfp priv s levels in
  sfp_early true StartPublic 0 = true /\ sfp true StartPublic 0 = false.
Proof. vm_compute. split; reflexivity. Qed.
Theorem subkey_for_path_source_glue :
  GenFields.hdkey_subkey_for_path_paths = PublicViewPaths.hdkey_subkey_for_path_paths /\
  GenFields.path_entry_params = PublicViewPaths.path_entry_params.
Proof. exact subkey_for_path_glue. Qed.

(* --- database rows as text: default exports hand row dictionaries - and, once a relationship has been loaded, the
       related row objects - to str() / json default=str.  The presentation methods of EVERY class of db.py are the
       frozen ones; the only class whose text shows a private-bearing column is DbKey (recorded finding
       dbkey_repr_private_wif) and no class prints a related row. --- *)
Theorem database_rows_text_glue : GenFields.db_presentation_methods = PublicViewPaths.db_presentation_methods.
Proof. exact db_presentation_glue. Qed.
Theorem database_rows_text_reviewed :
  presenting_classes PublicViewPaths.db_presentation_methods = map fst row_prints.
Proof. exact presenting_classes_read. Qed.
Theorem database_rows_print_no_rows : rows_printing_rows = [].
Proof. exact no_row_prints_rows. Qed.
(* recorded finding dbkey_in_row_dict: the row dictionary of a transaction row whose `key` relationship has been loaded
   holds a DbKey object; the dictionaries of key rows hold no DbKey object whatever has been loaded *)
Example dbkey_in_row_dict_refuted :
  dict_text_shows_private ["DbTransaction"; "DbKey"] = true /\
  dict_text_shows_private ["DbKeyMultisigChildren"; "DbTransactionInput"; "DbTransactionOutput"; "DbNetwork"] = false.
Proof. vm_compute. split; reflexivity. Qed.
Theorem database_rows_printing_private : rows_printing_private = ["DbKey"].
Proof. exact rows_printing_private_is_dbkey. Qed.

Print Assumptions public_view_clean.
Print Assumptions public_view_no_secret.
Print Assumptions classification_sound.
Print Assumptions default_exports_clean.
Print Assumptions public_view_exports_clean.
Print Assumptions walletkey_public_view_clean.
Print Assumptions walletkey_default_exports_clean.
Print Assumptions private_columns_encrypted.
Print Assumptions private_cell_is_ciphertext.
Print Assumptions row_dicts_drop_private_columns.
Print Assumptions fields_glue.
Print Assumptions every_attribute_classified.
Print Assumptions public_methods_glue.
Print Assumptions exports_glue.
Print Assumptions repr_args_glue.
Print Assumptions database_glue.
Print Assumptions wallet_public_view_clean.
Print Assumptions wallet_returns_clean.
Print Assumptions wallet_default_exports_clean.
Print Assumptions wallet_methods_glue.
Print Assumptions xpublic_view_clean.
Print Assumptions xpublic_view_no_secret.
Print Assumptions public_master_args_clean.
Print Assumptions public_master_multisig_clean.
Print Assumptions wif_public_args_clean.
Print Assumptions hd_wif_args_clean.
Print Assumptions xpublic_view_exports_clean.
Print Assumptions xdefault_exports_clean.
Print Assumptions wallet_public_master_args_clean.
Print Assumptions view_entry_points_glue.
Print Assumptions public_path_view_clean.
Print Assumptions public_key_paths_clean.
Print Assumptions subkey_for_path_source_glue.
Print Assumptions database_rows_text_glue.
Print Assumptions database_rows_text_reviewed.
Print Assumptions database_rows_print_no_rows.
Print Assumptions database_rows_printing_private.
